package main

// C18 — fees charged exactly; every accepted parameter value is usable by its consumers.

import (
	"fmt"
	"go/ast"
	"go/token"
	"go/types"
	"math/big"
	"os"
	"regexp"
	"sort"
	"strings"

	"golang.org/x/tools/go/ssa"
)

func init() { register("C18", checkC18) }

// stateValidated explores a gogo state type's Validate() and returns the facts / atom classes common to all accepting paths.
type stateVal struct {
	Facts map[string]bool   // facts common to all accepting paths
	Paths []map[string]bool // fact set of each accepting path
	Attrs map[string]AtomAttr
	OK    bool
}

var stateValCache = map[string]*stateVal{}

func exploreStateValidate(m *Model, x *Explorer, pkgSuffix, typeName string) *stateVal {
	ck := fmt.Sprintf("%p|%s|%s", m, pkgSuffix, typeName)
	if v, ok := stateValCache[ck]; ok {
		return v
	}
	out := &stateVal{Facts: map[string]bool{}, Attrs: map[string]AtomAttr{}}
	stateValCache[ck] = out
	pk := m.P.Pkg(pkgSuffix)
	if pk == nil {
		return out
	}
	tn, ok := pk.Types.Scope().Lookup(typeName).(*types.TypeName)
	if !ok {
		return out
	}
	nt, ok := tn.Type().(*types.Named)
	if !ok {
		return out
	}
	fn := methodOf(m, nt, "Validate")
	if fn == nil {
		return out
	}
	var recv Val = &Sym{N: "req", T: nt}
	if _, isPtr := fn.Params[0].Type().(*types.Pointer); isPtr {
		recv = &SymPtr{Base: "req", T: nt}
	}
	first := true
	x.validatorMode = true
	outs := x.Explore(fn, []Val{recv})
	x.validatorMode = false
	for _, o := range outs {
		if o.Kind != exitReturn || !o.Commit {
			continue
		}
		cur := map[string]bool{}
		for _, f := range o.St.facts {
			cur[f] = true
		}
		out.Paths = append(out.Paths, cur)
		if first {
			for f := range cur {
				out.Facts[f] = true
			}
			for a, at := range o.St.atomAttr {
				out.Attrs[a] = *at
			}
			first = false
			continue
		}
		for f := range out.Facts {
			if !cur[f] {
				delete(out.Facts, f)
			}
		}
		for a, at := range out.Attrs {
			o2 := o.St.atomAttr[a]
			if o2 == nil {
				delete(out.Attrs, a)
				continue
			}
			at.NonNeg = at.NonNeg && o2.NonNeg
			at.Pos = at.Pos && o2.Pos
			out.Attrs[a] = at
		}
	}
	out.OK = !first
	return out
}

var paramAtom = regexp.MustCompile(`^parse\((FeeParams)#\d+\.([A-Za-z]+)\)$`)

func checkC18(c *Ctx, e *Env) {
	c.Explanation = "CHARGE (E1) on the paths of CreateClass / basket Create where the stored fee is set and positive, the bank effects are exactly SendCoinsFromAccountToModule(signer → module, {required}) and BurnCoins(module, same value) with required converted from the STATE fee (not the offered one), preceded by offered.Denom == required.Denom, not(offered < required), not(balance(signer) < required); on the paths where the fee is nil or zero there is no bank effect; " +
		"PARAM (E4 consumer agreement, validators explored with the same explorer) for every decimal parameter string parsed by a consumer, the class the consumer's constructor demands (positive / non-negative) is implied by what the state validator used by governance and genesis accepts; every coin built from a parameter and handed to the bank in a Coins literal is proven positive on the path (the bank rejects non-positive coins); every sdk.NewCoin amount derived from state or parameters is proven non-negative on the path (NewCoin panics otherwise) — for the seller payment subtotal − subtotal×rate through the validator bound rate ≤ 1; CreditType.Precision accepted by the validator is a key of the exponent-prefix map and fits int32; " +
		"GENESIS the genesis validator has a case for every parameter table (shared with C09.EXH)."
	c.NotDecided = []string{"the universal liveness claim ('every operation whose preconditions hold succeeds') beyond these parameter/consumer pairs"}
	c.Assumptions = strings.Split(e1Assume+"; A5; A7", "; ")
	m, r := e1Handlers(c, e)
	p := m.P
	noteUndecided(c, m, r, "C18.E1")
	// ---------------- CHARGE
	for hk, feeTable := range map[string]string{"base.CreateClass": "ClassFee", "basket.Create": "BasketFee"} {
		h := r.byKey[hk]
		if h == nil {
			c.Undecide("C18.CHARGE", hk, "-", "handler not found")
			continue
		}
		signer := signerAddr(h)
		bad := ""
		nCharged, nFree := 0, 0
		for _, o := range h.Outs {
			if o.Kind != exitReturn {
				continue
			}
			st := o.St
			var fee *Obj
			for _, ob := range st.mem {
				if ob.Table != nil && ob.Table.Name == feeTable && ob.Kind == "row" {
					fee = ob
				}
			}
			if fee == nil {
				bad = feeTable + " is not read on a successful path"
				continue
			}
			var banks []string
			var firstBank *Event
			for i := range st.events {
				ev := &st.events[i]
				if ev.Kind == "bank" && isBankMutator(ev.Method) && ev.Method != "SetDenomMetaData" {
					if firstBank == nil {
						firstBank = ev
					}
					var as []string
					for _, a := range ev.Args[1:] {
						as = append(as, coinsString(h, st, a))
					}
					banks = append(banks, ev.Method+"("+strings.Join(as, ", ")+")")
				}
			}
			req := "int0(" + fee.Name + ".Fee.Amount)"
			isNil := knownTrue(st, "Nil("+fee.Name+".Fee)")
			pos, posKnown := st.known("Gt0(" + req + ")")
			if isNil || (posKnown && !pos) {
				nFree++
				if len(banks) > 0 {
					bad = "no fee is due (unset or zero) but coins move: " + strings.Join(banks, " ; ")
				}
				continue
			}
			nCharged++
			coins := "coins[coin(" + st.find(fee.Name+".Fee.Denom") + ",int(" + req + "))]"
			var module string
			if firstBank != nil {
				module = st.canon(firstBank.Args[2])
			}
			want := []string{"SendCoinsFromAccountToModule(" + signer + ", " + module + ", " + coins + ")", "BurnCoins(" + module + ", " + coins + ")"}
			if strings.Join(banks, " ; ") != strings.Join(want, " ; ") {
				bad = "bank effects are [" + strings.Join(banks, " ; ") + "], required [" + strings.Join(want, " ; ") + "]"
				continue
			}
			if !posKnown {
				bad = "the stored fee is charged without testing that it is positive (a zero fee makes the bank reject the coins)"
			}
			// guards
			okDenom, okGTE, okBal := false, false, false
			for i, f := range st.facts {
				if i >= firstBank.Facts {
					break
				}
				if strings.HasPrefix(f, "+StrEq(") && strings.Contains(f, fee.Name+".Fee.Denom") && strings.Contains(f, "req.Fee") {
					okDenom = true
				}
				// the OFFERED amount covers the fee: not (offer − required < 0). The balance fact below also
				// mentions req.Fee (through the denomination) and must not pass for this one — the automatic
				// mutation sweep of round 7 deleted the IsGTE guard and the rule stayed quiet
				if strings.HasPrefix(f, "-Lt0(") && strings.Contains(f, "-"+req) && offeredAmount.MatchString(f) && !strings.Contains(f, "bankbal(") {
					okGTE = true
				}
				if strings.HasPrefix(f, "-Lt0(bankbal("+signer+",") && strings.Contains(f, "-"+req) {
					okBal = true
				}
			}
			if !okDenom || !okGTE || !okBal {
				bad = fmt.Sprintf("charge not preceded by all of: offered denom == required denom (%v), not(offered < required) (%v), not(balance < required) (%v)", okDenom, okGTE, okBal)
			}
		}
		if bad != "" {
			c.Violate("C18.CHARGE", hk, p.Pos(h.Fn.Pos()), bad, nil)
		} else {
			c.Check(nCharged > 0 && nFree > 0, "C18.CHARGE", hk, p.Pos(h.Fn.Pos()), fmt.Sprintf("%d charged paths send+burn exactly the state fee from the signer behind the three guards; %d free paths (fee nil or zero) move no coins", nCharged, nFree))
		}
	}
	// ---------------- SET: the governance setters store exactly what the (validated) request says
	for hk, tbl := range map[string]string{"base.UpdateClassFee": "ClassFee", "basket.UpdateBasketFee": "BasketFee"} {
		h := r.byKey[hk]
		if h == nil {
			c.Undecide("C18.SET", hk, "-", "handler not found")
			continue
		}
		bad := ""
		n := 0
		for _, o := range h.Outs {
			st := o.St
			for i := range st.events {
				ev := &st.events[i]
				if ev.Kind != "write" || ev.Table.Name != tbl || ev.Row == nil {
					continue
				}
				n++
				fee := ev.Row["Fee"]
				amt := "intfield(*req.Fee.Amount)"
				unset := knownTrue(st, "Nil(req.Fee)") || knownTrue(st, "Eq0("+amt+")") || knownFalse(st, "Gt0("+amt+")")
				if unset {
					if !isK(fee, "nil") {
						bad = "the request removes the fee (nil or zero) but the stored fee becomes " + st.canon(fee) + " instead of nil"
					}
					continue
				}
				pp, ok := fee.(*Ptr)
				if !ok {
					bad = "stored fee is " + st.canon(fee) + ", not the coin of the request"
					continue
				}
				fo := st.mem[pp.O]
				d, a := st.canon(fo.F[".Denom"]), vstr(fo.F[".Amount"])
				if !(d == "*req.Fee.Denom" || d == "req.Fee.Denom") || a != "str("+amt+")" {
					bad = fmt.Sprintf("stored fee is {%s, %s}, not the request's {req.Fee.Denom, req.Fee.Amount}", d, a)
				}
			}
		}
		c.Check(bad == "" && n > 0, "C18.SET", hk, p.Pos(h.Fn.Pos()), fmt.Sprintf("%d saves store nil for an absent/zero fee and the request's coin otherwise %s", n, bad))
	}
	if h := r.byKey["marketplace.GovSetFeeParams"]; h != nil {
		bad := ""
		n := 0
		for _, o := range h.Outs {
			st := o.St
			for i := range st.events {
				ev := &st.events[i]
				if ev.Kind != "write" || ev.Table.Name != "FeeParams" || ev.Row == nil {
					continue
				}
				n++
				for _, f := range []string{"BuyerPercentageFee", "SellerPercentageFee"} {
					if got := st.canon(ev.Row[f]); got != "conv(req.Fees)."+f && got != "req.Fees."+f {
						bad = "stored " + f + " is " + got + ", not the request's"
					}
				}
			}
		}
		c.Check(bad == "" && n > 0, "C18.SET", "marketplace.GovSetFeeParams", p.Pos(h.Fn.Pos()), fmt.Sprintf("%d saves store the request's fee rates %s", n, bad))
	}
	// ---------------- PARAM: exact-or-error operations on governance parameters with unbounded decimals
	exactBad := map[string]string{}
	nExact := 0
	for _, h := range r.Handlers {
		for _, o := range h.Outs {
			st := o.St
			for i := range st.events {
				ev := &st.events[i]
				if ev.Kind != "call" || !(ev.Method == "Dec.MulExact" || ev.Method == "Dec.QuoExact" || ev.Method == "Dec.Mul" || ev.Method == "Dec.Quo") {
					continue
				}
				touchesParam := false
				for _, a := range ev.Args[:2] {
					for at := range a.(*DecV).L.T {
						if paramAtom.MatchString(at) || strings.Contains(at, "parse(FeeParams#") {
							touchesParam = true
						}
					}
				}
				if !touchesParam {
					continue
				}
				nExact++
				if strings.HasSuffix(ev.Method, "Exact") {
					exactBad[funcKey(ev.Fn)+"#"+ev.Method] = p.Pos(ev.Pos.Pos())
				}
			}
		}
	}
	for k, pos := range exactBad {
		c.Violate("C18.PARAM", "exact-on-param:"+k, pos, "an exact-or-error operation is applied to a governance fee rate: rates with many decimals are accepted by the validators, so the operation fails with 'unexpected rounding' and disables purchases", nil)
	}
	if len(exactBad) == 0 {
		c.Check(nExact > 0, "C18.PARAM", "exact-on-param", "-", fmt.Sprintf("%d arithmetic visits on fee-rate parameters use the rounding (never failing) operations", nExact))
	}
	// ---------------- PARAM: parse classes
	x := r.X
	feeVal := exploreStateValidate(m, x, "x/ecocredit/v3/marketplace/types/v1", "FeeParams")
	if !feeVal.OK {
		c.Undecide("C18.PARAM", "FeeParams.Validate", "-", "state validator has no accepting path / not found")
	}
	type pagg struct {
		pos string
		bad string
		n   int
	}
	parseSites := map[string]*pagg{}
	for _, h := range r.Handlers {
		for _, o := range h.Outs {
			st := o.St
			for a, at := range st.atomAttr {
				mm := paramAtom.FindStringSubmatch(a)
				if mm == nil {
					continue
				}
				k := mm[1] + "." + mm[2]
				ag := parseSites[k]
				if ag == nil {
					ag = &pagg{pos: p.Pos(h.Fn.Pos())}
					parseSites[k] = ag
				}
				ag.n++
				va := feeVal.Attrs["parse(req."+mm[2]+")"]
				if at.Pos && !va.Pos && ag.bad == "" {
					ag.bad = fmt.Sprintf("a consumer (in %s) parses %s with a positive-only constructor but the state validator accepts any non-negative value (0 makes every purchase fail)", h.Key, k)
				}
				if at.NonNeg && !va.NonNeg && ag.bad == "" {
					ag.bad = fmt.Sprintf("a consumer (in %s) requires %s ≥ 0 but the state validator does not", h.Key, k)
				}
			}
		}
	}
	var pks []string
	for k := range parseSites {
		pks = append(pks, k)
	}
	sort.Strings(pks)
	for _, k := range pks {
		a := parseSites[k]
		if a.bad != "" {
			c.Violate("C18.PARAM", "parse:"+k, a.pos, a.bad, nil)
		} else {
			c.Hold("C18.PARAM", "parse:"+k, a.pos, fmt.Sprintf("consumer parse class implied by the validator on all %d path visits", a.n), nil)
		}
	}
	importObligations(c, e, checkC09, "C09", "C18.SETVALID", "governance setters#validated-like-genesis", "what a governance message can store in a parameter table satisfies the table's state validator — the bounds consumers rely on (a seller fee rate of at most 1, …) are enforced on the setter path as they are at genesis", func(o *Oblig) bool {
		if o.Rule != "C09.AGREE" {
			return false
		}
		i := strings.Index(o.Construct, " ← ")
		if i < 0 {
			return false
		}
		hk := o.Construct[i+len(" ← "):]
		if j := strings.Index(hk, "#"); j > 0 {
			hk = hk[:j]
		}
		h := r.byKey[hk]
		return h != nil && h.EP.SignerField == "Authority"
	})
	importObligations(c, e, checkC07, "C07", "C18.MAXFEE", "fees#charged-as-configured", "with the configured fee rates a purchase succeeds exactly when the stated max fee covers the buyer fee that is actually charged (rounded down to whole units)", func(o *Oblig) bool { return o.Rule == "C07.GUARDS" && strings.Contains(o.Construct, "max-fee") })
	importObligations(c, e, checkC03, "C03", "C18.ASKDENOM", "allowed denominations#usable-for-their-own-market", "a denomination governance has allowed can be sold and bought in only if Sell / UpdateSellOrders file the order under a market of exactly that denomination", func(o *Oblig) bool { return o.Rule == "C03.ASKDENOM" })
	ruleNoUnconditionalRejection(c, m, r, map[string]*stateVal{"FeeParams": feeVal})
	c.Min("parameter parse sites", 2, len(pks))
	// ---------------- PARAM: NewCoin amounts and bank coins
	bound := feeVal.Attrs["parse(req.SellerPercentageFee)"].NonNeg
	okB := false
	for f := range feeVal.Facts {
		if f == "-Gt0(parse(req.SellerPercentageFee) -1)" || f == "-Gt0(-1 +parse(req.SellerPercentageFee))" {
			okB = true
		}
	}
	bound = bound && okB
	if os.Getenv("E1DEBUG") != "" {
		fmt.Println("DBG feeVal", feeVal.Facts, feeVal.Attrs)
	}
	type cagg struct {
		ev  *Event
		n   int
		bad string
	}
	coinSites := map[string]*cagg{}
	for _, h := range r.Handlers {
		if h.EP.Kind == "canary" {
			continue
		}
		for _, o := range h.Outs {
			st := o.St
			for i := range st.events {
				ev := &st.events[i]
				if ev.Kind != "call" || ev.Method != "NewCoin" || !inScope(o, ev) {
					continue
				}
				amt := ev.Args[1].(*IntV)
				k := h.Key + "→" + funcKey(ev.Fn) + "#NewCoin@" + fmt.Sprint(newCoinOrdinal(ev))
				a := coinSites[k]
				if a == nil {
					a = &cagg{ev: ev}
					coinSites[k] = a
				}
				a.n++
				if a.bad != "" || amt.NonNeg {
					continue
				}
				// only amounts that depend on stored state / parameters: a request value that makes NewCoin
				// panic merely fails that message (A3)
				stateDep, loopOK := false, true
				for at := range amt.L.T {
					if strings.Contains(at, "#") {
						stateDep = true
					}
					if !h.nonneg[at] {
						loopOK = false
					}
				}
				if !stateDep || loopOK {
					continue
				}
				if len(ev.Args) >= 3 && isK(ev.Args[2], "true") {
					continue
				}
				// ordering facts established before the call
				ls := amt.L.String()
				if (knownTrue(st, "Gt0("+ls+")") || knownFalse(st, "Lt0("+ls+")")) && factIndex(st, "Gt0("+ls+")", "Lt0("+ls+")") < ev.Facts {
					continue
				}
				if productBound(h, st, amt.L, bound) {
					continue
				}
				a.bad = "amount " + amt.L.String() + " passed to sdk.NewCoin is not provably non-negative (NewCoin panics on a negative amount) on path {" + clip(strings.Join(st.facts, " "), 300) + "}"
			}
		}
	}
	var cks []string
	for k := range coinSites {
		cks = append(cks, k)
	}
	sort.Strings(cks)
	for _, k := range cks {
		a := coinSites[k]
		if a.bad != "" {
			c.Violate("C18.PARAM", "newcoin:"+k, p.Pos(a.ev.Pos.Pos()), a.bad, nil)
		} else {
			c.Hold("C18.PARAM", "newcoin:"+k, p.Pos(a.ev.Pos.Pos()), fmt.Sprintf("amount proven ≥ 0 on all %d path visits", a.n), nil)
		}
	}
	c.Min("NewCoin sites", 5, len(cks))
	// ---------------- PARAM: CreditType.Precision
	ctVal := exploreStateValidate(m, x, "x/ecocredit/v3/base/types/v1", "CreditType")
	precOK, precConst := false, ""
	for f := range ctVal.Facts {
		if strings.HasPrefix(f, "+Eq(") && strings.HasSuffix(f, ", req.Precision)") {
			precConst = strings.TrimSuffix(strings.TrimPrefix(f, "+Eq("), ", req.Precision)")
		}
	}
	if precConst != "" {
		keys := mapIntKeys(p, basePkg, "exponentPrefixMap")
		for _, k := range keys {
			if k == precConst {
				precOK = true
			}
		}
		c.Check(precOK, "C18.PARAM", "CreditType.Precision", "-", fmt.Sprintf("the validator accepts only precision %s, which is a key of exponentPrefixMap %v (FormatBasketDenom) and fits int32 (NewDecFinite)", precConst, keys))
	} else {
		c.Undecide("C18.PARAM", "CreditType.Precision", "-", "accepted precision set of CreditType.Validate not recognised")
	}
	// ---------------- GENESIS
	cases := validateMsgCases(m, "x/ecocredit/v3/genesis")
	for _, t := range []string{"FeeParams", "ClassFee", "BasketFee", "AllowedDenom", "ClassCreatorAllowlist", "AllowedClassCreator", "CreditType", "AllowedBridgeChain"} {
		c.Check(cases[t], "C18.GENESIS", "validateMsg:"+t, "-", "genesis validation has a case for parameter table "+t)
	}
	ruleBankCoinsPositive(c, m, r)
	ruleKeyNormalisation(c, m, r, "C18.KEYNORM")
}

func newCoinOrdinal(ev *Event) int {
	n := 0
	for _, ci := range callsIn(ev.Fn) {
		if sc := ci.Common().StaticCallee(); sc != nil && sc.Name() == "NewCoin" {
			n++
		}
		if ci == ev.Pos {
			break
		}
	}
	return n
}

// productBound: trunc[X − mul[X ; parse(FeeParams#n.SellerPercentageFee)]] ≥ 0 when X ≥ 0 and the rate is validated into [0, 1].
func productBound(h *HandlerResult, st *State, l Lin, bound bool) bool {
	if !bound || len(l.T) != 1 || l.C.Sign() != 0 {
		return false
	}
	for a := range l.T {
		if !strings.HasPrefix(a, "trunc[") {
			return false
		}
		inner, ok := linByStr[strings.TrimSuffix(strings.TrimPrefix(a, "trunc["), "]")]
		if !ok {
			return false
		}
		// inner = X − mul[X ; rate]
		var pos, neg []string
		for at, cf := range inner.T {
			switch cf.RatString() {
			case "1":
				pos = append(pos, at)
			case "-1":
				neg = append(neg, at)
			default:
				return false
			}
		}
		if len(neg) != 1 || len(pos) != 1 || inner.C.Sign() != 0 {
			return false
		}
		x := pos[0]
		m := regexp.MustCompile(`^parse\(FeeParams#\d+\.SellerPercentageFee\)$`)
		if !strings.HasPrefix(neg[0], "mul[") {
			return false
		}
		args := splitTop(strings.TrimSuffix(strings.TrimPrefix(neg[0], "mul["), "]"), " ; ")
		if len(args) != 2 {
			return false
		}
		var rate, other string
		if m.MatchString(args[0]) {
			rate, other = args[0], args[1]
		} else if m.MatchString(args[1]) {
			rate, other = args[1], args[0]
		}
		if rate == "" || other != x {
			return false
		}
		// X ≥ 0: a product of non-negative factors
		return strings.HasPrefix(x, "mul[")
	}
	return false
}

func mapIntKeys(p *Program, pkgSuffix, name string) []string {
	pk := p.Pkg(pkgSuffix)
	var out []string
	if pk == nil {
		return out
	}
	for _, f := range pk.Syntax {
		ast.Inspect(f, func(n ast.Node) bool {
			vs, ok := n.(*ast.ValueSpec)
			if !ok || len(vs.Names) != 1 || vs.Names[0].Name != name || len(vs.Values) != 1 {
				return true
			}
			if cl, ok := vs.Values[0].(*ast.CompositeLit); ok {
				for _, el := range cl.Elts {
					if kv, ok := el.(*ast.KeyValueExpr); ok {
						if tv, ok := pk.TypesInfo.Types[kv.Key]; ok && tv.Value != nil {
							out = append(out, tv.Value.ExactString())
						}
					}
				}
			}
			return true
		})
	}
	return out
}

// validateMsgCases: table names that have a case in the genesis validateMsg type switch which calls Validate().
func validateMsgCases(m *Model, pkgSuffix string) map[string]bool {
	out := map[string]bool{}
	// every function of the genesis package reachable from its ValidateGenesis (whatever it is called)
	var fns []*ssa.Function
	if root := findFn(m, pkgSuffix, "ValidateGenesis"); root != nil {
		g := NewGraph(m.P)
		for f := range g.Closure([]*ssa.Function{root}) {
			if g.isSubjectFn(f) && fnPkgPath(f) == fnPkgPath(root) {
				fns = append(fns, f)
			}
		}
	}
	for _, fn := range fns {
		validateCasesIn(m, fn, out)
	}
	return out
}

// callReachesValidate: the call is Validate() itself, or a same-module helper (possibly a generic
// instance) that calls it.
func callReachesValidate(call *ssa.Call, depth int) bool {
	if call.Call.IsInvoke() {
		return call.Call.Method.Name() == "Validate"
	}
	sc := call.Call.StaticCallee()
	if sc == nil {
		return false
	}
	if sc.Name() == "Validate" {
		return true
	}
	if depth >= 2 || len(sc.Blocks) == 0 || !isRepoPkgPath(fnPkgPath(sc)) {
		return false
	}
	for _, ci := range callsIn(sc) {
		if c2, ok := ci.(*ssa.Call); ok && callReachesValidate(c2, depth+1) {
			return true
		}
	}
	return false
}

func validateCasesIn(m *Model, fn *ssa.Function, out map[string]bool) {
	for _, b := range fn.Blocks {
		for _, in := range b.Instrs {
			ta, ok := in.(*ssa.TypeAssert)
			if !ok {
				continue
			}
			n := namedOf(ta.AssertedType)
			if n == nil {
				continue
			}
			// the arm must reach a Validate() call
			var arm *ssa.BasicBlock
			for _, r := range *ta.Referrers() {
				if ex, ok := r.(*ssa.Extract); ok && ex.Index == 1 {
					if ifi, _ := ifOn(ex); ifi != nil {
						arm = ifi.Block().Succs[0]
					}
				}
			}
			if arm == nil {
				continue
			}
			for _, b2 := range fn.Blocks {
				if !arm.Dominates(b2) {
					continue
				}
				for _, in2 := range b2.Instrs {
					if call, ok := in2.(*ssa.Call); ok {
						if callReachesValidate(call, 0) {
							out[n.Obj().Name()] = true
						}
					}
					// the arm only picks the row to fill (`row = &T{}`): the case counts when that value
					// flows on — through the merge point, an interface, a helper — into a Validate() call
					if v, isV := in2.(ssa.Value); isV && !out[n.Obj().Name()] {
						if vt := namedOf(v.Type()); vt != nil && vt.Obj().Name() == n.Obj().Name() && vt.Obj() != n.Obj() {
							if flowsIntoValidate(v, map[ssa.Value]bool{}, 0) {
								out[n.Obj().Name()] = true
							}
						}
					}
				}
			}
		}
	}
}

// flowsIntoValidate: v (a state row) reaches, through φs, interface conversions, local variables and the
// parameters of hand-written helpers, a call of its Validate() method.
func flowsIntoValidate(v ssa.Value, seen map[ssa.Value]bool, depth int) bool {
	if v == nil || seen[v] || depth > 12 || v.Referrers() == nil {
		return false
	}
	seen[v] = true
	for _, r := range *v.Referrers() {
		switch y := r.(type) {
		case *ssa.Phi:
			if flowsIntoValidate(y, seen, depth+1) {
				return true
			}
		case *ssa.MakeInterface:
			if flowsIntoValidate(y, seen, depth+1) {
				return true
			}
		case *ssa.ChangeInterface:
			if flowsIntoValidate(y, seen, depth+1) {
				return true
			}
		case *ssa.ChangeType:
			if flowsIntoValidate(y, seen, depth+1) {
				return true
			}
		case *ssa.Store:
			if y.Val == v {
				if al, isA := y.Addr.(*ssa.Alloc); isA {
					for _, r2 := range *al.Referrers() {
						if ld, isL := r2.(*ssa.UnOp); isL && ld.Op == token.MUL && flowsIntoValidate(ld, seen, depth+1) {
							return true
						}
					}
				}
			}
		case *ssa.Call:
			if y.Call.IsInvoke() {
				if y.Call.Value == v && y.Call.Method.Name() == "Validate" {
					return true
				}
				continue
			}
			sc := y.Call.StaticCallee()
			if sc == nil {
				continue
			}
			for i, a := range y.Call.Args {
				if a != v {
					continue
				}
				if sc.Name() == "Validate" && i == 0 {
					return true
				}
				if isRepoPkgPath(fnPkgPath(sc)) && i < len(sc.Params) && len(sc.Blocks) > 0 && flowsIntoValidate(sc.Params[i], seen, depth+4) {
					return true
				}
			}
		}
	}
	return false
}

func knownFalse(st *State, f string) bool {
	v, ok := st.known(f)
	return ok && !v
}

func factIndex(st *State, fs ...string) int {
	for i, g := range st.facts {
		for _, f := range fs {
			if g == "+"+f || g == "-"+f {
				return i
			}
		}
	}
	return 1 << 30
}

// splitTop splits at separators that are not nested inside brackets.
func splitTop(s, sep string) []string {
	var out []string
	depth, start := 0, 0
	for i := 0; i < len(s); i++ {
		switch s[i] {
		case '[', '(':
			depth++
		case ']', ')':
			depth--
		}
		if depth == 0 && strings.HasPrefix(s[i:], sep) {
			out = append(out, s[start:i])
			start = i + len(sep)
			i += len(sep) - 1
		}
	}
	return append(out, s[start:])
}

// ruleBankCoinsPositive (parameter-dependent coins): the bank keeper rejects a Coins value that contains a non-positive coin
// ("invalid coins"), and a handler that hands it one aborts. sdk.NewCoins drops zero coins; the literal
// sdk.Coins{…} does not. So every coin of a Coins literal handed to a bank mutator must be proven
// positive on the path by a test of that very amount (not of the decimal it was truncated from: a
// positive fee below one base unit truncates to zero).
func ruleBankCoinsPositive(c *Ctx, m *Model, r *E1) {
	p := m.P
	nLit, nAll := 0, 0
	for _, h := range r.Handlers {
		if h.EP.Kind == "canary" {
			continue
		}
		bad := ""
		n := 0
		for _, o := range h.Outs {
			st := o.St
			for i := range st.events {
				ev := &st.events[i]
				if ev.Kind != "bank" || !isBankMutator(ev.Method) || ev.Method == "SetDenomMetaData" || !inScope(o, ev) || len(ev.Args) == 0 {
					continue
				}
				nAll++
				cs := r.X.coinsOf(st, ev.Args[len(ev.Args)-1])
				if cs == nil || cs.Sanitised {
					continue
				}
				// in scope: coins whose amount depends on a governance / genesis parameter (fee rates, fixed fees)
				param := false
				for _, cn := range cs.Items {
					as := asInt(st, cn.Amt).L.String()
					if strings.Contains(as, "FeeParams#") || strings.Contains(as, "ClassFee#") || strings.Contains(as, "BasketFee#") {
						param = true
					}
				}
				if !param {
					continue
				}
				n++
				nLit++
				for _, cn := range cs.Items {
					amt := asInt(st, cn.Amt)
					if v, ok := st.known("Gt0(" + regLin(amt.L) + ")"); ok && v {
						continue
					}
					if amt.L.IsConst() && amt.L.C.Sign() > 0 {
						continue
					}
					if bad == "" {
						bad = "bank." + ev.Method + " at " + p.Pos(ev.Pos.Pos()) + " receives a Coins literal whose coin amount " + amt.L.String() + " is not tested for positivity on the path {" + clip(strings.Join(st.facts, " "), 260) + "}: when it is zero (e.g. a positive fee below one base unit, truncated) the bank rejects the coins and the operation aborts"
					}
				}
			}
		}
		if n == 0 {
			continue
		}
		if bad != "" {
			c.Violate("C18.BANKCOINS", h.Key, p.Pos(h.Fn.Pos()), bad, nil)
		} else {
			c.Hold("C18.BANKCOINS", h.Key, p.Pos(h.Fn.Pos()), fmt.Sprintf("%d bank calls with a Coins literal: every coin amount is tested positive on the path", n), nil)
		}
	}
	c.Count("bank_mutator_events", nAll)
	c.Count("bank_coins_literals", nLit)
}

var normWrapper = regexp.MustCompile(`^(lower|upper|ToLower|ToUpper|TrimSpace|Title|ToTitle|Trim[A-Za-z]*)\((.*)\)$`)

// normShape: the normalising functions applied around a key term, outermost first.
func normShape(term string) (shape string, inner string) {
	var fs []string
	for {
		mm := normWrapper.FindStringSubmatch(term)
		if mm == nil {
			break
		}
		fs = append(fs, mm[1])
		term = mm[2]
	}
	if len(fs) == 0 {
		return "verbatim", term
	}
	return strings.Join(fs, "∘"), term
}

// ruleKeyNormalisation: governance-maintained lookup tables keyed by a string (allowed denoms, allowed
// bridge chains) are written by governance handlers and consulted by user handlers. Both sides must
// normalise the key the same way — a key stored lower-cased and looked up verbatim (or the reverse)
// makes an entry governance added unusable, or lets a removed one linger. All write sites must agree
// with each other, and every lookup whose key comes from a request must apply the same normalisation.
func ruleKeyNormalisation(c *Ctx, m *Model, r *E1, rule string) {
	p := m.P
	for _, tn := range []string{"AllowedDenom", "AllowedBridgeChain"} {
		t := m.Tables[tn]
		if t == nil || len(t.PK) != 1 {
			continue
		}
		keyCol := snakeToCamel(t.PK[0])
		shapes := map[string][]string{} // shape → example sites
		for _, h := range r.Handlers {
			if h.EP.Kind == "canary" {
				continue
			}
			for _, o := range h.Outs {
				st := o.St
				for i := range st.events {
					ev := &st.events[i]
					if ev.Table == nil || ev.Table.Name != tn {
						continue
					}
					var key string
					switch {
					case ev.Kind == "write" && ev.Row != nil:
						key = st.canon(ev.Row[keyCol])
					case ev.Kind == "read" && len(ev.Keys) == 1:
						key = st.canon(ev.Keys[0])
					default:
						continue
					}
					sh, inner := normShape(key)
					if !strings.Contains(inner, "req.") {
						continue // a stored or derived key (market.BankDenom of a fetched row): already in stored form
					}
					site := ev.Kind + " in " + h.Key + " at " + p.Pos(ev.Pos.Pos())
					if len(shapes[sh]) < 3 {
						shapes[sh] = append(shapes[sh], site)
					}
				}
			}
		}
		var ks []string
		for k := range shapes {
			ks = append(ks, k)
		}
		sort.Strings(ks)
		if len(ks) == 0 {
			c.Undecide(rule, tn, "-", "no request-keyed access to "+tn+" found on explored paths")
			continue
		}
		if len(ks) == 1 {
			c.Hold(rule, tn, "-", "every request-keyed write and lookup of "+tn+" normalises the key the same way: "+ks[0], nil)
			continue
		}
		var parts []string
		for _, k := range ks {
			parts = append(parts, k+" ("+shapes[k][0]+")")
		}
		c.Violate(rule, tn, "-", "writers and readers of "+tn+" normalise its key differently: "+strings.Join(parts, " vs ")+": an entry stored under one form is not found under the other", nil)
	}
}

// ---- REJECT: no explicit rejection that an accepted parameter value makes unconditional -----------

var paramRowAtom = regexp.MustCompile(`parse\(([A-Za-z]+)#\d+\.([A-Za-z]+)\)`)
var cmpFactRe = regexp.MustCompile(`^([+-])(Gt0|Lt0|Eq0)\((.*)\)$`)

// substParamLin replaces the atom pa by the constant v, through products and truncations.
func substParamLin(l Lin, pa string, v int64, depth int) (Lin, bool) {
	out := linConst(0)
	if l.C != nil {
		out.C = new(big.Rat).Set(l.C)
	}
	for a, cf := range l.T {
		sub, ok := substParamAtom(a, pa, v, depth)
		if !ok {
			return l, false
		}
		out = out.Add(scaleLin(sub, cf))
	}
	return out, true
}

func substParamAtom(a, pa string, v int64, depth int) (Lin, bool) {
	switch {
	case a == pa:
		return linConst(v), true
	case !strings.Contains(a, pa):
		return linAtom(a), true
	case depth > 6:
		return Lin{}, false
	case strings.HasPrefix(a, "mul[") && strings.HasSuffix(a, "]"):
		args := splitTop(a[4:len(a)-1], " ; ")
		if len(args) != 2 {
			return Lin{}, false
		}
		var ls [2]Lin
		for i, s := range args {
			l, ok := linByStr[s]
			if !ok {
				return Lin{}, false
			}
			if ls[i], ok = substParamLin(l, pa, v, depth+1); !ok {
				return Lin{}, false
			}
		}
		switch {
		case ls[0].IsConst():
			return scaleLin(ls[1], ls[0].C), true
		case ls[1].IsConst():
			return scaleLin(ls[0], ls[1].C), true
		}
		x, y := sortedPair(regLin(ls[0]), regLin(ls[1]))
		return linAtom("mul[" + x + " ; " + y + "]"), true
	case strings.HasPrefix(a, "trunc[") && strings.HasSuffix(a, "]"):
		l, ok := linByStr[a[6:len(a)-1]]
		if !ok {
			return Lin{}, false
		}
		sl, ok := substParamLin(l, pa, v, depth+1)
		if !ok {
			return Lin{}, false
		}
		if sl.IsConst() {
			if !sl.C.IsInt() {
				return Lin{}, false
			}
			return sl, true
		}
		return linAtom("trunc[" + regLin(sl) + "]"), true
	}
	return Lin{}, false
}

// evalCmpFact: the truth value of ±Op(c) for a constant c.
func evalCmpFact(sign, op string, c *big.Rat) bool {
	var t bool
	switch op {
	case "Gt0":
		t = c.Sign() > 0
	case "Lt0":
		t = c.Sign() < 0
	default:
		t = c.Sign() == 0
	}
	if sign == "-" {
		return !t
	}
	return t
}

// ruleNoUnconditionalRejection: a rejection written in a handler (a registered error wrapped at the
// rejection site) whose deciding comparison involves a decimal governance parameter must not become
// true whatever the request and the rest of the state are once the parameter takes a boundary value
// (0 or 1) that its state validator accepts: such a value would be an accepted configuration under
// which every call of the handler that reaches the comparison fails. Decided by substituting the
// boundary value into the comparison's linear form (products and truncations folded) and evaluating it
// where it becomes constant; comparisons that stay symbolic depend on the request and are not judged.
func ruleNoUnconditionalRejection(c *Ctx, m *Model, r *E1, validators map[string]*stateVal) {
	p := m.P
	type agg struct {
		pos string
		n   int
		bad string
	}
	sites := map[string]*agg{}
	nJudged := 0
	accepted := func(table, col string, v int64) bool {
		sv := validators[table]
		if sv == nil || !sv.OK {
			return false
		}
		atom := "parse(req." + col + ")"
		at, has := sv.Attrs[atom]
		if !has {
			return false
		}
		if v == 0 && at.Pos {
			return false
		}
		for f := range sv.Facts {
			mm := cmpFactRe.FindStringSubmatch(f)
			if mm == nil || !strings.Contains(mm[3], atom) {
				continue
			}
			l, ok := linByStr[mm[3]]
			if !ok {
				return false
			}
			sl, ok := substParamLin(l, atom, v, 0)
			if !ok || !sl.IsConst() {
				return false
			}
			if !evalCmpFact(mm[1], mm[2], sl.C) {
				return false
			}
		}
		return true
	}
	for _, h := range r.Handlers {
		if h.EP.Kind != "msg" {
			continue
		}
		idx := errResultIndex(h.Fn.Signature)
		for _, o := range h.AbortOuts {
			if idx < 0 || idx >= len(o.Rets) {
				continue
			}
			ev, ok := o.Rets[idx].(*ErrV)
			if !ok || !strings.HasPrefix(ev.Origin, "wrap:") || !strings.Contains(ev.Origin, "<global:") || ev.At == 0 || ev.At > len(o.St.facts) {
				continue
			}
			f := o.St.facts[ev.At-1]
			mm := cmpFactRe.FindStringSubmatch(f)
			if mm == nil {
				continue
			}
			pas := paramRowAtom.FindAllStringSubmatch(mm[3], -1)
			if len(pas) == 0 {
				continue
			}
			l, ok := linByStr[mm[3]]
			if !ok {
				continue
			}
			sent := ev.Origin[strings.Index(ev.Origin, "<global:")+8:]
			key := h.Key + "#" + strings.TrimSuffix(sent, ">") + "@" + mm[2] + "(" + pas[0][1] + "." + pas[0][2] + ")"
			a := sites[key]
			if a == nil {
				a = &agg{pos: p.Pos(h.Fn.Pos())}
				sites[key] = a
			}
			a.n++
			// every assignment of accepted boundary values to a non-empty subset of the parameters that
			// occur in the comparison (two fee rates → 8 assignments)
			var atoms [][]string
			seen := map[string]bool{}
			for _, pa := range pas {
				if !seen[pa[0]] {
					seen[pa[0]] = true
					atoms = append(atoms, pa)
				}
			}
			if len(atoms) > 4 {
				atoms = atoms[:4]
			}
			total := 1
			for range atoms {
				total *= 3
			}
			for code := 1; code < total; code++ {
				sl, ok, desc := l, true, ""
				for i, cd := 0, code; i < len(atoms) && ok; i, cd = i+1, cd/3 {
					choice := cd % 3 // 0 = left symbolic, 1 = value 0, 2 = value 1
					if choice == 0 {
						continue
					}
					v := int64(choice - 1)
					if !accepted(atoms[i][1], atoms[i][2], v) {
						ok = false
						break
					}
					sl, ok = substParamLin(sl, atoms[i][0], v, 0)
					desc += fmt.Sprintf("%s.%s = %d ", atoms[i][1], atoms[i][2], v)
				}
				if !ok || !sl.IsConst() {
					continue
				}
				nJudged++
				if evalCmpFact(mm[1], mm[2], sl.C) && a.bad == "" {
					a.bad = fmt.Sprintf("with %s— values the state validator accepts — the rejecting comparison %s is true for every request and state: every call that reaches it fails (path {%s})", desc, f, outcomeLabel(h, o))
				}
			}
		}
	}
	var ks []string
	for k := range sites {
		ks = append(ks, k)
	}
	sort.Strings(ks)
	for _, k := range ks {
		a := sites[k]
		if a.bad != "" {
			c.Violate("C18.REJECT", k, a.pos, a.bad, nil)
		} else {
			c.Hold("C18.REJECT", k, a.pos, fmt.Sprintf("the rejecting comparison stays dependent on the request or the balances at the accepted boundary values of the parameter (%d path visits)", a.n), nil)
		}
	}
	c.Count("parameter_rejections_judged_constant", nJudged)
}

// offeredAmount: the amount of the fee the request offers (MsgCreateClass.Fee is one coin, MsgCreate.Fee a list).
var offeredAmount = regexp.MustCompile(`intfield\(\*?req\.Fee(\[[^\]]*\])?\.Amount\)`)

package main

// C10 — determinism lints (engine E6) over the consensus closure.

import (
	"fmt"
	"go/constant"
	"go/token"
	"go/types"
	"sort"
	"strings"

	"golang.org/x/tools/go/ssa"
)

func init() { register("C10", checkC10) }

// invariantOnly: fn is reachable from the modules' RegisterInvariants and from no message handler, block
// hook, genesis function or message validator: nothing it computes reaches state, events or results —
// only the (message, broken) pair of the crisis module.
var invariantOnlyMemo = map[*Model]map[*ssa.Function]bool{}

func invariantOnly(m *Model, g *Graph, fn *ssa.Function) bool {
	set, ok := invariantOnlyMemo[m]
	if !ok {
		var inv, other []*ssa.Function
		for _, r := range append(m.ConsensusRoots(), msgValidationRoots(m)...) {
			if strings.Contains(r.Name(), "RegisterInvariants") {
				inv = append(inv, r)
			} else {
				other = append(other, r)
			}
		}
		set = map[*ssa.Function]bool{}
		oc := g.Closure(other)
		for f := range g.Closure(inv) {
			if !oc[f] {
				set[f] = true
			}
		}
		invariantOnlyMemo[m] = set
	}
	for f := fn; f != nil; f = f.Parent() {
		if set[f] {
			return true
		}
	}
	return false
}

// slotPerKeyLoop: the body of the map range writes map entries only under the range's own key (each
// iteration has its own slot, so no iteration sees another's write), never returns a constant false
// verdict, and calls no ORM writer or bank mutator.
func slotPerKeyLoop(r *ssa.Range) (bool, string) {
	var next *ssa.Next
	for _, x := range *r.Referrers() {
		if n, ok := x.(*ssa.Next); ok {
			next = n
		}
	}
	if next == nil {
		return false, "no Next"
	}
	var key ssa.Value
	for _, x := range *next.Referrers() {
		if ex, ok := x.(*ssa.Extract); ok && ex.Index == 1 {
			key = ex
		}
	}
	head := next.Block()
	loop := map[*ssa.BasicBlock]bool{head: true}
	var back func(b *ssa.BasicBlock)
	back = func(b *ssa.BasicBlock) {
		if loop[b] {
			return
		}
		loop[b] = true
		for _, p := range b.Preds {
			back(p)
		}
	}
	for _, p := range head.Preds {
		if head.Dominates(p) {
			back(p)
		}
	}
	// blocks that leave the loop with a return are part of the iteration too
	for b := range loop {
		for _, s := range b.Succs {
			if !loop[s] && len(s.Instrs) > 0 {
				if _, isRet := s.Instrs[len(s.Instrs)-1].(*ssa.Return); isRet && s != head && len(s.Preds) == 1 {
					loop[s] = true
				}
			}
		}
	}
	for b := range loop {
		for _, in := range b.Instrs {
			switch y := in.(type) {
			case *ssa.MapUpdate:
				if key == nil || y.Key != key {
					return false, "a map entry is written under a key other than the iteration's own"
				}
			case *ssa.Return:
				for _, rv := range y.Results {
					if cst, isC := rv.(*ssa.Const); isC && cst.Value != nil && cst.Value.Kind() == constant.Bool && !constant.BoolVal(cst.Value) {
						return false, "a 'not broken' verdict is returned from inside the loop"
					}
				}
			case ssa.CallInstruction:
				cc := y.Common()
				name := ""
				if cc.IsInvoke() {
					name = cc.Method.Name()
				} else if sc := cc.StaticCallee(); sc != nil {
					name = sc.Name()
				}
				switch name {
				case "Insert", "InsertReturningID", "Update", "Save", "Delete", "DeleteBy", "DeleteRange", "SendCoins", "SendCoinsFromModuleToAccount", "SendCoinsFromAccountToModule", "MintCoins", "BurnCoins", "Set", "SetDenomMetaData":
					if cc.IsInvoke() {
						return false, "the loop calls " + name + " (a state write)"
					}
				}
			}
		}
	}
	return true, ""
}

func msgValidationRoots(m *Model) []*ssa.Function {
	var roots []*ssa.Function
	for _, e := range m.Entries {
		if e.Kind != "msg" || !e.Implemented || e.Req == nil {
			continue
		}
		for _, recv := range []types.Type{e.Req, types.NewPointer(e.Req)} {
			ms := m.P.SSA.MethodSets.MethodSet(recv)
			for _, name := range []string{"ValidateBasic", "GetSigners", "GetSignBytes"} {
				if sel := ms.Lookup(e.Req.Obj().Pkg(), name); sel != nil {
					if f := m.P.SSA.MethodValue(sel); f != nil {
						roots = append(roots, f)
					}
				}
			}
		}
	}
	return roots
}

func checkC10(c *Ctx, e *Env) {
	c.Explanation = "E6 determinism lints over the consensus closure (functions reachable from the implemented Msg handlers, their ValidateBasic/GetSigners, module BeginBlock/EndBlock/InitGenesis/ExportGenesis and the registered invariants of x/ecocredit, x/data, x/intertx): " +
		"D1 no map iteration except collect-keys-then-sort or a hand-justified site; D2 no wall clock / randomness / environment reads (time.Now allowed only when its value flows solely into telemetry); " +
		"D3 no goroutines, select, channels, sync/atomic; D4 no store to package-level variables outside init and no store/map-update through references held by the long-lived application objects (keepers, servers, module); " +
		"D6 no floating-point arithmetic; D7 no dropped error from an ORM write, bank mutator, types/math operation or hand-written repo function; D8 no recover(); closure does not enter simulation/client/test/migration packages."
	c.NotDecided = []string{"equality of app hashes, gas and events across executions (runtime)", "IAVL/ORM iteration order (dependency code, A1)", "baseapp restart behaviour; 'a failed message leaves no trace' is A3 plus D7/D8"}
	c.Assumptions = []string{"A1", "A3", "A6"}
	total := map[string]int{}
	e.Preload("x/ecocredit", "x/data", "x/intertx")
	for _, mod := range []string{"x/ecocredit", "x/data", "x/intertx"} {
		m := e.Model(mod)
		g := NewGraph(m.P)
		roots := append(m.ConsensusRoots(), msgValidationRoots(m)...)
		roots = append(roots, canaryFns(m)...)
		cl := g.Closure(roots)
		c.Count("modules", 1)
		c.Count("closure_roots", len(roots))
		nsub := 0
		var zoneFns []*ssa.Function
		for _, fn := range sortedFns(cl) {
			if g.isSubjectFn(fn) && excludedPkg(fnPkgPath(fn)) == "" {
				zoneFns = append(zoneFns, fn)
			}
		}
		ruleLocalZone(c, m, g, zoneFns)
		ruleInvariantsReadOnly(c, m, g)
		ruleConstructionDeterminism(c, m, g, cl)
		for _, fn := range sortedFns(cl) {
			if ex := excludedPkg(fnPkgPath(fn)); ex != "" && len(fn.Blocks) > 0 && g.isSubjectFn(fn) {
				c.Violate("C10.CLOSURE", funcKey(fn), m.P.Pos(fn.Pos()), "consensus closure reaches a function of an excluded package ("+ex+") via "+g.PathTo(fn), nil)
				continue
			}
			if !g.isSubjectFn(fn) {
				continue
			}
			if isCanaryFn(fn) {
				lintDeterminism(c, m, g, fn, map[string]int{})
				continue
			}
			nsub++
			before := len(c.Obligs)
			ncalls := total["calls_examined"]
			lintDeterminism(c, m, g, fn, total)
			viol := 0
			for _, o := range c.Obligs[before:] {
				if o.Status != Holds {
					viol++
				}
			}
			if viol == 0 {
				n := total["calls_examined"] - ncalls
				det := fmt.Sprintf("%d blocks, %d call sites examined under D1–D8: clean", len(fn.Blocks), n)
				if n > 0 {
					c.Hold("C10.SCAN", funcKey(fn), m.P.Pos(fn.Pos()), det, nil)
				} else {
					c.Trivial("C10.SCAN", funcKey(fn), m.P.Pos(fn.Pos()), det)
				}
			}
		}
		c.Count("closure_functions", len(cl))
		c.Count("subject_functions", nsub)
		// keeper object model for D4
	}
	c.Trivial("C10.CLOSURE", "excluded-packages", "-", "no function of simulation/client/testsuite/mocks/migrations packages is reachable from the consensus roots")
	for k, v := range total {
		c.Count(k, v)
	}
	c.Min("closure subject functions", 250, c.Analysed["subject_functions"])
	c.Min("map ranges seen in closure", 2, total["map_ranges"])
	c.Min("time.Now sites classified", 1, total["timenow_sites"])
	c.Min("error-returning calls checked (D7)", 150, total["d7_calls"])
	c.ExpectCanary("C10.D1", "C10.D2", "C10.D3", "C10.D4", "C10.D6", "C10.D7", "C10.D8")
}

func isMapType(t types.Type) bool {
	_, ok := t.Underlying().(*types.Map)
	return ok
}

func isFloat(t types.Type) bool {
	if b, ok := t.Underlying().(*types.Basic); ok {
		return b.Info()&(types.IsFloat|types.IsComplex) != 0
	}
	return false
}

func calleePkgName(cc *ssa.CallCommon) (pkg, name string) {
	if cc.IsInvoke() {
		if cc.Method.Pkg() != nil {
			return cc.Method.Pkg().Path(), cc.Method.Name()
		}
		return "", cc.Method.Name()
	}
	if sc := cc.StaticCallee(); sc != nil {
		if sc.Signature.Recv() != nil {
			rt := sc.Signature.Recv().Type()
			if p, ok := rt.(*types.Pointer); ok {
				rt = p.Elem()
			}
			if n, ok := types.Unalias(rt).(*types.Named); ok {
				return fnPkgPath(sc), n.Obj().Name() + "." + sc.Name()
			}
		}
		return fnPkgPath(sc), sc.Name()
	}
	if b, ok := cc.Value.(*ssa.Builtin); ok {
		return "builtin", b.Name()
	}
	return "", ""
}

var forbiddenCalls = map[string]string{
	"time.Now": "wall clock", "time.Since": "wall clock", "time.Until": "wall clock", "time.After": "timer", "time.Sleep": "timer", "time.Tick": "timer", "time.NewTimer": "timer", "time.NewTicker": "timer", "time.AfterFunc": "timer",
	"context.WithTimeout": "wall-clock deadline", "context.WithDeadline": "wall-clock deadline", "context.WithTimeoutCause": "wall-clock deadline", "context.WithDeadlineCause": "wall-clock deadline",
	"os.Getenv": "environment", "os.LookupEnv": "environment", "os.Environ": "environment", "os.Hostname": "environment", "os.Getpid": "environment", "os.Getwd": "environment", "os.ReadFile": "file system", "os.Open": "file system", "os.Stat": "file system",
	"runtime.NumGoroutine": "runtime state", "runtime.NumCPU": "runtime state", "runtime.GOMAXPROCS": "runtime state", "runtime.ReadMemStats": "runtime state", "runtime.Caller": "runtime state", "runtime.Callers": "runtime state", "runtime.Stack": "runtime state",
}

func lintDeterminism(c *Ctx, m *Model, g *Graph, fn *ssa.Function, total map[string]int) {
	p := m.P
	fk := funcKey(fn)
	isInit := fn.Name() == "init" || strings.HasPrefix(fn.Name(), "init#") || strings.HasPrefix(fn.Synthetic, "package init")
	persistent := persistentRefs(fn)
	for _, b := range fn.Blocks {
		for _, in := range b.Instrs {
			switch x := in.(type) {
			case *ssa.Range:
				if !isMapType(x.X.Type()) {
					continue
				}
				total["map_ranges"]++
				key := fk
				if ok, why := collectThenSort(x); ok {
					c.Hold("C10.D1", key+"#range", p.Pos(x.Pos()), "map iteration only collects keys which are sorted before any other use ("+why+")", nil)
				} else if invariantOnly(m, g, fn) {
					if ok2, why2 := slotPerKeyLoop(x); ok2 {
						c.Hold("C10.D1", key+"#range", p.Pos(x.Pos()), "map iteration in code reachable only from the registered invariants; each iteration writes only the map slot of its own key, local variables and the message / verdict, never returns 'not broken' from inside the loop and calls nothing that writes state: the verdict cannot depend on the order, only the text of the crisis message can", nil)
					} else {
						c.Violate("C10.D1", key+"#range", p.Pos(x.Pos()), "map iteration in an invariant whose verdict may depend on the iteration order ("+why2+")", nil)
					}
				} else {
					c.Violate("C10.D1", key+"#range", p.Pos(x.Pos()), "map iteration in the consensus closure whose order can reach state, events, results or errors ("+why+"); reached via "+g.PathTo(fn), nil)
				}
			case *ssa.Go:
				c.Violate("C10.D3", fk+"#go", p.Pos(x.Pos()), "goroutine started in the consensus closure", nil)
			case *ssa.Select:
				c.Violate("C10.D3", fk+"#select", p.Pos(x.Pos()), "select statement in the consensus closure", nil)
			case *ssa.Send:
				c.Violate("C10.D3", fk+"#send", p.Pos(x.Pos()), "channel send in the consensus closure", nil)
			case *ssa.MakeChan:
				c.Violate("C10.D3", fk+"#makechan", p.Pos(x.Pos()), "channel created in the consensus closure", nil)
			case *ssa.UnOp:
				if x.Op == token.ARROW {
					c.Violate("C10.D3", fk+"#recv", p.Pos(x.Pos()), "channel receive in the consensus closure", nil)
				}
				if isFloat(x.Type()) && x.Op != token.MUL && !flowsOnlyToTelemetry(x) {
					c.Violate("C10.D6", fk+"#float", p.Pos(x.Pos()), "floating-point operation in the consensus closure whose result is used for more than telemetry", nil)
				}
			case *ssa.BinOp:
				if (isFloat(x.X.Type()) || isFloat(x.Y.Type())) && !(isFloat(x.Type()) && flowsOnlyToTelemetry(x)) {
					c.Violate("C10.D6", fk+"#float", p.Pos(x.Pos()), "floating-point arithmetic in the consensus closure whose result is used for more than telemetry", nil)
				}
			case *ssa.Convert:
				if isFloat(x.Type()) || isFloat(x.X.Type()) {
					if _, isConst := x.X.(*ssa.Const); !isConst && !(isFloat(x.Type()) && flowsOnlyToTelemetry(x)) {
						c.Violate("C10.D6", fk+"#floatconv", p.Pos(x.Pos()), "conversion to/from floating point in the consensus closure (the value is used for more than telemetry)", nil)
					}
				}
			case *ssa.Store:
				if !isInit {
					if gl := rootGlobal(x.Addr); gl != nil && gl.Pkg != nil && isRepoPkgPath(gl.Pkg.Pkg.Path()) {
						c.Violate("C10.D4", fk+"#global:"+gl.Name(), p.Pos(x.Pos()), "package-level variable "+gl.Name()+" written outside init in the consensus closure (process-history-dependent state)", nil)
					} else if why, ok := persistent[x.Addr]; ok {
						c.Violate("C10.D4", fk+"#store", p.Pos(x.Pos()), "store through a reference held by a long-lived application object ("+why+"): state outside the committed store", nil)
					}
				}
			case *ssa.MapUpdate:
				if !isInit {
					if gl := rootGlobal(x.Map); gl != nil && gl.Pkg != nil && isRepoPkgPath(gl.Pkg.Pkg.Path()) {
						c.Violate("C10.D4", fk+"#global:"+gl.Name(), p.Pos(x.Pos()), "package-level map "+gl.Name()+" updated outside init in the consensus closure", nil)
					} else if why, ok := persistent[x.Map]; ok {
						c.Violate("C10.D4", fk+"#mapupdate", p.Pos(x.Pos()), "update of a map held by a long-lived application object ("+why+"): a process-local cache", nil)
					}
				}
			}
			ci, ok := in.(ssa.CallInstruction)
			if !ok {
				continue
			}
			cc := ci.Common()
			total["calls_examined"]++
			pkg, name := calleePkgName(cc)
			full := pkg + "." + name
			if why, bad := forbiddenCalls[full]; bad {
				if full == "time.Now" {
					total["timenow_sites"]++
					if v := ci.Value(); v != nil && flowsOnlyToTelemetry(v) {
						c.Hold("C10.D2", fk+"#time.Now", p.Pos(in.Pos()), "time.Now() value flows only into cosmos-sdk telemetry calls", nil)
						continue
					}
				}
				c.Violate("C10.D2", fk+"#"+full, p.Pos(in.Pos()), "call to "+full+" ("+why+") in the consensus closure; reached via "+g.PathTo(fn), nil)
			}
			// cancellation state of a context: set by the process (timeouts, shutdown), not by the block
			if cc.IsInvoke() && (cc.Method.Name() == "Err" || cc.Method.Name() == "Done" || cc.Method.Name() == "Deadline") && cc.Method.Pkg() != nil && cc.Method.Pkg().Path() == "context" {
				c.Violate("C10.D2", fk+"#context."+cc.Method.Name(), p.Pos(in.Pos()), "the cancellation state of a context (Context."+cc.Method.Name()+") is read in the consensus closure: it is set by timers and the host process, not by the block; reached via "+g.PathTo(fn), nil)
			}
			switch pkg {
			case "math/rand", "math/rand/v2", "crypto/rand", "hash/maphash":
				c.Violate("C10.D2", fk+"#"+full, p.Pos(in.Pos()), "randomness source "+full+" in the consensus closure (hash/maphash seeds are random per process)", nil)
			case "sync", "sync/atomic":
				c.Violate("C10.D3", fk+"#"+full, p.Pos(in.Pos()), "use of "+full+" (shared-memory concurrency) in the consensus closure", nil)
			case "math":
				if sc := cc.StaticCallee(); sc != nil && sc.Signature.Results().Len() > 0 && isFloat(sc.Signature.Results().At(0).Type()) {
					c.Violate("C10.D6", fk+"#"+full, p.Pos(in.Pos()), "floating-point library call "+full+" in the consensus closure", nil)
				}
			case "builtin":
				if name == "recover" {
					c.Violate("C10.D8", fk+"#recover", p.Pos(in.Pos()), "recover() in the consensus closure can turn a panicking (rolled back) message into a committed one", nil)
				}
			}
			// D4: method calls on standard-library objects held by long-lived application objects
			// (a hash.Hash, bytes.Buffer, … kept in a keeper field is mutable state outside the store,
			// shared between messages and with concurrently served simulations)
			if !isInit {
				var recvVal ssa.Value
				if cc.IsInvoke() {
					recvVal = cc.Value
				} else if sc := cc.StaticCallee(); sc != nil && sc.Signature.Recv() != nil && len(cc.Args) > 0 {
					recvVal = cc.Args[0]
				}
				if recvVal != nil {
					if why, ok := persistent[recvVal]; ok && stdPkgPath(pkg) {
						c.Violate("C10.D4", fk+"#sharedobject:"+name, p.Pos(in.Pos()), "method "+full+" is called on a standard-library object held by a long-lived application object ("+why+"): its internal state is process-local, survives the message and is shared with concurrent executions", nil)
					}
				}
			}
			// D7 dropped errors
			if cls := d7Class(m, g, cc); cls != "" {
				total["d7_calls"]++
				if dropped, how := errorDropped(ci); dropped {
					c.Violate("C10.D7", fk+"#"+cls+":"+name, p.Pos(in.Pos()), "error result of "+cls+" call "+name+" is dropped ("+how+"): a failed step would leave its partial effects committed", nil)
				}
			}
		}
	}
}

// rootGlobal follows FieldAddr/IndexAddr/loads to a *ssa.Global.
func rootGlobal(v ssa.Value) *ssa.Global {
	for i := 0; i < 12; i++ {
		switch x := v.(type) {
		case *ssa.Global:
			return x
		case *ssa.FieldAddr:
			v = x.X
		case *ssa.IndexAddr:
			v = x.X
		case *ssa.UnOp:
			if x.Op != token.MUL {
				return nil
			}
			v = x.X
		case *ssa.ChangeType:
			v = x.X
		case *ssa.Slice:
			v = x.X
		default:
			return nil
		}
	}
	return nil
}

// appObjectType: receiver types of the long-lived application objects.
func appObjectType(t types.Type) bool {
	if p, ok := t.(*types.Pointer); ok {
		t = p.Elem()
	}
	n, ok := types.Unalias(t).(*types.Named)
	if !ok || n.Obj().Pkg() == nil || !isRepoPkgPath(n.Obj().Pkg().Path()) {
		return false
	}
	switch n.Obj().Name() {
	case "Keeper", "serverImpl", "Module", "AppModule", "hasher", "Migrator":
		return true
	}
	return false
}

func isRefType(t types.Type) bool {
	switch t.Underlying().(type) {
	case *types.Pointer, *types.Map, *types.Slice, *types.Chan:
		return true
	}
	return stdStatefulIface(t)
}

// stdPkgPath: a standard-library package (no dot in the first path element), other than context.
func stdPkgPath(p string) bool {
	first := p
	if i := strings.Index(p, "/"); i >= 0 {
		first = p[:i]
	}
	return p != "" && !strings.Contains(first, ".") && p != "context"
}

// stdStatefulIface: a named interface of the standard library (hash.Hash, io.Writer, …): a value of
// such a type held by a keeper is an object with internal state of its own, outside the store.
func stdStatefulIface(t types.Type) bool {
	n, ok := types.Unalias(t).(*types.Named)
	if !ok || n.Obj().Pkg() == nil {
		return false
	}
	if _, isIface := n.Underlying().(*types.Interface); !isIface {
		return false
	}
	return stdPkgPath(n.Obj().Pkg().Path())
}

// persistentRefs computes SSA values of fn that are references (pointer, map,
// slice) reachable from the method receiver when the receiver is an application
// object: storing through them survives the message.
func persistentRefs(fn *ssa.Function) map[ssa.Value]string {
	out := map[ssa.Value]string{}
	if fn.Signature.Recv() == nil && fn.Parent() == nil {
		return out
	}
	// roots
	objVals := map[ssa.Value]string{} // struct values / pointers to app objects
	addRoot := func(v ssa.Value) {
		if appObjectType(v.Type()) {
			objVals[v] = v.Type().String()
			if _, ok := v.Type().(*types.Pointer); ok {
				out[v] = "receiver " + v.Name()
			}
		}
	}
	if fn.Signature.Recv() != nil && len(fn.Params) > 0 {
		addRoot(fn.Params[0])
	}
	for _, fv := range fn.FreeVars {
		// captured receiver (closure inside a method): type is *T (address of local copy) – the
		// copy is local, but its reference fields are shared
		if pt, ok := fv.Type().(*types.Pointer); ok && appObjectType(pt.Elem()) {
			objVals[fv] = "captured " + fv.Name()
		}
	}
	changed := true
	for iter := 0; changed && iter < 8; iter++ {
		changed = false
		for _, b := range fn.Blocks {
			for _, in := range b.Instrs {
				v, ok := in.(ssa.Value)
				if !ok {
					continue
				}
				if _, done := out[v]; done {
					continue
				}
				if _, done := objVals[v]; done {
					continue
				}
				switch x := in.(type) {
				case *ssa.Alloc:
					// local copy of a value receiver: stores into it are local, but it is an app object value
					for _, r := range *x.Referrers() {
						if st, ok := r.(*ssa.Store); ok && st.Addr == x {
							if _, isObj := objVals[st.Val]; isObj {
								objVals[x] = "local copy"
								changed = true
							}
						}
					}
				case *ssa.FieldAddr:
					if why, ok := out[x.X]; ok {
						out[x] = why + "." + fieldName(x.X.Type(), x.Field)
						changed = true
					} else if _, ok := objVals[x.X]; ok {
						// address of a field of a local copy: local itself; but if nested app object, track
						ft := x.Type().(*types.Pointer).Elem()
						if appObjectType(ft) {
							objVals[x] = "nested"
							changed = true
						} else if isRefType(ft) {
							// loads from this address yield shared references: handled at UnOp
							objVals[x] = "reffield:" + fieldName(x.X.Type(), x.Field)
							changed = true
						}
					}
				case *ssa.Field:
					if _, ok := objVals[x.X]; ok {
						if appObjectType(x.Type()) {
							objVals[x] = "nested"
							changed = true
						} else if isRefType(x.Type()) {
							out[x] = "field " + fieldName(x.X.Type(), x.Field)
							changed = true
						}
					}
				case *ssa.UnOp:
					if x.Op != token.MUL {
						continue
					}
					if why, ok := objVals[x.X]; ok {
						if strings.HasPrefix(why, "reffield:") {
							out[x] = "field " + strings.TrimPrefix(why, "reffield:")
							changed = true
						} else if appObjectType(x.Type()) {
							objVals[x] = "copy"
							changed = true
						}
					} else if why, ok := out[x.X]; ok && isRefType(x.Type()) {
						out[x] = why + "→"
						changed = true
					}
				case *ssa.IndexAddr:
					if why, ok := out[x.X]; ok {
						out[x] = why + "[i]"
						changed = true
					}
				case *ssa.Lookup:
					if why, ok := out[x.X]; ok && isRefType(x.Type()) {
						out[x] = why + "[k]"
						changed = true
					}
				}
			}
		}
	}
	return out
}

func flowsOnlyToTelemetry(v ssa.Value) bool {
	return onlyTelemetry(v, map[ssa.Value]bool{})
}

// onlyTelemetry: every use of v is an argument of a cosmos-sdk telemetry / go-metrics call, possibly after
// floating-point arithmetic or conversion *to* floating point (a counter value, a duration in seconds).
// A value that is stored, returned, compared, converted back to an integer or string, or handed to
// anything else is not telemetry-only.
func onlyTelemetry(v ssa.Value, seen map[ssa.Value]bool) bool {
	if seen[v] {
		return true
	}
	seen[v] = true
	refs := v.Referrers()
	if refs == nil {
		return true
	}
	for _, r := range *refs {
		switch y := r.(type) {
		case *ssa.DebugRef:
			continue
		case ssa.CallInstruction:
			pkg, _ := calleePkgName(y.Common())
			if !strings.HasSuffix(pkg, "cosmos-sdk/telemetry") && !strings.HasSuffix(pkg, "armon/go-metrics") && !strings.HasSuffix(pkg, "hashicorp/go-metrics") {
				return false
			}
		case *ssa.BinOp:
			if !isFloat(y.Type()) || !onlyTelemetry(y, seen) {
				return false
			}
		case *ssa.UnOp:
			if !isFloat(y.Type()) || !onlyTelemetry(y, seen) {
				return false
			}
		case *ssa.Convert:
			if !isFloat(y.Type()) || !onlyTelemetry(y, seen) {
				return false
			}
		case *ssa.Phi:
			if !isFloat(y.Type()) || !onlyTelemetry(y, seen) {
				return false
			}
		default:
			return false
		}
	}
	return true
}

// lessComparesWholeElements: the comparison function handed to sort.Slice / slices.SortFunc returns
// e_i < e_j (or Compare(e_i, e_j) < 0 …) where e_i and e_j are the two elements themselves — loads of
// s[i] and s[j] for sort.Slice, the two parameters for slices.SortFunc — of an ordered basic type, a
// string or a byte slice. Anything else (a field, a method result, a derived key) is a projection.
func lessComparesWholeElements(v ssa.Value) bool {
	var fn *ssa.Function
	switch y := v.(type) {
	case *ssa.MakeClosure:
		fn, _ = y.Fn.(*ssa.Function)
	case *ssa.Function:
		fn = y
	}
	if fn == nil || len(fn.Blocks) != 1 || len(fn.Params) != 2 {
		return false
	}
	ret, ok := fn.Blocks[0].Instrs[len(fn.Blocks[0].Instrs)-1].(*ssa.Return)
	if !ok || len(ret.Results) != 1 {
		return false
	}
	// which parameter an operand stands for (1, 2) — 0 when it is not a whole element
	elem := func(o ssa.Value) int {
		for i := 0; i < 3; i++ {
			if c, isC := o.(*ssa.Convert); isC {
				o = c.X
				continue
			}
			break
		}
		if p, isP := o.(*ssa.Parameter); isP { // slices.SortFunc(a, b T)
			if _, isInt := p.Type().Underlying().(*types.Basic); isInt && p.Type().Underlying().(*types.Basic).Info()&types.IsInteger != 0 {
				// could still be the element of a []int handed to SortFunc; index parameters of
				// sort.Slice never reach here as operands of the comparison
			}
			for k, q := range fn.Params {
				if q == p {
					return k + 1
				}
			}
			return 0
		}
		ld, isLoad := o.(*ssa.UnOp)
		if !isLoad || ld.Op != token.MUL {
			return 0
		}
		ia, isIA := ld.X.(*ssa.IndexAddr)
		if !isIA {
			return 0
		}
		for k, q := range fn.Params {
			if ia.Index == ssa.Value(q) {
				return k + 1
			}
		}
		return 0
	}
	isSortSlice := false // sort.Slice less takes (i, j int): its parameters are indices, never elements
	if b, isB := fn.Params[0].Type().Underlying().(*types.Basic); isB && b.Kind() == types.Int {
		isSortSlice = true
	}
	whole := func(a, b ssa.Value) bool {
		ea, eb := elem(a), elem(b)
		if ea == 0 || eb == 0 || ea == eb {
			return false
		}
		if isSortSlice {
			if _, isP := a.(*ssa.Parameter); isP {
				return false
			}
			if _, isP := b.(*ssa.Parameter); isP {
				return false
			}
		}
		return true
	}
	res := ret.Results[0]
	if bo, isBO := res.(*ssa.BinOp); isBO {
		switch bo.Op {
		case token.LSS, token.GTR, token.LEQ, token.GEQ:
		default:
			return false
		}
		if whole(bo.X, bo.Y) {
			return true
		}
		// Compare(e_i, e_j) <op> 0
		call, isCall := bo.X.(*ssa.Call)
		if !isCall {
			return false
		}
		if k, isK := constInt(bo.Y); !isK || k != 0 {
			return false
		}
		pkg, name := calleePkgName(&call.Call)
		if !((pkg == "strings" || pkg == "bytes" || pkg == "cmp") && name == "Compare") || len(call.Call.Args) != 2 {
			return false
		}
		return whole(call.Call.Args[0], call.Call.Args[1])
	}
	// slices.SortFunc(s, cmp.Compare-like): return Compare(a, b)
	if call, isCall := res.(*ssa.Call); isCall && !isSortSlice {
		pkg, name := calleePkgName(&call.Call)
		if (pkg == "strings" || pkg == "bytes" || pkg == "cmp") && name == "Compare" && len(call.Call.Args) == 2 {
			return whole(call.Call.Args[0], call.Call.Args[1])
		}
	}
	return false
}

// collectThenSort recognises a map range whose body only builds local slices of
// keys (element stores or append) and where every later use of those slices is
// dominated by a sort.* / slices.Sort* call on them.
func collectThenSort(r *ssa.Range) (bool, string) {
	var next *ssa.Next
	for _, x := range *r.Referrers() {
		if n, ok := x.(*ssa.Next); ok {
			next = n
		}
	}
	if next == nil {
		return false, "no Next"
	}
	fn := r.Parent()
	head := next.Block()
	// natural loop: blocks that can reach head without leaving through the exit edge
	loop := map[*ssa.BasicBlock]bool{head: true}
	var back func(b *ssa.BasicBlock)
	back = func(b *ssa.BasicBlock) {
		if loop[b] {
			return
		}
		loop[b] = true
		for _, p := range b.Preds {
			back(p)
		}
	}
	for _, p := range head.Preds {
		if head.Dominates(p) {
			back(p)
		}
	}
	family := map[ssa.Value]bool{}
	for b := range loop {
		for _, in := range b.Instrs {
			switch x := in.(type) {
			case *ssa.Next, *ssa.Extract, *ssa.Phi, *ssa.If, *ssa.Jump, *ssa.DebugRef, *ssa.IndexAddr, *ssa.Slice, *ssa.BinOp, *ssa.Convert, *ssa.ChangeType:
			case *ssa.UnOp:
				if x.Op == token.ARROW {
					return false, "channel receive in loop"
				}
			case *ssa.Alloc:
				if x.Comment != "varargs" && x.Heap {
					return false, "heap allocation in loop"
				}
			case *ssa.Store:
				switch a := x.Addr.(type) {
				case *ssa.IndexAddr:
					root := a.X
					if al, ok := root.(*ssa.Alloc); ok && al.Comment == "varargs" {
						continue
					}
					if u, ok := root.(*ssa.UnOp); ok && u.Op == token.MUL {
						if al, ok := u.X.(*ssa.Alloc); ok {
							family[al] = true
							continue
						}
					}
					if _, ok := root.(*ssa.MakeSlice); ok {
						family[root] = true
						continue
					}
					return false, "element store into a non-local slice in loop"
				case *ssa.Alloc:
					// local variable update (counter, or slice variable after append)
					if _, isSlice := a.Type().(*types.Pointer).Elem().Underlying().(*types.Slice); isSlice {
						family[a] = true
					}
				default:
					return false, "store through a non-local address in loop"
				}
			case *ssa.Call:
				if b, ok := x.Call.Value.(*ssa.Builtin); ok && (b.Name() == "append" || b.Name() == "len" || b.Name() == "cap") {
					if b.Name() == "append" {
						family[x] = true
						family[x.Call.Args[0]] = true
					}
					continue
				}
				return false, "call to " + x.Call.Value.Name() + " inside the loop"
			default:
				return false, fmt.Sprintf("%T inside the loop", in)
			}
		}
	}
	if len(family) == 0 {
		return false, "loop collects nothing"
	}
	// close the family under phi / loads of family allocs
	for changed := true; changed; {
		changed = false
		for _, b := range fn.Blocks {
			for _, in := range b.Instrs {
				v, ok := in.(ssa.Value)
				if !ok || family[v] {
					continue
				}
				switch x := in.(type) {
				case *ssa.Phi:
					for _, e := range x.Edges {
						if family[e] {
							family[v] = true
							changed = true
						}
					}
				case *ssa.UnOp:
					if x.Op == token.MUL && family[x.X] {
						family[v] = true
						changed = true
					}
				case *ssa.MakeInterface:
					if family[x.X] {
						family[v] = true
						changed = true
					}
				}
			}
		}
		for v := range family {
			if ph, ok := v.(*ssa.Phi); ok {
				for _, e := range ph.Edges {
					if !family[e] {
						if _, isConst := e.(*ssa.Const); !isConst {
							family[e] = true
							changed = true
						}
					}
				}
			}
		}
	}
	// find sort calls on family members
	var sorts []ssa.Instruction
	for _, b := range fn.Blocks {
		for _, in := range b.Instrs {
			ci, ok := in.(*ssa.Call)
			if !ok {
				continue
			}
			pkg, name := calleePkgName(&ci.Call)
			isSort := (pkg == "sort" && (name == "Slice" || name == "SliceStable" || name == "Strings" || name == "Ints" || name == "Sort" || name == "Stable")) || (pkg == "slices" && strings.HasPrefix(name, "Sort"))
			if isSort && len(ci.Call.Args) > 0 && family[ci.Call.Args[0]] {
				// the order must be total on whole elements: two elements that compare equal must be
				// identical, otherwise ties keep the (random) map order. sort.Strings / sort.Ints /
				// slices.Sort order the elements themselves; a hand-written less must do the same.
				if pkg == "sort" && (name == "Sort" || name == "Stable") {
					return false, "sorted through a hand-written sort.Interface whose order cannot be shown total"
				}
				if (pkg == "sort" && (name == "Slice" || name == "SliceStable")) || (pkg == "slices" && strings.Contains(name, "Func")) {
					if len(ci.Call.Args) < 2 || !lessComparesWholeElements(ci.Call.Args[1]) {
						return false, "the sort compares a projection of the collected elements, not the elements themselves: elements that tie keep the random map order"
					}
				}
				sorts = append(sorts, in)
			}
		}
	}
	if len(sorts) == 0 {
		return false, "collected key slice is never sorted"
	}
	dominated := func(u ssa.Instruction) bool {
		for _, s := range sorts {
			if s == u {
				return true
			}
			if s.Block() == u.Block() {
				for _, in := range s.Block().Instrs {
					if in == s {
						return true
					}
					if in == u {
						break
					}
				}
			} else if s.Block().Dominates(u.Block()) {
				return true
			}
		}
		return false
	}
	for v := range family {
		if v.Referrers() == nil {
			continue
		}
		for _, u := range *v.Referrers() {
			if loop[u.Block()] {
				continue
			}
			if uv, ok := u.(ssa.Value); ok && family[uv] {
				continue
			}
			switch x := u.(type) {
			case *ssa.DebugRef:
				continue
			case *ssa.Store:
				if x.Addr == v || family[x.Val] {
					continue // initialisation of the slice variable
				}
			case *ssa.MakeClosure:
				continue // the less function
			}
			if !dominated(u) {
				return false, "collected keys are used before being sorted"
			}
		}
	}
	return true, "sort on the collected keys dominates every later use"
}

// d7Class: which calls must not drop their error.
func d7Class(m *Model, g *Graph, cc *ssa.CallCommon) string {
	sig := cc.Signature()
	hasErr := false
	for i := 0; i < sig.Results().Len(); i++ {
		if isErrorType(sig.Results().At(i).Type()) {
			hasErr = true
		}
	}
	if !hasErr {
		return ""
	}
	if cc.IsInvoke() {
		if t := m.TableOfIface(cc.Value.Type()); t != nil {
			return "ORM"
		}
		if n, ok := types.Unalias(cc.Value.Type()).(*types.Named); ok && n.Obj().Pkg() != nil && isRepoPkgPath(n.Obj().Pkg().Path()) {
			return "keeper-interface"
		}
		// iterator Value() etc. from api packages are static calls; other invokes: ignore
		return ""
	}
	sc := cc.StaticCallee()
	if sc == nil {
		return ""
	}
	pp := fnPkgPath(sc)
	if strings.HasSuffix(pp, "/types/v2/math") {
		return "types/math"
	}
	if isRepoPkgPath(pp) {
		if sc.Name() == "AccAddressFromBech32" {
			return ""
		}
		return "repo-function"
	}
	return ""
}

func isErrorType(t types.Type) bool {
	n, ok := types.Unalias(t).(*types.Named)
	return ok && n.Obj().Pkg() == nil && n.Obj().Name() == "error"
}

// errorDropped: the error component of the call result has no use.
func errorDropped(ci ssa.CallInstruction) (bool, string) {
	if _, isDefer := ci.(*ssa.Defer); isDefer {
		return false, ""
	}
	if _, isGo := ci.(*ssa.Go); isGo {
		return false, ""
	}
	v := ci.Value()
	if v == nil {
		return false, ""
	}
	sig := ci.Common().Signature()
	if sig.Results().Len() == 1 {
		if len(nonDebugRefs(v)) == 0 {
			return true, "result unused"
		}
		return false, ""
	}
	for i := 0; i < sig.Results().Len(); i++ {
		if !isErrorType(sig.Results().At(i).Type()) {
			continue
		}
		used := false
		for _, r := range nonDebugRefs(v) {
			if ex, ok := r.(*ssa.Extract); ok && ex.Index == i && len(nonDebugRefs(ex)) > 0 {
				used = true
			}
			if _, ok := r.(*ssa.Return); ok {
				used = true
			}
		}
		if !used {
			return true, "error component never read"
		}
	}
	return false, ""
}

func nonDebugRefs(v ssa.Value) []ssa.Instruction {
	var out []ssa.Instruction
	if v.Referrers() == nil {
		return nil
	}
	for _, r := range *v.Referrers() {
		if _, ok := r.(*ssa.DebugRef); ok {
			continue
		}
		out = append(out, r)
	}
	return out
}

// ---- D2 (time zone): the machine's local time zone never reaches a calendar computation ---------------
//
// Block time is UTC on every node. time.Unix / UnixMilli / UnixMicro, Time.Local, Time.In(time.Local) and
// time.Date(…, time.Local) yield the same instant in the zone of the machine the process runs on; the
// instant is safe to compare and to store, but Year, Month, Day, Hour, Weekday, YearDay, Date, Clock,
// ISOWeek, Format, String, Zone, Location … of such a value differ between validators in different zones.
// Taint: from those sources, through time arithmetic, local variables, φs and the parameters of
// hand-written callees; Time.UTC() clears it. A zone-dependent method on a tainted value is a violation.
var zoneSinks = map[string]bool{"Year": true, "Month": true, "Day": true, "Hour": true, "Minute": true, "Weekday": true, "YearDay": true, "Date": true, "Clock": true, "ISOWeek": true, "Format": true, "AppendFormat": true, "String": true, "GoString": true, "Zone": true, "ZoneBounds": true, "Location": true, "MarshalJSON": true, "MarshalText": true, "IsDST": true}

func ruleLocalZone(c *Ctx, m *Model, g *Graph, fns []*ssa.Function) {
	p := m.P
	tainted := map[ssa.Value]string{}
	isTime := func(t types.Type) bool { return typeIs(t, "time", "Time") }
	refsLocal := func(v ssa.Value) bool {
		if u, ok := v.(*ssa.UnOp); ok && u.Op == token.MUL {
			if gl, isG := u.X.(*ssa.Global); isG && gl.Pkg != nil && gl.Pkg.Pkg.Path() == "time" && gl.Name() == "Local" {
				return true
			}
		}
		return false
	}
	inSet := map[*ssa.Function]bool{}
	for _, f := range fns {
		inSet[f] = true
	}
	for changed, rounds := true, 0; changed && rounds < 8; rounds++ {
		changed = false
		mark := func(v ssa.Value, why string) {
			if v == nil {
				return
			}
			if _, has := tainted[v]; !has {
				tainted[v] = why
				changed = true
			}
		}
		for _, fn := range fns {
			for _, b := range fn.Blocks {
				for _, in := range b.Instrs {
					switch y := in.(type) {
					case *ssa.Call:
						pkg, name := calleePkgName(&y.Call)
						if pkg == "time" {
							switch name {
							case "Unix", "UnixMilli", "UnixMicro":
								mark(y, "time."+name+" at "+p.Pos(y.Pos()))
							case "Date", "ParseInLocation":
								for _, a := range y.Call.Args {
									if refsLocal(a) {
										mark(y, "time."+name+"(…, time.Local) at "+p.Pos(y.Pos()))
									}
								}
							case "Time.Local":
								mark(y, "Time.Local() at "+p.Pos(y.Pos()))
							case "Time.In":
								if len(y.Call.Args) == 2 && refsLocal(y.Call.Args[1]) {
									mark(y, "Time.In(time.Local) at "+p.Pos(y.Pos()))
								}
							case "Time.UTC":
								// clears
							default:
								// time arithmetic keeps the location of its receiver
								if strings.HasPrefix(name, "Time.") && len(y.Call.Args) > 0 && isTime(y.Type()) {
									if why, has := tainted[y.Call.Args[0]]; has {
										mark(y, why)
									}
								}
							}
							continue
						}
						// hand-written callee: parameters inherit, a tainted return taints the call
						if sc := y.Call.StaticCallee(); sc != nil && inSet[sc] {
							for i, a := range y.Call.Args {
								if why, has := tainted[a]; has && i < len(sc.Params) {
									mark(sc.Params[i], why)
								}
							}
							for _, b2 := range sc.Blocks {
								if ret, isR := b2.Instrs[len(b2.Instrs)-1].(*ssa.Return); isR {
									for _, rv := range ret.Results {
										if why, has := tainted[rv]; has && isTime(rv.Type()) && isTime(y.Type()) {
											mark(y, why)
										}
									}
								}
							}
						}
					case *ssa.Phi:
						for _, e := range y.Edges {
							if why, has := tainted[e]; has {
								mark(y, why)
							}
						}
					case *ssa.Extract:
						if why, has := tainted[y.Tuple]; has && isTime(y.Type()) {
							mark(y, why)
						}
					case *ssa.Store:
						if why, has := tainted[y.Val]; has {
							mark(y.Addr, why)
						}
					case *ssa.UnOp:
						if y.Op == token.MUL {
							if why, has := tainted[y.X]; has {
								mark(y, why)
							}
						}
					case *ssa.MakeClosure:
						if cf, isF := y.Fn.(*ssa.Function); isF {
							for i, bnd := range y.Bindings {
								if why, has := tainted[bnd]; has && i < len(cf.FreeVars) {
									mark(cf.FreeVars[i], why)
								}
							}
						}
					}
				}
			}
		}
	}
	n := 0
	for _, fn := range fns {
		for _, ci := range callsIn(fn) {
			pkg, name := calleePkgName(ci.Common())
			if pkg != "time" || !strings.HasPrefix(name, "Time.") || !zoneSinks[strings.TrimPrefix(name, "Time.")] || len(ci.Common().Args) == 0 {
				continue
			}
			n++
			if why, has := tainted[ci.Common().Args[0]]; has {
				c.Violate("C10.D2", funcKey(fn)+"#localzone:"+name, p.Pos(ci.Pos()), name+" is evaluated on a time value that carries the machine's local time zone ("+why+"): validators in different zones compute different calendar fields from the same block", nil)
			}
		}
	}
	c.Count("zone_dependent_time_calls", n)
}


// ruleInvariantsReadOnly (D9): the registered invariants run only on nodes that asked for them
// (inv-check-period, a node-local setting) and only at that node's period — whatever they write,
// some validators write and others do not. Nothing reachable from a module's RegisterInvariants writes
// to the ORM or moves coins.
func ruleInvariantsReadOnly(c *Ctx, m *Model, g *Graph) {
	p := m.P
	var roots []*ssa.Function
	for _, f := range m.subjectFns(false) {
		if f.Name() == "RegisterInvariants" && f.Signature.Recv() != nil {
			roots = append(roots, f)
		}
	}
	if len(roots) == 0 {
		return
	}
	n, bad := 0, 0
	for _, fn := range sortedFns(g.Closure(roots)) {
		if !g.isSubjectFn(fn) || isCanaryFn(fn) {
			continue
		}
		n++
		for _, ci := range callsIn(fn) {
			call, ok := ci.(*ssa.Call)
			if !ok {
				continue
			}
			what := ""
			if oc := m.AsORMCall(call); oc != nil && isWriteOp(oc.Kind) {
				what = oc.Table.Name + "." + oc.Method
			} else if bm := AsBankCall(call); bm != "" && isBankMutator(bm) {
				what = "bank." + bm
			}
			if what != "" {
				bad++
				c.Violate("C10.D9", funcKey(fn)+"#"+what, p.Pos(call.Pos()), "a registered invariant writes state ("+what+"): invariants run only on nodes with a non-zero inv-check-period and only at that node's period, so the write happens on some validators and not on others; reached via "+g.PathTo(fn), nil)
			}
		}
	}
	if bad == 0 {
		c.Hold("C10.D9", shortPkg(fnPkgPath(roots[0]))+"#invariants-read-only", p.Pos(roots[0].Pos()), fmt.Sprintf("no ORM write and no bank mutator in the %d functions reachable from RegisterInvariants", n), nil)
	}
}

// ruleConstructionDeterminism (D2 over the wiring): the objects the handlers run on — keepers, servers,
// the x/data hasher — are built once per process by the module's RegisterServices and the exported New…
// constructors. What those read from the process (environment, clock, random seeds, host, files) ends up in
// fields the consensus code computes with: a per-process maphash seed changes every data id after a restart,
// a gas constant taken from an environment variable makes validators disagree on out-of-gas (round-7 seeds).
// So the closure of the construction roots is held to the same D2 list as the consensus closure.
func ruleConstructionDeterminism(c *Ctx, m *Model, g *Graph, consensus map[*ssa.Function]bool) {
	p := m.P
	var roots []*ssa.Function
	for _, pk := range p.RepoList {
		if excludedPkg(pk.PkgPath) != "" {
			continue
		}
		sp := p.ssaPkgs[pk.Types]
		if sp == nil {
			continue
		}
		for _, mem := range sp.Members {
			switch x := mem.(type) {
			case *ssa.Function:
				if strings.HasPrefix(x.Name(), "New") && x.Object() != nil && x.Object().Exported() && g.isSubjectFn(x) {
					roots = append(roots, x)
				}
			case *ssa.Type:
				if !strings.HasSuffix(pk.PkgPath, "/module") {
					continue
				}
				for _, recv := range []types.Type{x.Type(), types.NewPointer(x.Type())} {
					ms := p.SSA.MethodSets.MethodSet(recv)
					for _, name := range []string{"RegisterServices", "RegisterInvariants"} {
						if sel := ms.Lookup(pk.Types, name); sel != nil {
							if f := p.SSA.MethodValue(sel); f != nil {
								roots = append(roots, f)
							}
						}
					}
				}
			}
		}
	}
	sort.Slice(roots, func(i, j int) bool { return funcKey(roots[i]) < funcKey(roots[j]) })
	cl := g.Closure(roots)
	n, bad := 0, 0
	for _, fn := range sortedFns(cl) {
		if !g.isSubjectFn(fn) || excludedPkg(fnPkgPath(fn)) != "" || isCanaryFn(fn) || consensus[fn] {
			continue // functions of the consensus closure are linted by the main scan
		}
		n++
		fk := funcKey(fn)
		for _, b := range fn.Blocks {
			for _, in := range b.Instrs {
				ci, ok := in.(ssa.CallInstruction)
				if !ok {
					continue
				}
				pkg, name := calleePkgName(ci.Common())
				full := pkg + "." + name
				why, isBad := forbiddenCalls[full]
				if full == "time.Now" {
					if v := ci.Value(); v != nil && flowsOnlyToTelemetry(v) {
						isBad = false
					}
				}
				switch pkg {
				case "math/rand", "math/rand/v2", "crypto/rand", "hash/maphash":
					why, isBad = "randomness source", true
				}
				if isBad {
					bad++
					c.Violate("C10.D2", fk+"#construct:"+full, p.Pos(in.Pos()), "call to "+full+" ("+why+") while the objects the consensus code runs on are constructed (reached via "+g.PathTo(fn)+"): a value read from the process ends up in a keeper / server / hasher field and differs between nodes and across restarts", nil)
				}
			}
		}
	}
	if bad == 0 {
		c.Check(len(roots) > 0 && n > 0, "C10.D2", shortPkg(m.P.ModDir)+"#construction", "-", fmt.Sprintf("%d construction roots (module RegisterServices / RegisterInvariants, exported New… constructors), %d further hand-written functions in their closure: no environment, clock, randomness, host or file read feeds the objects the handlers run on", len(roots), n))
	}
}

// ruleInvariantsStateOnly: a registered invariant is a predicate of the STATE — "never reports a failure in a
// reachable state" cannot hold for a predicate that also reads the block clock, height or header, because
// those move while the state stands still (round-7 seed C05-13: the basket invariant re-applied Put's date
// criteria — evaluated at block time — to the credits a basket already holds; a sliding window or an updated
// criterion then "breaks" a fully backed basket). No function reachable from RegisterInvariants reads
// BlockTime / BlockHeight / BlockHeader / HeaderHash of the sdk context.
func ruleInvariantsStateOnly(c *Ctx, m *Model, g *Graph, rule string) {
	p := m.P
	var roots []*ssa.Function
	for _, f := range m.subjectFns(false) {
		if f.Name() == "RegisterInvariants" && f.Signature.Recv() != nil {
			roots = append(roots, f)
		}
	}
	if len(roots) == 0 {
		c.Undecide(rule, "RegisterInvariants", "-", "no RegisterInvariants method found")
		return
	}
	n, bad := 0, 0
	for _, fn := range sortedFns(g.Closure(roots)) {
		if !g.isSubjectFn(fn) || isCanaryFn(fn) {
			continue
		}
		n++
		for _, ci := range callsIn(fn) {
			pkg, name := calleePkgName(ci.Common())
			if !strings.HasSuffix(pkg, "cosmos-sdk/types") {
				continue
			}
			switch name {
			case "Context.BlockTime", "Context.BlockHeight", "Context.BlockHeader", "Context.HeaderHash":
				bad++
				c.Violate(rule, funcKey(fn)+"#"+name, p.Pos(ci.Pos()), "a registered invariant reads "+name+": its verdict then depends on the clock / height, which change while the state does not — a state that satisfied it at one block fails it at another without any message; reached via "+g.PathTo(fn), nil)
			}
		}
	}
	if bad == 0 {
		c.Hold(rule, shortPkg(fnPkgPath(roots[0]))+"#invariants-state-only", p.Pos(roots[0].Pos()), fmt.Sprintf("none of the %d functions reachable from RegisterInvariants reads block time, height or header: the registered invariants are predicates of the state alone", n), nil)
	}
}

package main

// Byte-layout symbolic interpreter (engine E9, serves C15.CODEC).
//
// The IRI encoders build a byte sequence, hand it to base58.CheckEncode and glue the result into
// a string; the parser takes such a string apart again. Whether the two agree is decided by
// interpreting both over an abstract domain of byte sequences: a byte is a constant, "the
// narrowing of receiver field F", "input byte i", zero or unknown; a sequence is a list of such
// bytes plus an optional variable-length tail (the bytes of field F / the rest of the input).
// Integers that are constants stay concrete, so constant-trip loops unroll by themselves;
// unknown conditions fork the path. No instruction is matched by position or spelling: indexed
// stores + copy, append chains, fmt.Sprintf or string concatenation, ReadByte/Next/Bytes or
// direct indexing, helper functions and closures all reduce to the same summaries.

import (
	"fmt"
	"go/constant"
	"go/token"
	"go/types"
	"sort"
	"strings"

	"golang.org/x/tools/go/ssa"
)

type bv interface{}

type bvInt struct {
	known bool
	k     int64
	lenOf string // len(field)+k when non-empty
	sym   string // other symbolic integer ("ver", "len(split)")
}
type bvByte struct {
	kind string // k const | f field | in input | z zero | u unknown
	k    int64
	name string
	idx  int
}
type bvBytes struct { // slice view of a byte-sequence object
	obj int
	off int
}
type bvFieldBytes struct{ name string }
type bvField struct{ name string } // scalar / string field of the receiver
type bvRecv struct{}
type bstrPart struct {
	kind string // const | enc | field | in | u
	s    string
	seq  []bvByte
	tail string
	ver  bv
}
type bvStr struct{ parts []bstrPart }
type bvStrList struct{ of string }
type bvStrPartAddr struct{ i int64 }
type bvBool struct {
	known bool
	v     bool
	cond  string
	neg   bool
}
type bvErr struct {
	known bool
	isNil bool
	id    int
}
type bvTuple []bv
type bvPtr struct {
	obj  int
	path string
}
type bvElem struct { // address of one byte of a sequence object
	obj int
	idx int
}
type bvBuf struct{ obj int }
type bvClosure struct {
	fn    *ssa.Function
	binds []bv
}
type bvUnknown struct{ why string }
type bvNil struct{}

type bobj struct {
	kind   string // bytes | buf | cell | struct | array
	seq    []bvByte
	tail   string // "" | zeros:<field> | field:<field> | in:<from> | broken
	inBase int    // bytes objects that ARE the decoded input start at this input index (kind bytes, input=true)
	input  bool
	src    int // buf: bytes object
	cur    int
	f      map[string]bv
	t      types.Type
}

type bstate struct {
	mem   map[int]*bobj
	conds []string
	next  int
	cut   bool
}

func (s *bstate) clone() *bstate {
	n := &bstate{mem: make(map[int]*bobj, len(s.mem)), conds: append([]string{}, s.conds...), next: s.next, cut: s.cut}
	for id, o := range s.mem {
		c := *o
		c.seq = append([]bvByte{}, o.seq...)
		if o.f != nil {
			c.f = make(map[string]bv, len(o.f))
			for k, v := range o.f {
				c.f[k] = v
			}
		}
		n.mem[id] = &c
	}
	return n
}

func (s *bstate) newObj(kind string) (int, *bobj) {
	s.next++
	o := &bobj{kind: kind, f: map[string]bv{}}
	s.mem[s.next] = o
	return s.next, o
}

func (s *bstate) hasCond(c string) bool {
	for _, x := range s.conds {
		if x == c {
			return true
		}
	}
	return false
}

type bframe struct {
	fn     *ssa.Function
	env    map[ssa.Value]bv
	visits map[*ssa.BasicBlock]int
	recv   bool // params[0] is the message receiver
	depth  int
}

type boutcome struct {
	st   *bstate
	rets []bv
}

type bInterp struct {
	p     *Program
	steps int
	notes []string
	cut   bool // some path was abandoned at the visit / step cap
}

type bcont func(st *bstate, rets []bv)

func (x *bInterp) note(s string) {
	for _, n := range x.notes {
		if n == s {
			return
		}
	}
	x.notes = append(x.notes, s)
}

// run interprets fn with the given arguments and returns all outcomes.
func (x *bInterp) run(fn *ssa.Function, args []bv) []boutcome {
	var outs []boutcome
	st := &bstate{mem: map[int]*bobj{}}
	x.callFn(fn, args, nil, st, 0, func(st2 *bstate, rets []bv) {
		outs = append(outs, boutcome{st2, rets})
	})
	return outs
}

func (x *bInterp) callFn(fn *ssa.Function, args []bv, binds []bv, st *bstate, depth int, k bcont) {
	fr := &bframe{fn: fn, env: map[ssa.Value]bv{}, visits: map[*ssa.BasicBlock]int{}, depth: depth}
	for i, p := range fn.Params {
		if i < len(args) {
			fr.env[p] = args[i]
		} else {
			fr.env[p] = &bvUnknown{"param"}
		}
	}
	for i, fv := range fn.FreeVars {
		if i < len(binds) {
			fr.env[fv] = binds[i]
		}
	}
	if len(fn.Blocks) == 0 {
		k(st, nil)
		return
	}
	x.block(fr, fn.Blocks[0], nil, st, k)
}

func (x *bInterp) block(fr *bframe, b, prev *ssa.BasicBlock, st *bstate, k bcont) {
	fr.visits[b]++
	if fr.visits[b] > 40 || x.steps > 400000 {
		x.cut = true
		fr.visits[b]--
		return
	}
	defer func() { fr.visits[b]-- }()
	// phis first (parallel assignment)
	if prev != nil {
		pi := -1
		for i, pb := range b.Preds {
			if pb == prev {
				pi = i
			}
		}
		vals := map[*ssa.Phi]bv{}
		for _, in := range b.Instrs {
			ph, ok := in.(*ssa.Phi)
			if !ok {
				break
			}
			if pi >= 0 {
				vals[ph] = x.eval(fr, st, ph.Edges[pi])
			}
		}
		for ph, v := range vals {
			fr.env[ph] = v
		}
	}
	x.instrs(fr, b, 0, st, k)
}

func (x *bInterp) instrs(fr *bframe, b *ssa.BasicBlock, from int, st *bstate, k bcont) {
	for i := from; i < len(b.Instrs); i++ {
		x.steps++
		switch in := b.Instrs[i].(type) {
		case *ssa.Phi:
			continue
		case *ssa.If:
			c := x.eval(fr, st, in.Cond)
			bb, ok := c.(*bvBool)
			if ok && bb.known {
				t := b.Succs[0]
				if !bb.v {
					t = b.Succs[1]
				}
				x.block(fr, t, b, st, k)
				return
			}
			cond, neg := "?", false
			if ok {
				cond, neg = bb.cond, bb.neg
			}
			for bi, succ := range b.Succs {
				truth := bi == 0
				if neg {
					truth = !truth
				}
				lit := cond
				if !truth {
					lit = "!" + cond
				}
				if cond != "?" {
					opp := "!" + cond
					if !truth {
						opp = cond
					}
					if st.hasCond(opp) || (truth && contradicts(st, cond)) {
						continue // infeasible
					}
				}
				st2 := st.clone()
				fr2 := &bframe{fn: fr.fn, env: make(map[ssa.Value]bv, len(fr.env)), visits: fr.visits, depth: fr.depth}
				for kk, vv := range fr.env {
					fr2.env[kk] = vv
				}
				if cond != "?" && !st2.hasCond(lit) {
					st2.conds = append(st2.conds, lit)
				}
				x.block(fr2, succ, b, st2, k)
			}
			return
		case *ssa.Jump:
			x.block(fr, b.Succs[0], b, st, k)
			return
		case *ssa.Return:
			var rets []bv
			for _, r := range in.Results {
				rets = append(rets, x.eval(fr, st, r))
			}
			k(st, rets)
			return
		case *ssa.Panic:
			return
		case *ssa.Call:
			if x.call(fr, b, i, in, st, k) {
				return
			}
		default:
			x.step(fr, st, in)
		}
	}
}

// contradicts: adding "in[i]==k" / "ver==k" / `part=="s"` as true contradicts an equal-subject fact already true.
func contradicts(st *bstate, cond string) bool {
	i := strings.Index(cond, "==")
	if i < 0 {
		return false
	}
	subj := cond[:i+2]
	for _, c := range st.conds {
		if strings.HasPrefix(c, subj) && c != cond {
			return true
		}
	}
	return false
}

func constOf(c *ssa.Const) bv {
	if c.Value == nil {
		if _, isIface := c.Type().Underlying().(*types.Interface); isIface || isErrorType(c.Type()) {
			return &bvErr{known: true, isNil: true}
		}
		return &bvNil{}
	}
	switch c.Value.Kind() {
	case constant.Bool:
		return &bvBool{known: true, v: constant.BoolVal(c.Value)}
	case constant.String:
		return &bvStr{parts: []bstrPart{{kind: "const", s: constant.StringVal(c.Value)}}}
	case constant.Int:
		n, _ := constant.Int64Val(c.Value)
		if bt, ok := c.Type().Underlying().(*types.Basic); ok && (bt.Kind() == types.Uint8) {
			return &bvByte{kind: "k", k: n}
		}
		return &bvInt{known: true, k: n}
	}
	return &bvUnknown{"const"}
}

func (x *bInterp) eval(fr *bframe, st *bstate, v ssa.Value) bv {
	if c, ok := v.(*ssa.Const); ok {
		return constOf(c)
	}
	if r, ok := fr.env[v]; ok {
		return r
	}
	switch g := v.(type) {
	case *ssa.Function:
		return &bvClosure{fn: g}
	case *ssa.Global:
		return &bvUnknown{"global " + g.Name()}
	}
	return &bvUnknown{"undef"}
}

func isByteSlice(t types.Type) bool {
	if sl, ok := t.Underlying().(*types.Slice); ok {
		if bt, ok := sl.Elem().Underlying().(*types.Basic); ok && bt.Kind() == types.Uint8 {
			return true
		}
	}
	return false
}

func isByteArray(t types.Type) (int64, bool) {
	if a, ok := t.Underlying().(*types.Array); ok {
		if bt, ok := a.Elem().Underlying().(*types.Basic); ok && bt.Kind() == types.Uint8 {
			return a.Len(), true
		}
	}
	return 0, false
}

// fieldOfRecv: a field of the message receiver, typed by what it is.
func fieldOfRecv(structT types.Type, idx int) bv {
	name := fieldName(structT, idx)
	st, ok := derefStruct(structT)
	if !ok {
		return &bvUnknown{"field"}
	}
	ft := st.Field(idx).Type()
	if isByteSlice(ft) {
		return &bvFieldBytes{name}
	}
	return &bvField{name}
}

func derefStruct(t types.Type) (*types.Struct, bool) {
	if p, ok := t.Underlying().(*types.Pointer); ok {
		t = p.Elem()
	}
	s, ok := t.Underlying().(*types.Struct)
	return s, ok
}

func (x *bInterp) load(st *bstate, addr bv) bv {
	switch a := addr.(type) {
	case *bvPtr:
		o := st.mem[a.obj]
		if o == nil {
			return &bvUnknown{"dangling"}
		}
		if o.kind == "bytes" && a.path == "" {
			return &bvBytes{obj: a.obj} // *[n]byte used as a value
		}
		if v, ok := o.f[a.path]; ok {
			return v
		}
		// an aggregate: hand out the pointer itself (struct values are read field-wise)
		for k := range o.f {
			if strings.HasPrefix(k, a.path+".") || strings.HasPrefix(k, a.path+"[") {
				return &bvPtr{obj: a.obj, path: a.path}
			}
		}
		return &bvUnknown{"uninitialised " + a.path}
	case *bvElem:
		o := st.mem[a.obj]
		if o == nil {
			return &bvUnknown{"dangling"}
		}
		return x.byteAt(o, a.idx)
	case *bvRecv:
		return &bvRecv{}
	case *bvField:
		return a
	case *bvFieldBytes:
		return a
	case *bvStrPartAddr:
		return &bvStr{parts: []bstrPart{{kind: "in", s: fmt.Sprintf("part%d", a.i)}}}
	}
	return &bvUnknown{"load"}
}

func (x *bInterp) byteAt(o *bobj, idx int) bv {
	if o.input {
		return &bvByte{kind: "in", idx: o.inBase + idx}
	}
	if idx >= 0 && idx < len(o.seq) {
		b := o.seq[idx]
		return &b
	}
	return &bvByte{kind: "u"}
}

func (x *bInterp) store(st *bstate, addr, val bv) {
	switch a := addr.(type) {
	case *bvPtr:
		if o := st.mem[a.obj]; o != nil {
			o.f[a.path] = val
		}
	case *bvElem:
		if o := st.mem[a.obj]; o != nil && !o.input {
			b, ok := val.(*bvByte)
			if !ok {
				b = &bvByte{kind: "u"}
			}
			if a.idx >= 0 && a.idx < len(o.seq) {
				o.seq[a.idx] = *b
			} else {
				o.tail = "broken"
			}
		}
	}
}

func (x *bInterp) step(fr *bframe, st *bstate, in ssa.Instruction) {
	switch ins := in.(type) {
	case *ssa.Alloc:
		elem := ins.Type().(*types.Pointer).Elem()
		if n, ok := isByteArray(elem); ok {
			id, o := st.newObj("bytes")
			for i := int64(0); i < n; i++ {
				o.seq = append(o.seq, bvByte{kind: "z"})
			}
			fr.env[ins] = &bvPtr{obj: id}
			return
		}
		id, o := st.newObj("cell")
		o.t = elem
		fr.env[ins] = &bvPtr{obj: id}
	case *ssa.Store:
		av, vv := x.eval(fr, st, ins.Addr), x.eval(fr, st, ins.Val)
		// a struct VALUE is handed around as the address of its fields: storing it copies the fields
		// (value receivers and by-value parameters are spilled this way)
		if _, isStruct := ins.Val.Type().Underlying().(*types.Struct); isStruct {
			if dp, okD := av.(*bvPtr); okD {
				if sp, okS := vv.(*bvPtr); okS {
					so, do := st.mem[sp.obj], st.mem[dp.obj]
					if so != nil && do != nil && so.f != nil {
						if do.f == nil {
							do.f = map[string]bv{}
						}
						copied := false
						for k, v := range so.f {
							if strings.HasPrefix(k, sp.path+".") || strings.HasPrefix(k, sp.path+"[") {
								do.f[dp.path+k[len(sp.path):]] = v
								copied = true
							}
						}
						if copied {
							return
						}
					}
				}
			}
		}
		x.store(st, av, vv)
	case *ssa.UnOp:
		v := x.eval(fr, st, ins.X)
		switch ins.Op {
		case token.MUL:
			lv := x.load(st, v)
			// a package-level error variable (io.EOF, ErrInvalidIRI …) is a non-nil sentinel, as in E1
			if g, isG := ins.X.(*ssa.Global); isG && isErrorType(ins.Type()) {
				_ = g
				st.next++
				lv = &bvErr{known: true, isNil: false, id: st.next}
			}
			// a never-written slot of a local is Go's zero value (a cursor's offset starts at 0)
			if u, isU := lv.(*bvUnknown); isU && strings.HasPrefix(u.why, "uninitialised") {
				if bt, isB := ins.Type().Underlying().(*types.Basic); isB {
					switch {
					case bt.Info()&types.IsInteger != 0:
						lv = &bvInt{known: true, k: 0}
					case bt.Info()&types.IsBoolean != 0:
						lv = &bvBool{known: true, v: false}
					}
				}
			}
			fr.env[ins] = lv
		case token.NOT:
			if b, ok := v.(*bvBool); ok {
				if b.known {
					fr.env[ins] = &bvBool{known: true, v: !b.v}
				} else {
					fr.env[ins] = &bvBool{cond: b.cond, neg: !b.neg}
				}
			} else {
				fr.env[ins] = &bvBool{cond: "?"}
			}
		case token.SUB:
			if n, ok := v.(*bvInt); ok && n.known {
				fr.env[ins] = &bvInt{known: true, k: -n.k}
			} else {
				fr.env[ins] = &bvUnknown{"neg"}
			}
		default:
			fr.env[ins] = &bvUnknown{"unop"}
		}
	case *ssa.FieldAddr:
		base := x.eval(fr, st, ins.X)
		switch b := base.(type) {
		case *bvRecv:
			fr.env[ins] = fieldOfRecv(ins.X.Type(), ins.Field)
		case *bvPtr:
			if o := st.mem[b.obj]; o != nil && b.path == "" && o.f[""] != nil {
				if _, isRecv := o.f[""].(*bvRecv); isRecv { // spilled receiver
					fr.env[ins] = fieldOfRecv(ins.X.Type(), ins.Field)
					return
				}
			}
			fr.env[ins] = &bvPtr{obj: b.obj, path: b.path + "." + fieldName(ins.X.Type(), ins.Field)}
		default:
			fr.env[ins] = &bvUnknown{"fieldaddr"}
		}
	case *ssa.Field:
		base := x.eval(fr, st, ins.X)
		switch b := base.(type) {
		case *bvRecv:
			fr.env[ins] = fieldOfRecv(ins.X.Type(), ins.Field)
		case *bvPtr:
			fr.env[ins] = x.load(st, &bvPtr{obj: b.obj, path: b.path + "." + fieldName(ins.X.Type(), ins.Field)})
		default:
			fr.env[ins] = &bvUnknown{"field"}
		}
	case *ssa.IndexAddr:
		base := x.eval(fr, st, ins.X)
		idx, _ := x.eval(fr, st, ins.Index).(*bvInt)
		switch b := base.(type) {
		case *bvStrList:
			if idx != nil && idx.known {
				fr.env[ins] = &bvStrPartAddr{i: idx.k}
			} else {
				fr.env[ins] = &bvUnknown{"index"}
			}
		case *bvBytes:
			if idx != nil && idx.known {
				fr.env[ins] = &bvElem{obj: b.obj, idx: b.off + int(idx.k)}
			} else {
				if o := st.mem[b.obj]; o != nil && !o.input {
					o.tail = "broken"
				}
				fr.env[ins] = &bvUnknown{"index"}
			}
		case *bvPtr:
			if o := st.mem[b.obj]; o != nil && o.kind == "bytes" {
				if idx != nil && idx.known {
					fr.env[ins] = &bvElem{obj: b.obj, idx: int(idx.k)}
				} else {
					o.tail = "broken"
					fr.env[ins] = &bvUnknown{"index"}
				}
				return
			}
			if idx != nil && idx.known {
				fr.env[ins] = &bvPtr{obj: b.obj, path: fmt.Sprintf("%s[%d]", b.path, idx.k)}
			} else {
				fr.env[ins] = &bvUnknown{"index"}
			}
		default:
			fr.env[ins] = &bvUnknown{"indexaddr"}
		}
	case *ssa.Index:
		base := x.eval(fr, st, ins.X)
		idx, _ := x.eval(fr, st, ins.Index).(*bvInt)
		switch b := base.(type) {
		case *bvStrList:
			if idx != nil && idx.known {
				fr.env[ins] = &bvStr{parts: []bstrPart{{kind: "in", s: fmt.Sprintf("part%d", idx.k)}}}
				return
			}
		case *bvBytes:
			if o := st.mem[b.obj]; o != nil && idx != nil && idx.known {
				fr.env[ins] = x.byteAt(o, b.off+int(idx.k))
				return
			}
		}
		fr.env[ins] = &bvUnknown{"index"}
	case *ssa.Slice:
		base := x.eval(fr, st, ins.X)
		low := 0
		if ins.Low != nil {
			if n, ok := x.eval(fr, st, ins.Low).(*bvInt); ok && n.known {
				low = int(n.k)
			} else {
				fr.env[ins] = &bvUnknown{"slice low"}
				return
			}
		}
		switch b := base.(type) {
		case *bvBytes:
			if ins.High != nil {
				// bz[:0] of a fresh buffer: the empty prefix
				if n, ok := x.eval(fr, st, ins.High).(*bvInt); ok && n.known && low == 0 {
					if o := st.mem[b.obj]; o != nil && !o.input && int(n.k) <= len(o.seq)-b.off {
						id, no := st.newObj("bytes")
						no.seq = append(no.seq, o.seq[b.off:b.off+int(n.k)]...)
						fr.env[ins] = &bvBytes{obj: id}
						return
					}
				}
				fr.env[ins] = &bvUnknown{"slice high"}
				return
			}
			fr.env[ins] = &bvBytes{obj: b.obj, off: b.off + low}
		case *bvPtr:
			if o := st.mem[b.obj]; o != nil && o.kind == "bytes" {
				if ins.High != nil {
					if n, ok := x.eval(fr, st, ins.High).(*bvInt); ok && n.known && low == 0 && int(n.k) <= len(o.seq) {
						id, no := st.newObj("bytes")
						no.seq = append(no.seq, o.seq[:int(n.k)]...)
						fr.env[ins] = &bvBytes{obj: id}
						return
					}
					fr.env[ins] = &bvUnknown{"slice high"}
					return
				}
				fr.env[ins] = &bvBytes{obj: b.obj, off: low}
				return
			}
			fr.env[ins] = &bvPtr{obj: b.obj, path: b.path} // slice of a local array (varargs)
		case *bvStr:
			if len(b.parts) == 1 && b.parts[0].kind == "in" && ins.High == nil {
				fr.env[ins] = &bvStr{parts: []bstrPart{{kind: "in", s: fmt.Sprintf("%s[%d:]", b.parts[0].s, low)}}}
				return
			}
			fr.env[ins] = &bvStr{parts: []bstrPart{{kind: "u"}}}
		case *bvFieldBytes:
			if low == 0 && ins.High == nil {
				fr.env[ins] = b
				return
			}
			fr.env[ins] = &bvUnknown{"slice of field"}
		default:
			fr.env[ins] = &bvUnknown{"slice"}
		}
	case *ssa.MakeSlice:
		if !isByteSlice(ins.Type()) {
			id, _ := st.newObj("array")
			fr.env[ins] = &bvPtr{obj: id}
			return
		}
		id, o := st.newObj("bytes")
		if n, ok := x.eval(fr, st, ins.Len).(*bvInt); ok {
			switch {
			case n.known:
				for i := int64(0); i < n.k; i++ {
					o.seq = append(o.seq, bvByte{kind: "z"})
				}
			case n.lenOf != "":
				for i := int64(0); i < n.k; i++ {
					o.seq = append(o.seq, bvByte{kind: "z"})
				}
				o.tail = "zeros:" + n.lenOf
			default:
				o.tail = "broken"
			}
		} else {
			o.tail = "broken"
		}
		fr.env[ins] = &bvBytes{obj: id}
	case *ssa.Convert:
		v := x.eval(fr, st, ins.X)
		bt, _ := ins.Type().Underlying().(*types.Basic)
		switch s := v.(type) {
		case *bvField:
			if bt != nil && bt.Kind() == types.Uint8 {
				fr.env[ins] = &bvByte{kind: "f", name: s.name}
				return
			}
			fr.env[ins] = s
		case *bvByte:
			fr.env[ins] = s // widening keeps the byte
		case *bvInt:
			if bt != nil && bt.Kind() == types.Uint8 && s.known {
				fr.env[ins] = &bvByte{kind: "k", k: s.k}
				return
			}
			fr.env[ins] = s
		case *bvBytes:
			if bt != nil && bt.Info()&types.IsString != 0 {
				fr.env[ins] = &bvStr{parts: []bstrPart{{kind: "u"}}}
				return
			}
			fr.env[ins] = s
		default:
			fr.env[ins] = v
		}
	case *ssa.ChangeType:
		fr.env[ins] = x.eval(fr, st, ins.X)
	case *ssa.ChangeInterface:
		fr.env[ins] = x.eval(fr, st, ins.X)
	case *ssa.MakeInterface:
		fr.env[ins] = x.eval(fr, st, ins.X)
	case *ssa.TypeAssert:
		v := x.eval(fr, st, ins.X)
		if ins.CommaOk {
			fr.env[ins] = bvTuple{v, &bvBool{cond: "?"}}
		} else {
			fr.env[ins] = v
		}
	case *ssa.Extract:
		if t, ok := x.eval(fr, st, ins.Tuple).(bvTuple); ok && ins.Index < len(t) {
			fr.env[ins] = t[ins.Index]
		} else {
			fr.env[ins] = x.unknownOf(st, ins.Type())
		}
	case *ssa.MakeClosure:
		var binds []bv
		for _, b := range ins.Bindings {
			binds = append(binds, x.eval(fr, st, b))
		}
		fr.env[ins] = &bvClosure{fn: ins.Fn.(*ssa.Function), binds: binds}
	case *ssa.BinOp:
		fr.env[ins] = x.binop(fr, st, ins)
	case *ssa.Range, *ssa.Next, *ssa.Lookup, *ssa.MakeMap, *ssa.MapUpdate, *ssa.MakeChan, *ssa.Select, *ssa.Send:
		if v, ok := in.(ssa.Value); ok {
			fr.env[v] = &bvUnknown{"unsupported"}
		}
	case *ssa.Defer, *ssa.RunDefers, *ssa.Go, *ssa.DebugRef:
	default:
		if v, ok := in.(ssa.Value); ok {
			fr.env[v] = &bvUnknown{"unsupported"}
		}
	}
}

func (x *bInterp) unknownOf(st *bstate, t types.Type) bv {
	if isErrorType(t) {
		st.next++
		return &bvErr{id: st.next}
	}
	if bt, ok := t.Underlying().(*types.Basic); ok && bt.Info()&types.IsBoolean != 0 {
		return &bvBool{cond: "?"}
	}
	return &bvUnknown{"opaque"}
}

func strTerm(s *bvStr) string {
	var ps []string
	for _, p := range s.parts {
		switch p.kind {
		case "const":
			ps = append(ps, fmt.Sprintf("%q", p.s))
		default:
			ps = append(ps, p.kind+":"+p.s)
		}
	}
	return strings.Join(ps, "+")
}

func (x *bInterp) binop(fr *bframe, st *bstate, ins *ssa.BinOp) bv {
	a, b := x.eval(fr, st, ins.X), x.eval(fr, st, ins.Y)
	switch ins.Op {
	case token.ADD, token.SUB:
		// a string field of the receiver concatenates like a string
		if bt, isB := ins.Type().Underlying().(*types.Basic); isB && bt.Info()&types.IsString != 0 {
			if f, ok := a.(*bvField); ok {
				a = &bvStr{parts: []bstrPart{{kind: "field", s: f.name}}}
			}
			if f, ok := b.(*bvField); ok {
				b = &bvStr{parts: []bstrPart{{kind: "field", s: f.name}}}
			}
		}
		if sa, ok := a.(*bvStr); ok {
			if sb, ok := b.(*bvStr); ok && ins.Op == token.ADD {
				return &bvStr{parts: append(append([]bstrPart{}, sa.parts...), sb.parts...)}
			}
		}
		ia, okA := a.(*bvInt)
		ib, okB := b.(*bvInt)
		if okA && okB {
			sign := int64(1)
			if ins.Op == token.SUB {
				sign = -1
			}
			switch {
			case ia.known && ib.known:
				return &bvInt{known: true, k: ia.k + sign*ib.k}
			case ia.lenOf != "" && ib.known:
				return &bvInt{lenOf: ia.lenOf, k: ia.k + sign*ib.k}
			case ib.lenOf != "" && ia.known && sign == 1:
				return &bvInt{lenOf: ib.lenOf, k: ib.k + ia.k}
			}
		}
		return &bvInt{sym: "?"}
	case token.MUL, token.QUO, token.REM, token.SHL, token.SHR, token.AND, token.OR, token.XOR:
		ia, okA := a.(*bvInt)
		ib, okB := b.(*bvInt)
		if okA && okB && ia.known && ib.known {
			switch ins.Op {
			case token.MUL:
				return &bvInt{known: true, k: ia.k * ib.k}
			}
		}
		return &bvInt{sym: "?"}
	case token.EQL, token.NEQ, token.LSS, token.GTR, token.LEQ, token.GEQ:
		neg := ins.Op == token.NEQ
		// errors against nil
		if e, ok := a.(*bvErr); ok {
			return errNil(e, b, neg)
		}
		if e, ok := b.(*bvErr); ok {
			return errNil(e, a, neg)
		}
		if _, isNil := b.(*bvNil); isNil {
			return nilCmp(a, neg)
		}
		if _, isNil := a.(*bvNil); isNil {
			return nilCmp(b, neg)
		}
		// integers (constant bytes compare like constant integers)
		if kb, ok := a.(*bvByte); ok && kb.kind == "k" {
			if _, other := b.(*bvInt); other {
				a = &bvInt{known: true, k: kb.k}
			}
		}
		if kb, ok := b.(*bvByte); ok && kb.kind == "k" {
			if _, other := a.(*bvInt); other {
				b = &bvInt{known: true, k: kb.k}
			}
		}
		if ia, ok := a.(*bvInt); ok {
			if ib, ok := b.(*bvInt); ok {
				if ia.known && ib.known {
					var r bool
					switch ins.Op {
					case token.EQL:
						r = ia.k == ib.k
					case token.NEQ:
						r = ia.k != ib.k
					case token.LSS:
						r = ia.k < ib.k
					case token.GTR:
						r = ia.k > ib.k
					case token.LEQ:
						r = ia.k <= ib.k
					case token.GEQ:
						r = ia.k >= ib.k
					}
					return &bvBool{known: true, v: r}
				}
				if (ins.Op == token.EQL || ins.Op == token.NEQ) && (ia.sym != "" && ia.sym != "?" && ib.known || ib.sym != "" && ib.sym != "?" && ia.known) {
					s, k := ia.sym, ib.k
					if ia.known {
						s, k = ib.sym, ia.k
					}
					return &bvBool{cond: fmt.Sprintf("%s==%d", s, k), neg: neg}
				}
			}
		}
		// bytes
		ba, okA := a.(*bvByte)
		bb, okB := b.(*bvByte)
		if (ins.Op == token.EQL || ins.Op == token.NEQ) && okA && okB {
			if ba.kind == "k" && bb.kind == "k" {
				return &bvBool{known: true, v: (ba.k == bb.k) != neg}
			}
			if ba.kind == "in" && bb.kind == "k" {
				return &bvBool{cond: fmt.Sprintf("in[%d]==%d", ba.idx, bb.k), neg: neg}
			}
			if bb.kind == "in" && ba.kind == "k" {
				return &bvBool{cond: fmt.Sprintf("in[%d]==%d", bb.idx, ba.k), neg: neg}
			}
		}
		if okA {
			if ib, ok := b.(*bvInt); ok && ib.known && ba.kind == "in" && (ins.Op == token.EQL || ins.Op == token.NEQ) {
				return &bvBool{cond: fmt.Sprintf("in[%d]==%d", ba.idx, ib.k), neg: neg}
			}
		}
		// strings
		if sa, ok := a.(*bvStr); ok {
			if sb, ok := b.(*bvStr); ok && (ins.Op == token.EQL || ins.Op == token.NEQ) {
				ta, tb := strTerm(sa), strTerm(sb)
				if len(sa.parts) == 1 && len(sb.parts) == 1 && sa.parts[0].kind == "const" && sb.parts[0].kind == "const" {
					return &bvBool{known: true, v: (sa.parts[0].s == sb.parts[0].s) != neg}
				}
				if len(sb.parts) == 1 && sb.parts[0].kind == "const" {
					return &bvBool{cond: ta + "==" + tb, neg: neg}
				}
				if len(sa.parts) == 1 && sa.parts[0].kind == "const" {
					return &bvBool{cond: tb + "==" + ta, neg: neg}
				}
			}
		}
		return &bvBool{cond: "?"}
	}
	return &bvUnknown{"binop"}
}

func errNil(e *bvErr, other bv, neg bool) bv {
	o, ok := other.(*bvErr)
	if !ok {
		return &bvBool{cond: "?"}
	}
	if e.known && e.isNil && !(o.known && o.isNil) {
		e, o = o, e // nil == err
	}
	if !o.known || !o.isNil {
		return &bvBool{cond: "?"}
	}
	if e.known {
		return &bvBool{known: true, v: e.isNil != neg}
	}
	return &bvBool{cond: fmt.Sprintf("errnil:%d", e.id), neg: neg}
}

func nilCmp(v bv, neg bool) bv {
	switch v.(type) {
	case *bvPtr, *bvBytes, *bvBuf:
		return &bvBool{known: true, v: neg}
	case *bvNil:
		return &bvBool{known: true, v: !neg}
	}
	return &bvBool{cond: "?"}
}

// ---- calls -----------------------------------------------------------------------------

func (x *bInterp) call(fr *bframe, b *ssa.BasicBlock, idx int, ins *ssa.Call, st *bstate, k bcont) bool {
	cc := &ins.Call
	var args []bv
	for _, a := range cc.Args {
		args = append(args, x.eval(fr, st, a))
	}
	set := func(v bv) bool { fr.env[ins] = v; return false }
	if bi, ok := cc.Value.(*ssa.Builtin); ok {
		return set(x.builtin(st, bi.Name(), ins, args))
	}
	var callee *ssa.Function
	var binds []bv
	if cc.IsInvoke() {
		return set(x.opaque(st, ins))
	}
	if sc := cc.StaticCallee(); sc != nil {
		callee = sc
		if mc, ok := cc.Value.(*ssa.MakeClosure); ok {
			for _, bnd := range mc.Bindings {
				binds = append(binds, x.eval(fr, st, bnd))
			}
		}
	} else if cv, ok := x.eval(fr, st, cc.Value).(*bvClosure); ok {
		callee, binds = cv.fn, cv.binds
	}
	if callee == nil {
		return set(x.opaque(st, ins))
	}
	if v, ok := x.intrinsic(st, callee, ins, args); ok {
		return set(v)
	}
	// error constructors yield non-nil errors
	if ins.Call.Signature().Results().Len() == 1 && isErrorType(ins.Call.Signature().Results().At(0).Type()) {
		pkg, name := calleePkgName(cc)
		switch {
		case (strings.HasSuffix(name, ".Wrap") || strings.HasSuffix(name, ".Wrapf")) && callee.Signature.Recv() != nil,
			pkg == "fmt" && name == "Errorf", pkg == "errors" && name == "New":
			return set(&bvErr{known: true, isNil: false})
		case (name == "Wrap" || name == "Wrapf") && callee.Signature.Recv() == nil && len(args) > 0:
			if e, ok := args[0].(*bvErr); ok {
				return set(e)
			}
		}
	}
	// inline closures and hand-written functions of the analysed repository
	if len(callee.Blocks) > 0 && isRepoPkgPath(fnPkgPath(callee)) && pos0(x.p, callee) && fr.depth < 4 && !isValidateLike(callee) {
		x.callFn(callee, args, binds, st, fr.depth+1, func(st2 *bstate, rets []bv) {
			fr2 := &bframe{fn: fr.fn, env: make(map[ssa.Value]bv, len(fr.env)+1), visits: fr.visits, depth: fr.depth}
			for kk, vv := range fr.env {
				fr2.env[kk] = vv
			}
			switch len(rets) {
			case 0:
			case 1:
				fr2.env[ins] = rets[0]
			default:
				fr2.env[ins] = bvTuple(rets)
			}
			x.instrs(fr2, b, idx+1, st2, k)
		})
		return true
	}
	return set(x.opaque(st, ins))
}

// isValidateLike: validators are kept opaque (they only decide success/failure).
func isValidateLike(fn *ssa.Function) bool {
	return fn.Name() == "Validate" || fn.Name() == "ValidateBasic" || strings.HasPrefix(fn.Name(), "validate")
}

func (x *bInterp) opaque(st *bstate, ins *ssa.Call) bv {
	res := ins.Call.Signature().Results()
	switch res.Len() {
	case 0:
		return nil
	case 1:
		return x.unknownOf(st, res.At(0).Type())
	}
	var t bvTuple
	for i := 0; i < res.Len(); i++ {
		t = append(t, x.unknownOf(st, res.At(i).Type()))
	}
	return t
}

func (x *bInterp) seqOf(st *bstate, v bv) (seq []bvByte, tail string, ok bool) {
	switch s := v.(type) {
	case *bvBytes:
		o := st.mem[s.obj]
		if o == nil {
			return nil, "", false
		}
		if o.input {
			return nil, fmt.Sprintf("in:%d", o.inBase+s.off), true
		}
		if s.off > len(o.seq) {
			return nil, "", false
		}
		return append([]bvByte{}, o.seq[s.off:]...), o.tail, true
	case *bvPtr:
		if o := st.mem[s.obj]; o != nil && o.kind == "bytes" {
			return append([]bvByte{}, o.seq...), o.tail, true
		}
	case *bvFieldBytes:
		return nil, "field:" + s.name, true
	case *bvNil:
		return nil, "", true
	}
	return nil, "", false
}

func (x *bInterp) builtin(st *bstate, name string, ins *ssa.Call, args []bv) bv {
	switch name {
	case "len", "cap":
		switch a := args[0].(type) {
		case *bvFieldBytes:
			return &bvInt{lenOf: a.name}
		case *bvBytes, *bvPtr:
			if seq, tail, ok := x.seqOf(st, a); ok && tail == "" {
				return &bvInt{known: true, k: int64(len(seq))}
			}
		case *bvStr:
			if len(a.parts) == 1 && a.parts[0].kind == "const" {
				return &bvInt{known: true, k: int64(len(a.parts[0].s))}
			}
		case *bvStrList:
			return &bvInt{sym: "parts"}
		}
		return &bvInt{sym: "?"}
	case "copy":
		dst, ok := args[0].(*bvBytes)
		if !ok {
			return &bvInt{sym: "?"}
		}
		o := st.mem[dst.obj]
		if o == nil || o.input {
			return &bvInt{sym: "?"}
		}
		seq, tail, okS := x.seqOf(st, args[1])
		switch {
		case !okS:
			o.tail = "broken"
		case len(seq) == 0 && strings.HasPrefix(tail, "field:") && dst.off == len(o.seq) && o.tail == "zeros:"+strings.TrimPrefix(tail, "field:"):
			o.tail = tail // exactly fills the variable-length remainder
		case tail == "" && dst.off+len(seq) <= len(o.seq):
			copy(o.seq[dst.off:], seq)
		default:
			o.tail = "broken"
		}
		return &bvInt{sym: "?"}
	case "append":
		base, tailA, okA := x.seqOf(st, args[0])
		id, o := st.newObj("bytes")
		if !okA || tailA != "" {
			o.tail = "broken"
			return &bvBytes{obj: id}
		}
		o.seq = base
		if len(args) > 1 {
			add, tailB, okB := x.seqOf(st, args[1])
			if !okB || strings.HasPrefix(tailB, "zeros:") || tailB == "broken" {
				o.tail = "broken"
				return &bvBytes{obj: id}
			}
			o.seq = append(o.seq, add...)
			o.tail = tailB
		}
		return &bvBytes{obj: id}
	}
	return &bvUnknown{"builtin " + name}
}

func (x *bInterp) intrinsic(st *bstate, callee *ssa.Function, ins *ssa.Call, args []bv) (bv, bool) {
	pkg, name := calleePkgName(&ins.Call)
	switch {
	case strings.HasSuffix(pkg, "base58") && name == "CheckEncode":
		seq, tail, ok := x.seqOf(st, args[0])
		if !ok {
			tail = "broken"
		}
		return &bvStr{parts: []bstrPart{{kind: "enc", seq: seq, tail: tail, ver: args[1]}}}, true
	case strings.HasSuffix(pkg, "base58") && name == "CheckDecode":
		id, o := st.newObj("bytes")
		o.input = true
		st.next++
		src := "?"
		if s, ok := args[0].(*bvStr); ok {
			src = strTerm(s)
		}
		st.conds = append(st.conds, "decoded:"+src)
		return bvTuple{&bvBytes{obj: id}, &bvInt{sym: "ver"}, &bvErr{id: st.next}}, true
	case pkg == "bytes" && (name == "NewBuffer" || name == "NewReader"):
		if b, ok := args[0].(*bvBytes); ok {
			if o := st.mem[b.obj]; o != nil && o.input {
				id, bo := st.newObj("buf")
				bo.src, bo.cur = b.obj, o.inBase+b.off
				return &bvBuf{obj: id}, true
			}
		}
		return &bvUnknown{"buffer over non-input"}, true
	case pkg == "bytes" && (name == "Buffer.ReadByte" || name == "Reader.ReadByte"):
		if b, ok := args[0].(*bvBuf); ok {
			o := st.mem[b.obj]
			v := &bvByte{kind: "in", idx: o.cur}
			o.cur++
			st.next++
			return bvTuple{v, &bvErr{id: st.next}}, true
		}
	case pkg == "bytes" && name == "Buffer.Next":
		if b, ok := args[0].(*bvBuf); ok {
			if n, ok := args[1].(*bvInt); ok && n.known {
				o := st.mem[b.obj]
				id, no := st.newObj("bytes")
				no.input, no.inBase = true, o.cur
				o.cur += int(n.k)
				return &bvBytes{obj: id}, true
			}
		}
	case pkg == "bytes" && name == "Buffer.Bytes":
		if b, ok := args[0].(*bvBuf); ok {
			o := st.mem[b.obj]
			id, no := st.newObj("bytes")
			no.input, no.inBase = true, o.cur
			return &bvBytes{obj: id}, true
		}
	case pkg == "strings" && name == "HasPrefix":
		if p, ok := args[1].(*bvStr); ok && len(p.parts) == 1 && p.parts[0].kind == "const" {
			if s, ok := args[0].(*bvStr); ok {
				return &bvBool{cond: "prefix:" + strTerm(s) + ":" + p.parts[0].s}, true
			}
		}
		return &bvBool{cond: "?"}, true
	case pkg == "strings" && name == "TrimPrefix":
		if p, ok := args[1].(*bvStr); ok && len(p.parts) == 1 && p.parts[0].kind == "const" {
			if s, ok := args[0].(*bvStr); ok && len(s.parts) == 1 && s.parts[0].kind == "in" {
				return &bvStr{parts: []bstrPart{{kind: "in", s: fmt.Sprintf("%s[%d:]", s.parts[0].s, len(p.parts[0].s))}}}, true
			}
		}
	case pkg == "strings" && strings.HasPrefix(name, "Builder."):
		// a strings.Builder local: the string written so far is kept with the object
		bp, ok := args[0].(*bvPtr)
		if !ok {
			return &bvUnknown{"strings.Builder not a local"}, true
		}
		o := st.mem[bp.obj]
		if o == nil {
			return &bvUnknown{"strings.Builder not a local"}, true
		}
		if o.f == nil {
			o.f = map[string]bv{}
		}
		cur, _ := o.f[bp.path+"$built"].(*bvStr)
		if cur == nil {
			cur = &bvStr{}
		}
		add := func(ps ...bstrPart) {
			n := &bvStr{parts: append(append([]bstrPart{}, cur.parts...), ps...)}
			o.f[bp.path+"$built"] = n
		}
		switch strings.TrimPrefix(name, "Builder.") {
		case "WriteString":
			if sv, isS := args[1].(*bvStr); isS {
				add(sv.parts...)
			} else if fv, isF := args[1].(*bvField); isF {
				add(bstrPart{kind: "field", s: fv.name})
			} else {
				add(bstrPart{kind: "u"})
			}
			return bvTuple{&bvInt{sym: "n"}, &bvErr{known: true, isNil: true}}, true
		case "WriteByte", "WriteRune":
			if iv, isI := args[1].(*bvInt); isI && iv.sym == "" {
				add(bstrPart{kind: "const", s: string(rune(iv.k))})
			} else if bb, isB := args[1].(*bvByte); isB && (bb.kind == "k" || bb.kind == "const") {
				add(bstrPart{kind: "const", s: string(rune(bb.k))})
			} else {
				add(bstrPart{kind: "u"})
			}
			if strings.HasSuffix(name, "WriteByte") {
				return &bvErr{known: true, isNil: true}, true
			}
			return bvTuple{&bvInt{sym: "n"}, &bvErr{known: true, isNil: true}}, true
		case "String":
			return cur, true
		case "Grow", "Len", "Cap":
			return &bvInt{sym: "n"}, true
		}
		return &bvUnknown{"strings." + name}, true
	case pkg == "strings" && name == "Split":
		if sep, ok := args[1].(*bvStr); ok && len(sep.parts) == 1 && sep.parts[0].kind == "const" {
			if s, ok := args[0].(*bvStr); ok {
				st.conds = append(st.conds, "split:"+strTerm(s)+":"+sep.parts[0].s)
				return &bvStrList{of: strTerm(s)}, true
			}
		}
	case pkg == "fmt" && name == "Sprintf":
		f, ok := args[0].(*bvStr)
		if !ok || len(f.parts) != 1 || f.parts[0].kind != "const" {
			return &bvStr{parts: []bstrPart{{kind: "u"}}}, true
		}
		var vals []bv
		if len(args) > 1 {
			if ap, ok := args[1].(*bvPtr); ok {
				if o := st.mem[ap.obj]; o != nil {
					for i := 0; ; i++ {
						v, has := o.f[fmt.Sprintf("%s[%d]", ap.path, i)]
						if !has {
							break
						}
						vals = append(vals, v)
					}
				}
			}
		}
		return sprintfParts(f.parts[0].s, vals), true
	}
	return nil, false
}

func sprintfParts(format string, vals []bv) *bvStr {
	out := &bvStr{}
	lit := ""
	vi := 0
	flush := func() {
		if lit != "" {
			out.parts = append(out.parts, bstrPart{kind: "const", s: lit})
			lit = ""
		}
	}
	for i := 0; i < len(format); i++ {
		if format[i] != '%' || i+1 >= len(format) {
			lit += string(format[i])
			continue
		}
		i++
		switch format[i] {
		case '%':
			lit += "%"
		case 's', 'v':
			flush()
			if vi < len(vals) {
				switch v := vals[vi].(type) {
				case *bvStr:
					out.parts = append(out.parts, v.parts...)
				case *bvField:
					out.parts = append(out.parts, bstrPart{kind: "field", s: v.name})
				default:
					out.parts = append(out.parts, bstrPart{kind: "u"})
				}
			} else {
				out.parts = append(out.parts, bstrPart{kind: "u"})
			}
			vi++
		default:
			flush()
			out.parts = append(out.parts, bstrPart{kind: "u"})
			vi++
		}
	}
	flush()
	return out
}

// normParts merges adjacent constants and turns string fields into parts.
func normParts(s *bvStr) []bstrPart {
	var out []bstrPart
	for _, p := range s.parts {
		if p.kind == "const" && len(out) > 0 && out[len(out)-1].kind == "const" {
			out[len(out)-1].s += p.s
			continue
		}
		if p.kind == "const" && p.s == "" {
			continue
		}
		out = append(out, p)
	}
	return out
}

// ---- summaries -------------------------------------------------------------------------

// encoderSummary interprets an encoder method and returns its layout.
func encoderSummary(c *Ctx, p *Program, fn *ssa.Function) *encLayout {
	key := funcKey(fn)
	x := &bInterp{p: p}
	if fn.Signature.Recv() == nil {
		c.Undecide("C15.CODEC", key+"#shape", p.Pos(fn.Pos()), "encoder is not a method of a message type")
		return nil
	}
	args := []bv{&bvRecv{}}
	outs := x.run(fn, args)
	var lay *encLayout
	n := 0
	if x.cut {
		c.Undecide("C15.CODEC", key+"#shape", p.Pos(fn.Pos()), "interpretation of the encoder was cut short (unbounded loop?)")
		return nil
	}
	for _, o := range outs {
		if len(o.rets) != 2 {
			continue
		}
		if e, ok := o.rets[1].(*bvErr); !ok || !e.known || !e.isNil {
			continue // error return
		}
		n++
		s, ok := o.rets[0].(*bvStr)
		if !ok {
			c.Undecide("C15.CODEC", key+"#shape", p.Pos(fn.Pos()), "a success return does not yield a string built on the path")
			return nil
		}
		parts := normParts(s)
		l := &encLayout{fn: fn, prefix: -1, tailOff: -1, bufExtra: -1, version: -1}
		desc := strTerm(&bvStr{parts: parts})
		if len(parts) < 3 || parts[0].kind != "const" || parts[1].kind != "enc" || parts[2].kind != "const" || !strings.HasPrefix(parts[2].s, ".") {
			c.Violate("C15.CODEC", key+"#string-shape", p.Pos(fn.Pos()), "the IRI is not <scheme> + base58check(bytes) + '.' + extension: "+desc, nil)
			return nil
		}
		l.scheme = parts[0].s
		switch {
		case len(parts) == 3:
			l.extLiteral = strings.TrimPrefix(parts[2].s, ".")
		case len(parts) == 4 && parts[2].s == "." && parts[3].kind == "field":
			l.extField = parts[3].s
		default:
			c.Violate("C15.CODEC", key+"#string-shape", p.Pos(fn.Pos()), "unrecognised extension part: "+desc, nil)
			return nil
		}
		enc := parts[1]
		if v, ok := enc.ver.(*bvByte); ok && v.kind == "k" {
			l.version = v.k
		} else if v, ok := enc.ver.(*bvInt); ok && v.known {
			l.version = v.k
		}
		if enc.tail == "broken" || strings.HasPrefix(enc.tail, "zeros:") {
			c.Violate("C15.CODEC", key+"#buffer", p.Pos(fn.Pos()), "the encoded bytes are not fully determined by constants, receiver fields and the hash (tail "+enc.tail+")", nil)
			return nil
		}
		for i, b := range enc.seq {
			switch {
			case i == 0 && b.kind == "k":
				l.prefix = b.k
			case i > 0 && b.kind == "f":
				l.header = append(l.header, b.name)
			case i > 0 && b.kind == "z":
				c.Violate("C15.CODEC", key+"#contiguous", p.Pos(fn.Pos()), fmt.Sprintf("header byte %d is never written", i), nil)
				l.header = append(l.header, "?")
			default:
				l.header = append(l.header, "?"+b.kind)
			}
		}
		if strings.HasPrefix(enc.tail, "field:") {
			l.tail = strings.TrimPrefix(enc.tail, "field:")
			l.tailOff = int64(len(enc.seq))
			l.bufExtra = l.tailOff
		}
		if lay != nil && fmt.Sprint(*lay) != fmt.Sprint(*l) {
			c.Violate("C15.CODEC", key+"#paths-agree", p.Pos(fn.Pos()), "two success paths of the encoder produce different layouts", nil)
			return nil
		}
		lay = l
	}
	if n == 0 || lay == nil {
		c.Undecide("C15.CODEC", key+"#shape", p.Pos(fn.Pos()), "no success path of the encoder could be interpreted")
		return nil
	}
	c.Count("encoder_paths", n)
	return lay
}

// structLeaves flattens the value returned by the parser into leaf field → value.
func (x *bInterp) structLeaves(st *bstate, v bv, prefix string, depth int, out map[string]bv) {
	if depth > 4 {
		return
	}
	p, ok := v.(*bvPtr)
	if !ok {
		out[prefix] = v
		return
	}
	o := st.mem[p.obj]
	if o == nil {
		return
	}
	if o.kind == "bytes" {
		out[prefix] = &bvBytes{obj: p.obj}
		return
	}
	found := false
	for k, fv := range o.f {
		if k == p.path {
			continue
		}
		if !strings.HasPrefix(k, p.path+".") {
			continue
		}
		rest := strings.TrimPrefix(k, p.path)
		found = true
		x.structLeaves(st, fv, prefix+rest, depth+1, out)
	}
	if !found {
		if fv, ok := o.f[p.path]; ok {
			if _, isPtr := fv.(*bvPtr); isPtr && fv != v {
				x.structLeaves(st, fv, prefix, depth+1, out)
				return
			}
			out[prefix] = fv
		}
	}
}

// decoderSummary interprets the parser on a symbolic IRI.
func decoderSummary(c *Ctx, p *Program, fn *ssa.Function) *decLayout {
	d := &decLayout{arms: map[int64]*decArm{}, versionChecked: map[int64]bool{}, versionConst: -1, twoParts: true}
	x := &bInterp{p: p}
	if len(fn.Params) != 1 {
		c.Undecide("C15.CODEC", "parser#shape", p.Pos(fn.Pos()), "parser does not take exactly the IRI string")
		return d
	}
	outs := x.run(fn, []bv{&bvStr{parts: []bstrPart{{kind: "in", s: "iri"}}}})
	nSucc := 0
	armPaths := map[int64]int{}
	versionAll := map[int64]bool{}
	schemes := map[string]bool{}
	if x.cut {
		c.Undecide("C15.CODEC", "parser#shape", p.Pos(fn.Pos()), "interpretation of the parser was cut short (unbounded loop?)")
		return d
	}
	for _, o := range outs {
		if len(o.rets) != 2 {
			continue
		}
		if e, ok := o.rets[1].(*bvErr); !ok || !e.known || !e.isNil {
			continue
		}
		if _, isPtr := o.rets[0].(*bvPtr); !isPtr {
			continue
		}
		nSucc++
		prefix, ver := int64(-1), int64(-1)
		scheme, split2, extLit := "", false, ""
		decodedFrom, splitOf := "", ""
		for _, cd := range o.st.conds {
			var i, k int64
			switch {
			case strings.HasPrefix(cd, "in[0]=="):
				fmt.Sscanf(cd, "in[0]==%d", &k)
				prefix = k
			case strings.HasPrefix(cd, "ver=="):
				fmt.Sscanf(cd, "ver==%d", &k)
				ver = k
			case strings.HasPrefix(cd, "prefix:in:iri:"):
				scheme = strings.TrimPrefix(cd, "prefix:in:iri:")
			case cd == "parts==2":
				split2 = true
			case strings.HasPrefix(cd, "in:part1==\""):
				extLit = strings.TrimSuffix(strings.TrimPrefix(cd, "in:part1==\""), "\"")
			case strings.HasPrefix(cd, "decoded:"):
				decodedFrom = strings.TrimPrefix(cd, "decoded:")
			case strings.HasPrefix(cd, "split:"):
				splitOf = strings.TrimPrefix(cd, "split:")
			}
			_ = i
		}
		if prefix < 0 {
			c.Violate("C15.CODEC", "parser#arm-undetermined", p.Pos(fn.Pos()), "a success path of the parser does not test the type prefix byte against a constant: "+strings.Join(o.st.conds, " ∧ "), nil)
			continue
		}
		// the byte string decoded is the first part of the split of what follows the scheme, separator "."
		wantSplit := fmt.Sprintf("in:iri[%d:]:.", len(scheme))
		if decodedFrom != "in:part0" || splitOf != wantSplit {
			c.Violate("C15.CODEC", fmt.Sprintf("prefix=%d#source", prefix), p.Pos(fn.Pos()), fmt.Sprintf("parser decodes %s of split %s (required part0 of the text after the scheme, split at '.')", decodedFrom, splitOf), nil)
		}
		schemes[scheme] = true
		if !split2 {
			d.twoParts = false
		}
		if _, seen := versionAll[prefix]; !seen {
			versionAll[prefix] = true
		}
		if ver < 0 {
			versionAll[prefix] = false
		} else {
			if d.versionConst >= 0 && d.versionConst != ver {
				versionAll[prefix] = false
			}
			d.versionConst = ver
		}
		armPaths[prefix]++
		leaves := map[string]bv{}
		x.structLeaves(o.st, o.rets[0], "", 0, leaves)
		arm := &decArm{extLiteral: extLit}
		hdr := map[int]string{}
		var names []string
		for path := range leaves {
			names = append(names, path)
		}
		sort.Strings(names)
		for _, path := range names {
			leaf := path[strings.LastIndex(path, ".")+1:]
			switch v := leaves[path].(type) {
			case *bvByte:
				if v.kind == "in" {
					if old, dup := hdr[v.idx]; dup {
						hdr[v.idx] = old + "+" + leaf
					} else {
						hdr[v.idx] = leaf
					}
				}
			case *bvBytes:
				if ob := o.st.mem[v.obj]; ob != nil && ob.input {
					arm.tail = fmt.Sprintf("%s@%d", leaf, ob.inBase+v.off)
				}
			case *bvStr:
				if len(v.parts) == 1 && v.parts[0].kind == "in" && v.parts[0].s == "part1" {
					arm.extField = leaf
				}
			}
		}
		for i := 1; i <= len(hdr); i++ {
			f, ok := hdr[i]
			if !ok {
				f = "?"
			}
			arm.header = append(arm.header, f)
		}
		// the tail must start right after the header
		if arm.tail != "" {
			var off int
			name := arm.tail[:strings.Index(arm.tail, "@")]
			fmt.Sscanf(arm.tail[strings.Index(arm.tail, "@")+1:], "%d", &off)
			if off == len(arm.header)+1 {
				arm.tail = name
			} else {
				arm.tail = fmt.Sprintf("%s(from byte %d)", name, off)
			}
		}
		if old, seen := d.arms[prefix]; seen && fmt.Sprint(*old) != fmt.Sprint(*arm) {
			c.Violate("C15.CODEC", fmt.Sprintf("prefix=%d#paths-agree", prefix), p.Pos(fn.Pos()), "two success paths of this parser arm build the result differently", nil)
		}
		d.arms[prefix] = arm
	}
	for k, v := range versionAll {
		d.versionChecked[k] = v
	}
	if len(schemes) == 1 {
		for s := range schemes {
			d.scheme = s
		}
	}
	c.Count("parser_success_paths", nSucc)
	if nSucc == 0 {
		c.Undecide("C15.CODEC", "parser#shape", p.Pos(fn.Pos()), "no success path of the parser could be interpreted")
	}
	return d
}

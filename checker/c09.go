package main

// C09 — genesis export/validate/import: exhaustiveness of the genesis validators and
// agreement between what state validators require and what writers guarantee (engine E4,
// with validators, message validators and writers all explored by the same explorer).

import (
	"fmt"
	"go/token"
	"go/types"
	"os"
	"regexp"
	"sort"
	"strconv"
	"strings"

	"golang.org/x/tools/go/ssa"
)

func init() { register("C09", checkC09) }

var gogoPkgOf = map[string]string{
	"api/v2/regen/ecocredit/v1":             "x/ecocredit/v3/base/types/v1",
	"api/v2/regen/ecocredit/basket/v1":      "x/ecocredit/v3/basket/types/v1",
	"api/v2/regen/ecocredit/marketplace/v1": "x/ecocredit/v3/marketplace/types/v1",
	"api/v2/regen/data/v1":                  "x/data/v3",
}

type requirement struct {
	Fact  string // with polarity, over req.<Field>
	Field string // first field mentioned
}

var reqField = regexp.MustCompile(`req\.([A-Z][A-Za-z0-9]*)`)

func checkC09(c *Ctx, e *Env) {
	c.Explanation = "Necessary conditions on the module's side of the ORM: KEYDIM the genesis validation/import code combines keys of one kind only (every value loaded from an ORM column carries the dimension of the column it references; Go maps, ORM lookups and equality tests must agree on it), so its cross-table checks look at the rows they mean; EXH every table of the module schemas that has a state validator (gogo Validate()) has a case in the module's genesis validateMsg type switch that reaches Validate(); AGREE (E4) for every state validator, the facts that hold on all of its accepting paths (non-zero keys, non-empty strings, non-nil dates, ordering of dates, length limits, successful format/address/URL validators, decimal classes) are instantiated with the values each handler writes into that table on each committed path and must be entailed by the path's own facts, by the message validator's facts (ValidateBasic explored with the same explorer; A7), or by the shape of the value (auto-increment id, key of a fetched row, formatted id — E5 —, decoded address, timestamp constructor, unchanged or copied stored column: induction over reachable states)."
	c.NotDecided = []string{"byte-identity of re-export and key-order stability (ORM JSON, A1)", "'all invariants hold after import' is C01/C05", "requirement kinds the matcher does not recognise are listed as notes, not verdicts"}
	c.Assumptions = strings.Split(e1Assume+"; A7", "; ")
	e.Preload("x/ecocredit", "x/data")
	nReq, nChecked := 0, 0
	for _, mod := range []string{"x/ecocredit", "x/data"} {
		m := e.Model(mod)
		p := m.P
		r := RunE1(m)
		x := r.X
		if mod == "x/ecocredit" {
			importObligations(c, e, checkC01, "C01", "C09.LEDGER", "ledger#conserving", "genesis validation recomputes every batch's supply from the balances and rejects the export of a state in which they disagree; reachable states agree only while every handler conserves credits", func(o *Oblig) bool { return o.Rule == "C01.EQ" || o.Rule == "C01.FRESH" })
			ruleSupplyCovered(c, m, r, "C09.COVER")
			importObligations(c, e, checkC18, "C18", "C09.PARAMSET", "fee parameters#stored-in-the-validated-shape", "the fee setters store nil for an absent or zero fee and the request's coin otherwise — the two shapes the state validators accept; any other stored shape (a zero coin without denomination) is exported and then rejected by genesis validation", func(o *Oblig) bool { return o.Rule == "C18.SET" })
			ruleGenesisPrecision(c, m, r, "x/ecocredit/v3/genesis")
			importObligations(c, e, checkC01, "C01", "C09.INVARIANT", "registered invariants#batch-supply", "'with all module invariants holding' after the re-import: the registered batch-supply invariant computes the conservation relation over the right key kinds and never fails in a conserving state (wiring of the registered closure included)", func(o *Oblig) bool { return o.Rule == "C01.INV" })
			importObligations(c, e, checkC05, "C05", "C09.INVARIANT", "registered invariants#basket-supply", "'with all module invariants holding' after the re-import: the registered basket-supply invariant compares each basket's token supply with its own credits under the scale the handlers mint with", func(o *Oblig) bool { return o.Rule == "C05.INV" || o.Rule == "C05.SCALE" })
		}
		genPkg := "x/ecocredit/v3/genesis"
		if mod == "x/data" {
			genPkg = "x/data/v3/genesis"
		}
		cases := validateMsgCases(m, genPkg)
		inv := BuildInventory(m, false)
		var tnames []string
		for n := range m.Tables {
			tnames = append(tnames, n)
		}
		sort.Strings(tnames)
		for _, tn := range tnames {
			t := m.Tables[tn]
			gp, ok := gogoPkgOf[t.APIPkg]
			if !ok || (mod == "x/data" && !strings.Contains(t.APIPkg, "/data/")) || (mod == "x/ecocredit" && strings.Contains(t.APIPkg, "/data/")) {
				continue
			}
			sv := exploreStateValidate(m, x, gp, tn)
			hasWriter := false
			for _, s := range inv.Writes(tn) {
				if !isCanaryFn(s.Fn) {
					hasWriter = true
				}
			}
			// ---- EXH
			switch {
			case sv.OK && cases[tn]:
				c.Hold("C09.EXH", "validateMsg:"+tn, "-", "table has a state validator and a genesis validation case reaching Validate()", nil)
			case sv.OK && !cases[tn]:
				c.Violate("C09.EXH", "validateMsg:"+tn, "-", "table "+tn+" has a state validator but no case in the genesis validateMsg switch: genesis accepts any content for it", nil)
			case !sv.OK && hasWriter:
				c.Note("C09.EXH", "validateMsg:"+tn, "-", "table "+tn+" is written by handlers but has no state validator (nothing to agree with)")
			default:
				c.Note("C09.EXH", "validateMsg:"+tn, "-", "table "+tn+" has neither writer nor validator")
			}
			if !sv.OK {
				continue
			}
			// ---- requirements
			var reqs []requirement
			for f := range sv.Facts {
				mm := reqField.FindStringSubmatch(f)
				if mm == nil {
					continue
				}
				reqs = append(reqs, requirement{Fact: f, Field: mm[1]})
			}
			for a, at := range sv.Attrs {
				mm := reqField.FindStringSubmatch(a)
				if mm == nil {
					continue
				}
				if at.Pos {
					reqs = append(reqs, requirement{Fact: "+DecPos(" + a + ")", Field: mm[1]})
				} else if at.NonNeg {
					reqs = append(reqs, requirement{Fact: "+DecNonNeg(" + a + ")", Field: mm[1]})
				}
			}
			sort.Slice(reqs, func(i, j int) bool { return reqs[i].Fact < reqs[j].Fact })
			// disjunctive requirements: a field that every accepting path constrains, but not every path in
			// the same way ("seconds != 0 or nanos != 0"): the alternatives are the per-path fact sets about it
			alts := map[string][][]string{}
			{
				fields := map[string]bool{}
				for _, pf := range sv.Paths {
					for f := range pf {
						if !sv.Facts[f] {
							for _, mm := range reqField.FindAllStringSubmatch(f, -1) {
								fields[mm[1]] = true
							}
						}
					}
				}
				for fld := range fields {
					var sets [][]string
					every := true
					seen := map[string]bool{}
					for _, pf := range sv.Paths {
						var set []string
						for f := range pf {
							if sv.Facts[f] {
								continue
							}
							ms := reqField.FindAllStringSubmatch(f, -1)
							if len(ms) == 1 && ms[0][1] == fld {
								set = append(set, f)
							}
						}
						if len(set) == 0 {
							every = false
							break
						}
						sort.Strings(set)
						if k := strings.Join(set, " ∧ "); !seen[k] {
							seen[k] = true
							sets = append(sets, set)
						}
					}
					if every && len(sets) > 1 {
						sort.Slice(sets, func(i, j int) bool { return strings.Join(sets[i], "") < strings.Join(sets[j], "") })
						alts[fld] = sets
					}
				}
			}
			if os.Getenv("E1DEBUG") == tn {
				for f, a := range alts {
					fmt.Println("DBG alt", tn, f, a)
				}
			}
			if os.Getenv("E1DEBUG") == tn {
				for _, rq := range reqs {
					fmt.Println("DBG req", tn, rq.Fact)
				}
			}
			nReq += len(reqs)
			// ---- AGREE over write events
			type agg struct {
				pos string
				n   int
				bad string
				unk bool
				val string
			}
			res := map[string]*agg{}
			unknown := map[string]bool{}
			for _, h := range r.Handlers {
				if h.EP.Kind == "canary" {
					continue
				}
				mv := ValidatedFacts(m, x, h.EP)
				for _, o := range h.Outs {
					st := o.St
					for i := range st.events {
						ev := &st.events[i]
						if ev.Kind != "write" || ev.Table.Name != tn || ev.Row == nil || !inScope(o, ev) || ev.OpKind == "delete" {
							continue
						}
						for _, rq := range reqs {
							val, has := ev.Row[rq.Field]
							if !has {
								continue
							}
							k := fmt.Sprintf("%s.%s: %s ← %s#%s.%s", tn, rq.Field, rq.Fact, h.Key, tn, ev.Method)
							a := res[k]
							if a == nil {
								a = &agg{pos: p.Pos(ev.Pos.Pos())}
								res[k] = a
							}
							a.n++
							if a.bad != "" {
								continue
							}
							// unchanged column of an existing row: holds by induction
							if ev.Old != nil && ev.Old.Row != nil && allUnchanged(st, ev, rq.Fact) {
								continue
							}
							verdict, why := entails(x, m, st, mv, ev, rq, val)
							switch verdict {
							case "yes":
							case "unknown":
								unknown[rq.Fact] = true
								a.unk = true
								a.val = st.canon(val)
							default:
								a.bad = why + " on path {" + clip(strings.Join(st.facts, " "), 300) + "}"
							}
						}
						var altFields []string
						for fld := range alts {
							altFields = append(altFields, fld)
						}
						sort.Strings(altFields)
						for _, fld := range altFields {
							val, has := ev.Row[fld]
							if !has {
								continue
							}
							var descs []string
							for _, set := range alts[fld] {
								descs = append(descs, strings.Join(set, " ∧ "))
							}
							k := fmt.Sprintf("%s.%s: %s ← %s#%s.%s", tn, fld, strings.Join(descs, "  ∨  "), h.Key, tn, ev.Method)
							a := res[k]
							if a == nil {
								a = &agg{pos: p.Pos(ev.Pos.Pos())}
								res[k] = a
							}
							a.n++
							if a.bad != "" {
								continue
							}
							if ev.Old != nil && ev.Old.Row != nil && st.canon(val) == st.canon(ev.Old.Row[fld]) {
								continue // unchanged column: induction
							}
							okAlt, unk := false, false
							for _, set := range alts[fld] {
								all := true
								for _, f := range set {
									verdict, _ := entails(x, m, st, mv, ev, requirement{Fact: f, Field: fld}, val)
									if verdict == "unknown" {
										unk = true
									}
									if verdict != "yes" {
										all = false
									}
								}
								if all {
									okAlt = true
								}
							}
							switch {
							case okAlt:
							case unk:
								unknown[strings.Join(descs, " ∨ ")] = true
								a.unk = true
								a.val = st.canon(val)
							default:
								a.bad = fmt.Sprintf("%s.%s = %s satisfies none of the alternatives the state validator accepts (%s)", tn, fld, st.canon(val), strings.Join(descs, "  ∨  ")) + " on path {" + clip(strings.Join(st.facts, " "), 300) + "}"
							}
						}
					}
				}
			}
			var ks []string
			for k := range res {
				ks = append(ks, k)
			}
			sort.Strings(ks)
			for _, k := range ks {
				a := res[k]
				nChecked++
				switch {
				case a.bad != "":
					c.Violate("C09.AGREE", k, a.pos, a.bad, nil)
				case a.unk:
					c.Note("C09.AGREE", k, a.pos, "not decided for the written value "+a.val+": the matcher does not recognise this kind of requirement / value (listed, not claimed)")
				default:
					c.Hold("C09.AGREE", k, a.pos, fmt.Sprintf("entailed on all %d path visits", a.n), nil)
				}
			}
			for f := range unknown {
				c.Note("C09.AGREE", tn+": "+f, "-", "requirement kind not recognised by the matcher: not decided")
			}
		}
	}
	// ---- KEYDIM: the genesis validators navigate between tables with keys of the right kind
	nDim := 0
	for _, mod := range []string{"x/ecocredit", "x/data"} {
		nDim += ruleKeyDims(c, e.Model(mod), "C09.KEYDIM", func(pkg string) bool { return strings.HasSuffix(pkg, "/genesis") || strings.HasSuffix(pkg, "/server") })
	}
	c.Count("key_dimension_sites", nDim)
	c.Min("key-dimension sites in genesis code", 8, nDim)
	c.Count("validator_requirements", nReq)
	c.Count("agreement_obligations", nChecked)
	c.Min("state validator requirements extracted", 60, nReq)
	c.Min("agreement obligations", 80, nChecked)
}

// allUnchanged: every column the requirement mentions keeps its stored value.
func allUnchanged(st *State, ev *Event, fact string) bool {
	for _, mm := range reqField.FindAllStringSubmatch(fact, -1) {
		nv, ok1 := ev.Row[mm[1]]
		ov, ok2 := ev.Old.Row[mm[1]]
		if !ok1 || !ok2 || st.canon(nv) != st.canon(ov) {
			return false
		}
	}
	return true
}

func onlyField(fact, field string) bool {
	for _, mm := range reqField.FindAllStringSubmatch(fact, -1) {
		if mm[1] != field {
			return false
		}
	}
	return true
}

// instantiate replaces req.<Field> by the canonical written value, normalising timestamp wrappers.
func instantiate(st *State, ev *Event, fact string) (string, bool) {
	ok := true
	out := reqField.ReplaceAllStringFunc(fact, func(s string) string {
		f := strings.TrimPrefix(s, "req.")
		v, has := ev.Row[f]
		if !has {
			ok = false
			return s
		}
		return st.canon(v)
	})
	// *ts(X) → X ; time(ts(X)) → X ; *(&X) → X
	for _, re := range []*regexp.Regexp{regexp.MustCompile(`\*ts\(\*?([^()]*(?:\([^()]*\))?[^()]*)\)`), regexp.MustCompile(`time\(ts\(\*?([^()]*)\)\)`)} {
		out = re.ReplaceAllString(out, "*$1")
	}
	for i := 0; i < 3; i++ {
		out = regexp.MustCompile(`ts\(([^()]+)\)`).ReplaceAllString(out, "$1")
	}
	out = strings.ReplaceAll(out, "**", "*")
	// inside time relations a timestamp pointer and its value denote the same instant
	if strings.Contains(out, "TimeLt(") || strings.Contains(out, "TimeEq(") {
		out = regexp.MustCompile(`([(, ])\*?(req\.[A-Za-z.\[\]*()/+ 0-9]*?(?:Date|Expiration))`).ReplaceAllString(out, "${1}*$2")
	}
	// gogo → api converters are field-preserving
	out = regexp.MustCompile(`DateCriteria\.ToAPI\(([^()]*)\)`).ReplaceAllString(out, "$1")
	out = regexp.MustCompile(`conv\(([^()]*)\)`).ReplaceAllString(out, "$1")
	return out, ok
}

var storedCol = regexp.MustCompile(`^([A-Z][A-Za-z]*)#\d+\.([A-Za-z.]+)$`)

// sourceGuarantees: the value is column col of a row fetched from table src; does src's own state
// validator make the demand rq on that column (on all of its accepting paths)? Then the demand holds
// for every stored row of src by induction over reachable states, and a copy inherits it. Keys of
// auto-increment tables and decimal ledger columns carry their guarantees by construction.
func sourceGuarantees(m *Model, x *Explorer, src, col string, rq requirement) bool {
	t := m.Tables[src]
	if t == nil {
		return false
	}
	gp, ok := gogoPkgOf[t.APIPkg]
	if !ok {
		return false
	}
	if len(t.PK) == 1 && snakeToCamel(t.PK[0]) == col && t.AutoInc && strings.HasPrefix(rq.Fact, "-Eq(0, req.") {
		return true
	}
	sv := exploreStateValidate(m, x, gp, src)
	if !sv.OK {
		return false
	}
	want := strings.ReplaceAll(rq.Fact, "req."+rq.Field, "req."+col)
	if sv.Facts[want] {
		return true
	}
	// decimal classes
	if strings.HasPrefix(rq.Fact, "+DecNonNeg(") || strings.HasPrefix(rq.Fact, "+DecPos(") {
		if at, ok := sv.Attrs["parse(req."+col+")"]; ok {
			if strings.HasPrefix(rq.Fact, "+DecPos(") {
				return at.Pos
			}
			return at.NonNeg || at.Pos
		}
	}
	// a weaker length limit is implied by a stronger one
	if mm := reLenLimit.FindStringSubmatch(want); mm != nil {
		limit, _ := strconv.Atoi(mm[1])
		for f := range sv.Facts {
			if m2 := reLenLimit.FindStringSubmatch(f); m2 != nil && m2[2] == mm[2] {
				if l2, _ := strconv.Atoi(m2[1]); l2 <= limit {
					return true
				}
			}
		}
	}
	return false
}

var reLenLimit = regexp.MustCompile(`^-Lt\((\d+), len\((.*)\)\)$`)

func holdsFact(st *State, mv *Validated, f string) bool {
	if st.factSet[f] {
		return true
	}
	n := normIdx(f)
	if mv == nil {
		return false
	}
	if mv.Exit[n] || mv.Iter[n] {
		return true
	}
	// conditional guarantees: the fact holds on every accepting validator path compatible with this handler path
	check := func(paths []map[string]bool) bool {
		any := false
		for _, pf := range paths {
			compatible := true
			for g := range pf {
				opp := "-" + g[1:]
				if g[0] == '-' {
					opp = "+" + g[1:]
				}
				if st.factSet[opp] {
					compatible = false
					break
				}
			}
			if !compatible {
				continue
			}
			any = true
			if !pf[n] {
				return false
			}
		}
		return any
	}
	return check(mv.ExitPaths) || (len(mv.IterPaths) > 0 && check(mv.IterPaths))
}

// entails: does the writer guarantee the instantiated requirement?
func entails(x *Explorer, m *Model, st *State, mv *Validated, ev *Event, rq requirement, val Val) (string, string) {
	inst, ok := instantiate(st, ev, rq.Fact)
	if !ok {
		return "unknown", ""
	}
	v := st.canon(val)
	t := ev.Table
	stored := false // a column of a fetched row whose own table's state validator makes the same demand (induction over reachable states)
	if mm := storedCol.FindStringSubmatch(v); mm != nil {
		stored = sourceGuarantees(m, x, mm[1], mm[2], rq)
		if !stored && os.Getenv("E1DEBUG") == "stored" {
			fmt.Println("DBG stored-not-guaranteed", t.Name+"."+rq.Field, "←", v, rq.Fact)
		}
	}
	if holdsFact(st, mv, inst) {
		return "yes", ""
	}
	body := rq.Fact[1:]
	pol := rq.Fact[:1]
	switch {
	// ---- must be nil / must equal a constant
	case pol == "+" && strings.HasPrefix(body, "Nil(req.") && v == "nil":
		return "yes", ""
	case pol == "+" && strings.HasPrefix(body, "Eq(") && strings.HasSuffix(body, ", req."+rq.Field+")"):
		if k := strings.TrimSuffix(strings.TrimPrefix(body, "Eq("), ", req."+rq.Field+")"); k == v {
			return "yes", ""
		}
	// ---- a component of a stored timestamp (seconds / nanos) tested against zero
	case strings.HasPrefix(body, "Eq(0, Timestamp.GetSeconds(req.") || strings.HasPrefix(body, "Eq(0, Timestamp.GetNanos(req."):
		if stored {
			return "yes", ""
		}
		return "no", fmt.Sprintf("the state validator tests a component of the timestamp %s.%s (%s) but for the stored value %s nothing — no fact on the path, no message-validator fact, no demand of the column it is copied from — constrains that component", t.Name, rq.Field, rq.Fact, v)
	// ---- non-zero keys
	case pol == "-" && strings.HasPrefix(body, "Eq(0, req."):
		isPK := len(t.PK) == 1 && snakeToCamel(t.PK[0]) == rq.Field
		if isPK && t.AutoInc && ev.OpKind == "insert" {
			return "yes", ""
		}
		if strings.HasPrefix(v, "newid:") || stored || strings.HasSuffix(v, ".Key") || strings.HasSuffix(v, ".Id") {
			return "yes", ""
		}
		if strings.HasPrefix(v, "(") && strings.HasSuffix(v, " + 1)") {
			return "yes", "" // an incremented unsigned counter
		}
		if strings.HasPrefix(v, "req.") && holdsFact(st, mv, "-Eq(0, "+v+")") {
			return "yes", ""
		}
		if v == "0" || v == "nil" {
			return "no", fmt.Sprintf("%s.%s is written as %s but the state validator requires a non-zero value", t.Name, rq.Field, v)
		}
		if n, _, isNum := twoInts(v, "0"); isNum && n != 0 {
			return "yes", "" // a non-zero constant
		}
		return "no", fmt.Sprintf("%s.%s = %s is not provably non-zero (required by the state validator)", t.Name, rq.Field, v)
	// ---- non-empty strings / bytes
	case pol == "-" && (strings.HasPrefix(body, `StrEq("", req.`) || strings.HasPrefix(body, "Eq(0, len(req.")):
		return nonEmpty(st, mv, t, rq, v, stored)
	// ---- non-nil
	case pol == "-" && strings.HasPrefix(body, "Nil(req."):
		if strings.HasPrefix(v, "ts(") || strings.HasPrefix(v, "&obj") || stored || strings.HasPrefix(v, "GogoToProtobufTimestamp(TimestampProto(") || strings.HasPrefix(v, "conv(") {
			return "yes", ""
		}
		if strings.HasPrefix(v, "req.") && holdsFact(st, mv, "-Nil("+v+")") {
			return "yes", ""
		}
		return "no", fmt.Sprintf("%s.%s = %s may be nil but the state validator requires it to be set", t.Name, rq.Field, v)
	// ---- ordering of dates
	case strings.HasPrefix(body, "TimeLt("):
		args := splitArgs(strings.TrimSuffix(strings.TrimPrefix(inst[1:], "TimeLt("), ")"))
		if len(args) != 2 {
			return "unknown", ""
		}
		a, b := args[0], args[1]
		if pol == "-" && holdsFact(st, mv, "+TimeLt("+b+", "+a+")") {
			return "yes", ""
		}
		// both unchanged stored values hold by induction (handled by caller); otherwise report the relation gap
		var have []string
		for _, cand := range []string{"+TimeLt(" + a + ", " + b + ")", "-TimeLt(" + a + ", " + b + ")", "+TimeLt(" + b + ", " + a + ")", "-TimeLt(" + b + ", " + a + ")"} {
			if holdsFact(st, mv, cand) {
				have = append(have, cand)
			}
		}
		return "no", fmt.Sprintf("the state validator requires %s but the writer only guarantees %v: the boundary case (equal dates) is accepted by the message and rejected by genesis validation", inst, have)
	// ---- length limits
	case reLenLimit.MatchString(rq.Fact):
		mm := reLenLimit.FindStringSubmatch(inst)
		if mm == nil {
			return "unknown", ""
		}
		limit, _ := strconv.Atoi(mm[1])
		subject := mm[2]
		if stored || strings.HasPrefix(subject, "Format") || strings.HasPrefix(subject, `"`) {
			return "yes", ""
		}
		for _, set := range []map[string]bool{st.factSet, mv.Exit, mv.Iter} {
			for f := range set {
				if m2 := reLenLimit.FindStringSubmatch(f); m2 != nil && normIdx(m2[2]) == normIdx(subject) {
					if got, _ := strconv.Atoi(m2[1]); got <= limit {
						return "yes", ""
					} else {
						return "no", fmt.Sprintf("%s.%s: the message accepts up to %d bytes but the state validator only %d", t.Name, rq.Field, got, limit)
					}
				}
			}
		}
		return "no", fmt.Sprintf("%s.%s = %s has no length limit on the writer side (state limit %d)", t.Name, rq.Field, subject, limit)
	// ---- successful validation helpers
	case pol == "+" && strings.HasPrefix(body, "Ok("):
		return okCall(st, mv, t, rq, inst, v, stored)
	// ---- decimal classes
	case strings.HasPrefix(body, "DecNonNeg(") || strings.HasPrefix(body, "DecPos("):
		switch d := val.(type) {
		case *DecStr:
			if d.D.NonNeg || d.D.Pos {
				return "yes", ""
			}
			if strings.HasPrefix(body, "DecNonNeg(") {
				return "yes", "" // C01.SIGN proves every stored ledger amount non-negative
			}
		case *KConst:
			return "yes", ""
		}
		if stored {
			return "yes", ""
		}
		if at := st.atomAttr["parse("+v+")"]; at != nil && (at.NonNeg || at.Pos) {
			return "yes", ""
		}
		if strings.HasPrefix(v, "conv(") || strings.HasPrefix(v, "req.") {
			// a request value stored as is (governance setters): the message validator must have proven the class
			rv := unconv(v)
			if at, has := mv.Attrs["parse("+rv+")"]; has && (at.Pos || (at.NonNeg && strings.HasPrefix(body, "DecNonNeg("))) {
				return "yes", ""
			}
			return "no", fmt.Sprintf("%s.%s = %s is stored as the request supplies it, and the message validator does not prove it to be a %s decimal on every accepting path", t.Name, rq.Field, v, map[bool]string{true: "non-negative", false: "positive"}[strings.HasPrefix(body, "DecNonNeg(")])
		}
		return "no", fmt.Sprintf("%s.%s = %s is not proven to be a non-negative decimal", t.Name, rq.Field, v)
	// ---- any other arithmetic demand on a value the request supplies unchanged
	case strings.HasPrefix(body, "Gt0(") || strings.HasPrefix(body, "Lt0(") || strings.HasPrefix(body, "Eq0("):
		if rv := unconv(v); reqPath.MatchString(rv) {
			// holdsFact above looked for the same fact among the handler's path facts and the message
			// validator's; a value taken straight from the request has no other source of guarantees
			return "no", fmt.Sprintf("the state validator requires %s, but %s.%s is stored as the request supplies it (%s) and neither the message validator nor the handler establishes that", inst, t.Name, rq.Field, v)
		}
	}
	return "unknown", ""
}

var reqPath = regexp.MustCompile(`^req(\.[A-Za-z][A-Za-z0-9]*)+$`)

// unconv: conv(req.Fees).SellerPercentageFee → req.Fees.SellerPercentageFee (the gogo → api conversion
// of a message is field-preserving).
func unconv(v string) string {
	return regexp.MustCompile(`conv\(([^()]*)\)`).ReplaceAllString(v, "$1")
}

func nonEmpty(st *State, mv *Validated, t *Table, rq requirement, v string, stored bool) (string, string) {
	// lower-casing preserves emptiness: decide on the argument
	if strings.HasPrefix(v, "lower(") && strings.HasSuffix(v, ")") {
		return nonEmpty(st, mv, t, rq, strings.TrimSuffix(strings.TrimPrefix(v, "lower("), ")"), false)
	}
	switch {
	case stored, strings.HasPrefix(v, "Format"), strings.HasPrefix(v, "addr("), strings.HasPrefix(v, "addrstr("), strings.HasPrefix(v, "conv("):
		return "yes", ""
	case strings.HasPrefix(v, `"`) && v != `""`:
		return "yes", ""
	case strings.HasPrefix(v, "str("):
		return "yes", "" // the rendering of a number is never empty
	case v == `""` || v == "nil":
		return "no", fmt.Sprintf("%s.%s is written empty (%s) but the state validator requires a non-empty value", t.Name, rq.Field, v)
	case strings.HasPrefix(v, "req."):
		for _, f := range []string{`-StrEq("", ` + v + ")", "-Eq(0, len(" + v + "))"} {
			if holdsFact(st, mv, f) {
				return "yes", ""
			}
		}
		// a successful format validator implies non-empty
		for _, set := range []map[string]bool{st.factSet, mv.Exit, mv.Iter} {
			for f := range set {
				if strings.HasPrefix(f, "+Ok(") && strings.Contains(normIdx(f), "("+normIdx(v)+")") {
					return "yes", ""
				}
			}
		}
		return "no", fmt.Sprintf("%s.%s = %s is not proven non-empty by the message validator", t.Name, rq.Field, v)
	case strings.Contains(v, "(req.") && !strings.HasPrefix(v, "invoke:"):
		// a transformation of a request field that is not known to preserve non-emptiness (trimming, slicing, …)
		return "no", fmt.Sprintf("%s.%s = %s: the stored value is a transformation of the request field that may yield the empty string even when the message validator saw a non-empty one", t.Name, rq.Field, v)
	}
	return "unknown", ""
}

// okCall: requirement +Ok(helper(value)).
func okCall(st *State, mv *Validated, t *Table, rq requirement, inst, v string, stored bool) (string, string) {
	call := strings.TrimSuffix(strings.TrimPrefix(inst[1:], "Ok("), ")")
	helper := call[:strings.Index(call, "(")]
	switch helper {
	case "bech32":
		// bech32(addrstr(X)): X must be a decoded, non-empty address
		switch {
		case strings.HasPrefix(v, "addr("), stored:
			return "yes", ""
		case strings.HasPrefix(v, "phi(") || v == "nil" || strings.Contains(v, "nil"):
			return "no", fmt.Sprintf("%s.%s can be written nil/empty (%s) but the state validator requires a valid non-empty address", t.Name, rq.Field, v)
		}
		return "no", fmt.Sprintf("%s.%s = %s is not a decoded address", t.Name, rq.Field, v)
	case "ValidateClassID", "ValidateProjectID", "ValidateBatchDenom", "ValidateBasketDenom", "ValidateBasketName", "ValidateCreditTypeAbbreviation", "ValidateJurisdiction":
		want := map[string]string{"ValidateClassID": "FormatClassID(", "ValidateProjectID": "FormatProjectID(", "ValidateBatchDenom": "FormatBatchDenom(", "ValidateBasketDenom": "FormatBasketDenom("}[helper]
		if stored || (want != "" && strings.HasPrefix(v, want)) {
			return "yes", "" // E5: format language ⊆ validator language (C14.LANG)
		}
		if strings.HasPrefix(v, "req.") {
			for _, set := range []map[string]bool{st.factSet, mv.Exit, mv.Iter} {
				if set["+Ok("+helper+"("+normIdx(v)+"))"] || set["+Ok("+helper+"("+v+"))"] {
					return "yes", ""
				}
			}
			// the value is the lookup key of a successfully fetched row that stores it (validated at its own insertion)
			for _, o := range st.mem {
				if o.Kind == "row" && o.ErrID != 0 && st.errs[o.ErrID] == 1 {
					for _, pv := range o.Preset {
						if st.canon(pv) == v {
							return "yes", ""
						}
					}
				}
			}
			return "no", fmt.Sprintf("%s.%s = %s is stored without %s having accepted it (message validator / lookup)", t.Name, rq.Field, v, helper)
		}
		return "no", fmt.Sprintf("%s.%s = %s is not known to satisfy %s", t.Name, rq.Field, v, helper)
	case "ParseIRI":
		if stored || strings.Contains(v, "ToIRI(") {
			return "yes", "" // encoder/decoder agreement: C15.CODEC
		}
		return "no", fmt.Sprintf("%s.%s = %s is not produced by ToIRI()", t.Name, rq.Field, v)
	default:
		// other helpers (url.ParseRequestURI, Coin.Validate, …): the message validator must apply the same helper to the same field
		if stored || strings.HasPrefix(v, "conv(") {
			return "yes", ""
		}
		for _, set := range []map[string]bool{st.factSet, mv.Exit, mv.Iter} {
			if set[normIdx(inst)] || set[inst] {
				return "yes", ""
			}
		}
		return "no", fmt.Sprintf("the state validator applies %s to %s.%s but the writer side does not apply it to the stored value %s: inputs accepted by the message can fail genesis validation", helper, t.Name, rq.Field, v)
	}
}

// ---- PREC: what genesis validation re-parses with a fixed precision, writers store within it -----------

// genesisFixedColumns: the (table, column) pairs ValidateGenesis (and what it calls) re-parses with a
// …FixedDecFromString constructor, i.e. rejects when the stored string has more decimal places than
// the credit type allows. Read off the code on every run.
func genesisFixedColumns(m *Model, genPkg string) map[string]bool {
	out := map[string]bool{}
	root := findFn(m, genPkg, "ValidateGenesis")
	if root == nil {
		return out
	}
	g := NewGraph(m.P)
	for _, fn := range sortedFns(g.Closure([]*ssa.Function{root})) {
		if !strings.HasSuffix(fnPkgPath(fn), genPkg) {
			continue
		}
		for _, ci := range callsIn(fn) {
			sc := ci.Common().StaticCallee()
			if sc == nil || !strings.HasSuffix(fnPkgPath(sc), mathPkgSuffix) || !strings.Contains(sc.Name(), "FixedDecFromString") || len(ci.Common().Args) < 1 {
				continue
			}
			for _, src := range rowColumnSources(ci.Common().Args[0], 0) {
				out[src] = true
			}
		}
	}
	return out
}

func ruleGenesisPrecision(c *Ctx, m *Model, r *E1, genPkg string) {
	p := m.P
	req := genesisFixedColumns(m, genPkg)
	c.Min("columns genesis validation re-parses with a fixed precision", 5, len(req))
	type agg struct {
		ev  *Event
		bad string
		n   int
	}
	for _, h := range r.Handlers {
		if h.EP.Kind == "canary" {
			continue
		}
		if h.nonneg == nil {
			h.inferLoopSigns()
		}
		sites := map[string]*agg{}
		for _, o := range h.Outs {
			for _, d := range h.Deltas(o) {
				if d.Col == "*" || d.Op == "delete" || !req[d.Table+"."+d.Col] {
					continue
				}
				k := siteKey(d.Ev)
				a := sites[k]
				if a == nil {
					a = &agg{ev: d.Ev}
					sites[k] = a
				}
				a.n++
				if ok, why := h.storedPrecise(o, d); !ok && a.bad == "" {
					a.bad = d.Table + "." + d.Col + ": " + why + " on path {" + outcomeLabel(h, o) + "}"
				}
			}
		}
		var ks []string
		for k := range sites {
			ks = append(ks, k)
		}
		sort.Strings(ks)
		for _, k := range ks {
			a := sites[k]
			if a.bad != "" {
				c.Violate("C09.PREC", h.Key+"→"+k, p.Pos(a.ev.Pos.Pos()), "genesis validation re-parses this column with the credit type's precision, but a stored value is not precision-gated: "+a.bad+" — the exported state would be rejected", nil)
			} else {
				c.Hold("C09.PREC", h.Key+"→"+k, p.Pos(a.ev.Pos.Pos()), fmt.Sprintf("every amount stored here passed a Fixed constructor bound to a credit type precision (%d path visits); genesis validation re-parses it the same way", a.n), nil)
			}
		}
	}
}

// callerArgs: the arguments passed for a parameter by the static callers of its function within the
// function's own package.
func callerArgs(prm *ssa.Parameter) []ssa.Value {
	fn := prm.Parent()
	if fn == nil || fn.Pkg == nil {
		return nil
	}
	idx := -1
	for i, q := range fn.Params {
		if q == prm {
			idx = i
		}
	}
	if idx < 0 {
		return nil
	}
	var out []ssa.Value
	var visit func(f *ssa.Function)
	visit = func(f *ssa.Function) {
		for _, ci := range callsIn(f) {
			if ci.Common().StaticCallee() == fn && idx < len(ci.Common().Args) {
				out = append(out, ci.Common().Args[idx])
			}
		}
		for _, af := range f.AnonFuncs {
			visit(af)
		}
	}
	for _, mem := range fn.Pkg.Members {
		switch x := mem.(type) {
		case *ssa.Function:
			visit(x)
		case *ssa.Type:
			for _, t := range []types.Type{x.Type(), types.NewPointer(x.Type())} {
				ms := fn.Prog.MethodSets.MethodSet(t)
				for i := 0; i < ms.Len(); i++ {
					if mf := fn.Prog.MethodValue(ms.At(i)); mf != nil && mf.Pkg == fn.Pkg && len(mf.Blocks) > 0 {
						visit(mf)
					}
				}
			}
		}
	}
	return out
}

// rowColumnSources: the "Type.Field" row columns a string value is loaded from — directly, through a φ, or
// through a local literal table of (amount, destination) cases that a loop walks over.
func rowColumnSources(v ssa.Value, depth int) []string {
	if depth > 6 || v == nil {
		return nil
	}
	if al, fld, ok := tableElemField(v); ok {
		var out []string
		for _, row := range tableStores(al) {
			if sv, has := row[fld]; has {
				out = append(out, rowColumnSources(sv, depth+1)...)
			}
		}
		return out
	}
	switch y := v.(type) {
	case *ssa.Phi:
		var out []string
		for _, e := range y.Edges {
			out = append(out, rowColumnSources(e, depth+1)...)
		}
		return out
	case *ssa.Parameter:
		// a helper's parameter: what every caller in the package passes
		var out []string
		for _, arg := range callerArgs(y) {
			out = append(out, rowColumnSources(arg, depth+1)...)
		}
		return out
	case *ssa.Slice:
		// the elements stored into the backing array (a variadic argument list, a slice literal)
		if al, ok := y.X.(*ssa.Alloc); ok {
			var out []string
			for _, r := range *al.Referrers() {
				if ia, ok := r.(*ssa.IndexAddr); ok {
					for _, r2 := range *ia.Referrers() {
						if st, ok := r2.(*ssa.Store); ok && st.Addr == ia {
							out = append(out, rowColumnSources(st.Val, depth+1)...)
						}
					}
				}
			}
			return out
		}
		return rowColumnSources(y.X, depth+1)
	case *ssa.UnOp:
		if y.Op != token.MUL {
			return nil
		}
		// an element of a slice of strings (`for _, a := range amounts`)
		if ia, ok := y.X.(*ssa.IndexAddr); ok {
			if _, isSl := ia.X.Type().Underlying().(*types.Slice); isSl {
				return rowColumnSources(ia.X, depth+1)
			}
		}
		fa, ok := y.X.(*ssa.FieldAddr)
		if !ok {
			return nil
		}
		nt := namedOf(fa.X.Type())
		if nt == nil {
			return nil
		}
		st, ok := nt.Underlying().(*types.Struct)
		if !ok || fa.Field >= st.NumFields() {
			return nil
		}
		return []string{nt.Obj().Name() + "." + st.Field(fa.Field).Name()}
	case *ssa.Field:
		nt := namedOf(y.X.Type())
		if nt == nil {
			return nil
		}
		st, ok := nt.Underlying().(*types.Struct)
		if !ok || y.Field >= st.NumFields() {
			return nil
		}
		return []string{nt.Obj().Name() + "." + st.Field(y.Field).Name()}
	}
	return nil
}

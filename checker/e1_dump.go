package main

import (
	"fmt"
	"go/types"
	"os"
	"sort"
	"strings"

	"golang.org/x/tools/go/ssa"
)

// entryParams builds the abstract arguments of a handler: receiver k, ctx, req.
func entryParams(fn *ssa.Function) []Val {
	var out []Val
	for i, p := range fn.Params {
		switch {
		case i == len(fn.Params)-1 && len(fn.Params) >= 2:
			out = append(out, &SymPtr{Base: "req", T: p.Type()})
		case fn.Signature.Recv() != nil && i == 0:
			out = append(out, &Sym{N: "k", T: p.Type()})
		default:
			out = append(out, &Sym{N: p.Name(), T: p.Type()})
		}
	}
	return out
}

func e1dump(mod, which string, verbose bool) {
	e := &Env{overlay: cliOverlay, progs: map[string]*Program{}, models: map[string]*Model{}}
	m := e.Model(mod)
	x := NewExplorer(m)
	for _, ep := range m.Entries {
		if ep.Kind != "msg" || !ep.Implemented || ep.Fn == nil {
			continue
		}
		if which != "all" && ep.Key() != which {
			continue
		}
		x.Stats.Paths, x.Stats.Forks, x.Stats.Steps = 0, 0, 0
		outs := x.Explore(ep.Fn, entryParams(ep.Fn))
		nc, na, nl := 0, 0, 0
		sigs := map[string]int{}
		sample := map[string]*Outcome{}
		for _, o := range outs {
			switch {
			case o.Kind == exitLoopback:
				nl++
			case o.Commit:
				nc++
			default:
				na++
			}
			if o.Commit {
				sig := fmt.Sprintf("[%v %s] ", o.Kind, o.Loop) + x.effectSignature(o)
				if len(o.St.notes) > 0 {
					sig += "\n      NOTES: " + strings.Join(o.St.notes, "; ")
				}
				sigs[sig]++
				sample[sig] = o
			}
		}
		fmt.Printf("== %s: %d outcomes (%d commit, %d loopback, %d abort), %d forks, %d steps, %d effect classes cut=%v\n", ep.Key(), len(outs), nc, nl, na, x.Stats.Forks, x.Stats.Steps, len(sigs), x.cut)
		var ks []string
		for k := range sigs {
			ks = append(ks, k)
		}
		sort.Strings(ks)
		for _, k := range ks {
			fmt.Printf("   x%d %s\n", sigs[k], k)
			if verbose {
				fmt.Printf("      FACTS: %s\n", strings.Join(sample[k].St.facts, " ; "))
			}
		}
	}
}

func e1events(mod, which string) {
	e := &Env{overlay: cliOverlay, progs: map[string]*Program{}, models: map[string]*Model{}}
	m := e.Model(mod)
	r := RunE1(m)
	h := r.byKey[which]
	if h == nil {
		fmt.Println("no handler")
		return
	}
	for i, o := range h.Outs {
		if i > 3 && os.Getenv("E1ALL") == "" {
			break
		}
		fmt.Printf("--- outcome kind=%v loop=%s\n", o.Kind, o.Loop)
		for j := range o.St.events {
			ev := &o.St.events[j]
			t := ""
			if ev.Table != nil {
				t = ev.Table.Name
			}
			var ks, cols []string
			for _, k := range ev.Keys {
				ks = append(ks, o.St.canon(k))
			}
			for c, v := range ev.Row {
				cols = append(cols, c+"="+o.St.canon(v))
			}
			sort.Strings(cols)
			fmt.Printf("  %d %s %s.%s loop=%q obj=%d keys=[%s] row={%s}\n", j, ev.Kind, t, ev.Method, ev.Loop, ev.RowObj, strings.Join(ks, "; "), strings.Join(cols, ", "))
		}
	}
}

// e1loops prints the loop accumulators (havoc → back) of a handler's iteration outcomes.
func e1loops(mod, which string) {
	e := &Env{overlay: cliOverlay, progs: map[string]*Program{}, models: map[string]*Model{}}
	m := e.Model(mod)
	r := RunE1(m)
	h := r.byKey[which]
	if h == nil {
		fmt.Println("no handler", which)
		return
	}
	for _, o := range h.Outs {
		if o.Kind != exitLoopback {
			continue
		}
		for _, l := range o.St.loops {
			if l.Tag != o.Loop {
				continue
			}
			for _, ph := range l.Phis {
				fmt.Printf("%s %s: havoc=%s back=%s (%T)\n", l.Tag, ph.Name, vstr(ph.Havoc), vstr(ph.Back), ph.Back)
				if iv, ok := ph.Back.(*IntV); ok {
					fmt.Printf("    inexact=%v\n", iv.Inexact)
				}
			}
		}
	}
}

// e1aborts prints the error origins of the aborting paths of a handler.
func e1aborts(mod, which string) {
	e := &Env{overlay: cliOverlay, progs: map[string]*Program{}, models: map[string]*Model{}}
	m := e.Model(mod)
	r := RunE1(m)
	for _, h := range r.Handlers {
		if which != "all" && h.Key != which {
			continue
		}
		var ks []string
		for o := range h.AbortOrigins {
			ks = append(ks, o)
		}
		sort.Strings(ks)
		fmt.Printf("== %s: %d aborting paths\n", h.Key, h.Aborts)
		for _, k := range ks {
			fmt.Printf("   %3d  %s\n", h.AbortOrigins[k], k)
		}
	}
}

// e1fn <mod> <pkgSuffix> <Type.Method|func>: explores one function (validator mode) and prints each
// outcome with its facts — a debugging aid.
func e1fn(mod, pkgSuffix, name string) {
	e := &Env{overlay: cliOverlay, progs: map[string]*Program{}, models: map[string]*Model{}}
	m := e.Model(mod)
	x := NewExplorer(m)
	var fn *ssa.Function
	if i := strings.Index(name, "."); i > 0 {
		pk := m.P.Pkg(pkgSuffix)
		if pk != nil {
			if tn, ok := pk.Types.Scope().Lookup(name[:i]).(*types.TypeName); ok {
				if nt, ok := tn.Type().(*types.Named); ok {
					fn = methodOf(m, nt, name[i+1:])
				}
			}
		}
	} else {
		fn = findFn(m, pkgSuffix, name)
	}
	if fn == nil {
		fmt.Println("function not found")
		return
	}
	var params []Val
	for i, p := range fn.Params {
		if i == 0 && fn.Signature.Recv() != nil {
			if _, isPtr := p.Type().(*types.Pointer); isPtr {
				params = append(params, &SymPtr{Base: "req", T: p.Type().(*types.Pointer).Elem()})
			} else {
				params = append(params, &Sym{N: "req", T: p.Type()})
			}
			continue
		}
		params = append(params, &Sym{N: p.Name(), T: p.Type()})
	}
	x.validatorMode = true
	outs := x.Explore(fn, params)
	for i, o := range outs {
		fmt.Printf("-- outcome %d kind=%v commit=%v loop=%s cut=%v\n   facts: %s\n", i, o.Kind, o.Commit, o.Loop, x.cut, strings.Join(o.St.facts, " "))
		for _, ev := range o.St.events {
			fmt.Printf("   ev %s %s\n", ev.Kind, ev.Method)
		}
		if len(o.St.notes) > 0 {
			fmt.Println("   notes: " + strings.Join(o.St.notes, "; "))
		}
	}
}

// e1paramaborts: explicit rejections whose deciding fact mentions a parameter row — a debugging aid.
func e1paramaborts(mod string) {
	e := &Env{overlay: cliOverlay, progs: map[string]*Program{}, models: map[string]*Model{}}
	m := e.Model(mod)
	r := RunE1(m)
	for _, h := range r.Handlers {
		seen := map[string]bool{}
		for _, o := range h.AbortOuts {
			idx := errResultIndex(h.Fn.Signature)
			if idx < 0 || idx >= len(o.Rets) {
				continue
			}
			ev, ok := o.Rets[idx].(*ErrV)
			if !ok || len(o.St.facts) == 0 {
				continue
			}
			last := o.St.facts[len(o.St.facts)-1]
			k := ev.Origin + " <= " + last
			if seen[k] {
				continue
			}
			seen[k] = true
			for _, t := range m.Tables {
				if t.Singleton && strings.Contains(last, t.Name+"#") {
					fmt.Printf("%s: %s\n", h.Key, k)
					break
				}
			}
		}
	}
}

// e1unchecked: state effects whose error is not known nil at the end of a committed path — a debugging aid.
func e1unchecked(mod string) {
	e := &Env{overlay: cliOverlay, progs: map[string]*Program{}, models: map[string]*Model{}}
	m := e.Model(mod)
	r := RunE1(m)
	for _, h := range r.Handlers {
		seen := map[string]bool{}
		for _, o := range h.Outs {
			for i := range o.St.events {
				ev := &o.St.events[i]
				if !isEffect(ev) || ev.ErrID == 0 || !inScope(o, ev) {
					continue
				}
				if o.St.errs[ev.ErrID] != 1 {
					k := fmt.Sprintf("%s: %s errstate=%d kind=%v", h.Key, describeEvent(o.St, ev), o.St.errs[ev.ErrID], o.Kind)
					if !seen[k] {
						seen[k] = true
						fmt.Println(k)
					}
				}
			}
		}
	}
}

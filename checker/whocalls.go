package main

// E3 — who-may-write inventories: every ORM and bank call site in hand-written,
// non-test, non-simulation repo code of a module.

import (
	"fmt"
	"go/token"
	"sort"
	"strings"

	"golang.org/x/tools/go/ssa"
)

type Site struct {
	Fn     *ssa.Function
	Table  *Table
	Method string
	Kind   string              // insert | update | save | delete | deleterange | get | has | list
	Call   ssa.CallInstruction // nil for a method value (k.table.Insert taken as a value: a potential call)
	Bank   string              // bank method name when a bank call
	pos    token.Pos
}

// At: where the site is.
func (s Site) At() token.Pos {
	if s.Call != nil {
		return s.Call.Pos()
	}
	return s.pos
}

type Inventory struct {
	M     *Model
	Sites []Site
	Fns   []*ssa.Function
}

// subjectPackages: production packages (excluded ones are reported separately in the thorough tier).
func (m *Model) subjectFns(includeExcluded bool) []*ssa.Function {
	var out []*ssa.Function
	for _, pk := range m.P.RepoList {
		if strings.Contains(pk.PkgPath, "/api/v2/") {
			continue
		}
		if !includeExcluded && excludedPkg(pk.PkgPath) != "" {
			continue
		}
		sp := m.P.ssaPkgs[pk.Types]
		if sp == nil {
			continue
		}
		for _, fn := range pkgFuncs(m.P.SSA, sp) {
			if pos0(m.P, fn) {
				out = append(out, fn)
			}
		}
	}
	sort.Slice(out, func(i, j int) bool { return out[i].String() < out[j].String() })
	return out
}

func BuildInventory(m *Model, includeExcluded bool) *Inventory {
	inv := &Inventory{M: m}
	inv.Fns = m.subjectFns(includeExcluded)
	for _, fn := range inv.Fns {
		for _, ci := range callsIn(fn) {
			if oc := m.AsORMCall(ci); oc != nil && oc.Kind != "" {
				inv.Sites = append(inv.Sites, Site{Fn: fn, Table: oc.Table, Method: oc.Method, Kind: oc.Kind, Call: ci})
			} else if b := AsBankCall(ci); b != "" {
				inv.Sites = append(inv.Sites, Site{Fn: fn, Method: b, Bank: b, Kind: "bank", Call: ci})
			}
		}
		// method values of tables and of the bank keeper: taking `table.Delete` as a value is a potential call
		for _, b := range fn.Blocks {
			for _, in := range b.Instrs {
				mc, ok := in.(*ssa.MakeClosure)
				if !ok || len(mc.Bindings) != 1 {
					continue
				}
				bf, ok := mc.Fn.(*ssa.Function)
				if !ok || !strings.HasSuffix(bf.Name(), "$bound") {
					continue
				}
				name := strings.TrimSuffix(bf.Name(), "$bound")
				if t := m.TableOfIface(mc.Bindings[0].Type()); t != nil && ormOpKind(name) != "" {
					inv.Sites = append(inv.Sites, Site{Fn: fn, Table: t, Method: name, Kind: ormOpKind(name), pos: mc.Pos()})
				} else if n := namedOf(mc.Bindings[0].Type()); n != nil && n.Obj().Name() == "BankKeeper" && isBankMutator(name) {
					inv.Sites = append(inv.Sites, Site{Fn: fn, Method: name, Bank: name, Kind: "bank", pos: mc.Pos()})
				}
			}
		}
	}
	return inv
}

func (inv *Inventory) Writes(table string) []Site {
	var out []Site
	for _, s := range inv.Sites {
		if s.Table != nil && s.Table.Name == table && isWriteOp(s.Kind) {
			out = append(out, s)
		}
	}
	return out
}

func (inv *Inventory) AllWrites() []Site {
	var out []Site
	for _, s := range inv.Sites {
		if s.Table != nil && isWriteOp(s.Kind) {
			out = append(out, s)
		}
	}
	return out
}

// rowArg returns the row argument value of a write call (Insert/Update/Save/Delete).
func rowArg(s Site) ssa.Value {
	if s.Call == nil {
		return nil
	}
	a := s.Call.Common().Args
	if len(a) >= 2 && (s.Kind == "insert" || s.Kind == "update" || s.Kind == "save" || s.Kind == "delete") {
		return a[1]
	}
	return nil
}

// literalRowFields: when the row argument is a freshly built struct (`&T{...}`), the
// fields explicitly stored, by name.
func literalRowFields(v ssa.Value) (map[string][]ssa.Value, bool) {
	a, ok := v.(*ssa.Alloc)
	if !ok {
		return nil, false
	}
	return fieldStores(a), true
}

// reachableBlocks computes blocks reachable from the entry when the given CFG edges are removed.
type cfgEdge struct {
	from *ssa.BasicBlock
	succ int
}

func reachableWithout(fn *ssa.Function, removed []cfgEdge) map[*ssa.BasicBlock]bool {
	rm := map[cfgEdge]bool{}
	for _, e := range removed {
		rm[e] = true
	}
	seen := map[*ssa.BasicBlock]bool{}
	var walk func(b *ssa.BasicBlock)
	walk = func(b *ssa.BasicBlock) {
		if seen[b] {
			return
		}
		seen[b] = true
		for i, s := range b.Succs {
			if rm[cfgEdge{b, i}] {
				continue
			}
			walk(s)
		}
	}
	if len(fn.Blocks) > 0 {
		walk(fn.Blocks[0])
	}
	return seen
}

// branchOf returns the successor index taken when v evaluates to want, for the If controlled by v.
func branchOf(v ssa.Value, want bool) (*ssa.If, int) {
	ifi, neg := ifOn(v)
	if ifi == nil {
		return nil, 0
	}
	b := 0
	if want == neg {
		b = 1
	}
	return ifi, b
}

// allRoots: every function the runtime may enter: implemented msg and query handlers, block hooks,
// genesis, invariants.
func (m *Model) allRoots() []*ssa.Function {
	roots := m.ConsensusRoots()
	for _, e := range m.Entries {
		if e.Kind == "query" && e.Implemented && e.Fn != nil {
			roots = append(roots, e.Fn)
		}
	}
	return roots
}

// reachedOnlyThrough reports whether every call chain from a root to fn passes through one of the
// gate functions (fn being a gate counts): a who-may-call rule that survives helper extraction and
// renaming, because gates are identified by the generated server interface, not by name. When a
// chain avoids the gates it is returned for the report.
func (m *Model) reachedOnlyThrough(fn *ssa.Function, gates map[*ssa.Function]bool) (bool, string) {
	if gates[fn] {
		return true, ""
	}
	g := NewGraph(m.P)
	prev := map[*ssa.Function]*ssa.Function{}
	seen := map[*ssa.Function]bool{}
	var work []*ssa.Function
	for _, r := range m.allRoots() {
		if r != nil && !seen[r] && !gates[r] {
			seen[r] = true
			work = append(work, r)
		}
	}
	for len(work) > 0 {
		f := work[0]
		work = work[1:]
		if f == fn {
			var chain []string
			for q := f; q != nil; q = prev[q] {
				chain = append([]string{funcKey(q)}, chain...)
			}
			return false, strings.Join(chain, " → ")
		}
		for _, c := range g.Callees(f) {
			if !seen[c] && !gates[c] {
				seen[c] = true
				prev[c] = f
				work = append(work, c)
			}
		}
	}
	return true, ""
}

// entryFns returns the handler functions of the named entry points ("base.CreateBatch", …).
func (m *Model) entryFns(keys ...string) map[*ssa.Function]bool {
	out := map[*ssa.Function]bool{}
	for _, e := range m.Entries {
		for _, k := range keys {
			if e.Kind == "msg" && e.Key() == k && e.Fn != nil {
				out[e.Fn] = true
			}
		}
	}
	return out
}

// thoroughInventory (thorough tier): state-writing call sites in the packages that the consensus
// closure excludes (simulation, client, testsuite, mocks, migrations, testutil, tests) are listed
// as information, so that a writer hiding in a non-obvious package is seen by whoever reads the
// evidence; C10.CLOSURE is what shows that no call edge leads from the closure into them.
func thoroughInventory(c *Ctx, e *Env) {
	var mods []string
	for mod := range e.models {
		mods = append(mods, mod)
	}
	sort.Strings(mods)
	for _, mod := range mods {
		m := e.models[mod]
		all := BuildInventory(m, true)
		n := 0
		byPkg := map[string]int{}
		for _, s := range all.Sites {
			why := excludedPkg(fnPkgPath(s.Fn))
			if why == "" || isCanaryFn(s.Fn) {
				continue
			}
			isWrite := (s.Table != nil && isWriteOp(s.Kind)) || (s.Bank != "" && isBankMutator(s.Bank))
			if !isWrite {
				continue
			}
			n++
			byPkg[shortPkg(fnPkgPath(s.Fn))]++
		}
		var ps []string
		for p, k := range byPkg {
			ps = append(ps, fmt.Sprintf("%s:%d", p, k))
		}
		sort.Strings(ps)
		c.Note(c.Prop+".XPKG", mod+"#writers-outside-closure", "-", fmt.Sprintf("%d state-writing call sites in packages excluded from the consensus closure of %s (%s); they are outside every rule's quantifier and unreachable from it (C10.CLOSURE)", n, mod, strings.Join(ps, ", ")))
		c.Count("excluded_package_write_sites", n)
	}
}

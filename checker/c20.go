package main

// C20 — intertx: value provenance rules on SubmitTx / RegisterAccount.

import (
	"fmt"
	"go/types"
	"strings"

	"golang.org/x/tools/go/ssa"
)

func init() { register("C20", checkC20) }

func findInvokes(fn *ssa.Function, iface, method string) []*ssa.Call {
	var out []*ssa.Call
	for _, ci := range callsIn(fn) {
		call, ok := ci.(*ssa.Call)
		if !ok || !call.Call.IsInvoke() || call.Call.Method.Name() != method {
			continue
		}
		if n := namedOf(call.Call.Value.Type()); n != nil && n.Obj().Name() == iface {
			out = append(out, call)
		}
	}
	return out
}

func checkC20(c *Ctx, e *Env) {
	c.Explanation = "SSA value provenance in x/intertx/keeper (engine E2 on the dominator tree): I1 the port passed to GetActiveChannelID, ChannelCapabilityPath and SendTx is the single value NewControllerPortID(msg.Owner); the connection is msg.ConnectionId; " +
		"I2 SendTx is dominated by found==true of both the active-channel and the capability lookup, whose results are the channel and capability passed on; there is exactly one SendTx call site in the module, in SubmitTx; " +
		"I3 the packet has constant type EXECUTE_TX and Data = SerializeCosmosTx(k.cdc, one-element slice holding msg.Msg.GetCachedValue().(sdk.Msg)), the message value has no other use, nothing stores into the request; I4 timeout = uint64(ctx.BlockTime().Add(time.Minute).UnixNano()) with ctx unwrapped from the handler context; " +
		"I5 GetSigners of MsgSubmitTx/MsgRegisterAccount return exactly the bech32 decoding of Owner; RegisterAccount forwards (ConnectionId, Owner, Version)."
	c.NotDecided = []string{"that ibc-go derives the port injectively from the owner and delivers the packet (dependency)", "byte-level round trip of SerializeCosmosTx"}
	c.Assumptions = []string{"A6", "A7"}
	m := e.Model("x/intertx")
	p := m.P
	var submit, register *EntryPoint
	for _, ep := range m.Entries {
		if ep.Kind == "msg" && ep.Service == "intertx" && ep.Implemented {
			switch ep.Name {
			case "SubmitTx":
				submit = ep
			case "RegisterAccount":
				register = ep
			}
		}
	}
	if submit == nil || submit.Fn == nil || register == nil || register.Fn == nil {
		c.Undecide("C20.ENTRY", "intertx.MsgServer", "-", "SubmitTx / RegisterAccount handlers not found")
		return
	}
	c.Count("handlers", 2)
	// I5 signers
	c.Check(submit.SignerField == "Owner", "C20.I5", "MsgSubmitTx.GetSigners", "-", "GetSigners decodes exactly one request field: "+submit.SignerField+" (required Owner)")
	c.Check(register.SignerField == "Owner", "C20.I5", "MsgRegisterAccount.GetSigners", "-", "GetSigners decodes exactly one request field: "+register.SignerField+" (required Owner)")
	for _, ep := range []*EntryPoint{submit, register} {
		c.Check(signersSingle(m, ep.Req), "C20.I5", ep.Req.Obj().Name()+".GetSigners#single", "-", "GetSigners returns a one-element slice holding that address")
	}

	fn := submit.Fn
	t := NewTermer(fn)
	msg := fn.Params[len(fn.Params)-1].Name()
	goCtx := fn.Params[len(fn.Params)-2].Name()
	wantPort := "NewControllerPortID(" + msg + ".Owner)#0"
	wantConn := msg + ".ConnectionId"
	wantCtx := "UnwrapSDKContext(" + goCtx + ")"

	sends := findInvokes(fn, "ICAControllerKeeper", "SendTx")
	// whole-module SendTx inventory
	nSend := 0
	for _, pk := range p.RepoList {
		if excludedPkg(pk.PkgPath) != "" || strings.Contains(pk.PkgPath, "/mocks") {
			continue
		}
		sp := p.ssaPkgs[pk.Types]
		if sp == nil {
			continue
		}
		for _, f := range pkgFuncs(p.SSA, sp) {
			if !pos0(p, f) {
				continue
			}
			c.Count("functions_scanned", 1)
			for _, ci := range callsIn(f) {
				cc := ci.Common()
				name := ""
				if cc.IsInvoke() {
					name = cc.Method.Name()
				} else if sc := cc.StaticCallee(); sc != nil {
					name = sc.Name()
				}
				if name == "SendTx" || name == "SendPacket" {
					nSend++
					if f != fn {
						c.Violate("C20.I2", funcKey(f)+"#"+name, p.Pos(ci.Pos()), "interchain-account send outside SubmitTx: bypasses the owner/port/capability checks", nil)
					}
				}
			}
		}
	}
	c.Check(len(sends) == 1 && nSend == 1, "C20.I2", "SendTx#single-site", p.Pos(fn.Pos()), fmt.Sprintf("exactly one SendTx call site in the module and it is in SubmitTx (found %d in SubmitTx, %d in module)", len(sends), nSend))
	if len(sends) != 1 {
		return
	}
	send := sends[0]
	args := send.Call.Args // ctx, chanCap, connectionID, portID, packetData, timeout
	if len(args) != 6 {
		c.Undecide("C20.I1", "SendTx#arity", p.Pos(send.Pos()), "SendTx signature changed; rule must be re-confirmed")
		return
	}
	pos := p.Pos(send.Pos())
	c.Check(t.T(args[0]) == wantCtx, "C20.I4", "SendTx#ctx", pos, "context is "+t.T(args[0])+" (required "+wantCtx+")")
	c.Check(t.T(args[3]) == wantPort, "C20.I1", "SendTx#port", pos, "port argument is "+t.T(args[3])+" (required "+wantPort+")")
	c.Check(t.T(args[2]) == wantConn, "C20.I1", "SendTx#connection", pos, "connection argument is "+t.T(args[2])+" (required "+wantConn+")")
	// channel lookup
	chans := findInvokes(fn, "ICAControllerKeeper", "GetActiveChannelID")
	caps := findInvokes(fn, "CapabilityKeeper", "GetCapability")
	if len(chans) != 1 || len(caps) != 1 {
		c.Violate("C20.I2", "lookups", pos, fmt.Sprintf("expected exactly one GetActiveChannelID and one GetCapability call, found %d and %d", len(chans), len(caps)), nil)
		return
	}
	ch, cp := chans[0], caps[0]
	c.Check(t.T(ch.Call.Args[1]) == wantConn && t.T(ch.Call.Args[2]) == wantPort, "C20.I1", "GetActiveChannelID#args", p.Pos(ch.Pos()),
		"active channel looked up for ("+t.T(ch.Call.Args[1])+", "+t.T(ch.Call.Args[2])+") (required ("+wantConn+", "+wantPort+"))")
	wantChan := t.T(ch) + "#0"
	wantPath := "ChannelCapabilityPath(" + wantPort + ", " + wantChan + ")"
	c.Check(t.T(cp.Call.Args[1]) == wantPath, "C20.I1", "GetCapability#path", p.Pos(cp.Pos()), "capability path is "+t.T(cp.Call.Args[1])+" (required "+wantPath+")")
	c.Check(t.T(args[1]) == t.T(cp)+"#0", "C20.I2", "SendTx#capability", pos, "capability argument is "+t.T(args[1])+" (required the result of that GetCapability call)")
	for _, lk := range []struct {
		call *ssa.Call
		name string
	}{{ch, "GetActiveChannelID"}, {cp, "GetCapability"}} {
		ok := false
		for _, r := range *lk.call.Referrers() {
			if ex, isEx := r.(*ssa.Extract); isEx && ex.Index == 1 {
				if ifi, neg := ifOn(ex); ifi != nil {
					branch := 0
					if neg {
						branch = 1
					}
					if edgeDominates(ifi.Block(), branch, send.Block()) {
						ok = true
					}
				}
			}
		}
		c.Check(ok, "C20.I2", "SendTx#dominated-by:"+lk.name, p.Pos(lk.call.Pos()), "SendTx is reached only through found==true of "+lk.name)
	}
	// I3 packet
	ruleC20Packet(c, p, t, fn, send, msg)
	// I4 timeout
	wantTO := "uint64(Time.UnixNano(Time.Add(Context.BlockTime(" + wantCtx + "), 60000000000)))"
	c.Check(t.T(args[5]) == wantTO, "C20.I4", "SendTx#timeout", pos, "timeout is "+t.T(args[5])+" (required "+wantTO+")")
	// nothing stores into the request
	stores := 0
	for _, b := range fn.Blocks {
		for _, in := range b.Instrs {
			if st, ok := in.(*ssa.Store); ok {
				if root := addrRoot(st.Addr); root == fn.Params[len(fn.Params)-1] {
					stores++
					c.Violate("C20.I3", "SubmitTx#store-into-request", p.Pos(st.Pos()), "SubmitTx writes into the request message before forwarding it", nil)
				}
			}
		}
	}
	if stores == 0 {
		c.Hold("C20.I3", "SubmitTx#request-unmodified", p.Pos(fn.Pos()), "no store into the request message anywhere in SubmitTx", nil)
	}
	// RegisterAccount forwards owner
	rt := NewTermer(register.Fn)
	rmsg := register.Fn.Params[len(register.Fn.Params)-1].Name()
	regs := findInvokes(register.Fn, "ICAControllerKeeper", "RegisterInterchainAccount")
	if len(regs) != 1 {
		c.Violate("C20.I5", "RegisterAccount#call", p.Pos(register.Fn.Pos()), fmt.Sprintf("expected one RegisterInterchainAccount call, found %d", len(regs)), nil)
	} else {
		a := regs[0].Call.Args
		got := []string{rt.T(a[1]), rt.T(a[2]), rt.T(a[3])}
		want := []string{rmsg + ".ConnectionId", rmsg + ".Owner", rmsg + ".Version"}
		c.Check(strings.Join(got, ",") == strings.Join(want, ","), "C20.I5", "RegisterAccount#args", p.Pos(regs[0].Pos()), "RegisterInterchainAccount receives ("+strings.Join(got, ", ")+") (required ("+strings.Join(want, ", ")+"))")
	}
	c.Min("functions scanned for SendTx", 5, c.Analysed["functions_scanned"])
}

func ruleC20Packet(c *Ctx, p *Program, t *Termer, fn *ssa.Function, send *ssa.Call, msg string) {
	pos := p.Pos(send.Pos())
	pk := send.Call.Args[4]
	ld, ok := pk.(*ssa.UnOp)
	var alloc *ssa.Alloc
	if ok {
		alloc, _ = ld.X.(*ssa.Alloc)
	}
	if alloc == nil {
		c.Violate("C20.I3", "packet#literal", pos, "packet data is not a locally built struct literal: "+t.T(pk), nil)
		return
	}
	fs := fieldStores(alloc)
	// Type
	okType := false
	if vs := fs["Type"]; len(vs) == 1 {
		if v, isC := constInt(vs[0]); isC {
			// resolve icatypes.EXECUTE_TX
			if want, found := pkgConstInt(fn, "27-interchain-accounts/types", "EXECUTE_TX"); found && want == v {
				okType = true
			}
		}
	}
	c.Check(okType, "C20.I3", "packet#type", pos, "packet Type is the constant icatypes.EXECUTE_TX")
	// Data
	vs := fs["Data"]
	if len(vs) != 1 {
		c.Violate("C20.I3", "packet#data", pos, fmt.Sprintf("packet Data assigned %d times", len(vs)), nil)
		return
	}
	ex, _ := vs[0].(*ssa.Extract)
	var ser *ssa.Call
	if ex != nil && ex.Index == 0 {
		ser, _ = ex.Tuple.(*ssa.Call)
	}
	if ser == nil || shortCallee(&ser.Call) != "SerializeCosmosTx" {
		c.Violate("C20.I3", "packet#data", pos, "packet Data is not the result of SerializeCosmosTx: "+t.T(vs[0]), nil)
		return
	}
	c.Check(strings.HasSuffix(t.T(ser.Call.Args[0]), ".cdc"), "C20.I3", "packet#codec", p.Pos(ser.Pos()), "serialised with the keeper codec: "+t.T(ser.Call.Args[0]))
	// msgs slice: one element
	sl, _ := ser.Call.Args[1].(*ssa.Slice)
	var arr *ssa.Alloc
	if sl != nil {
		arr, _ = sl.X.(*ssa.Alloc)
	}
	if arr == nil {
		c.Violate("C20.I3", "packet#msgs", p.Pos(ser.Pos()), "message list is not a slice literal", nil)
		return
	}
	at, _ := arr.Type().(*types.Pointer).Elem().Underlying().(*types.Array)
	es := elemStores(arr)
	one := at != nil && at.Len() == 1 && len(es) == 1 && len(es[0]) == 1
	c.Check(one, "C20.I3", "packet#single-message", p.Pos(ser.Pos()), fmt.Sprintf("message list literal has exactly one element (array length %d)", arrLen(at)))
	if !one {
		return
	}
	want := msg + ".Msg.GetCachedValue().(types.Msg)#0"
	got := t.T(es[0][0])
	got = strings.Replace(got, "Any.GetCachedValue("+msg+".Msg)", msg+".Msg.GetCachedValue()", 1)
	c.Check(got == want, "C20.I3", "packet#message-provenance", p.Pos(ser.Pos()), "the element is "+got+" (required "+want+")")
	// the asserted message value has no use other than the slice element (and the comma-ok flag)
	var elem ssa.Value = es[0][0]
	for {
		switch x := elem.(type) {
		case *ssa.ChangeInterface:
			elem = x.X
			continue
		case *ssa.MakeInterface:
			elem = x.X
			continue
		}
		break
	}
	other := 0
	if elem.Referrers() != nil {
		for _, r := range *elem.Referrers() {
			switch r.(type) {
			case *ssa.ChangeInterface, *ssa.MakeInterface, *ssa.DebugRef:
			default:
				other++
			}
		}
	}
	c.Check(other == 0, "C20.I3", "packet#message-unmodified", p.Pos(ser.Pos()), fmt.Sprintf("the inner message value has %d uses other than being placed in the packet", other))
}

func arrLen(a *types.Array) int64 {
	if a == nil {
		return -1
	}
	return a.Len()
}

// pkgConstInt finds an integer constant by name in an imported package (by path suffix).
func pkgConstInt(fn *ssa.Function, pkgSuffix, name string) (int64, bool) {
	if fn.Pkg == nil {
		return 0, false
	}
	for _, imp := range fn.Pkg.Pkg.Imports() {
		if strings.HasSuffix(imp.Path(), pkgSuffix) {
			if o, ok := imp.Scope().Lookup(name).(*types.Const); ok {
				v, _ := constInt(ssa.NewConst(o.Val(), o.Type()))
				return v, true
			}
		}
	}
	return 0, false
}

// signersSingle: GetSigners returns a slice literal with exactly one element.
func signersSingle(m *Model, req *types.Named) bool {
	for _, recv := range []types.Type{req, types.NewPointer(req)} {
		sel := m.P.SSA.MethodSets.MethodSet(recv).Lookup(req.Obj().Pkg(), "GetSigners")
		if sel == nil {
			continue
		}
		fn := m.P.SSA.MethodValue(sel)
		if fn == nil || fn.Synthetic != "" {
			continue
		}
		ok := false
		for _, b := range fn.Blocks {
			r, isR := b.Instrs[len(b.Instrs)-1].(*ssa.Return)
			if !isR {
				continue
			}
			sl, _ := r.Results[0].(*ssa.Slice)
			if sl == nil {
				return false
			}
			arr, _ := sl.X.(*ssa.Alloc)
			if arr == nil {
				return false
			}
			at, _ := arr.Type().(*types.Pointer).Elem().Underlying().(*types.Array)
			if at == nil || at.Len() != 1 {
				return false
			}
			ok = true
		}
		return ok
	}
	return false
}

package main

// C20 — intertx: what SubmitTx hands to the interchain-accounts controller, decided on the explored
// paths of the handlers (E1) so that the verdict does not depend on which helper builds what.

import (
	"fmt"
	"go/constant"
	"go/types"
	"regexp"
	"sort"
	"strings"

	"golang.org/x/tools/go/ssa"
)

func init() { register("C20", checkC20) }

var timeoutTerm = regexp.MustCompile(`^Time\.UnixNano\(Time\.Add\(blocktime, ([0-9]+)\)\)$`)

// icaConst evaluates a constant of the interchain-accounts types package (EXECUTE_TX).
func icaConst(p *Program, name string) (string, bool) {
	for _, pk := range p.SSA.AllPackages() {
		if pk.Pkg == nil || !strings.HasSuffix(pk.Pkg.Path(), "27-interchain-accounts/types") {
			continue
		}
		if cst, ok := pk.Pkg.Scope().Lookup(name).(*types.Const); ok && cst.Val().Kind() == constant.Int {
			return cst.Val().ExactString(), true
		}
	}
	return "", false
}

func extEvents(st *State, method string) []*Event {
	var out []*Event
	for i := range st.events {
		if ev := &st.events[i]; ev.Kind == "ext" && ev.Method == method {
			out = append(out, ev)
		}
	}
	return out
}

func checkC20(c *Ctx, e *Env) {
	c.Explanation = "Path exploration of the two x/intertx handlers (engine E1: every committed path, helpers inlined, calls into ibc-go kept as uninterpreted terms) plus a call-graph rule: " +
		"I1 the port handed to GetActiveChannelID, ChannelCapabilityPath and SendTx is the one term NewControllerPortID(req.Owner) and the connection is req.ConnectionId; " +
		"I2 every committed path performs exactly one SendTx, behind found==true of the active-channel lookup and of the capability lookup whose results are the channel/capability passed on; SendTx and RegisterInterchainAccount call sites are reachable only through their handler; " +
		"I3 the packet has constant type EXECUTE_TX, empty memo and Data = SerializeCosmosTx(keeper codec, exactly [req.Msg.GetCachedValue().(sdk.Msg)]); nothing stores into the request; I4 the context is the handler's and the timeout is block time plus a positive constant; " +
		"I5 GetSigners of both messages returns exactly [bech32(Owner)]; RegisterAccount forwards (ConnectionId, Owner, Version); I6 every aborting path of SubmitTx is one of the refusals the statement lists."
	c.NotDecided = []string{"that ibc-go derives the port injectively from the owner and delivers the packet (dependency)", "byte-level round trip of SerializeCosmosTx", "mutation of the cached inner message through its concrete type before serialisation"}
	c.Assumptions = []string{"A6", "A7"}
	m := e.Model("x/intertx")
	p := m.P
	var submit, register *EntryPoint
	for _, ep := range m.Entries {
		if ep.Kind == "msg" && ep.Service == "intertx" && ep.Implemented {
			switch ep.Name {
			case "SubmitTx":
				submit = ep
			case "RegisterAccount":
				register = ep
			}
		}
	}
	if submit == nil || submit.Fn == nil || register == nil || register.Fn == nil {
		c.Undecide("C20.ENTRY", "intertx.MsgServer", "-", "SubmitTx / RegisterAccount handlers not found")
		return
	}
	c.Count("handlers", 2)
	r := RunE1(m)

	// ---------------- I5 signers
	c.Check(submit.SignerField == "Owner", "C20.I5", "MsgSubmitTx.GetSigners", "-", "GetSigners decodes exactly one request field: "+submit.SignerField+" (required Owner)")
	c.Check(register.SignerField == "Owner", "C20.I5", "MsgRegisterAccount.GetSigners", "-", "GetSigners decodes exactly one request field: "+register.SignerField+" (required Owner)")
	for _, ep := range []*EntryPoint{submit, register} {
		ok, det := signersExactly(m, r.X, ep.Req, "addr(req.Owner)")
		c.Check(ok, "C20.I5", ep.Req.Obj().Name()+".GetSigners#single", "-", "GetSigners returns exactly [bech32(Owner)] on every path: "+det)
		// GetSigners discards the decoding error; the signer is the owner only for owners that decode with
		// this chain's account prefix, which is what the message validator must have established
		v := ValidatedFacts(m, r.X, ep)
		c.Check(v.OK && v.Exit["+Ok(bech32(req.Owner))"], "C20.I5", ep.Req.Obj().Name()+".ValidateBasic#owner-decodes", "-", "every accepting path of ValidateBasic has decoded Owner with sdk.AccAddressFromBech32 (the decoding GetSigners repeats with its error dropped): an owner that passes validation but does not decode would be forwarded with an empty required signer")
	}

	// ---------------- who may call (I2)
	inv := map[string]string{"SendTx": "intertx.SubmitTx", "SendPacket": "intertx.SubmitTx", "RegisterInterchainAccount": "intertx.RegisterAccount"}
	nSites := 0
	for _, f := range m.subjectFns(false) {
		c.Count("functions_scanned", 1)
		for _, ci := range callsIn(f) {
			cc := ci.Common()
			name := ""
			if cc.IsInvoke() {
				name = cc.Method.Name()
			} else if sc := cc.StaticCallee(); sc != nil {
				name = sc.Name()
				if isRepoPkgPath(fnPkgPath(sc)) {
					continue
				}
			}
			gate, watched := inv[name]
			if !watched {
				continue
			}
			nSites++
			only, chain := m.reachedOnlyThrough(f, m.entryFns(gate))
			why := ""
			if !only {
				why = ": reached by " + chain
			}
			c.Check(only, "C20.I2", funcKey(f)+"#"+name, p.Pos(ci.Pos()), name+" is called only on call chains through the "+gate+" handler (whose paths are checked below)"+why)
		}
	}
	c.Min("controller call sites", 2, nSites)

	// ---------------- SubmitTx paths
	h := r.byKey["intertx.SubmitTx"]
	if h == nil || h.Cut {
		c.Undecide("C20.I2", "intertx.SubmitTx", "-", "handler exploration missing or cut short")
		return
	}
	execTx, okConst := icaConst(p, "EXECUTE_TX")
	if !okConst {
		c.Undecide("C20.I3", "packet#type", "-", "constant icatypes.EXECUTE_TX not found")
		return
	}
	type res struct {
		ok  bool
		det string
	}
	agg := map[string]*res{}
	var order []string
	set := func(key string, ok bool, det string) {
		a := agg[key]
		if a == nil {
			a = &res{ok: true}
			agg[key] = a
			order = append(order, key)
		}
		if !ok && a.ok {
			a.ok, a.det = false, det
		} else if a.ok && a.det == "" {
			a.det = det
		}
	}
	nPaths := 0
	port := "NewControllerPortID(req.Owner)#0"
	for _, o := range h.Outs {
		if o.Kind != exitReturn {
			continue
		}
		nPaths++
		st := o.St
		sends := extEvents(st, "SendTx")
		set("I2|SendTx#once-per-path", len(sends) == 1, fmt.Sprintf("%d SendTx calls on a committed path", len(sends)))
		if len(sends) != 1 {
			continue
		}
		ev := sends[0]
		if len(ev.Args) != 7 {
			c.Undecide("C20.I1", "SendTx#arity", p.Pos(ev.Pos.Pos()), "SendTx signature changed; rule must be re-confirmed")
			return
		}
		a := func(i int) string { return st.canon(ev.Args[i]) }
		set("I4|SendTx#ctx", a(1) == "ctx", "context is "+a(1)+" (required the handler's unwrapped context)")
		set("I1|SendTx#port", a(4) == port && factBefore(st, "+Ok(NewControllerPortID(req.Owner)#1)", ev), "port argument is "+a(4)+" (required "+port+", successfully derived)")
		set("I1|SendTx#connection", a(3) == "req.ConnectionId", "connection argument is "+a(3)+" (required req.ConnectionId)")
		// lookups
		var chanTerm, capTerm string
		for _, ce := range extEvents(st, "GetActiveChannelID") {
			if len(ce.Args) == 4 && st.canon(ce.Args[2]) == "req.ConnectionId" && st.canon(ce.Args[3]) == port && st.canon(ce.Args[1]) == "ctx" {
				chanTerm = fmt.Sprintf("invoke:GetActiveChannelID(%s, ctx, req.ConnectionId, %s)", st.canon(ce.Args[0]), port)
			}
		}
		set("I1|GetActiveChannelID#args", chanTerm != "", "active channel looked up for (req.ConnectionId, "+port+")")
		set("I2|SendTx#dominated-by:GetActiveChannelID", chanTerm != "" && factBefore(st, "+Bool("+chanTerm+"#1)", ev), "SendTx lies behind found==true of the active-channel lookup")
		wantPath := "ChannelCapabilityPath(" + port + ", " + chanTerm + "#0)"
		for _, ce := range extEvents(st, "GetCapability") {
			if len(ce.Args) == 3 && st.canon(ce.Args[2]) == wantPath {
				capTerm = fmt.Sprintf("invoke:GetCapability(%s, %s, %s)", st.canon(ce.Args[0]), st.canon(ce.Args[1]), wantPath)
			}
		}
		set("I1|GetCapability#path", capTerm != "", "capability looked up under "+wantPath)
		set("I2|SendTx#capability", capTerm != "" && a(2) == capTerm+"#0", "capability argument is "+a(2)+" (required the result of that lookup)")
		set("I2|SendTx#dominated-by:GetCapability", capTerm != "" && factBefore(st, "+Bool("+capTerm+"#1)", ev), "SendTx lies behind found==true of the capability lookup")
		// timeout
		mt := timeoutTerm.FindStringSubmatch(a(6))
		set("I4|SendTx#timeout", mt != nil && strings.TrimLeft(mt[1], "0") != "", "timeout is "+a(6)+" (required block time + positive constant, as UnixNano)")
		// packet
		pf := structFields(st, ev.Args[5])
		if pf == nil {
			set("I3|packet#type", false, "packet data is not a locally built value: "+a(5))
			continue
		}
		set("I3|packet#type", pf[".Type"] != nil && st.canon(pf[".Type"]) == execTx, "packet Type is "+canonOr(st, pf[".Type"])+" (required EXECUTE_TX = "+execTx+")")
		memo := canonOr(st, pf[".Memo"])
		set("I3|packet#memo", memo == "" || memo == `""`, "packet memo is "+memo+" (required empty)")
		data := canonOr(st, pf[".Data"])
		var ser *Event
		for i := range st.events {
			if ce := &st.events[i]; ce.Kind == "ext" && ce.Method == "SerializeCosmosTx" && len(ce.Args) == 2 && data == "SerializeCosmosTx("+st.canon(ce.Args[0])+", "+st.canon(ce.Args[1])+")#0" {
				ser = ce
			}
		}
		set("I3|packet#data", ser != nil && factBefore(st, "+Ok("+strings.TrimSuffix(data, "#0")+"#1)", ev), "packet Data is "+data+" (required the successful result of SerializeCosmosTx)")
		if ser == nil {
			continue
		}
		set("I3|packet#codec", strings.HasPrefix(st.canon(ser.Args[0]), "k."), "serialised with the keeper codec: "+st.canon(ser.Args[0]))
		els, known := r.X.sliceElems(st, ser.Args[1])
		set("I3|packet#single-message", known && len(els) == 1, fmt.Sprintf("message list has exactly one element (known=%v, %d)", known, len(els)))
		if known && len(els) == 1 {
			got := st.canon(els[0])
			set("I3|packet#message-provenance", got == "Any.GetCachedValue(req.Msg)" && factBefore(st, "+TypeIs(Any.GetCachedValue(req.Msg),github.com/cosmos/cosmos-sdk/types.Msg)", ev),
				"the element is "+got+" (required req.Msg.GetCachedValue() asserted to sdk.Msg)")
		}
	}
	c.Min("committed SubmitTx paths", 1, nPaths)
	sort.Strings(order)
	for _, k := range order {
		parts := strings.SplitN(k, "|", 2)
		a := agg[k]
		if a.ok {
			c.Hold("C20."+parts[0], parts[1], p.Pos(h.Fn.Pos()), a.det, nil)
		} else {
			c.Violate("C20."+parts[0], parts[1], p.Pos(h.Fn.Pos()), a.det, nil)
		}
	}

	// ---------------- I6: SubmitTx refuses a message only for the reasons the statement lists
	// (every aborting path is classified by where its error comes from / the decision that led to it:
	// the error of one of the calls the rules above require — port derivation, serialisation, SendTx —,
	// no active channel, no capability, or an inner value that is not an sdk.Msg). Any other refusal,
	// e.g. validating the inner message with this chain's rules, means "sends exactly the supplied
	// message" fails for messages the statement covers.
	{
		bad := ""
		n := 0
		for _, o := range h.AbortOuts {
			n++
			st := o.St
			origin := ""
			if idx := errResultIndex(h.Fn.Signature); idx >= 0 && idx < len(o.Rets) {
				if ev, ok := o.Rets[idx].(*ErrV); ok {
					origin = ev.Origin
				}
			}
			last := ""
			if len(st.facts) > 0 {
				last = st.facts[len(st.facts)-1]
			}
			okOrigin := strings.HasPrefix(origin, "NewControllerPortID(") || strings.HasPrefix(origin, "SerializeCosmosTx(") || strings.HasPrefix(origin, "invoke:SendTx(")
			okFact := strings.HasPrefix(last, "-Bool(invoke:GetActiveChannelID(") || strings.HasPrefix(last, "-Bool(invoke:GetCapability(") || strings.HasPrefix(last, "-TypeIs(Any.GetCachedValue(req.Msg),")
			if !okOrigin && !okFact && bad == "" {
				bad = "an aborting path returns an error from " + origin + " after deciding " + last
			}
		}
		c.Check(bad == "" && n >= 5, "C20.I6", "SubmitTx#refusals", p.Pos(h.Fn.Pos()), fmt.Sprintf("%d aborting paths, each caused by: port derivation / serialisation / SendTx error, no active channel, no capability, or an inner value that is not an sdk.Msg %s", n, bad))
	}

	// ---------------- I3: nothing stores into the request (handler and everything it reaches in the module)
	g := NewGraph(p)
	nStore := 0
	for f := range g.Closure([]*ssa.Function{submit.Fn}) {
		if !g.isSubjectFn(f) {
			continue
		}
		for _, b := range f.Blocks {
			for _, in := range b.Instrs {
				st, ok := in.(*ssa.Store)
				if !ok {
					continue
				}
				root := addrRoot(st.Addr)
				if root == nil {
					continue
				}
				if n := namedOf(root.Type()); n != nil && (n.Obj() == submit.Req.Obj() || (n.Obj().Name() == "Any" && strings.HasSuffix(n.Obj().Pkg().Path(), "codec/types"))) {
					if _, isAlloc := root.(*ssa.Alloc); isAlloc {
						continue // a locally built value of that type, not the request
					}
					nStore++
					c.Violate("C20.I3", funcKey(f)+"#store-into-request", p.Pos(st.Pos()), "writes into the request message (or its packed inner message) before forwarding it", nil)
				}
			}
		}
	}
	if nStore == 0 {
		c.Hold("C20.I3", "SubmitTx#request-unmodified", p.Pos(submit.Fn.Pos()), "no store into the request message in SubmitTx or anything it reaches in the module", nil)
	}

	// ---------------- RegisterAccount
	if hr := r.byKey["intertx.RegisterAccount"]; hr == nil || hr.Cut {
		c.Undecide("C20.I5", "intertx.RegisterAccount", "-", "handler exploration missing or cut short")
	} else {
		bad := ""
		n := 0
		for _, o := range hr.Outs {
			if o.Kind != exitReturn {
				continue
			}
			n++
			st := o.St
			regs := extEvents(st, "RegisterInterchainAccount")
			if len(regs) != 1 {
				bad = fmt.Sprintf("%d RegisterInterchainAccount calls on a committed path", len(regs))
				continue
			}
			var got []string
			for _, a := range regs[0].Args[1:] {
				got = append(got, st.canon(a))
			}
			if strings.Join(got, ", ") != "ctx, req.ConnectionId, req.Owner, req.Version" {
				bad = "RegisterInterchainAccount receives (" + strings.Join(got, ", ") + "), required (ctx, req.ConnectionId, req.Owner, req.Version)"
			}
		}
		c.Check(bad == "" && n > 0, "C20.I5", "RegisterAccount#args", p.Pos(hr.Fn.Pos()), fmt.Sprintf("%d committed paths each register exactly once with (ctx, req.ConnectionId, req.Owner, req.Version) %s", n, bad))
	}
}

func canonOr(st *State, v Val) string {
	if v == nil {
		return ""
	}
	return st.canon(v)
}

// structFields returns the fields of a struct value built on the path (by value or behind a pointer).
func structFields(st *State, v Val) map[string]Val {
	switch x := v.(type) {
	case *StructV:
		return x.F
	case *Ptr:
		if o := st.mem[x.O]; o != nil {
			out := map[string]Val{}
			for k, f := range o.F {
				if strings.HasPrefix(k, x.Path) {
					out[strings.TrimPrefix(k, x.Path)] = f
				}
			}
			return out
		}
	}
	return nil
}

// signersExactly explores GetSigners of a message type and requires every return to be exactly [want].
func signersExactly(m *Model, x *Explorer, req *types.Named, want string) (bool, string) {
	for _, recv := range []types.Type{req, types.NewPointer(req)} {
		sel := m.P.SSA.MethodSets.MethodSet(recv).Lookup(req.Obj().Pkg(), "GetSigners")
		if sel == nil {
			continue
		}
		fn := m.P.SSA.MethodValue(sel)
		if fn == nil || fn.Synthetic != "" || len(fn.Params) != 1 {
			continue
		}
		var recvVal Val = &Sym{N: "req", T: fn.Params[0].Type()}
		if _, isPtr := fn.Params[0].Type().(*types.Pointer); isPtr {
			recvVal = &SymPtr{Base: "req", T: fn.Params[0].Type()}
		}
		outs := x.Explore(fn, []Val{recvVal})
		n := 0
		for _, o := range outs {
			if o.Kind != exitReturn || len(o.Rets) != 1 {
				continue
			}
			n++
			els, known := x.sliceElems(o.St, o.Rets[0])
			if !known || len(els) != 1 {
				return false, fmt.Sprintf("a return yields %s (elements known=%v, %d)", o.St.canon(o.Rets[0]), known, len(els))
			}
			if got := o.St.canon(els[0]); got != want {
				return false, "the single signer is " + got + ", required " + want
			}
		}
		return n > 0, fmt.Sprintf("%d returning paths", n)
	}
	return false, "GetSigners not found"
}

package main

// C13 — bridge safety: origin-tx index on every issuing path, allow-list guards with one
// normalisation, contract binding, bridge-out guarded by the batch's own contract.

import (
	"fmt"
	"sort"
	"strings"
)

func init() { register("C13", checkC13) }

func checkC13(c *Ctx, e *Env) {
	c.Explanation = "E1 effect analysis: ONCE every successful path of MintBatchCredits, of CreateBatch with a non-nil OriginTx and of BridgeReceive contains OriginTxIndex.Insert (never Save/Update) of {ClassKey: ClassKey of the batch's project, Id: req.OriginTx.Id, Source: req.OriginTx.Source} whose error is nil on the path (the AlreadyExists arm aborts), with the identical key expression at every site (one normalisation); BridgeReceive writes ledger tables only through the nested handlers; " +
		"ALLOW every effect of BridgeReceive / Bridge lies behind AllowedBridgeChain.Has(lower(source|target)) = true and the rows added/removed by governance are keyed by lower(chain name); BIND BatchContract is only ever inserted, by CreateBatch, with {new batch key, project.ClassKey, OriginTx.Contract} when the contract is non-empty; BridgeReceive looks the contract up with GetByClassKeyContract(class.Key, OriginTx.Contract) for class = GetById(req.ClassId) and, when found, mints into the denom of Batch.Get(batchContract.BatchKey); " +
		"OUT in Bridge every emitted EventBridge follows a successful BatchContract.Get(batch.Key) for the batch of that credit and carries that row's Contract, target/recipient/amount from the request, and the cancellation is Cancel's with the request's owner and credits."
	c.NotDecided = []string{"OriginTxIndex.Source is stored as given while the allow-list lookup is lower-cased: (id, \"Polygon\") and (id, \"polygon\") are different index entries for one allowed chain — not a violation of the literal statement ('a given (id, source)'), recorded as an observation"}
	c.Assumptions = strings.Split(e1Assume+"; A7", "; ")
	m, r := e1Handlers(c, e)
	p := m.P
	noteUndecided(c, m, r, "C13.E1")
	ruleArith(c, e, "C13.ARITH", func(ep *EntryPoint) bool {
		return ep.Kind == "msg" && (ep.Key() == "base.Bridge" || ep.Key() == "base.BridgeReceive" || ep.Key() == "base.Cancel")
	})
	// ---------------- ONCE
	keyExprs := map[string][]string{}
	for _, hk := range []string{"base.MintBatchCredits", "base.CreateBatch", "base.BridgeReceive"} {
		h := r.byKey[hk]
		if h == nil {
			c.Undecide("C13.ONCE", hk, "-", "handler not found")
			continue
		}
		bad := ""
		n := 0
		for _, o := range h.Outs {
			if o.Kind != exitReturn {
				continue
			}
			st := o.St
			need := true
			if hk == "base.CreateBatch" {
				if v, ok := st.known("Nil(req.OriginTx)"); ok && v {
					need = false
				}
			}
			var ins []*Event
			for i := range st.events {
				ev := &st.events[i]
				if ev.Kind == "write" && ev.Table.Name == "OriginTxIndex" {
					if ev.OpKind != "insert" {
						bad = "OriginTxIndex is written with " + ev.Method + " at " + p.Pos(ev.Pos.Pos()) + ": an existing entry would be overwritten instead of rejecting the replay"
					}
					ins = append(ins, ev)
				}
			}
			if !need {
				continue
			}
			n++
			if len(ins) != 1 {
				if bad == "" {
					bad = fmt.Sprintf("a successful issuing path has %d origin-tx index inserts (required exactly 1): {%s}", len(ins), clip(strings.Join(st.facts, " "), 500))
				}
				continue
			}
			ev := ins[0]
			if st.errs[ev.ErrID] == 2 {
				bad = "the path commits although the origin-tx insert failed (replay not rejected)"
			}
			// key provenance
			ck := st.canon(ev.Row["ClassKey"])
			okCK := false
			for _, pr := range st.mem {
				if pr.Table == nil || pr.Table.Name != "Project" || ck != pr.Name+".ClassKey" {
					continue
				}
				// pr must be the project of the batch that receives the issuance
				for _, b := range st.mem {
					if b.Table == nil || b.Table.Name != "Batch" {
						continue
					}
					pk := st.find(b.Name + ".ProjectKey")
					if v, ok := b.F[".ProjectKey"]; ok {
						pk = st.canon(v)
					}
					if pr.Origin == "get:Get("+pk+")" || pk == pr.Name+".Key" {
						okCK = true
					}
				}
			}
			if !okCK && bad == "" {
				bad = "origin-tx index ClassKey " + ck + " is not the ClassKey of the issued batch's project"
			}
			expr := st.canon(ev.Row["Id"]) + " | " + st.canon(ev.Row["Source"])
			keyExprs[expr] = append(keyExprs[expr], hk)
			if st.canon(ev.Row["Id"]) != "req.OriginTx.Id" && bad == "" {
				bad = "origin-tx index Id is " + st.canon(ev.Row["Id"]) + ", not req.OriginTx.Id"
			}
		}
		if bad != "" {
			c.Violate("C13.ONCE", hk, p.Pos(h.Fn.Pos()), bad, nil)
		} else {
			c.Check(n > 0, "C13.ONCE", hk, p.Pos(h.Fn.Pos()), fmt.Sprintf("all %d successful issuing paths insert the origin-tx index entry (class of the batch's project, req.OriginTx.Id, source) exactly once", n))
		}
	}
	var exprs []string
	for k := range keyExprs {
		exprs = append(exprs, k)
	}
	sort.Strings(exprs)
	c.Check(len(exprs) == 1 && strings.HasSuffix(exprs[0], "| req.OriginTx.Source"), "C13.ONCE", "key-normalisation", "-", fmt.Sprintf("all issuing sites key the index by the same (id, source) expression: %v", exprs))
	// BridgeReceive touches ledger tables only inside nested handlers
	if h := r.byKey["base.BridgeReceive"]; h != nil {
		bad := ""
		for _, o := range h.Outs {
			for i := range o.St.events {
				ev := &o.St.events[i]
				if ev.Kind == "write" && ev.Fn == h.Fn {
					bad = "BridgeReceive writes " + ev.Table.Name + " directly at " + p.Pos(ev.Pos.Pos())
				}
			}
		}
		c.Check(bad == "", "C13.ONCE", "base.BridgeReceive#only-nested-writes", p.Pos(h.Fn.Pos()), "every write of BridgeReceive happens inside CreateProject/CreateBatch/MintBatchCredits "+bad)
	}
	// ---------------- ALLOW
	for hk, field := range map[string]string{"base.BridgeReceive": "req.OriginTx.Source", "base.Bridge": "req.Target"} {
		h := r.byKey[hk]
		if h == nil {
			c.Undecide("C13.ALLOW", hk, "-", "handler not found")
			continue
		}
		want := "+Has:AllowedBridgeChain.Has(lower(" + field + "))"
		bad := ""
		n := 0
		for _, o := range h.Outs {
			for i := range o.St.events {
				ev := &o.St.events[i]
				if !(isEffect(ev) || ev.Kind == "emit") || !inScope(o, ev) {
					continue
				}
				n++
				if !factBefore(o.St, want, ev) && bad == "" {
					bad = "effect " + describeEmit(o.St, ev) + " at " + p.Pos(ev.Pos.Pos()) + " is not behind " + want
				}
			}
		}
		if bad != "" {
			c.Violate("C13.ALLOW", hk, p.Pos(h.Fn.Pos()), bad, nil)
		} else {
			c.Check(n > 0, "C13.ALLOW", hk, p.Pos(h.Fn.Pos()), fmt.Sprintf("all %d effects/events lie behind %s", n, want))
		}
	}
	for hk, op := range map[string]string{"base.AddAllowedBridgeChain": "insert", "base.RemoveAllowedBridgeChain": "delete"} {
		h := r.byKey[hk]
		if h == nil {
			continue
		}
		bad := ""
		n := 0
		for _, o := range h.Outs {
			for i := range o.St.events {
				ev := &o.St.events[i]
				if ev.Kind != "write" || ev.Table.Name != "AllowedBridgeChain" {
					continue
				}
				n++
				name := ""
				if ev.Row != nil {
					name = o.St.canon(ev.Row["ChainName"])
				}
				if name != "lower(req.ChainName)" {
					bad = "chain name key is " + name + " (required lower(req.ChainName), the normalisation used by the lookups)"
				}
				_ = op
			}
		}
		c.Check(bad == "" && n > 0, "C13.ALLOW", hk+"#normalised-key", p.Pos(h.Fn.Pos()), "governance "+op+" keys the allow-list by lower(req.ChainName) "+bad)
	}
	// ---------------- BIND
	inv := BuildInventory(m, false)
	for _, s := range inv.Writes("BatchContract") {
		if isCanaryFn(s.Fn) {
			continue
		}
		only, chain := m.reachedOnlyThrough(s.Fn, m.entryFns("base.CreateBatch"))
		why := ""
		if !only {
			why = ": reached without passing through CreateBatch by " + chain
		}
		c.Check(s.Kind == "insert" && only, "C13.BIND", funcKey(s.Fn)+"#BatchContract."+s.Method, p.Pos(s.At()), "BatchContract is written only by Insert on call chains through the CreateBatch handler (whose bound row is checked below)"+why)
	}
	if h := r.byKey["base.CreateBatch"]; h != nil {
		bad := ""
		n := 0
		for _, o := range h.Outs {
			st := o.St
			for i := range st.events {
				ev := &st.events[i]
				if ev.Kind != "write" || ev.Table.Name != "BatchContract" {
					continue
				}
				n++
				bk, ck, ct := st.canon(ev.Row["BatchKey"]), st.canon(ev.Row["ClassKey"]), st.canon(ev.Row["Contract"])
				if !strings.HasPrefix(bk, "newid:Batch#") || !strings.HasSuffix(ck, ".ClassKey") || ct != "req.OriginTx.Contract" {
					bad = fmt.Sprintf("row is {BatchKey: %s, ClassKey: %s, Contract: %s}", bk, ck, ct)
				}
				if !factBefore(st, `-StrEq("", req.OriginTx.Contract)`, ev) {
					bad = "contract bound without the non-empty test"
				}
			}
		}
		c.Check(bad == "" && n > 0, "C13.BIND", "base.CreateBatch#row", p.Pos(h.Fn.Pos()), "bound row is {new batch key, project.ClassKey, req.OriginTx.Contract} under len(contract) != 0 "+bad)
	}
	if h := r.byKey["base.BridgeReceive"]; h != nil {
		bad := ""
		nMint := 0
		for _, o := range h.Outs {
			st := o.St
			// lookup
			okLookup := false
			var contractRow *Obj
			for _, cl := range rowsWithOrigin(st, "Class", "get:GetById(req.ClassId)") {
				for _, bc := range rowsWithOrigin(st, "BatchContract", "get:GetByClassKeyContract("+cl.Name+".Key, req.OriginTx.Contract)") {
					okLookup = true
					contractRow = bc
				}
			}
			if !okLookup {
				bad = "contract is not looked up with GetByClassKeyContract(class.Key of GetById(req.ClassId), req.OriginTx.Contract)"
				continue
			}
			// nested mint target
			for _, b := range st.mem {
				if b.Table == nil || b.Table.Name != "Batch" || !strings.HasPrefix(b.Origin, "get:GetByDenom(") {
					continue
				}
				nMint++
				den := strings.TrimSuffix(strings.TrimPrefix(b.Origin, "get:GetByDenom("), ")")
				okT := false
				for _, b0 := range rowsWithOrigin(st, "Batch", "get:Get("+contractRow.Name+".BatchKey)") {
					if den == b0.Name+".Denom" {
						okT = true
					}
				}
				if st.errs[contractRow.ErrID] != 1 {
					okT = false
				}
				if !okT {
					bad = "credits are minted into " + den + ", which is not the denom of the batch bound to the looked-up contract"
				}
			}
		}
		c.Check(bad == "" && nMint > 0, "C13.BIND", "base.BridgeReceive#lookup-and-target", p.Pos(h.Fn.Pos()), fmt.Sprintf("contract looked up per class; %d mint-path visits target the batch of the found contract %s", nMint, bad))
	}
	// ---------------- OUT
	if h := r.byKey["base.Bridge"]; h != nil {
		bad := ""
		n := 0
		for _, o := range h.Outs {
			st := o.St
			for i := range st.events {
				ev := &st.events[i]
				if ev.Kind != "emit" || ev.Method != "EventBridge" || !inScope(o, ev) {
					continue
				}
				n++
				// credit of this iteration
				den := st.canon(ev.Row["BatchDenom"])
				var ok bool
				for _, b := range rowsWithOrigin(st, "Batch", "get:GetByDenom("+den+")") {
					for _, bc := range rowsWithOrigin(st, "BatchContract", "get:Get("+b.Name+".Key)") {
						if st.errs[bc.ErrID] == 1 && st.canon(ev.Row["Contract"]) == bc.Name+".Contract" && bc.ReadAt < ev.Seq {
							ok = true
						}
					}
				}
				if !ok {
					bad = "EventBridge for " + den + " reports contract " + st.canon(ev.Row["Contract"]) + ", which is not the Contract of a successful BatchContract.Get(key of the batch of that credit)"
				}
				if st.canon(ev.Row["Target"]) != "req.Target" || st.canon(ev.Row["Recipient"]) != "req.Recipient" || st.canon(ev.Row["Owner"]) != "req.Owner" || !strings.HasSuffix(st.canon(ev.Row["Amount"]), ".Amount") {
					bad = "EventBridge fields do not come from the request"
				}
			}
			// the loop body must emit for every credit: an iteration without EventBridge is a credit bridged silently
			if o.Kind == exitLoopback && strings.HasPrefix(o.Loop, "Bridge.") {
				has := false
				for i := range st.events {
					if st.events[i].Kind == "emit" && st.events[i].Method == "EventBridge" && inScope(o, &st.events[i]) {
						has = true
					}
				}
				if !has {
					bad = "a credit passes the bridge loop without a contract lookup and EventBridge"
				}
			}
		}
		c.Check(bad == "" && n > 0, "C13.OUT", "base.Bridge#contract", p.Pos(h.Fn.Pos()), fmt.Sprintf("%d EventBridge emissions each follow a successful BatchContract.Get for the batch of that credit and carry its contract %s", n, bad))
		// cancellation through Cancel with the request's owner and credits
		okCancel := false
		// the nested request literal is checked on the E1 side: all BatchBalance debits are keyed by the signer (C03) and amounts are req.Credits[i].Amount
		amtOK := true
		stale := ""
		for _, o := range h.Outs {
			for _, d := range h.Deltas(o) {
				if d.Bad != "" && d.Col != "*" && stale == "" {
					stale = d.Table + "." + d.Col + " at " + p.Pos(d.Ev.Pos.Pos()) + ": " + d.Bad
				}
				if d.Table == "BatchSupply" && d.Col == "CancelledAmount" && !d.Delta.IsZero() {
					okCancel = true
					s := d.Delta.String()
					if !(strings.HasPrefix(s, "parse(req.Credits[") && strings.HasSuffix(s, "].Amount)")) {
						amtOK = false
					}
				}
			}
		}
		c.Check(okCancel && amtOK, "C13.OUT", "base.Bridge#cancels-request-credits", p.Pos(h.Fn.Pos()), "bridged amounts are cancelled: Δcancelled = parse(req.Credits[i].Amount) per credit on every committed path that bridges")
		c.Check(stale == "", "C13.OUT", "base.Bridge#cancel-basis", p.Pos(h.Fn.Pos()), "every balance / supply column written while bridging out is based on content read in the same iteration (a row reused across credits entries would make the amounts cancelled differ from the amounts reported) "+stale)
	}
}

func describeEmit(st *State, ev *Event) string {
	if ev.Kind == "emit" {
		return "emit " + ev.Method
	}
	return describeEvent(st, ev)
}

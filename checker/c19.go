package main

// C19 — Dec API shape rules (engine E8) on package types/math.

import (
	"fmt"
	"go/ast"
	"go/constant"
	"go/token"
	"go/types"
	"sort"
	"strings"

	"golang.org/x/tools/go/ssa"
)

func init() { register("C19", checkC19) }

const mathPkgSuffix = "types/v2/math"

// which apd.Context each arithmetic entry point must (transitively, within the
// package) run on. Read off the pinned tree and the property statement:
// add/sub never round (BaseContext has precision 0 = exact for Add/Sub), balance
// ops trap on inexact, mul/quo run on decimal128.
var ctxTable = map[string]map[string]string{
	"Dec.Add":        {"Add": "apd.BaseContext"},
	"Dec.Sub":        {"Sub": "apd.BaseContext"},
	"Add":            {"Add": "apd.BaseContext"},
	"SubNonNegative": {"Sub": "apd.BaseContext"},
	"SafeSubBalance": {"Sub": "exactContext"},
	"SafeAddBalance": {"Add": "exactContext"},
	"Dec.Mul":        {"Mul": "dec128Context"},
	"Dec.MulExact":   {"Mul": "dec128Context"},
	"Dec.Quo":        {"Quo": "dec128Context"},
	"Dec.QuoExact":   {"Quo": "dec128Context"},
	"Dec.QuoInteger": {"QuoInteger": "dec128Context"},
	"Dec.Rem":        {"Rem": "dec128Context"},
}

// rounding operations and the only functions allowed to call them.
var roundingOps = map[string]bool{"Dec.Mul": true, "Dec.Quo": true, "Dec.QuoInteger": true, "Dec.Rem": true}

func mathFnName(fn *ssa.Function) string {
	if fn.Signature.Recv() != nil {
		if n := namedOf(fn.Signature.Recv().Type()); n != nil {
			return n.Obj().Name() + "." + fn.Name()
		}
	}
	return fn.Name()
}

func checkC19(c *Ctx, e *Env) {
	c.Explanation = "E8 shape rules on package types/math (every function), from its SSA: M1 the destination of every mutating apd.Context / apd.Decimal / big.Int call is rooted at a fresh local, never at a receiver or parameter copy (operand aliasing, regen-network/mainnet#15); no pointer receivers on Dec; " +
		"M2 each arithmetic entry point runs on the apd.Context its contract requires (Add/Sub exact base context, balance ops on the trapping exact context, Mul/Quo on decimal128), the context literals have the required precision and traps, and nothing writes to a context; " +
		"M3 exact-or-error: Rounded()/IsNegative()/ok flags guard every success return of MulExact, QuoExact, SafeSubBalance, SubNonNegative, BigInt; M4 constructors reject NaN/Inf, negatives, non-positives, excess decimal places on every success path; " +
		"M5 String renders with Text('f'); M6 (whole program) rounding operations are called only from the three price/fee computations."
	c.NotDecided = []string{"numerical agreement of parse/add/sub/mul/quo with rational arithmetic, 34-digit correctness, truncation direction of SdkIntTrim, render/re-parse equality: values computed by cockroachdb/apd and math/big (A2)"}
	c.Assumptions = []string{"A2", "A6"}
	m := e.Model("x/ecocredit")
	p := m.P
	sp := p.SSAPkg(mathPkgSuffix)
	if sp == nil {
		c.Undecide("C19.LOAD", "types/math", "-", "package types/v2/math not found in the loaded program")
		return
	}
	fns := pkgFuncs(p.SSA, sp)
	// hand-written packages below types/math (an internal helper package the arithmetic was moved into)
	// are part of the subject
	for _, pk := range p.RepoList {
		if strings.HasPrefix(pk.PkgPath, sp.Pkg.Path()+"/") && excludedPkg(pk.PkgPath) == "" {
			if sub := p.ssaPkgs[pk.Types]; sub != nil {
				fns = append(fns, pkgFuncs(p.SSA, sub)...)
			}
		}
	}
	sort.Slice(fns, func(i, j int) bool { return fns[i].String() < fns[j].String() })
	byName := map[string]*ssa.Function{}
	nM1 := 0
	for _, fn := range fns {
		if len(fn.Blocks) == 0 {
			continue
		}
		byName[mathFnName(fn)] = fn
		c.Count("math_functions", 1)
		nM1 += ruleM1(c, p, fn)
		// pointer receivers on Dec
		if r := fn.Signature.Recv(); r != nil {
			if _, isPtr := r.Type().(*types.Pointer); isPtr && typeIs(r.Type(), mathPkgSuffix, "Dec") {
				c.Violate("C19.M1", mathFnName(fn)+"#ptr-receiver", p.Pos(fn.Pos()), "Dec method with a pointer receiver can mutate its operand", nil)
			}
		}
	}
	c.Count("mutating_calls_checked", nM1)
	// M2
	ruleM2Contexts(c, p, sp, byName, nil)
	ruleM2Literals(c, p)
	ruleM2NoWrites(c, e, p)
	// M8: no machine-integer arithmetic feeds a decimal
	ruleNoMachineArith(c, p, fns)
	// M3
	ruleGuard(c, p, byName, "C19.M3", "Dec.MulExact", "Condition.Rounded", false, "rounding flag of the multiplication guards every success return", guardSubject{kind: "op"})
	ruleGuard(c, p, byName, "C19.M3", "Dec.QuoExact", "Condition.Rounded", false, "rounding flag of the division guards every success return", guardSubject{kind: "op"})
	ruleGuard(c, p, byName, "C19.M3", "SafeSubBalance", "Dec.IsNegative", false, "negative result is an error", guardSubject{kind: "result"})
	ruleGuard(c, p, byName, "C19.M3", "SubNonNegative", "Dec.IsNegative", false, "negative result is an error", guardSubject{kind: "result"})
	ruleBigInt(c, p, byName)
	// M4
	ruleGuard(c, p, byName, "C19.M4", "NewNonNegativeDecFromString", "Dec.IsNegative", false, "negative input rejected", guardSubject{kind: "result"})
	ruleGuard(c, p, byName, "C19.M4", "NewPositiveDecFromString", "Dec.IsPositive", true, "non-positive input rejected", guardSubject{kind: "result"})
	ruleGuard(c, p, byName, "C19.M4", "SafeAddBalance", "Dec.IsNegative", false, "negative operand rejected", guardSubject{kind: "param", param: 0}, guardSubject{kind: "param", param: 1})
	ruleFixed(c, p, byName, "NewNonNegativeFixedDecFromString", "NewNonNegativeDecFromString")
	ruleFixed(c, p, byName, "NewPositiveFixedDecFromString", "NewPositiveDecFromString")
	ruleParse(c, p, byName)
	// constructors chain through the base parser
	for _, pr := range [][2]string{{"NewNonNegativeDecFromString", "NewDecFromString"}, {"NewPositiveDecFromString", "NewDecFromString"}} {
		fn := byName[pr[0]]
		ok := fn != nil && callsFn(fn, pr[1])
		c.Check(ok, "C19.M4", pr[0]+"#parses-via:"+pr[1], posOf(p, fn), pr[0]+" obtains its value from "+pr[1]+", handing it its own string argument unchanged")
	}
	// M5
	ruleString(c, p, byName)
	// M6
	ruleM6(c, e, "C19.M6", false)
	importObligations(c, e, checkC07, "C07", "C19.TRUNC", "coin conversions#truncate-once", "conversion to integer coins truncates the exact decimal toward zero: each coin amount the price code sends is the truncation of one exact decimal (trunc(a) − trunc(b) is not trunc(a − b))", func(o *Oblig) bool { return o.Rule == "C07.COINS" })
	c.Min("functions of types/math analysed", 28, c.Analysed["math_functions"])
	c.Min("mutating apd/big calls checked (M1)", 18, nM1)
	c.Min("rounding-op call sites seen (M6)", 4, c.Analysed["rounding_call_sites"])
	// canary functions live in the ecocredit canary package
	for _, fn := range canaryFns(m) {
		if strings.HasPrefix(fn.Name(), "M1") {
			ruleM1(c, p, fn)
		}
	}
	c.ExpectCanary("C19.M1")
}

func posOf(p *Program, fn *ssa.Function) string {
	if fn == nil {
		return "-"
	}
	return p.Pos(fn.Pos())
}

func sortedKeys[V any](m map[string]V) []string {
	var ks []string
	for k := range m {
		ks = append(ks, k)
	}
	sort.Strings(ks)
	return ks
}

// callsFn: fn obtains its value from the types/math function `name`, handing it its own first (string)
// parameter *unchanged* — a constructor that trims, lower-cases or otherwise normalises the text before
// parsing accepts strings the strict parser rejects, and handlers store the raw string they validated.
func callsFn(fn *ssa.Function, name string) bool {
	if len(fn.Params) == 0 {
		return false
	}
	return passesParamTo(fn, fn.Params[0], name, 0)
}

// passesParamTo: fn hands its parameter prm, unchanged, to the types/math function `name` — directly, or
// through a same-package helper that does.
func passesParamTo(fn *ssa.Function, prm *ssa.Parameter, name string, depth int) bool {
	if depth > 3 || len(fn.Blocks) == 0 {
		return false
	}
	isStr := false
	if bt, isB := prm.Type().Underlying().(*types.Basic); isB && bt.Kind() == types.String {
		isStr = true
	}
	for _, ci := range callsIn(fn) {
		sc := ci.Common().StaticCallee()
		if sc == nil || !strings.HasPrefix(fnPkgPath(sc), fnPkgPath(fn)) && !strings.HasSuffix(fnPkgPath(sc), mathPkgSuffix) {
			continue
		}
		for i, a := range ci.Common().Args {
			if isStr && a != ssa.Value(prm) {
				continue
			}
			if !isStr && i > 0 {
				break
			}
			if mathFnName(sc) == name && strings.HasSuffix(fnPkgPath(sc), mathPkgSuffix) && i == 0 {
				return true
			}
			if sc.Pkg == fn.Pkg && sc != fn && i < len(sc.Params) && isStr && passesParamTo(sc, sc.Params[i], name, depth+1) {
				return true
			}
		}
	}
	return false
}

// ---- M1 ---------------------------------------------------------------------

// operandRooted: does the address v lead back to a receiver/parameter (or a
// local holding a copy of one)? Returns a description when it does.
func operandRooted(fn *ssa.Function, v ssa.Value, depth int) (string, bool) {
	if depth > 8 {
		return "", false
	}
	root := addrRoot(v)
	switch x := root.(type) {
	case *ssa.Parameter:
		return "parameter " + x.Name(), true
	case *ssa.FreeVar:
		return "captured " + x.Name(), true
	case *ssa.Global:
		return "global " + x.Name(), true
	case *ssa.Alloc:
		// local: operand-rooted when a whole-value store copies a parameter or a load from operand-rooted memory
		for _, r := range *x.Referrers() {
			st, ok := r.(*ssa.Store)
			if !ok || st.Addr != x {
				continue
			}
			switch val := st.Val.(type) {
			case *ssa.Parameter:
				return "local copy of parameter " + val.Name(), true
			case *ssa.FreeVar:
				return "local copy of captured " + val.Name(), true
			case *ssa.UnOp:
				if val.Op == token.MUL {
					if why, bad := operandRooted(fn, val.X, depth+1); bad {
						// a struct copy shares big.Int backing arrays with its source
						return "shallow copy of " + why, true
					}
				}
			case *ssa.Field:
				if why, bad := valueOperandRooted(fn, val.X, depth+1); bad {
					return "field copy of " + why, true
				}
			case *ssa.Call, *ssa.Extract:
				if why, bad := callResultRooted(val, depth+1); bad {
					return why, true
				}
			}
		}
		return "", false
	case *ssa.UnOp:
		if x.Op == token.MUL {
			// pointer loaded from memory: follow
			return operandRooted(fn, x.X, depth+1)
		}
	case *ssa.Call, *ssa.Extract:
		return callResultRooted(root, depth+1)
	}
	return "", false
}

// callResultRooted: a value returned by a function of the same package is only
// fresh if that function never returns (a copy of) one of its own operands.
func callResultRooted(v ssa.Value, depth int) (string, bool) {
	if ex, ok := v.(*ssa.Extract); ok {
		v = ex.Tuple
	}
	call, ok := v.(*ssa.Call)
	if !ok {
		return "", false
	}
	sc := call.Call.StaticCallee()
	if sc == nil || !strings.HasSuffix(fnPkgPath(sc), mathPkgSuffix) || len(sc.Blocks) == 0 {
		return "", false // external constructors (apd.NewFromString, big.NewInt) return fresh values
	}
	if why, bad := returnsOperand(sc, depth+1); bad {
		return "the result of " + mathFnName(sc) + ", which can return " + why, true
	}
	return "", false
}

var returnsOperandMemo = map[*ssa.Function]string{}

// returnsOperand: some return of fn yields (a shallow copy of) a receiver/parameter.
func returnsOperand(fn *ssa.Function, depth int) (string, bool) {
	if r, ok := returnsOperandMemo[fn]; ok {
		return r, r != ""
	}
	returnsOperandMemo[fn] = ""
	if depth > 8 {
		return "", false
	}
	for _, b := range fn.Blocks {
		r, ok := b.Instrs[len(b.Instrs)-1].(*ssa.Return)
		if !ok {
			continue
		}
		for _, res := range r.Results {
			n := namedOf(res.Type())
			if n == nil || !(n.Obj().Name() == "Dec" || n.Obj().Name() == "Decimal" || n.Obj().Name() == "Int") {
				continue
			}
			var why string
			var bad bool
			var chk func(v ssa.Value, d int)
			chk = func(v ssa.Value, d int) {
				if bad || d > 6 {
					return
				}
				switch x := v.(type) {
				case *ssa.Parameter:
					why, bad = "its operand "+x.Name(), true
				case *ssa.UnOp:
					if x.Op == token.MUL {
						why, bad = operandRooted(fn, x.X, depth+1)
					}
				case *ssa.Phi:
					for _, e := range x.Edges {
						chk(e, d+1)
					}
				case *ssa.Call, *ssa.Extract:
					why, bad = callResultRooted(x, depth+1)
				}
			}
			chk(res, 0)
			if bad {
				returnsOperandMemo[fn] = why
				return why, true
			}
		}
	}
	return "", false
}

func valueOperandRooted(fn *ssa.Function, v ssa.Value, depth int) (string, bool) {
	switch x := v.(type) {
	case *ssa.Parameter:
		return "parameter " + x.Name(), true
	case *ssa.UnOp:
		if x.Op == token.MUL {
			return operandRooted(fn, x.X, depth+1)
		}
	case *ssa.Field:
		return valueOperandRooted(fn, x.X, depth+1)
	}
	return "", false
}

// mutating callee classification: index of the argument that is written.
func mutatedArg(cc *ssa.CallCommon) (int, string) {
	sc := cc.StaticCallee()
	if !cc.IsInvoke() {
		// a method value of a decimal context called right away or later (ctx.Sub stored in a variable,
		// passed as a parameter): the receiver is bound, the destination is the first argument
		if _, m, ok := boundCtxMethod(cc.Value); ok {
			return 0, "apd.Context." + m
		}
		if sc == nil && isCtxOpSignature(cc.Signature()) {
			return 0, "apd.Context.(operation passed as a function value)"
		}
		// a method expression ((*apd.Context).Sub) handed in: the context is the first argument, the
		// destination the second
		if sig := cc.Signature(); sc == nil && sig != nil && sig.Params().Len() >= 3 && sig.Results().Len() == 2 &&
			typeIs(sig.Params().At(0).Type(), "", "Context") && typeIs(sig.Params().At(1).Type(), "", "Decimal") && typeIs(sig.Results().At(0).Type(), "", "Condition") {
			return 1, "apd.Context.(operation passed as a method expression)"
		}
	}
	if sc == nil || sc.Signature.Recv() == nil {
		return -1, ""
	}
	recv := sc.Signature.Recv().Type()
	_, isPtr := recv.(*types.Pointer)
	switch {
	case typeIs(recv, "apd/v2", "Context") || typeIs(recv, "apd/v3", "Context") || typeIs(recv, "cockroachdb/apd", "Context"):
		// func (c *Context) Op(d, x[, y]) : d is written
		if sc.Signature.Params().Len() >= 2 && typeIs(sc.Signature.Params().At(0).Type(), "", "Decimal") {
			return 1, "apd.Context." + sc.Name()
		}
	case isPtr && typeIs(recv, "", "Decimal") && strings.Contains(fnPkgPath(sc), "apd"):
		switch sc.Name() {
		case "Set", "SetInt64", "SetFinite", "SetString", "SetFloat64", "Reduce", "Neg", "Abs", "Modf", "setBig", "SetCoefficient", "Scan", "UnmarshalText":
			return 0, "apd.Decimal." + sc.Name()
		}
	case isPtr && typeIs(recv, "math/big", "Int"):
		// every *big.Int method returning *big.Int writes its receiver; plus the Set* family
		if sc.Signature.Results().Len() >= 1 && typeIs(sc.Signature.Results().At(0).Type(), "math/big", "Int") {
			return 0, "big.Int." + sc.Name()
		}
		switch sc.Name() {
		case "SetString", "Scan", "UnmarshalText", "UnmarshalJSON", "GobDecode":
			return 0, "big.Int." + sc.Name()
		}
	}
	return -1, ""
}

// boundCtxMethod: v is the method value ctx.Op of an apd decimal context (a closure over the bound
// method wrapper); returns the bound context and the method name.
func boundCtxMethod(v ssa.Value) (ssa.Value, string, bool) {
	mc, ok := v.(*ssa.MakeClosure)
	if !ok || len(mc.Bindings) != 1 {
		return nil, "", false
	}
	f, ok := mc.Fn.(*ssa.Function)
	if !ok || !strings.HasSuffix(f.Name(), "$bound") {
		return nil, "", false
	}
	t := mc.Bindings[0].Type()
	if !(typeIs(t, "apd/v2", "Context") || typeIs(t, "apd/v3", "Context") || typeIs(t, "cockroachdb/apd", "Context")) {
		return nil, "", false
	}
	return mc.Bindings[0], strings.TrimSuffix(f.Name(), "$bound"), true
}

// isCtxOpSignature: func(d, x[, y] *apd.Decimal) (apd.Condition, error) — the shape of every
// arithmetic method of apd.Context.
func isCtxOpSignature(sig *types.Signature) bool {
	if sig == nil || sig.Params().Len() < 2 || sig.Results().Len() != 2 {
		return false
	}
	if !typeIs(sig.Params().At(0).Type(), "", "Decimal") || !typeIs(sig.Results().At(0).Type(), "", "Condition") {
		return false
	}
	return true
}

// dynInstances: how many distinct context operations flow into the function-valued parameter that fn
// calls at ci (one instance of the obligation per operation a caller passes).
func dynInstances(p *Program, fn *ssa.Function, ci ssa.CallInstruction) int {
	prm, ok := ci.Common().Value.(*ssa.Parameter)
	if !ok || fn.Pkg == nil {
		return 1
	}
	idx := -1
	for i, q := range fn.Params {
		if q == prm {
			idx = i
		}
	}
	seen := map[string]bool{}
	for _, g := range pkgFuncs(p.SSA, fn.Pkg) {
		for _, c2 := range callsIn(g) {
			if c2.Common().StaticCallee() != fn || idx < 0 || idx >= len(c2.Common().Args) {
				continue
			}
			a := c2.Common().Args[idx]
			if ct, isCT := a.(*ssa.ChangeType); isCT {
				a = ct.X
			}
			if ctx, m, ok := boundCtxMethod(a); ok {
				// one instance per call site that passes an operation
				seen[fmt.Sprintf("%p|%s.%s", c2, fmt.Sprint(addrRoot(derefLoad(ctx))), m)] = true
			} else if f, isF := a.(*ssa.Function); isF && isApdCtxMethodExpr(f) {
				seen[fmt.Sprintf("%p|%s", c2, apdMethodExprName(f))] = true
			} else if q, isPrm := a.(*ssa.Parameter); isPrm {
				// handed on from the caller's own parameter: count the operations flowing into that one
				for _, ci2 := range callsIn(g) {
					if ci2 == c2 {
						for k := 0; k < dynInstancesOfParam(p, g, q); k++ {
							seen[fmt.Sprintf("%p|via|%d", c2, k)] = true
						}
					}
				}
			}
		}
	}
	if len(seen) == 0 {
		return 1
	}
	return len(seen)
}

func derefLoad(v ssa.Value) ssa.Value {
	if u, ok := v.(*ssa.UnOp); ok && u.Op == token.MUL {
		return u.X
	}
	return v
}

func ruleM1(c *Ctx, p *Program, fn *ssa.Function) int {
	n := 0
	for _, ci := range callsIn(fn) {
		cc := ci.Common()
		idx, what := mutatedArg(cc)
		if idx < 0 || idx >= len(cc.Args) {
			continue
		}
		if cc.StaticCallee() == nil {
			n += dynInstances(p, fn, ci)
		} else {
			n++
		}
		key := fmt.Sprintf("%s#%s@%d", fnKeyShort(fn), what, ordinalOf(fn, ci, what))
		if why, bad := operandRooted(fn, cc.Args[idx], 0); bad {
			c.Violate("C19.M1", key, p.Pos(ci.Pos()), what+" writes into memory rooted at "+why+": the operation mutates (or shares big.Int storage with) one of its operands", nil)
		} else {
			c.Hold("C19.M1", key, p.Pos(ci.Pos()), what+" writes into a fresh local", nil)
		}
	}
	return n
}

func fnKeyShort(fn *ssa.Function) string {
	if strings.HasSuffix(fnPkgPath(fn), mathPkgSuffix) {
		return "math." + mathFnName(fn)
	}
	return funcKey(fn)
}

// ordinalOf: the how-many-th call of this kind in the function (line-independent key).
func ordinalOf(fn *ssa.Function, target ssa.CallInstruction, what string) int {
	n := 0
	for _, ci := range callsIn(fn) {
		_, w := mutatedArg(ci.Common())
		if w == what {
			n++
		}
		if ci == target {
			return n
		}
	}
	return n
}

// ---- M2 ---------------------------------------------------------------------

// ctxOps returns "ctxName.Op" for every apd.Context operation reachable from fn inside the package.
func ctxOps(fn *ssa.Function, sp *ssa.Package, seen map[*ssa.Function]bool) map[string]bool {
	out := map[string]bool{}
	if seen[fn] {
		return out
	}
	seen[fn] = true
	ctxName := func(v ssa.Value) string {
		switch g := addrRoot(derefLoad(v)).(type) {
		case *ssa.Global:
			if g.Pkg == sp {
				return g.Name()
			}
			return g.Pkg.Pkg.Name() + "." + g.Name()
		case *ssa.Alloc:
			return "local context " + g.Comment
		case *ssa.Parameter:
			return "parameter " + g.Name()
		}
		return "?"
	}
	// a method value ctx.Op created here is an operation performed here (it is created to be called:
	// directly, from a variable, or by the helper it is handed to)
	for _, b := range fn.Blocks {
		for _, in := range b.Instrs {
			if mc, isMC := in.(*ssa.MakeClosure); isMC {
				if ctx, m, ok := boundCtxMethod(mc); ok {
					out[ctxName(ctx)+"."+m] = true
				} else if af, isF := mc.Fn.(*ssa.Function); isF && af.Parent() == fn {
					for k := range ctxOps(af, sp, seen) {
						out[k] = true
					}
				}
			}
		}
	}
	for _, ci := range callsIn(fn) {
		cc := ci.Common()
		sc := cc.StaticCallee()
		if sc == nil {
			continue
		}
		if _, _, isBound := boundCtxMethod(cc.Value); isBound {
			continue
		}
		if idx, what := mutatedArg(cc); idx == 1 && strings.HasPrefix(what, "apd.Context.") {
			name := "?"
			switch g := addrRoot(cc.Args[0]).(type) {
			case *ssa.Global:
				if g.Pkg == sp {
					name = g.Name()
				} else {
					name = g.Pkg.Pkg.Name() + "." + g.Name()
				}
			case *ssa.Alloc:
				name = "local context " + g.Comment
			case *ssa.Parameter:
				name = "parameter " + g.Name()
			}
			out[name+"."+sc.Name()] = true
			continue
		}
		if sc.Pkg == sp && sc != fn {
			// a helper handed a context AND an operation of the library as a method expression
			// (applyBinary(&exactContext, (*apd.Context).Sub, x, y)) performs that operation on that context
			var ctxArg ssa.Value
			var opFn *ssa.Function
			for _, a := range cc.Args {
				fv := a
				if ct, isCT := fv.(*ssa.ChangeType); isCT {
					fv = ct.X
				}
				if f, isF := fv.(*ssa.Function); isF && isApdCtxMethodExpr(f) {
					opFn = f
				} else if pt, isP := a.Type().Underlying().(*types.Pointer); isP && typeIs(pt.Elem(), "", "Context") && strings.Contains(pt.Elem().String(), "apd") {
					ctxArg = a
				}
			}
			if ctxArg != nil && opFn != nil {
				out[ctxName(ctxArg)+"."+apdMethodExprName(opFn)] = true
				continue
			}
			// only arithmetic helpers count: predicates and renderers do not compute a result value
			if sc.Signature.Results().Len() > 0 && typeIs(sc.Signature.Results().At(0).Type(), mathPkgSuffix, "Dec") {
				for k := range ctxOps(sc, sp, seen) {
					out[k] = true
				}
			}
		}
	}
	return out
}

func ruleM2Literals(c *Ctx, p *Program) {
	pk := p.Pkg(mathPkgSuffix)
	type want struct {
		prec     int64
		needBits []string
		exactEq  string
	}
	wants := map[string]want{
		"exactContext":  {0, []string{"Inexact", "Rounded"}, ""},
		"dec128Context": {34, nil, "DefaultTraps"},
	}
	apdConst := func(name string) (constant.Value, bool) {
		for _, imp := range pk.Types.Imports() {
			if strings.Contains(imp.Path(), "cockroachdb/apd") {
				if o, ok := imp.Scope().Lookup(name).(*types.Const); ok {
					return o.Val(), true
				}
			}
		}
		return nil, false
	}
	found := map[string]bool{}
	for _, f := range pk.Syntax {
		ast.Inspect(f, func(n ast.Node) bool {
			vs, ok := n.(*ast.ValueSpec)
			if !ok || len(vs.Names) != 1 || len(vs.Values) != 1 {
				return true
			}
			w, ok := wants[vs.Names[0].Name]
			if !ok {
				return true
			}
			// the initialiser is a composite literal, or a call of a same-package constructor whose body is
			// `return apd.Context{…}` with fields computed from its parameters: the fields are then evaluated
			// with the call's constant arguments substituted
			env := map[types.Object]constant.Value{}
			cl, ok := vs.Values[0].(*ast.CompositeLit)
			if !ok {
				call, isCall := vs.Values[0].(*ast.CallExpr)
				if !isCall {
					return true
				}
				id, _ := call.Fun.(*ast.Ident)
				if id == nil {
					return true
				}
				fobj, _ := pk.TypesInfo.Uses[id].(*types.Func)
				if fobj == nil || fobj.Pkg() != pk.Types {
					return true
				}
				var decl *ast.FuncDecl
				for _, f2 := range pk.Syntax {
					for _, d := range f2.Decls {
						if fd, isFd := d.(*ast.FuncDecl); isFd && pk.TypesInfo.Defs[fd.Name] == fobj {
							decl = fd
						}
					}
				}
				if decl == nil || decl.Body == nil || len(decl.Body.List) != 1 {
					return true
				}
				ret, isRet := decl.Body.List[0].(*ast.ReturnStmt)
				if !isRet || len(ret.Results) != 1 {
					return true
				}
				cl, ok = ret.Results[0].(*ast.CompositeLit)
				if !ok {
					return true
				}
				i := 0
				for _, fld := range decl.Type.Params.List {
					for _, nm := range fld.Names {
						if i < len(call.Args) {
							if tv := pk.TypesInfo.Types[call.Args[i]]; tv.Value != nil {
								env[pk.TypesInfo.Defs[nm]] = tv.Value
							}
						}
						i++
					}
				}
			}
			var evalC func(e ast.Expr) constant.Value
			evalC = func(e ast.Expr) constant.Value {
				if tv := pk.TypesInfo.Types[e]; tv.Value != nil {
					return tv.Value
				}
				switch x := e.(type) {
				case *ast.Ident:
					if v, has := env[pk.TypesInfo.Uses[x]]; has {
						return v
					}
				case *ast.ParenExpr:
					return evalC(x.X)
				case *ast.BinaryExpr:
					a, b := evalC(x.X), evalC(x.Y)
					if a != nil && b != nil && (x.Op == token.OR || x.Op == token.AND || x.Op == token.ADD) {
						return constant.BinaryOp(a, x.Op, b)
					}
				case *ast.CallExpr: // conversion T(x)
					if len(x.Args) == 1 {
						if tv := pk.TypesInfo.Types[x.Fun]; tv.IsType() {
							return evalC(x.Args[0])
						}
					}
				}
				return nil
			}
			name := vs.Names[0].Name
			found[name] = true
			var prec, traps constant.Value
			prec = constant.MakeInt64(0)
			for _, el := range cl.Elts {
				kv, ok := el.(*ast.KeyValueExpr)
				if !ok {
					continue
				}
				k, _ := kv.Key.(*ast.Ident)
				if k == nil {
					continue
				}
				tv := pk.TypesInfo.Types[kv.Value]
				if tv.Value == nil {
					tv.Value = evalC(kv.Value)
				}
				switch k.Name {
				case "Precision":
					prec = tv.Value
				case "Traps":
					traps = tv.Value
				case "Rounding":
					// "correct to 34 significant digits" is rounding to nearest: the field is left unset
					// (apd's default, half up) or names a to-nearest mode; a directed mode (down, up,
					// floor, ceiling, 05up) is off by up to a whole unit of the last digit
					rv := ""
					if tv.Value != nil && tv.Value.Kind() == constant.String {
						rv = constant.StringVal(tv.Value)
					}
					nearest := map[string]bool{"": true, "half_up": true, "half_even": true, "half_down": true}
					if tv.Value == nil {
						c.Undecide("C19.M2", name+"#Rounding", p.Pos(vs.Pos()), "Rounding of "+name+" is not a compile-time constant")
					} else {
						c.Check(nearest[rv], "C19.M2", name+"#Rounding", p.Pos(vs.Pos()), fmt.Sprintf("%s.Rounding = %q: a round-to-nearest mode (results of the rounding operations are within half a unit of the last of the 34 digits)", name, rv))
					}
				}
			}
			pos := p.Pos(vs.Pos())
			if prec == nil {
				c.Undecide("C19.M2", name+"#Precision", pos, "Precision of "+name+" is not a compile-time constant")
			} else {
				pv, _ := constant.Int64Val(prec)
				c.Check(pv == w.prec, "C19.M2", name+"#Precision", pos, fmt.Sprintf("%s.Precision = %d (required %d)", name, pv, w.prec))
			}
			if traps == nil {
				c.Undecide("C19.M2", name+"#Traps", pos, "Traps of "+name+" is not a compile-time constant")
				return true
			}
			tvv, _ := constant.Uint64Val(traps)
			for _, b := range w.needBits {
				bv, ok := apdConst(b)
				if !ok {
					c.Undecide("C19.M2", name+"#Traps:"+b, pos, "apd."+b+" not found")
					continue
				}
				bb, _ := constant.Uint64Val(bv)
				c.Check(tvv&bb == bb, "C19.M2", name+"#Traps:"+b, pos, fmt.Sprintf("%s traps on apd.%s (so inexact results are errors)", name, b))
			}
			if w.exactEq != "" {
				bv, ok := apdConst(w.exactEq)
				if ok {
					bb, _ := constant.Uint64Val(bv)
					c.Check(tvv&bb == bb, "C19.M2", name+"#Traps:"+w.exactEq, pos, fmt.Sprintf("%s traps include apd.%s (overflow, division by zero, invalid operation are errors)", name, w.exactEq))
				}
			}
			return true
		})
	}
	for name := range wants {
		if !found[name] {
			c.Undecide("C19.M2", name+"#literal", "-", "context variable "+name+" with a composite literal initialiser not found")
		}
	}
}

// no store into any apd.Context global (ours or apd.BaseContext) outside package initialisers, anywhere in the loaded repo code.
func ruleM2NoWrites(c *Ctx, e *Env, p *Program) {
	n := 0
	for _, pk := range p.RepoList {
		sp := p.ssaPkgs[pk.Types]
		if sp == nil || excludedPkg(pk.PkgPath) != "" {
			continue
		}
		for _, fn := range pkgFuncs(p.SSA, sp) {
			for _, b := range fn.Blocks {
				for _, in := range b.Instrs {
					st, ok := in.(*ssa.Store)
					if !ok {
						continue
					}
					g := rootGlobal(st.Addr)
					if g == nil {
						continue
					}
					if !typeIs(g.Type(), "", "Context") || !strings.Contains(g.Type().String(), "apd") {
						continue
					}
					if strings.HasPrefix(fn.Synthetic, "package init") || fn.Name() == "init" {
						continue
					}
					n++
					c.Violate("C19.M2", funcKey(fn)+"#ctxwrite:"+g.Name(), p.Pos(st.Pos()), "store into decimal context "+g.Name()+" outside its initialiser changes the arithmetic of every later operation", nil)
				}
			}
		}
	}
	// the address of a shared context must not travel: whoever receives a *apd.Context can set its
	// rounding mode, precision or traps for every later operation in the process
	for _, pk := range p.RepoList {
		sp := p.ssaPkgs[pk.Types]
		if sp == nil || excludedPkg(pk.PkgPath) != "" {
			continue
		}
		for _, fn := range pkgFuncs(p.SSA, sp) {
			if strings.HasPrefix(fn.Synthetic, "package init") || fn.Name() == "init" {
				continue
			}
			for _, b := range fn.Blocks {
				for _, in := range b.Instrs {
					var ops []*ssa.Value
					for _, op := range in.Operands(ops) {
						g, isG := (*op).(*ssa.Global)
						if !isG || !typeIs(g.Type(), "", "Context") || !strings.Contains(g.Type().String(), "apd") {
							continue
						}
						okUse := false
						switch y := in.(type) {
						case *ssa.UnOp:
							okUse = y.Op == token.MUL // a copy of the context value
						case *ssa.FieldAddr:
							okUse = true // stores through it are reported above
						case *ssa.MakeClosure:
							_, _, okUse = boundCtxMethod(y)
						case ssa.CallInstruction:
							cc := y.Common()
							if sc := cc.StaticCallee(); sc != nil && len(cc.Args) > 0 && cc.Args[0] == ssa.Value(g) && strings.Contains(fnPkgPath(sc), "cockroachdb/apd") {
								okUse = true // receiver of one of the library's own methods
								for _, a := range cc.Args[1:] {
									if a == ssa.Value(g) {
										okUse = false
									}
								}
							} else if sc != nil && sc.Pkg == fn.Pkg && len(sc.Blocks) > 0 {
								// handed to a hand-written helper of the same package that uses the pointer only as the
								// receiver of library operations (or hands it to another such helper)
								okUse = true
								for i, a := range cc.Args {
									if a == ssa.Value(g) && (i >= len(sc.Params) || !ctxParamReadOnly(sc.Params[i], 0)) {
										okUse = false
									}
								}
							}
						case *ssa.DebugRef:
							okUse = true
						}
						if !okUse {
							n++
							c.Violate("C19.M2", funcKey(fn)+"#ctxescape:"+g.Name(), p.Pos(in.Pos()), "the address of the shared decimal context "+g.Name()+" is handed on (argument, stored or returned pointer): code that receives it can change the rounding mode, precision or traps of every later operation in the process", nil)
						}
					}
				}
			}
		}
	}
	if n == 0 {
		c.Hold("C19.M2", "contexts#no-writes", "-", "no store into exactContext, dec128Context or apd.BaseContext outside package initialisers in any loaded repo package, and their addresses are used only as receivers of the library's own methods", nil)
	}
}

// ---- M3/M4 --------------------------------------------------------------------

// ---- guard subjects ---------------------------------------------------------------
//
// A guard obligation names WHAT must be tested, not only which predicate is called: the value
// returned on success ("result"), an operand ("param:i") or the condition flags of the arithmetic
// operation itself ("op"). The test may sit in the function or in a same-package helper the value
// is handed to (depth-bounded summaries), so extracting `checkExact(cond, err)` changes nothing.

type guardSubject struct {
	kind  string // result | param | op
	param int
}

func (g guardSubject) String() string {
	switch g.kind {
	case "param":
		return fmt.Sprintf("operand %d", g.param)
	case "op":
		return "the condition flags of the context operation"
	}
	return "the returned value"
}

// valRoot strips loads of local slots: the Alloc for `var z Dec`, the parameter for a spilled
// parameter, the value itself otherwise.
func valRoot(v ssa.Value) ssa.Value {
	for i := 0; i < 4; i++ {
		u, ok := v.(*ssa.UnOp)
		if !ok || u.Op != token.MUL {
			return v
		}
		a, ok := u.X.(*ssa.Alloc)
		if !ok {
			return v
		}
		if sv := uniqueStore(a); sv != nil {
			if _, isP := sv.(*ssa.Parameter); isP {
				return sv
			}
			if _, isE := sv.(*ssa.Extract); isE {
				return sv
			}
		}
		return a
	}
	return v
}

// subjectMatches: is v the subject, as seen from return r of fn?
func subjectMatches(fn *ssa.Function, subj guardSubject, v ssa.Value, r *ssa.Return) bool {
	root := valRoot(v)
	switch subj.kind {
	case "param":
		p, ok := root.(*ssa.Parameter)
		return ok && subj.param < len(fn.Params) && p == fn.Params[subj.param]
	case "op":
		ex, ok := root.(*ssa.Extract)
		if !ok || ex.Index != 0 {
			return false
		}
		call, ok := ex.Tuple.(*ssa.Call)
		if !ok {
			return false
		}
		pkg, name := calleePkgName(&call.Call)
		return strings.Contains(pkg, "cockroachdb/apd") && strings.HasPrefix(name, "Context.")
	case "result":
		if r == nil || len(r.Results) == 0 {
			return false
		}
		return valRoot(r.Results[0]) == root
	}
	return false
}

// errNilEdgeDominates: the block lies behind `ev == nil`.
func errNilEdgeDominates(ev ssa.Value, blk *ssa.BasicBlock) bool {
	if ev.Referrers() == nil {
		return false
	}
	for _, r := range *ev.Referrers() {
		bo, ok := r.(*ssa.BinOp)
		if !ok || (bo.Op != token.NEQ && bo.Op != token.EQL) || !(isNilConst(bo.X) || isNilConst(bo.Y)) {
			continue
		}
		ifi, neg := ifOn(bo)
		if ifi == nil {
			continue
		}
		nilBranch := 0
		if (bo.Op == token.NEQ) != neg {
			nilBranch = 1
		}
		if edgeDominates(ifi.Block(), nilBranch, blk) {
			return true
		}
	}
	return false
}

func errValueOf(call *ssa.Call) ssa.Value {
	sig := call.Call.Signature()
	idx := errResultIndex(sig)
	if idx < 0 {
		return nil
	}
	if sig.Results().Len() == 1 {
		return call
	}
	return extractOf(call, idx)
}

// ruleGuard: every success return of fnName lies behind pred(subject) == want, for each subject.
func ruleGuard(c *Ctx, p *Program, byName map[string]*ssa.Function, rule, fnName, pred string, want bool, why string, subjects ...guardSubject) {
	fn := byName[fnName]
	if fn == nil {
		c.Undecide(rule, fnName+"#"+pred, "-", "function "+fnName+" no longer exists")
		return
	}
	for i, subj := range subjects {
		key := fnName + "#" + pred
		if len(subjects) > 1 {
			key = fmt.Sprintf("%s@%d", key, i+1)
		}
		rets := successReturns(fn)
		bad := ""
		q := newGuardQuery(fn.Prog, fn.Pkg, pred, want)
		if ok, why := q.guarded(fn, subj, 3); !ok {
			bad = " — " + why
			// the function hands its whole job to one same-package helper (`return helper(…)`): the guard is
			// the helper's to establish on ITS success returns
			for d, cur := 0, fn; d < 2 && bad != ""; d++ {
				del := soleDelegate(cur)
				if del == nil {
					break
				}
				if ok2, _ := q.guarded(del, subj, 3); ok2 {
					bad = ""
				}
				cur = del
			}
		}
		if bad != "" {
			c.Violate(rule, key, p.Pos(fn.Pos()), fmt.Sprintf("%s: every success return of %s must lie behind %s == %v tested on %s, in the function or a helper it hands the value to%s", why, fnName, pred, want, subj, bad), nil)
		} else {
			c.Hold(rule, key, p.Pos(fn.Pos()), fmt.Sprintf("%s: all %d success returns of %s lie behind %s == %v tested on %s", why, len(rets), fnName, pred, want, subj), nil)
		}
	}
}

func ruleFixed(c *Ctx, p *Program, byName map[string]*ssa.Function, fnName, via string) {
	fn := byName[fnName]
	key := fnName + "#decimal-places"
	if fn == nil {
		c.Undecide("C19.M4", key, "-", "function "+fnName+" no longer exists")
		return
	}
	c.Check(callsFn(fn, via), "C19.M4", fnName+"#parses-via:"+via, p.Pos(fn.Pos()), fnName+" obtains its value from "+via+", handing it its own string argument unchanged")
	pos := p.Pos(fn.Pos())
	ok := len(fn.Params) >= 2 && placesGuarded(fn, fn.Params[1], 0)
	c.Check(ok, "C19.M4", key, pos, fnName+": every success return lies behind NumDecimalPlaces() <= max")
}

func isCallTo(v ssa.Value, name string) bool {
	call, ok := v.(*ssa.Call)
	if !ok {
		return false
	}
	_, n := calleePkgName(&call.Call)
	return n == name
}

func flipCmp(op token.Token) token.Token {
	switch op {
	case token.LSS:
		return token.GTR
	case token.GTR:
		return token.LSS
	case token.LEQ:
		return token.GEQ
	case token.GEQ:
		return token.LEQ
	}
	return op
}

// NewDecFromString: the only success return is under Form == Finite; NaN forms and Infinite are errors.
func ruleParse(c *Ctx, p *Program, byName map[string]*ssa.Function) {
	fn := byName["NewDecFromString"]
	if fn == nil {
		c.Undecide("C19.M4", "NewDecFromString", "-", "function no longer exists")
		return
	}
	// the parse and the finite-only test may sit in the function or in same-package helpers it calls
	parsesWithApd := false
	var formCmps []string
	seenFns := map[*ssa.Function]bool{}
	var scan func(f *ssa.Function, depth int)
	scan = func(f *ssa.Function, depth int) {
		if f == nil || seenFns[f] || depth > 2 || len(f.Blocks) == 0 {
			return
		}
		seenFns[f] = true
		for _, ci := range callsIn(f) {
			if pkg, name := calleePkgName(ci.Common()); strings.Contains(pkg, "cockroachdb/apd") && (name == "NewFromString" || name == "Decimal.SetString") {
				parsesWithApd = true
			}
			if sc := ci.Common().StaticCallee(); sc != nil && sc.Pkg == fn.Pkg {
				scan(sc, depth+1)
			}
		}
		for _, b := range f.Blocks {
			for _, in := range b.Instrs {
				if bo, ok := in.(*ssa.BinOp); ok && (bo.Op == token.EQL || bo.Op == token.NEQ) {
					var cst ssa.Value
					if isFormLoad(bo.X) {
						cst = bo.Y
					} else if isFormLoad(bo.Y) {
						cst = bo.X
					}
					if v, isC := constInt(cst); cst != nil && isC {
						formCmps = append(formCmps, fmt.Sprint(v))
					}
				}
			}
		}
	}
	scan(fn, 0)
	finiteGuard := finiteGuarded(fn, 0)
	c.Check(parsesWithApd, "C19.M4", "NewDecFromString#parser", p.Pos(fn.Pos()), "string is parsed by apd.NewFromString")
	c.Check(finiteGuard, "C19.M4", "NewDecFromString#finite-only", p.Pos(fn.Pos()), "every success return lies behind Form == apd.Finite (NaN, signalling NaN and Infinite are rejected); form comparisons seen: "+strings.Join(formCmps, ","))
	ruleMantissaSign(c, p, fn)
}

// noSignAfterPoint: the strings in which no '+' or '-' directly follows a '.'.
const noSignAfterPoint = `([^.]|\.+[^.+\-])*\.*`

// ruleMantissaSign: apd's parser consumes one leading sign, removes the decimal point and hands the rest of the
// mantissa to big.Int.SetString — which accepts a sign of its own. ".-5" therefore parses to a value with a
// NEGATIVE coefficient that is not flagged negative (IsNegative false, SafeSubBalance(10, x) = 10.05), and ".+5"
// to 0.05 (found on the pinned tree in round 7, reproduced through Msg/Send, repaired by a fix: commit). A sign
// can reach the coefficient only directly after the point, so: every success path of the parser lies behind a
// rejection of both ".-" and ".+" in its input (two strings.Contains tests decided false, a same-package helper
// for which this holds returning nil, or a match of the input against an anchored package-level regex whose
// language contains no such string — decided by automata).
// decimalGrammar: the finite decimal strings apd parses to the value they denote — optional sign, digits with an
// optional fraction or a bare fraction, optional exponent with either spelling of the marker.
const decimalGrammar = `[+\-]?([0-9]+\.?[0-9]*|\.[0-9]+)([eE][+\-]?[0-9]+)?`

func ruleMantissaSign(c *Ctx, p *Program, fn *ssa.Function) {
	// a parser that rejects on a regex mismatch must not reject a decimal: "parsing a decimal string yields
	// exactly that value" fails just as well when "1E+1" is turned away (round-7 seed C19-13)
	for _, src := range inputRegexes(p, fn, 0) {
		body := strings.TrimSuffix(strings.TrimPrefix(src, "^"), "$")
		inc, counter, _, err := langIncluded(decimalGrammar, body)
		switch {
		case err != nil:
			c.Undecide("C19.M4", "NewDecFromString#grammar:"+src, p.Pos(fn.Pos()), "the parser matches its input against "+src+", which the automata construction cannot compile: "+err.Error())
		case !inc:
			c.Violate("C19.M4", "NewDecFromString#grammar", p.Pos(fn.Pos()), fmt.Sprintf("the parser matches its input against %s, which excludes the decimal string %q: a decimal the chain accepted before is rejected (every constructor, message validator and genesis validation goes through this function)", src, counter), nil)
		default:
			c.Hold("C19.M4", "NewDecFromString#grammar", p.Pos(fn.Pos()), "the regex the parser matches its input against ("+src+") includes every finite decimal string (automata inclusion)", nil)
		}
	}
	ok, why := mantissaSignGuarded(p, fn, 0)
	c.Check(ok, "C19.M4", "NewDecFromString#mantissa-sign", p.Pos(fn.Pos()), "every success return lies behind the rejection of a sign directly after the decimal point (\".-5\" would yield a negative coefficient not flagged negative, \".+5\" the value 0.05)"+why)
}

func mantissaSignGuarded(p *Program, fn *ssa.Function, depth int) (bool, string) {
	if depth > 3 || len(fn.Blocks) == 0 {
		return false, ": no body"
	}
	var prm *ssa.Parameter
	for _, q := range fn.Params {
		if b, isB := q.Type().Underlying().(*types.Basic); isB && b.Kind() == types.String {
			prm = q
			break
		}
	}
	if prm == nil {
		return false, ": no string parameter"
	}
	if okRe, _, _ := acceptsOnlyMatches(p, fn, prm, map[*ssa.Parameter]globRef{}, noSignAfterPoint, 0); okRe {
		return true, ""
	}
	var fromPrm func(v ssa.Value, d int) bool
	fromPrm = func(v ssa.Value, d int) bool {
		if v == ssa.Value(prm) {
			return true
		}
		if ph, isPhi := v.(*ssa.Phi); isPhi && d < 3 {
			some := false
			for _, e := range ph.Edges {
				if k, isK := e.(*ssa.Const); isK && k.Value != nil && k.Value.Kind() == constant.String {
					sv := constant.StringVal(k.Value)
					if strings.Contains(sv, ".-") || strings.Contains(sv, ".+") {
						return false
					}
					continue
				}
				if !fromPrm(e, d+1) {
					return false
				}
				some = true
			}
			return some
		}
		return false
	}
	var minus, plus []*ssa.Call
	type helper struct {
		call   *ssa.Call
		errVal ssa.Value
	}
	var helpers []helper
	for _, ci := range callsIn(fn) {
		call, isCall := ci.(*ssa.Call)
		if !isCall {
			continue
		}
		pkg, name := calleePkgName(&call.Call)
		if pkg == "strings" && name == "Contains" && len(call.Call.Args) == 2 && fromPrm(call.Call.Args[0], 0) {
			if k, isK := call.Call.Args[1].(*ssa.Const); isK && k.Value != nil && k.Value.Kind() == constant.String {
				switch constant.StringVal(k.Value) {
				case ".-":
					minus = append(minus, call)
				case ".+":
					plus = append(plus, call)
				}
			}
			continue
		}
		sc := call.Call.StaticCallee()
		if sc == nil || sc == fn || sc.Pkg != fn.Pkg || len(sc.Blocks) == 0 || errResultIndex(sc.Signature) < 0 {
			continue
		}
		passes := false
		for _, a := range call.Call.Args {
			if fromPrm(a, 0) {
				passes = true
			}
		}
		if !passes {
			continue
		}
		if g, _ := mantissaSignGuarded(p, sc, depth+1); !g {
			continue
		}
		if ev := errValueOf(call); ev != nil {
			helpers = append(helpers, helper{call, ev})
		}
	}
	if (len(minus) == 0 || len(plus) == 0) && len(helpers) == 0 {
		return false, ": no test of the input for \".-\" and \".+\" (strings.Contains), no guarded helper, no anchored regex excluding them"
	}
	ok, why := everySuccessPath(fn, func(pf *pgPath, n *pgNamer, bp []*ssa.BasicBlock, ev ssa.Value) bool {
		decidedFalse := func(cs []*ssa.Call) bool {
			for _, call := range cs {
				if v, seen := pf.lits[n.term(call, 0)]; seen && !v {
					return true
				}
			}
			return false
		}
		if decidedFalse(minus) && decidedFalse(plus) {
			return true
		}
		for _, h := range helpers {
			if ev == h.errVal && onPath(bp, h.call.Block()) {
				return true
			}
			if v, seen := pf.lits["("+orderPair(n.term(h.errVal, 0), "nil")+")"]; seen && v {
				return true
			}
		}
		return false
	})
	if !ok && why != "" {
		why = ": " + why
	}
	return ok, why
}

func isFormLoad(v ssa.Value) bool {
	u, ok := v.(*ssa.UnOp)
	if !ok || u.Op != token.MUL {
		return false
	}
	fa, ok := u.X.(*ssa.FieldAddr)
	if !ok {
		return false
	}
	return fieldName(fa.X.Type(), fa.Field) == "Form"
}

func ruleBigInt(c *Ctx, p *Program, byName map[string]*ssa.Function) {
	fn := byName["Dec.BigInt"]
	if fn == nil {
		c.Undecide("C19.M3", "Dec.BigInt", "-", "function no longer exists")
		return
	}
	ok := false
	for _, ci := range callsIn(fn) {
		call, isCall := ci.(*ssa.Call)
		if !isCall {
			continue
		}
		if _, name := calleePkgName(&call.Call); name != "Int.SetString" {
			continue
		}
		// base must be the constant 10 and the ok flag must guard success
		if len(call.Call.Args) == 3 {
			if b, isC := constInt(call.Call.Args[2]); !isC || b != 10 {
				c.Violate("C19.M3", "Dec.BigInt#base", p.Pos(call.Pos()), "integer re-parse does not use base 10", nil)
			}
		}
		for _, r := range *call.Referrers() {
			if ex, isEx := r.(*ssa.Extract); isEx && ex.Index == 1 {
				if allSuccessDominatedBy(fn, ex, true) {
					ok = true
				}
			}
		}
	}
	c.Check(ok, "C19.M3", "Dec.BigInt#integral-or-error", p.Pos(fn.Pos()), "BigInt succeeds only when the reduced value re-parses as an integer (ok flag guards every success return)")
}

func ruleString(c *Ctx, p *Program, byName map[string]*ssa.Function) {
	fn := byName["Dec.String"]
	if fn == nil {
		c.Undecide("C19.M5", "Dec.String", "-", "function no longer exists")
		return
	}
	ok := false
	det := "no call to apd.Decimal.Text found"
	nText, nPlain := 0, 0
	for _, ci := range callsIn(fn) {
		if _, name := calleePkgName(ci.Common()); name == "Decimal.Text" {
			nText++
			if len(ci.Common().Args) == 2 {
				if v, isC := constInt(ci.Common().Args[1]); isC && v == 'f' {
					nPlain++
				}
			}
		}
	}
	switch {
	case nText > 0 && nPlain == nText:
		ok = true
		det = "renders with Text('f') (plain notation) at every rendering call"
	case nText > 0:
		det = "Text is called with a format other than 'f' on some path: values render in scientific notation there"
	}
	rets := 0
	for _, b := range fn.Blocks {
		if r, isR := b.Instrs[len(b.Instrs)-1].(*ssa.Return); isR {
			rets++
			if !isCallTo(r.Results[0], "Decimal.Text") {
				ok = false
				det = "String returns something other than the Text('f') rendering"
			}
		}
	}
	c.Check(ok && rets > 0, "C19.M5", "Dec.String#plain", p.Pos(fn.Pos()), det)
}

// ---- M6 (whole program) -------------------------------------------------------

// ruleM6 inventories call sites of the rounding operations. With forC05 only the
// invariant/backing sites are reported (under C05), otherwise everything else.
// valueInexact: does a stored / minted value derive from a rounding operation — directly, or
// through a loop accumulator (atom in tainted) that sums rounded values?
func valueInexact(v Val, tainted map[string]bool) (bool, string) {
	viaAcc := func(l Lin) bool {
		for a := range l.T {
			if tainted[a] {
				return true
			}
		}
		return false
	}
	switch x := v.(type) {
	case *DecStr:
		if x.D != nil {
			return valueInexact(x.D, tainted)
		}
	case *DecV:
		if x.Inexact || viaAcc(x.L) {
			return true, x.L.String()
		}
	case *IntV:
		if x.Inexact || strings.Contains(x.L.String(), "trunc[") || viaAcc(x.L) {
			return true, x.L.String()
		}
	case *CoinV:
		return valueInexact(x.Amt, tainted)
	case *CoinsV:
		for _, it := range x.Items {
			if bad, w := valueInexact(it, tainted); bad {
				return bad, w
			}
		}
	}
	return false, ""
}

// taintedAccumulators: loop accumulators of a handler whose value after an iteration derives from a
// rounding operation (their atoms are "loop:<name>").
func taintedAccumulators(h *HandlerResult) map[string]bool {
	out := map[string]bool{}
	for round := 0; round < 2; round++ { // an accumulator may feed another
		for _, o := range h.Outs {
			for _, l := range o.St.loops {
				if o.Kind == exitLoopback && l.Tag != o.Loop {
					continue
				}
				for _, ph := range l.Phis {
					badInit, _ := valueInexact(ph.Init, out)
					badBack := false
					if ph.Back != nil {
						badBack, _ = valueInexact(ph.Back, out)
					}
					if badInit || badBack {
						switch hv := ph.Havoc.(type) {
						case *DecV:
							for a := range hv.L.T {
								out[a] = true
							}
						case *IntV:
							for a := range hv.L.T {
								out[a] = true
							}
						}
					}
				}
			}
		}
	}
	return out
}

// ruleM6 — rounding operations (Mul, Quo, QuoInteger, Rem: 34 significant digits) may only feed
// prices and fees. Decided on the explored paths (E1), not by function name: a value that passed
// through a rounding operation carries a taint; no tainted value may be stored into a credit
// ledger column (balances, supplies, basket balances, sell-order quantities) nor — in the basket
// module — be minted or burned as basket tokens. Rounding call sites that lie on explored paths
// are thereby covered wherever they are written; a site in code the explorer does not enter
// (invariants, genesis, queries) is reported, because nothing vouches for where its result goes.
func ruleM6(c *Ctx, e *Env, rule string, forC05 bool) {
	m := e.Model("x/ecocredit")
	p := m.P
	r := RunE1(m)
	witnessed := map[ssa.Instruction]bool{}
	nStored, nMint := 0, 0
	for _, h := range r.Handlers {
		if h.EP.Kind == "canary" {
			continue
		}
		isBasket := h.EP.Service == "basket"
		bad := ""
		badPos := p.Pos(h.Fn.Pos())
		n := 0
		tainted := taintedAccumulators(h)
		for _, o := range h.Outs {
			st := o.St
			for i := range st.events {
				ev := &st.events[i]
				if ev.Kind == "call" && roundingOps[ev.Method] {
					witnessed[ev.Pos] = true
				}
				if !inScope(o, ev) {
					continue
				}
				switch {
				case ev.Kind == "write" && ev.Table != nil && ledgerTables[ev.Table.Name] && ev.Row != nil:
					if forC05 && ev.Table.Name != "BasketBalance" {
						continue
					}
					for col, v := range ev.Row {
						n++
						nStored++
						if inexact, what := valueInexact(v, tainted); inexact && bad == "" {
							bad = fmt.Sprintf("%s.%s is stored from %s, which passed through a rounding operation (34 significant digits): ledger arithmetic must use the exact-or-error family", ev.Table.Name, col, what)
							badPos = p.Pos(ev.Pos.Pos())
						}
					}
				case isBasket && ev.Kind == "bank" && (ev.Method == "MintCoins" || ev.Method == "BurnCoins"):
					n++
					nMint++
					for _, a := range []Val{r.X.coinsOf(st, ev.Args[len(ev.Args)-1])} {
						if cs, isCoins := a.(*CoinsV); !isCoins || cs == nil {
							if bad == "" {
								bad = ev.Method + " of coins that are not built on the path: " + st.canon(ev.Args[len(ev.Args)-1])
							}
							continue
						}
						if inexact, what := valueInexact(a, tainted); inexact && bad == "" {
							bad = fmt.Sprintf("%s of basket tokens with amount %s, which passed through a rounding or truncating operation: token amounts must be exact multiples of the credits moved", ev.Method, what)
							badPos = p.Pos(ev.Pos.Pos())
						}
					}
				}
			}
		}
		if n == 0 {
			continue
		}
		if bad != "" {
			c.Violate(rule, h.Key+"#no-rounded-value-stored", badPos, bad, nil)
		} else if forC05 {
			c.Hold(rule, h.Key+"#no-rounded-value-stored", badPos, fmt.Sprintf("%d basket-balance columns / token mint-burn amounts on explored paths: none derives from a rounding operation", n), nil)
		} else {
			c.Hold(rule, h.Key+"#no-rounded-value-stored", badPos, fmt.Sprintf("%d ledger column values on explored paths: none derives from a rounding operation", n), nil)
		}
	}
	if forC05 {
		c.Min("basket mint/burn events checked for exactness", 2, nMint)
	} else {
		c.Min("ledger column values checked for exactness", 50, nStored)
	}
	// static inventory of rounding call sites
	for _, mod := range []string{"x/ecocredit", "x/data"} {
		mm := e.Model(mod)
		pp := mm.P
		// a site in an unexported helper that only the registered invariant of its package uses is named
		// after that invariant (the first such site per operation; further ones keep the helper's name), so
		// that moving the call into or out of a helper does not change what it is called
		ownerOf := map[*ssa.Function]*ssa.Function{}
		if mod == "x/ecocredit" {
			gg := NewGraph(pp)
			for _, rt := range []*ssa.Function{findFn(mm, "x/ecocredit/v3/basket/keeper", "SupplyInvariant"), findFn(mm, "x/ecocredit/v3/base/keeper", "BatchSupplyInvariant")} {
				if rt == nil {
					continue
				}
				inv := gg.Closure([]*ssa.Function{rt})
				for f := range inv {
					if f == rt || fnPkgPath(f) != fnPkgPath(rt) || f.Parent() != nil || ast.IsExported(f.Name()) {
						continue
					}
					// every caller inside the package is itself part of the invariant
					only := true
					for _, g2 := range mm.subjectFns(false) {
						if fnPkgPath(g2) != fnPkgPath(rt) || inv[g2] {
							continue
						}
						for _, ci := range callsIn(g2) {
							if ci.Common().StaticCallee() == f {
								only = false
							}
						}
					}
					if only {
						ownerOf[f] = rt
					}
				}
			}
		}
		usedOwnerKey := map[string]bool{}
		for _, fn := range sortedFns(fnSet(mm.subjectFns(false))) {
			if strings.HasSuffix(fnPkgPath(fn), mathPkgSuffix) || isCanaryFn(fn) {
				continue
			}
			for _, ci := range callsIn(fn) {
				sc := ci.Common().StaticCallee()
				if sc == nil || !strings.HasSuffix(fnPkgPath(sc), mathPkgSuffix) || !roundingOps[mathFnName(sc)] {
					continue
				}
				c.Count("rounding_call_sites", 1)
				fk := funcKey(fn)
				key := fk + "#" + mathFnName(sc)
				if rt := ownerOf[fn]; rt != nil {
					if ok2 := funcKey(rt) + "#" + mathFnName(sc); !usedOwnerKey[ok2] && !fnCallsRounding(rt, mathFnName(sc)) {
						usedOwnerKey[ok2] = true
						key = ok2
					}
				}
				isBacking := strings.Contains(fk, "basket/keeper")
				if forC05 && !isBacking {
					continue
				}
				if mod == "x/ecocredit" && witnessed[ci] {
					c.Hold(rule, key, pp.Pos(ci.Pos()), "rounding operation on explored handler paths: its result is tainted and the taint reaches no ledger column and no basket token amount (it feeds prices/fees only)", nil)
				} else {
					c.Violate(rule, key, pp.Pos(ci.Pos()), "rounding operation "+mathFnName(sc)+" (34 significant digits) in code the path explorer does not enter (invariants, genesis, queries): nothing vouches for where its result goes — ledger and backing arithmetic must use the exact-or-error family", nil)
				}
			}
		}
	}
}

// fnCallsRounding: fn itself contains a call of the named types/math operation.
func fnCallsRounding(fn *ssa.Function, op string) bool {
	for _, ci := range callsIn(fn) {
		if sc := ci.Common().StaticCallee(); sc != nil && strings.HasSuffix(fnPkgPath(sc), mathPkgSuffix) && mathFnName(sc) == op {
			return true
		}
	}
	return false
}

func pos0(p *Program, fn *ssa.Function) bool {
	if len(fn.Blocks) == 0 {
		return false
	}
	pos := fn.Pos()
	for q := fn; !pos.IsValid() && q != nil; q = q.Parent() {
		pos = q.Pos()
	}
	return !pos.IsValid() || !isGeneratedFile(p.Fset.Position(pos).Filename)
}

// ---- M8: no machine-integer arithmetic feeds a decimal --------------------------------------------

// ruleNoMachineArith: in types/math, the result of a Go-level integer +, -, *, << on two non-constant
// operands never reaches a decimal, big.Int or sdk Int (as a call argument or stored coefficient /
// exponent): machine integers wrap around silently, the decimal library does not.
func ruleNoMachineArith(c *Ctx, p *Program, fns []*ssa.Function) {
	n := 0
	for _, fn := range fns {
		if len(fn.Blocks) == 0 || isCanaryFn(fn) {
			continue
		}
		for _, b := range fn.Blocks {
			for _, in := range b.Instrs {
				bo, ok := in.(*ssa.BinOp)
				if !ok {
					continue
				}
				switch bo.Op {
				case token.ADD, token.SUB, token.MUL, token.SHL:
				default:
					continue
				}
				bt, isBasic := bo.Type().Underlying().(*types.Basic)
				if !isBasic || bt.Info()&types.IsInteger == 0 {
					continue
				}
				if _, isC := bo.X.(*ssa.Const); isC {
					continue
				}
				if _, isC := bo.Y.(*ssa.Const); isC {
					continue
				}
				n++
				key := fmt.Sprintf("%s#intarith@%d", fnKeyShort(fn), n)
				if sink := reachesNumericSink(bo, map[ssa.Value]bool{}, 0); sink == "a branch condition" {
					// hand-written arithmetic on digit counts / exponents that steers which result is returned:
					// the shape summaries of this package assume results are computed by the library; a
					// shortcut decided by such arithmetic is outside what they vouch for (fail-closed)
					c.Undecide("C19.M8", key, p.Pos(bo.Pos()), "machine-integer "+bo.Op.String()+" on two variable operands decides a branch of "+mathFnName(fn)+": a hand-written numeric shortcut (digit counts, exponents) whose correctness no shape rule can vouch for")
				} else if sink != "" {
					c.Violate("C19.M8", key, p.Pos(bo.Pos()), "machine-integer "+bo.Op.String()+" on two variable operands flows into "+sink+": it wraps around silently where the decimal library would carry or report", nil)
				} else {
					c.Hold("C19.M8", key, p.Pos(bo.Pos()), "machine-integer "+bo.Op.String()+" does not reach a decimal, big.Int or sdk Int", nil)
				}
			}
		}
	}
	if n == 0 {
		c.Hold("C19.M8", "types/math#no-machine-arith", "-", "no Go-level integer +, -, *, << on two variable operands anywhere in types/math", nil)
	}
}

func reachesNumericSink(v ssa.Value, seen map[ssa.Value]bool, depth int) string {
	if seen[v] || depth > 6 || v.Referrers() == nil {
		return ""
	}
	seen[v] = true
	for _, r := range *v.Referrers() {
		switch y := r.(type) {
		case *ssa.Convert:
			if s := reachesNumericSink(y, seen, depth+1); s != "" {
				return s
			}
		case *ssa.Phi:
			if s := reachesNumericSink(y, seen, depth+1); s != "" {
				return s
			}
		case *ssa.BinOp:
			switch y.Op {
			case token.LSS, token.LEQ, token.GTR, token.GEQ, token.EQL, token.NEQ:
				if y.Referrers() != nil {
					for _, r2 := range *y.Referrers() {
						if _, isIf := r2.(*ssa.If); isIf {
							return "a branch condition"
						}
					}
				}
			}
			if s := reachesNumericSink(y, seen, depth+1); s != "" {
				return s
			}
		case *ssa.UnOp:
			if s := reachesNumericSink(y, seen, depth+1); s != "" {
				return s
			}
		case *ssa.Store:
			if fa, isFA := y.Addr.(*ssa.FieldAddr); isFA && (typeIs(fa.X.Type(), "", "Decimal") || typeIs(fa.X.Type(), mathPkgSuffix, "Dec")) {
				return "a stored decimal field"
			}
		case ssa.CallInstruction:
			pkg, name := calleePkgName(y.Common())
			if strings.Contains(pkg, "cockroachdb/apd") || pkg == "math/big" || strings.HasSuffix(pkg, "cosmossdk.io/math") || strings.HasSuffix(pkg, mathPkgSuffix) {
				return pkg[strings.LastIndex(pkg, "/")+1:] + "." + name
			}
		}
	}
	return ""
}

// ruleM2Contexts: each arithmetic entry point of the contract table (only those named in `only`, when
// given) performs its operation on the required context and no other context operation.
func ruleM2Contexts(c *Ctx, p *Program, sp *ssa.Package, byName map[string]*ssa.Function, only map[string]bool) {
	for _, name := range sortedKeys(ctxTable) {
		if only != nil && !only[name] {
			continue
		}
		fn := byName[name]
		if fn == nil {
			c.Undecide("C19.M2", name, "-", "arithmetic entry point "+name+" no longer exists: the rule table must be re-confirmed")
			continue
		}
		got := ctxOps(fn, sp, map[*ssa.Function]bool{})
		for op, want := range ctxTable[name] {
			var have []string
			for k := range got {
				if strings.HasSuffix(k, "."+op) {
					have = append(have, strings.TrimSuffix(k, "."+op))
				}
			}
			sort.Strings(have)
			ok := len(have) == 1 && have[0] == want
			det := fmt.Sprintf("%s performs %s on %v (required: %s)", name, op, have, want)
			c.Check(ok, "C19.M2", name+"#"+op, p.Pos(fn.Pos()), det)
		}
		// no other context op may be reachable
		for k := range got {
			op := k[strings.LastIndex(k, ".")+1:]
			if _, ok := ctxTable[name][op]; !ok {
				c.Violate("C19.M2", name+"#extra:"+op, p.Pos(fn.Pos()), name+" additionally performs "+k+" which its contract does not include", nil)
			}
		}
	}
}

// ruleArith: the ledger properties (C01, C02, C04–C07) are stated over exact decimal values; the
// identities the explorer proves treat Add/Sub/SafeAddBalance/SafeSubBalance/… as exact. This rule
// vouches for that on the types/math functions the property's entry points actually reach: required
// context per operation (M2), context literals (precision, traps), fresh destinations (M1) and no
// machine-integer arithmetic feeding a decimal (M8). A defect there breaks the property for values
// the tests never use (34+ digits, coefficients near 2^63).
func ruleArith(c *Ctx, e *Env, rule string, keep func(ep *EntryPoint) bool) {
	m := e.Model("x/ecocredit")
	p := m.P
	sp := p.SSAPkg(mathPkgSuffix)
	if sp == nil {
		c.Undecide(rule, "types/math", "-", "package types/v2/math not found in the loaded program")
		return
	}
	g := NewGraph(p)
	var roots []*ssa.Function
	for _, ep := range m.Entries {
		if ep.Fn != nil && ep.Implemented && ep.Kind != "canary" && keep(ep) {
			roots = append(roots, ep.Fn)
		}
	}
	used := map[string]bool{}
	byName := map[string]*ssa.Function{}
	var usedFns []*ssa.Function
	for _, fn := range sortedFns(g.Closure(roots)) {
		if fn.Pkg == sp && len(fn.Blocks) > 0 && fn.Parent() == nil {
			used[mathFnName(fn)] = true
			byName[mathFnName(fn)] = fn
			usedFns = append(usedFns, fn)
		}
	}
	tmp := NewCtx("C19", c.Tier)
	for _, fn := range usedFns {
		ruleM1(tmp, p, fn)
	}
	ruleM2Contexts(tmp, p, sp, byName, used)
	ruleM2Literals(tmp, p)
	ruleNoMachineArith(tmp, p, usedFns)
	// constructors parse exactly the text they are given (what a handler validated is what it stores)
	for _, pr := range [][2]string{{"NewNonNegativeDecFromString", "NewDecFromString"}, {"NewPositiveDecFromString", "NewDecFromString"}, {"NewNonNegativeFixedDecFromString", "NewNonNegativeDecFromString"}, {"NewPositiveFixedDecFromString", "NewPositiveDecFromString"}} {
		if f := byName[pr[0]]; f != nil {
			tmp.Check(callsFn(f, pr[1]), "C19.M4", pr[0]+"#parses-via:"+pr[1], p.Pos(f.Pos()), pr[0]+" obtains its value from "+pr[1]+", handing it its own string argument unchanged")
		}
	}
	if f := byName["NewDecFromString"]; f != nil {
		ruleMantissaSign(tmp, p, f)
	}
	n := 0
	for _, o := range tmp.Obligs {
		switch o.Status {
		case Violated:
			n++
			c.Violate(rule, o.Construct, o.Pos, o.Detail+" (a types/math function these handlers rely on)", nil)
		case Undecided:
			n++
			c.Undecide(rule, o.Construct, o.Pos, o.Detail+" (a types/math function these handlers rely on)")
		}
	}
	if n == 0 {
		c.Check(len(usedFns) > 0 && len(roots) > 0, rule, "types/math#relied-upon", p.Pos(sp.Members["Dec"].Pos()), fmt.Sprintf("%d types/math functions reached from %d entry points: each operation on its required exact context, context literals trap inexact results, destinations fresh, no machine-integer arithmetic feeds a decimal (%d shape obligations)", len(usedFns), len(roots), len(tmp.Obligs)))
	}
}

// everySuccessPath: holds(...) is true on every acyclic path of fn to a return whose error result is not
// provably non-nil (ev is that error value, φ-resolved; nil when fn returns no error).
func everySuccessPath(fn *ssa.Function, holds func(pf *pgPath, n *pgNamer, bp []*ssa.BasicBlock, ev ssa.Value) bool) (bool, string) {
	paths, complete := enumPaths(fn, 4000)
	if !complete {
		return false, "too many paths"
	}
	idx := errResultIndex(fn.Signature)
	nSucc := 0
	for _, bp := range paths {
		last := bp[len(bp)-1]
		ret, isRet := last.Instrs[len(last.Instrs)-1].(*ssa.Return)
		if !isRet {
			continue
		}
		pf := pathFacts(fn, bp, nil)
		if pf == nil {
			continue
		}
		n := &pgNamer{fn: fn, ids: map[ssa.Value]string{}, phis: pf.phis}
		var ev ssa.Value
		if idx >= 0 && idx < len(ret.Results) {
			ev = ret.Results[idx]
			if ph, isPhi := ev.(*ssa.Phi); isPhi {
				if e2, has := pf.phis[ph]; has {
					ev = e2
				}
			}
			if provablyNonNilErr(ev) {
				continue
			}
			// `return …, err` under a decided `err != nil`
			if v, seen := pf.lits["("+orderPair(n.term(ev, 0), "nil")+")"]; seen && !v {
				continue
			}
		}
		nSucc++
		if !holds(pf, n, bp, ev) {
			return false, fmt.Sprintf("the return at line %d can succeed without it", posLine(fn, ret))
		}
	}
	return nSucc > 0, ""
}

// placesGuarded: every success return of fn lies behind "NumDecimalPlaces() <= max" for the parameter
// max — tested in fn itself, or by a helper that receives max and returns a nil error only then.
func placesGuarded(fn *ssa.Function, max *ssa.Parameter, depth int) bool {
	if depth > 3 || len(fn.Blocks) == 0 {
		return false
	}
	type test struct {
		bo       *ssa.BinOp
		wantTrue bool // the comparison must come out true (<=) / false (>)
	}
	var tests []test
	for _, b := range fn.Blocks {
		for _, in := range b.Instrs {
			bo, isBin := in.(*ssa.BinOp)
			if !isBin {
				continue
			}
			op := bo.Op
			var other ssa.Value
			switch {
			case isCallTo(bo.X, "Dec.NumDecimalPlaces"):
				other = bo.Y
			case isCallTo(bo.Y, "Dec.NumDecimalPlaces"):
				other, op = bo.X, flipCmp(op)
			default:
				continue
			}
			if other != ssa.Value(max) {
				continue
			}
			switch op {
			case token.GTR:
				tests = append(tests, test{bo, false})
			case token.LEQ:
				tests = append(tests, test{bo, true})
			}
		}
	}
	type helper struct {
		call   *ssa.Call
		errVal ssa.Value
	}
	var helpers []helper
	for _, ci := range callsIn(fn) {
		call, isCall := ci.(*ssa.Call)
		if !isCall {
			continue
		}
		sc := call.Call.StaticCallee()
		if sc == nil || len(sc.Blocks) == 0 || !isRepoPkgPath(fnPkgPath(sc)) || errResultIndex(sc.Signature) < 0 {
			continue
		}
		var sub *ssa.Parameter
		for i, a := range call.Call.Args {
			if a == ssa.Value(max) && i < len(sc.Params) {
				sub = sc.Params[i]
			}
		}
		if sub == nil || !placesGuarded(sc, sub, depth+1) {
			continue
		}
		var errVal ssa.Value = call
		if call.Call.Signature().Results().Len() > 1 {
			errVal = nil
			ei := errResultIndex(call.Call.Signature())
			for _, r := range *call.Referrers() {
				if ex, isEx := r.(*ssa.Extract); isEx && ex.Index == ei {
					errVal = ex
				}
			}
		}
		if errVal != nil {
			helpers = append(helpers, helper{call, errVal})
		}
	}
	if len(tests)+len(helpers) == 0 {
		return false
	}
	ok, _ := everySuccessPath(fn, func(pf *pgPath, n *pgNamer, bp []*ssa.BasicBlock, ev ssa.Value) bool {
		for _, t := range tests {
			if v, seen := pf.lits[n.term(t.bo, 0)]; seen && v == t.wantTrue {
				return true
			}
		}
		for _, h := range helpers {
			if ev == h.errVal && onPath(bp, h.call.Block()) {
				return true
			}
			if v, seen := pf.lits["("+orderPair(n.term(h.errVal, 0), "nil")+")"]; seen && v {
				return true
			}
		}
		return false
	})
	return ok
}

// finiteGuarded: on every path of fn to a success return the atom "Form == apd.Finite" has been decided
// true — by a test in fn itself (an == taken, a != not taken; switch case, if chain, early return alike)
// or because a same-package helper for which this holds returned a nil error on the path.
func finiteGuarded(fn *ssa.Function, depth int) bool {
	if depth > 3 || len(fn.Blocks) == 0 {
		return false
	}
	var tests []*ssa.BinOp
	for _, b := range fn.Blocks {
		for _, in := range b.Instrs {
			bo, ok := in.(*ssa.BinOp)
			if !ok || (bo.Op != token.EQL && bo.Op != token.NEQ) {
				continue
			}
			var cst ssa.Value
			if isFormLoad(bo.X) {
				cst = bo.Y
			} else if isFormLoad(bo.Y) {
				cst = bo.X
			}
			if cst == nil {
				continue
			}
			if v, isC := constInt(cst); isC && v == 0 { // apd.Finite == 0
				tests = append(tests, bo)
			}
		}
	}
	type helper struct {
		call   *ssa.Call
		errVal ssa.Value
	}
	var helpers []helper
	for _, ci := range callsIn(fn) {
		call, isCall := ci.(*ssa.Call)
		if !isCall {
			continue
		}
		sc := call.Call.StaticCallee()
		if sc == nil || sc == fn || sc.Pkg != fn.Pkg || len(sc.Blocks) == 0 || errResultIndex(sc.Signature) < 0 {
			continue
		}
		if !finiteGuarded(sc, depth+1) {
			continue
		}
		if ev := errValueOf(call); ev != nil {
			helpers = append(helpers, helper{call, ev})
		}
	}
	if len(tests)+len(helpers) == 0 {
		return false
	}
	ok, _ := everySuccessPath(fn, func(pf *pgPath, n *pgNamer, bp []*ssa.BasicBlock, ev ssa.Value) bool {
		for _, bo := range tests {
			t, _ := n.literalOf(bo)
			if v, seen := pf.lits[t]; seen && v {
				return true
			}
		}
		for _, h := range helpers {
			if ev == h.errVal && onPath(bp, h.call.Block()) {
				return true
			}
			if v, seen := pf.lits["("+orderPair(n.term(h.errVal, 0), "nil")+")"]; seen && v {
				return true
			}
		}
		return false
	})
	return ok
}

// inputRegexes: sources of the package-level regexes against which fn (or a same-package helper it hands its
// string parameter to) matches that parameter — directly or after a default for the empty string.
func inputRegexes(p *Program, fn *ssa.Function, depth int) []string {
	if depth > 2 || len(fn.Blocks) == 0 {
		return nil
	}
	var prm *ssa.Parameter
	for _, q := range fn.Params {
		if b, isB := q.Type().Underlying().(*types.Basic); isB && b.Kind() == types.String {
			prm = q
			break
		}
	}
	if prm == nil {
		return nil
	}
	var from func(v ssa.Value, d int) bool
	from = func(v ssa.Value, d int) bool {
		if v == ssa.Value(prm) {
			return true
		}
		if ph, ok := v.(*ssa.Phi); ok && d < 3 {
			for _, e := range ph.Edges {
				if from(e, d+1) {
					return true
				}
			}
		}
		if cl, ok := v.(*ssa.Call); ok && d < 3 {
			// strings.ToLower(s), strings.TrimSpace(s) …: still the input
			if pkg, _ := calleePkgName(&cl.Call); pkg == "strings" && len(cl.Call.Args) > 0 {
				return from(cl.Call.Args[0], d+1)
			}
		}
		return false
	}
	var out []string
	for _, ci := range callsIn(fn) {
		call, isCall := ci.(*ssa.Call)
		if !isCall {
			continue
		}
		pkg, name := calleePkgName(&call.Call)
		if pkg == "regexp" && len(call.Call.Args) >= 2 && (strings.HasPrefix(name, "Regexp.Match") || strings.HasPrefix(name, "Regexp.Find")) && from(call.Call.Args[1], 0) {
			r, ok := resolveGlobRef(call.Call.Args[0], map[*ssa.Parameter]globRef{}, 0)
			if ok {
				r, ok = globalFieldInit(r, 0)
			}
			if ok && r.g.Pkg != nil && len(r.fields) == 0 {
				if src, _, okS := regexSourceOf(p, shortPkg(r.g.Pkg.Pkg.Path()), r.g.Name()); okS {
					out = append(out, src)
					continue
				}
			}
			out = append(out, "<unresolved regex at "+p.Pos(call.Pos())+">")
			continue
		}
		if sc := call.Call.StaticCallee(); sc != nil && sc != fn && sc.Pkg == fn.Pkg && len(sc.Blocks) > 0 {
			for _, a := range call.Call.Args {
				if from(a, 0) {
					out = append(out, inputRegexes(p, sc, depth+1)...)
					break
				}
			}
		}
	}
	return out
}

// isApdCtxMethodExpr: f is a method of apd.Context used as a function value ((*apd.Context).Add).
func isApdCtxMethodExpr(f *ssa.Function) bool {
	if f == nil || f.Signature == nil {
		return false
	}
	if !strings.Contains(fnPkgPath(f), "cockroachdb/apd") && !(f.Object() != nil && f.Object().Pkg() != nil && strings.Contains(f.Object().Pkg().Path(), "cockroachdb/apd")) {
		return false
	}
	if r := f.Signature.Recv(); r != nil {
		return strings.Contains(r.Type().String(), "apd") && strings.HasSuffix(strings.TrimPrefix(r.Type().String(), "*"), "Context")
	}
	// thunk: the receiver became the first parameter
	if f.Signature.Params().Len() > 0 {
		t := f.Signature.Params().At(0).Type().String()
		return strings.Contains(t, "apd") && strings.HasSuffix(t, "Context")
	}
	return false
}

func apdMethodExprName(f *ssa.Function) string {
	n := f.Name()
	if i := strings.IndexByte(n, '$'); i >= 0 {
		n = n[:i]
	}
	if i := strings.LastIndexByte(n, '.'); i >= 0 {
		n = n[i+1:]
	}
	return n
}

// ctxParamReadOnly: a *apd.Context parameter of a hand-written helper is only ever the receiver (first argument) of
// a library operation, the first argument of a call of a function-typed parameter (the operation handed in), or
// handed to another helper for whose parameter the same holds. No store through it, no store of it, no return.
func ctxParamReadOnly(prm *ssa.Parameter, depth int) bool {
	if depth > 3 || prm.Referrers() == nil {
		return false
	}
	for _, r := range *prm.Referrers() {
		switch y := r.(type) {
		case *ssa.DebugRef:
		case ssa.CallInstruction:
			cc := y.Common()
			first := len(cc.Args) > 0 && cc.Args[0] == ssa.Value(prm)
			for i, a := range cc.Args {
				if i > 0 && a == ssa.Value(prm) {
					first = false
					// allowed only when handed on to a read-only helper parameter
					if sc := cc.StaticCallee(); sc != nil && sc.Pkg == prm.Parent().Pkg && i < len(sc.Params) && ctxParamReadOnly(sc.Params[i], depth+1) {
						continue
					}
					return false
				}
			}
			if cc.Value == ssa.Value(prm) {
				return false
			}
			if first {
				sc := cc.StaticCallee()
				switch {
				case sc != nil && strings.Contains(fnPkgPath(sc), "cockroachdb/apd"):
				case sc != nil && sc.Pkg == prm.Parent().Pkg && len(sc.Params) > 0 && ctxParamReadOnly(sc.Params[0], depth+1):
				case sc == nil && !cc.IsInvoke():
					// dynamic call of a function value: it must be a function-typed PARAMETER (the operation handed in)
					if _, isPrm := cc.Value.(*ssa.Parameter); !isPrm {
						return false
					}
				default:
					return false
				}
			}
		default:
			return false
		}
	}
	return true
}

// dynInstancesOfParam: the number of call sites in the package that pass an operation of the library (bound
// method value or method expression) into parameter q of function g.
func dynInstancesOfParam(p *Program, g *ssa.Function, q *ssa.Parameter) int {
	idx := -1
	for i, r := range g.Params {
		if r == q {
			idx = i
		}
	}
	if idx < 0 || g.Pkg == nil {
		return 0
	}
	n := 0
	for _, h := range pkgFuncs(p.SSA, g.Pkg) {
		for _, c2 := range callsIn(h) {
			if c2.Common().StaticCallee() != g || idx >= len(c2.Common().Args) {
				continue
			}
			a := c2.Common().Args[idx]
			if ct, isCT := a.(*ssa.ChangeType); isCT {
				a = ct.X
			}
			if _, _, ok := boundCtxMethod(a); ok {
				n++
			} else if f, isF := a.(*ssa.Function); isF && isApdCtxMethodExpr(f) {
				n++
			}
		}
	}
	return n
}

// soleDelegate: fn's only return hands back, unchanged, the results of one call of a hand-written function of
// the same package.
func soleDelegate(fn *ssa.Function) *ssa.Function {
	var ret *ssa.Return
	for _, b := range fn.Blocks {
		if r, ok := b.Instrs[len(b.Instrs)-1].(*ssa.Return); ok {
			if ret != nil {
				return nil
			}
			ret = r
		}
	}
	if ret == nil || len(ret.Results) == 0 {
		return nil
	}
	var call *ssa.Call
	for i, r := range ret.Results {
		var c2 *ssa.Call
		switch x := r.(type) {
		case *ssa.Call:
			c2 = x
		case *ssa.Extract:
			if x.Index != i {
				return nil
			}
			c2, _ = x.Tuple.(*ssa.Call)
		}
		if c2 == nil || (call != nil && c2 != call) {
			return nil
		}
		call = c2
	}
	sc := call.Call.StaticCallee()
	if sc == nil || sc.Pkg != fn.Pkg || len(sc.Blocks) == 0 {
		return nil
	}
	return sc
}

package main

// C01 (conservation), C02 (issuance accounting), C04 (monotone retirement) on E1 outcomes.

import (
	"fmt"
	"go/token"
	"go/types"
	"os"
	"regexp"
	"sort"
	"strings"

	"golang.org/x/tools/go/ssa"
)

func init() {
	register("C01", checkC01)
	register("C02", checkC02)
	register("C04", checkC04)
}

const e1Assume = "A1 ORM Insert/Update/Save/Delete/Get semantics; A2 apd arithmetic (exactness of Add/Sub: C19); A3 failed messages are rolled back; A4 genesis satisfies the invariants (induction base); A6 checker + go/ssa"

// siteKey: line-independent key of an ORM write site.
func siteKey(ev *Event) string {
	if ev.Fn == nil || ev.Pos == nil {
		return "?"
	}
	n := 0
	for _, ci := range callsIn(ev.Fn) {
		cc := ci.Common()
		if cc.IsInvoke() && cc.Method.Name() == ev.Method {
			if nt := namedOf(cc.Value.Type()); nt != nil && ev.Table != nil && nt.Obj().Name() == ev.Table.Name+"Table" {
				n++
			}
		}
		if ci == ev.Pos.(ssa.CallInstruction) {
			break
		}
	}
	t := ""
	if ev.Table != nil {
		t = ev.Table.Name
	}
	return fmt.Sprintf("%s#%s.%s@%d", funcKey(ev.Fn), t, ev.Method, n)
}

func e1Handlers(c *Ctx, e *Env) (*Model, *E1) {
	m := e.Model("x/ecocredit")
	r := RunE1(m)
	paths := 0
	for _, h := range r.Handlers {
		paths += len(h.Outs)
		if h.Cut {
			c.Undecide(c.Prop+".E1", h.Key+"#paths", m.P.Pos(h.Fn.Pos()), "path cap exceeded while exploring this entry point: no verdict possible")
		}
		if h.nonneg == nil {
			h.inferLoopSigns()
		}
	}
	c.Count("entry_points", len(r.Handlers))
	c.Count("committed_paths", paths)
	c.Count("explorer_steps", r.X.Stats.Steps)
	return m, r
}

// noteUndecided reports path notes (constructs the explorer could not model) that touch ledger state.
func noteUndecided(c *Ctx, m *Model, r *E1, rule string) {
	for _, h := range r.Handlers {
		seen := map[string]bool{}
		for _, o := range h.Outs {
			for _, n := range o.St.notes {
				if seen[n] {
					continue
				}
				seen[n] = true
				c.Undecide(rule, h.Key+"#"+n, m.P.Pos(h.Fn.Pos()), "construct not modelled by the effect analysis: "+n)
			}
		}
		effectErrorsOf(c, m, h, rule, seen)
	}
}

// effectErrorsOf: every state effect on a committed path has had its error looked at AND found nil: an ORM
// write or bank call whose error value is overwritten, dropped, or classified and then tolerated (a unique
// or primary-key constraint is how the ORM says "already there") did not happen, while the handler goes
// on — and reports success — as if it had.
func effectErrorsOf(c *Ctx, m *Model, h *HandlerResult, rule string, seen map[string]bool) int {
	n := 0
	for _, o := range h.Outs {
		for i := range o.St.events {
			ev := &o.St.events[i]
			if !isEffect(ev) || ev.ErrID == 0 || !inScope(o, ev) || !callYieldsError(ev.Pos) {
				continue
			}
			n++
			if o.St.errs[ev.ErrID] == 1 {
				continue
			}
			k := h.Key + "#unchecked-error:" + siteKey(ev)
			if seen[k] {
				continue
			}
			seen[k] = true
			what := "is not tested"
			if o.St.errs[ev.ErrID] == 2 {
				what = "is known to be non-nil (the failure is tolerated)"
			}
			c.Violate(rule, k, m.P.Pos(ev.Pos.Pos()), "the error of "+describeEvent(o.St, ev)+" "+what+" on a path on which the handler succeeds {"+outcomeLabel(h, o)+"}: the write may have been refused (constraint violation) and the message still succeeds", nil)
		}
	}
	return n
}

// callYieldsError: the call instruction has an error among its results.
func callYieldsError(in ssa.Instruction) bool {
	ci, ok := in.(ssa.CallInstruction)
	if !ok {
		return false
	}
	res := ci.Common().Signature().Results()
	for i := 0; i < res.Len(); i++ {
		if isErrorType(res.At(i).Type()) {
			return true
		}
	}
	return false
}

func hasLedgerEffect(h *HandlerResult) bool {
	for _, o := range h.Outs {
		if len(h.Deltas(o)) > 0 {
			return true
		}
	}
	return false
}

func checkC01(c *Ctx, e *Env) {
	c.Explanation = "E1 path-sensitive affine effect analysis over the SSA of all 44 Msg handlers and the BeginBlock prune: on every committed path (successful return or one symbolic loop iteration, loop accumulators closed by induction) " +
		"EQ1 ΔsupplyTradable = ΣΔ(tradable+escrowed) + ΣΔbasketBalance and EQ2 ΔsupplyRetired = ΣΔretired hold per batch as identities between linear forms over opaque atoms (stored columns, parsed request strings), modulo the path's equations; " +
		"FRESH every ledger row written was read after the last write of that key (no lost update, no blind write); SIGN every value stored into a ledger column is provably non-negative (constructor class, SafeSub success, ordering fact, or supply ≥ balance induction); " +
		"PREC every request amount that reaches a ledger column passed a …Fixed… constructor whose precision is a CreditType.Precision, and GetNonNegativeFixedDecs has the body its summary assumes; INV the registered batch-supply invariant sums tradable+escrowed (+basket) and retired into the accumulators it compares with the supply columns, using exact operations only."
	c.NotDecided = []string{"that genesis validation admits only conserving states (it compares sums, not columns)", "numerical exactness of Add/Sub (C19, A2)", "ORM/IAVL correctness (A1)"}
	c.Assumptions = strings.Split(e1Assume, "; ")
	m, r := e1Handlers(c, e)
	p := m.P
	debugE1 = os.Getenv("E1DEBUG") != ""
	noteUndecided(c, m, r, "C01.E1")
	ruleSupplyCovered(c, m, r, "C01.COVER")
	ruleArith(c, e, "C01.ARITH", func(ep *EntryPoint) bool { return ep.Kind == "msg" || ep.Kind == "beginblock" })
	importObligations(c, e, checkC05, "C05", "C01.UNIT", "basket conversion#credit-type-precision", "credits leave a basket in amounts of tokens / 10^precision of the basket's credit type: with any other exponent a single token is worth less than the smallest credit amount and Take stores balances with more decimal places than the precision", func(o *Oblig) bool { return o.Rule == "C05.EQ" })
	nPaths := 0
	for _, h := range r.Handlers {
		if !hasLedgerEffect(h) {
			c.Trivial("C01.EQ", h.Key+"#no-ledger-effect", p.Pos(h.Fn.Pos()), fmt.Sprintf("no committed path of this entry point writes a ledger table (%d paths)", len(h.Outs)))
			continue
		}
		reports := h.checkIdentities(map[string]bool{rEQ1: true, rEQ2: true}, nil)
		nPaths += emitIdentityObligations(c, p, h, "C01.EQ", reports)
		// FRESH / SIGN / PREC per write site
		type siteAgg struct {
			ev   *Event
			bad  string
			n    int
			sign string
			prec string
		}
		sites := map[string]*siteAgg{}
		for _, o := range h.Outs {
			for _, d := range h.Deltas(o) {
				k := siteKey(d.Ev)
				a := sites[k]
				if a == nil {
					a = &siteAgg{ev: d.Ev}
					sites[k] = a
				}
				a.n++
				if d.Bad != "" && d.Col != "*" && a.bad == "" {
					a.bad = d.Bad + " on path {" + outcomeLabel(h, o) + "}"
				}
				if d.Col == "*" || d.Op == "delete" {
					continue
				}
				if ok, why := h.storedNonNeg(o, d); !ok && a.sign == "" {
					a.sign = d.Table + "." + d.Col + ": " + why + " on path {" + outcomeLabel(h, o) + "}"
				}
				if ok, why := h.storedPrecise(o, d); !ok && a.prec == "" {
					a.prec = d.Table + "." + d.Col + ": " + why + " on path {" + outcomeLabel(h, o) + "}"
				}
			}
		}
		var ks []string
		for k := range sites {
			ks = append(ks, k)
		}
		sort.Strings(ks)
		for _, k := range ks {
			a := sites[k]
			pos := p.Pos(a.ev.Pos.Pos())
			if a.ev.OpKind == "deleterange" {
				continue
			}
			if a.bad != "" {
				c.Violate("C01.FRESH", h.Key+"→"+k, pos, a.bad, nil)
			} else {
				c.Hold("C01.FRESH", h.Key+"→"+k, pos, fmt.Sprintf("previous row content known at the write on all %d path visits", a.n), nil)
			}
			if a.ev.OpKind == "delete" {
				continue
			}
			if a.sign != "" {
				c.Violate("C01.SIGN", h.Key+"→"+k, pos, "stored amount not provably non-negative: "+a.sign, nil)
			} else {
				c.Hold("C01.SIGN", h.Key+"→"+k, pos, "every ledger column stored here is provably non-negative on every path", nil)
			}
			if a.prec != "" {
				c.Violate("C01.PREC", h.Key+"→"+k, pos, "stored amount not precision-gated: "+a.prec, nil)
			} else {
				c.Hold("C01.PREC", h.Key+"→"+k, pos, "every request amount reaching this row passed a Fixed constructor bound to a credit type precision", nil)
			}
		}
	}
	c.Count("identity_path_checks", nPaths)
	ruleFixedDecsShape(c, m)
	ruleBatchSupplyInvariant(c, m)
	ruleInvariantsStateOnly(c, m, NewGraph(m.P), "C01.INV")
	ruleGenesisSupplyCompare(c, m)
	c.Min("entry points explored", 39, len(r.Handlers))
	c.Min("committed paths", 300, c.Analysed["committed_paths"])
	c.Min("identity path checks (EQ1/EQ2)", 150, nPaths)
	c.ExpectCanary("C01.EQ", "C01.FRESH", "C01.SIGN")
}

var reqAtom = regexp.MustCompile(`parse\((req\.[^()]*)\)`)

// storedNonNeg: the value written into a ledger column is provably ≥ 0.
func (h *HandlerResult) storedNonNeg(o *Outcome, d ColDelta) (bool, string) {
	st := o.St
	switch v := d.NewVal.(type) {
	case nil:
		return true, "absent"
	case *KConst:
		if v.S == `"0"` || v.S == `""` {
			return true, "zero literal"
		}
		return false, "constant " + v.S
	case *DecStr:
		if v.D.NonNeg {
			return true, "flagged non-negative"
		}
		if ok, why := h.provablyNonNeg(st, v.D.L); ok {
			return true, why
		}
		// supply ≥ balance induction: supply.Sub(x) after a successful SafeSub(balance of the same batch, x)
		if h.supplySubJustified(o, d, v.D.L) {
			return true, "tradable supply minus an amount that was successfully subtracted from a balance of the same batch (supply ≥ balance by EQ1 and SIGN, inductively)"
		}
		return false, "value " + v.D.L.String()
	case *Sym:
		// raw string: a stored column copied (inductively non-negative) or a request string that was validated
		if strings.HasPrefix(v.N, "req.") {
			if at := st.atomAttr["parse("+st.canon(v)+")"]; at != nil && at.NonNeg {
				return true, "request string validated non-negative"
			}
			return false, "raw request string " + v.N + " stored without a non-negative parse"
		}
		return true, "copy of a stored column"
	}
	return false, "unrecognised value " + vstr(d.NewVal)
}

func (h *HandlerResult) supplySubJustified(o *Outcome, d ColDelta, l Lin) bool {
	if d.Table != "BatchSupply" || d.Col != "TradableAmount" {
		return false
	}
	st := o.St
	// l = parse(BatchSupply#n.TradableAmount) − amt
	old := d.Old
	amt := old.Sub(l)
	if len(old.T) != 1 {
		return false
	}
	ent := h.X.batchEntities(st)
	for i := range st.events {
		ev := &st.events[i]
		if ev.Kind != "call" || ev.Method != "SafeSub" || st.errs[0] == 99 {
			continue
		}
		a, b := ev.Args[0].(*DecV), ev.Args[1].(*DecV)
		if !reduce(b.L.Sub(amt), st.eqs).IsZero() {
			continue
		}
		// a must be a balance column of the same batch
		for atom := range a.L.T {
			if !strings.HasPrefix(atom, "parse(BatchBalance#") {
				continue
			}
			var id int
			fmt.Sscanf(atom, "parse(BatchBalance#%d.", &id)
			if row := st.mem[id]; row != nil {
				if bk, ok := row.F[".BatchKey"]; ok && h.X.entityOf(st, ent, bk) == d.Batch {
					return true
				}
			}
		}
	}
	return false
}

// storedPrecise: request atoms in the stored value are Fixed by a credit-type precision.
func (h *HandlerResult) storedPrecise(o *Outcome, d ColDelta) (bool, string) {
	st := o.St
	var l Lin
	switch v := d.NewVal.(type) {
	case *DecStr:
		l = v.D.L
	case *Sym:
		if !strings.HasPrefix(v.N, "req.") {
			return true, ""
		}
		l = linAtom("parse(" + st.canon(v) + ")")
	default:
		return true, ""
	}
	for a := range l.T {
		_, base := stripTags(a)
		if !strings.HasPrefix(base, "parse(req.") && !strings.HasPrefix(base, "int0(req.") {
			continue
		}
		if strings.HasPrefix(base, "int0(") {
			continue // integers have no decimal places; scaled by 10^-p in Take with p the credit type precision
		}
		at := st.atomAttr[base]
		if at == nil || at.Fixed == "" {
			return false, "request amount " + base + " reaches the ledger without a …Fixed… constructor"
		}
		if !strings.Contains(at.Fixed, "CreditType#") || !strings.HasSuffix(at.Fixed, ".Precision") {
			return false, "request amount " + base + " is gated by " + at.Fixed + ", which is not a CreditType.Precision"
		}
		if ok, why := h.precisionOfBatch(st, at.Fixed, d.Batch); !ok {
			return false, "request amount " + base + " is gated by " + at.Fixed + ", which is not the precision of the credit type of this row's batch (" + d.Batch + "): " + why + " [lookups: " + strings.Join(originChain(st, at.Fixed), " <- ") + "]"
		}
	}
	return true, ""
}

// ruleFixedDecsShape: GetNonNegativeFixedDecs is summarised as an intrinsic; verify its body.
func ruleFixedDecsShape(c *Ctx, m *Model) {
	p := m.P
	fn := findFn(m, "x/ecocredit/v3/server/utils", "GetNonNegativeFixedDecs")
	if fn == nil {
		// the helper is gone (inlined or renamed): the summary can no longer be applied by the explorer,
		// which then analyses whatever code replaced it — nothing to confirm here
		c.Trivial("C01.PREC", "GetNonNegativeFixedDecs#shape", "-", "no function of that name: the intrinsic summary is not in use")
		return
	}
	// The explorer replaces calls of this function by the summary "result[i] = the non-negative decimal
	// parsed from argument i, with at most `precision` decimal places; error otherwise". The summary is
	// confirmed by exploring the body itself (whatever helpers, generics or loops it is written with) on
	// a symbolic precision and two symbolic strings: every successful return must yield exactly the two
	// values the summary yields, and at least one successful return must exist.
	ok, why := true, ""
	x := NewExplorer(m)
	var exp [2]string
	outs := x.ExploreWith(fn, func(st *State) []Val {
		arr := st.newObj("array", fn.Params[len(fn.Params)-1].Type())
		arr.Origin = "seq"
		s0, s1 := &Sym{N: "s0"}, &Sym{N: "s1"}
		arr.F["[0]"], arr.F["[1]"] = s0, s1
		for i, sv := range []Val{s0, s1} {
			e := x.constrain(st.clone(), x.parseDec(st, sv), true, false, "prec")
			exp[i] = fmt.Sprintf("%s nonneg=%v fixed=%s inexact=%v", e.vs(), e.NonNeg, e.Fixed, e.Inexact)
		}
		return []Val{&Sym{N: "prec", T: fn.Params[0].Type()}, &Ptr{O: arr.ID}}
	})
	nOK := 0
	if x.cut {
		ok, why = false, "exploration of the body was cut short"
	}
	for _, o := range outs {
		if o.Kind != exitReturn || !o.Commit || len(o.Rets) < 1 {
			if o.Kind == exitLoopback {
				ok, why = false, "the body iterates over something other than its argument list (a loop the explorer could not unroll)"
			}
			continue
		}
		els, known := x.sliceElems(o.St, o.Rets[0])
		if !known || len(els) != 2 {
			ok, why = false, fmt.Sprintf("a successful return yields %d known elements for 2 arguments", len(els))
			continue
		}
		nOK++
		for i, el := range els {
			d, isD := el.(*DecV)
			if !isD {
				ok, why = false, fmt.Sprintf("element %d of the result is %s, not a parsed decimal", i, o.St.canon(el))
				continue
			}
			if got := fmt.Sprintf("%s nonneg=%v fixed=%s inexact=%v", d.vs(), d.NonNeg, d.Fixed, d.Inexact); got != exp[i] {
				ok, why = false, fmt.Sprintf("element %d of the result is {%s}, the summary says {%s}", i, got, exp[i])
			}
		}
	}
	if ok && nOK == 0 {
		ok, why = false, "no successful return found"
	}
	c.Check(ok, "C01.PREC", "GetNonNegativeFixedDecs#shape", p.Pos(fn.Pos()), "explored body agrees with the summary: result[i] = non-negative decimal parsed from argument i with at most `precision` places, on every successful return "+why)
}

// ruleBatchSupplyInvariant: flow table on the registered invariant.
func ruleBatchSupplyInvariant(c *Ctx, m *Model) {
	p := m.P
	fn := findFn(m, "x/ecocredit/v3/base/keeper", "BatchSupplyInvariant")
	if fn == nil {
		c.Undecide("C01.INV", "BatchSupplyInvariant", "-", "invariant function not found")
		return
	}
	// registration route reaches it
	g := NewGraph(p)
	var roots []*ssa.Function
	for _, f := range m.subjectFns(false) {
		if f.Name() == "RegisterInvariants" && strings.HasSuffix(fnPkgPath(f), "x/ecocredit/v3/module") {
			roots = append(roots, f)
		}
	}
	cl := g.Closure(roots)
	c.Check(cl[fn], "C01.INV", "registered", p.Pos(fn.Pos()), "Module.RegisterInvariants reaches BatchSupplyInvariant through the registered route closure")
	// ---- dataflow summary of the invariant: which row columns are summed into which accumulator
	// map, and which accumulator each supply column is compared with. Decided on a backward slice
	// over the invariant and the closures / same-package helpers it calls (arguments bound at the
	// call site), so the verdict does not depend on whether the summing and comparing code is a
	// closure, a helper function or inline.
	fl := newInvFlow(m, fn)
	fl.scan(fn, nil, 0)
	colsInto := map[ssa.Value]map[string]bool{}
	for _, u := range fl.updates {
		if colsInto[u.m] == nil {
			colsInto[u.m] = map[string]bool{}
		}
		for s := range u.srcs {
			colsInto[u.m][s] = true
		}
	}
	var tMap, rMap ssa.Value
	for mp, cols := range colsInto {
		if cols["col:BatchBalance.TradableAmount"] {
			tMap = mp
		}
		if cols["col:BatchBalance.RetiredAmount"] {
			rMap = mp
		}
	}
	desc := func(mp ssa.Value) string {
		var ks []string
		for k := range colsInto[mp] {
			if strings.HasPrefix(k, "col:") || k == "basket" {
				ks = append(ks, k)
			}
		}
		sort.Strings(ks)
		return strings.Join(ks, ",")
	}
	okFlow := tMap != nil && rMap != nil && tMap != rMap &&
		colsInto[tMap]["col:BatchBalance.EscrowedAmount"] && !colsInto[tMap]["col:BatchBalance.RetiredAmount"] &&
		!colsInto[rMap]["col:BatchBalance.TradableAmount"] && !colsInto[rMap]["col:BatchBalance.EscrowedAmount"] && !colsInto[rMap]["basket"]
	c.Check(okFlow, "C01.INV", "flow", p.Pos(fn.Pos()), fmt.Sprintf("tradable and escrowed balances accumulate into one map, retired balances into another (tradable accumulator receives {%s}, retired accumulator receives {%s})", desc(tMap), desc(rMap)))
	c.Check(tMap != nil && colsInto[tMap]["basket"], "C01.INV", "basket-into-tradable", p.Pos(fn.Pos()), "basket holdings (the basketBalances argument) are added to the tradable accumulator")
	// keys: every accumulation and comparison is keyed by the batch key of the row it reads
	keyOK := len(fl.updates) > 0
	for _, u := range fl.updates {
		if !(u.keys["col:BatchBalance.BatchKey"] || u.keys["basket"]) || u.keys["col:BatchSupply.BatchKey"] {
			keyOK = false
		}
	}
	// comparisons
	pairs := map[string]bool{}
	cmpZero := len(fl.cmps) > 0
	for _, cp := range fl.cmps {
		var maps, cols []string
		for s := range cp.srcs {
			switch {
			case strings.HasPrefix(s, "map:"):
				maps = append(maps, s)
			case strings.HasPrefix(s, "col:BatchSupply."):
				cols = append(cols, s)
			}
		}
		sort.Strings(maps)
		sort.Strings(cols)
		pairs[strings.Join(maps, "+")+"~"+strings.Join(cols, "+")] = true
		if !cp.vsZero {
			cmpZero = false
		}
		if !cp.keys["col:BatchSupply.BatchKey"] {
			keyOK = false
		}
	}
	c.Check(keyOK, "C01.INV", "keys", p.Pos(fn.Pos()), "every accumulation is keyed by the batch key of the balance row (or basket entry) it reads and every comparison looks the accumulator up under the supply row's batch key")
	wantPairs := map[string]bool{}
	if tMap != nil && rMap != nil {
		wantPairs["map:"+fl.mapID(tMap)+"~col:BatchSupply.TradableAmount"] = true
		wantPairs["map:"+fl.mapID(rMap)+"~col:BatchSupply.RetiredAmount"] = true
	}
	okPairs := len(wantPairs) == 2 && len(pairs) == 2
	for k := range wantPairs {
		if !pairs[k] {
			okPairs = false
		}
	}
	var ps []string
	for k := range pairs {
		ps = append(ps, k)
	}
	sort.Strings(ps)
	c.Check(okPairs, "C01.INV", "compare-pairs", p.Pos(fn.Pos()), "supply tradable is compared with the tradable accumulator and supply retired with the retired accumulator, and nothing else is compared: "+strings.Join(ps, " | "))
	// exact operations only
	exact := true
	var ops []string
	for f := range fl.fns {
		for _, ci := range callsIn(f) {
			sc := ci.Common().StaticCallee()
			if sc == nil || !strings.HasSuffix(fnPkgPath(sc), mathPkgSuffix) {
				continue
			}
			n := mathFnName(sc)
			ops = append(ops, n)
			if roundingOps[n] || n == "Dec.Sub" || n == "Dec.MulExact" || n == "Dec.QuoExact" {
				exact = false
			}
		}
	}
	sort.Strings(ops)
	c.Check(exact, "C01.INV", "exact-ops", p.Pos(fn.Pos()), "invariant uses only parsing, SafeAddBalance and Cmp: "+strings.Join(uniqStrings(ops), ","))
	c.Check(cmpZero, "C01.INV", "compare", p.Pos(fn.Pos()), fmt.Sprintf("supply and accumulated balance are compared with Cmp against EqualTo (%d comparisons)", len(fl.cmps)))
	// the registered closure hands the invariant a basket-holdings map keyed by batch key
	nArg := ruleMapArgDims(c, m, "C01.INV", func(f *ssa.Function) bool { return f == fn }, func(sc *ssa.Function, prm *ssa.Parameter) string {
		// the flow summary above: the basket entries are added, under their own keys, to the accumulator
		// that the balance rows fill under BatchBalance.BatchKey
		if !keyOK || tMap == nil || !colsInto[tMap]["basket"] {
			return ""
		}
		for _, u := range fl.updates {
			if u.m == tMap && u.keys["basket"] && len(u.keys) == 1 {
				for _, t := range m.Tables {
					if t.Name == "BatchBalance" {
						return newDimAnalyzer(m).columnDim(t, "BatchKey")
					}
				}
			}
		}
		return ""
	})
	c.Min("callers of BatchSupplyInvariant whose map argument is resolved", 1, nArg)
	// every balance row read is accumulated: in the function that reads the rows, no path leads from the
	// read of a row to the read of the next one, or on to a comparison, around the accumulation of any
	// of its three columns (paths that return a failure on the way are not such paths). A skipped row
	// leaves its batch without an accumulator entry (reported as "supply is not found") or its amount
	// out of the sum.
	skipMsg, nRows := "", 0
	for rf := range fl.fns {
		for _, blk := range rf.Blocks {
			for _, in := range blk.Instrs {
				// a row is read from the iterator — or taken out of a slice the rows were collected into
				var ci ssa.Instruction
				var rowVals []ssa.Value
				switch x := in.(type) {
				case *ssa.Call:
					if !returnsRowOf(m, x, "BatchBalance") {
						continue
					}
					ci = x
					rowVals = append(rowVals, x)
					for _, rf := range *x.Referrers() {
						if ex, isEx := rf.(*ssa.Extract); isEx {
							rowVals = append(rowVals, ex)
						}
					}
				case *ssa.UnOp:
					ia, isIA := x.X.(*ssa.IndexAddr)
					if !isIA || x.Op != token.MUL {
						continue
					}
					if tb := m.TableOfRow(x.Type()); tb == nil || tb.Name != "BatchBalance" {
						continue
					}
					if _, isSl := ia.X.Type().Underlying().(*types.Slice); !isSl {
						continue
					}
					ci = x
				default:
					continue
				}
				nRows++
				// collecting the row for a later pass counts as dealing with it here: the later pass is a
				// row read of its own
				collect := map[ssa.Instruction]bool{}
				for _, rv := range rowVals {
					for _, rf := range *rv.Referrers() {
						if st, isSt := rf.(*ssa.Store); isSt && st.Val == rv {
							if _, isIA := st.Addr.(*ssa.IndexAddr); isIA {
								collect[st] = true
							}
						}
					}
				}
				for _, col := range []string{"TradableAmount", "EscrowedAmount", "RetiredAmount"} {
					sites := map[ssa.Instruction]bool{}
					for st := range collect {
						sites[st] = true
					}
					for _, u := range fl.updates {
						if !u.srcs["col:BatchBalance."+col] {
							continue
						}
						for _, s := range u.path {
							if s != nil && s.Parent() == rf {
								sites[s] = true
								if cs, isCall := s.(*ssa.Call); isCall {
									if h := tableLoopHeader(cs); h != nil {
										sites[h] = true
									}
								}
							}
						}
					}
					targets := map[ssa.Instruction]bool{ci: true}
					for _, cp := range fl.cmps {
						for _, s := range cp.path {
							if s != nil && s.Parent() == rf {
								targets[s] = true
							}
						}
					}
					if t := reachesAround(ci, sites, targets); t != nil && skipMsg == "" {
						skipMsg = fmt.Sprintf("%s: a path leads from the row read at %s to %s without accumulating %s", funcKey(rf), p.Pos(ci.Pos()), p.Pos(t.Pos()), col)
					}
				}
			}
		}
	}
	if nRows == 0 {
		c.Undecide("C01.INV", "every-row", p.Pos(fn.Pos()), "the read of the BatchBalance rows was not found in the invariant and its helpers")
	} else {
		c.Check(skipMsg == "", "C01.INV", "every-row", p.Pos(fn.Pos()), "every BatchBalance row read is accumulated with all three columns before the next row is read or a comparison is made (no skipping path)"+map[bool]string{true: "", false: " — " + skipMsg}[skipMsg == ""])
	}
}

// returnsRowOf: the call yields a row of the named table (iterator Value, Get).
func returnsRowOf(m *Model, ci *ssa.Call, table string) bool {
	check := func(t types.Type) bool {
		tb := m.TableOfRow(t)
		return tb != nil && tb.Name == table
	}
	switch t := ci.Type().(type) {
	case *types.Tuple:
		for i := 0; i < t.Len(); i++ {
			if check(t.At(i).Type()) {
				return true
			}
		}
		return false
	default:
		return check(t)
	}
}

// reachesAround: some instruction of targets is reachable from (after) start along a path that does not
// execute any instruction of sites. Returns the target reached, nil if none.
func reachesAround(start ssa.Instruction, sites, targets map[ssa.Instruction]bool) ssa.Instruction {
	sb := start.Block()
	si := 0
	for i, in := range sb.Instrs {
		if in == start {
			si = i + 1
		}
	}
	return reachesAroundFrom(sb, si, sites, targets)
}

func reachesAroundFrom(sb *ssa.BasicBlock, si int, sites, targets map[ssa.Instruction]bool) ssa.Instruction {
	type pos struct {
		b *ssa.BasicBlock
		i int
	}
	seen := map[*ssa.BasicBlock]bool{}
	work := []pos{{sb, si}}
	for len(work) > 0 {
		cur := work[len(work)-1]
		work = work[:len(work)-1]
		blocked := false
		for i := cur.i; i < len(cur.b.Instrs); i++ {
			in := cur.b.Instrs[i]
			if sites[in] {
				blocked = true
				break
			}
			if targets[in] {
				return in
			}
		}
		if blocked {
			continue
		}
		for _, s := range cur.b.Succs {
			if !seen[s] {
				seen[s] = true
				work = append(work, pos{s, 0})
			}
		}
	}
	return nil
}

// ruleGenesisSupplyCompare: genesis validation is the induction base of the conservation argument
// (A4). What is decided here is one structural necessary condition of that base: every decimal
// comparison performed by ValidateGenesis and the helpers of its package is an equality test
// (Cmp result compared with EqualTo = 0), so a declared supply above or below the summed balances
// cannot be waved through by a one-sided comparison.
func ruleGenesisSupplyCompare(c *Ctx, m *Model) {
	p := m.P
	fn := findFn(m, "x/ecocredit/v3/genesis", "ValidateGenesis")
	if fn == nil {
		c.Undecide("C01.GEN", "ValidateGenesis", "-", "genesis validation entry not found")
		return
	}
	g := NewGraph(p)
	n := 0
	for f := range g.Closure([]*ssa.Function{fn}) {
		if !g.isSubjectFn(f) || fnPkgPath(f) != fnPkgPath(fn) {
			continue
		}
		for _, ci := range callsIn(f) {
			call, ok := ci.(*ssa.Call)
			if !ok || !isCallTo(call, "Dec.Cmp") || len(call.Call.Args) != 2 {
				continue
			}
			// only comparisons between per-batch totals (operands read out of map[uint64]Dec accumulators)
			if !fromDecMap(call.Call.Args[0], 0) || !fromDecMap(call.Call.Args[1], 0) {
				continue
			}
			n++
			vsZero, other := false, false
			for _, r := range *call.Referrers() {
				bo, isB := r.(*ssa.BinOp)
				if !isB {
					other = true
					continue
				}
				v, isC := constInt(bo.Y)
				if !isC {
					v, isC = constInt(bo.X)
				}
				if isC && v == 0 && (bo.Op == token.EQL || bo.Op == token.NEQ) {
					vsZero = true
				} else {
					other = true
				}
			}
			c.Check(vsZero && !other, "C01.GEN", funcKey(f)+fmt.Sprintf("#Dec.Cmp@%d", n), p.Pos(call.Pos()), "genesis supply comparison is an equality test (Cmp result compared with EqualTo only)")
		}
	}
	c.Min("decimal comparisons in genesis validation", 1, n)
}

// fromDecMap: the value is an element of a map (lookup or range value), possibly through a local slot.
func fromDecMap(v ssa.Value, depth int) bool {
	if depth > 5 {
		return false
	}
	switch x := v.(type) {
	case *ssa.Lookup:
		_, isMap := x.X.Type().Underlying().(*types.Map)
		return isMap
	case *ssa.Extract:
		if _, ok := x.Tuple.(*ssa.Next); ok {
			return true
		}
		return fromDecMap(x.Tuple, depth+1)
	case *ssa.Call:
		// the element handed back by a hand-written lookup helper (`lookup(m, key, missing)`)
		if sc := x.Call.StaticCallee(); sc != nil && len(sc.Blocks) > 0 {
			if mi, _, ok := lookupHelperParams(sc); ok && mi < len(x.Call.Args) {
				_, isMap := x.Call.Args[mi].Type().Underlying().(*types.Map)
				return isMap
			}
		}
	case *ssa.UnOp:
		if a, ok := x.X.(*ssa.Alloc); ok && x.Op == token.MUL {
			for _, r := range *a.Referrers() {
				if st, ok := r.(*ssa.Store); ok && st.Addr == a && fromDecMap(st.Val, depth+1) {
					return true
				}
			}
		}
	case *ssa.Phi:
		for _, e := range x.Edges {
			if fromDecMap(e, depth+1) {
				return true
			}
		}
	}
	return false
}

// ---- invariant dataflow summary ---------------------------------------------------------

type invUpdate struct {
	m    ssa.Value // accumulator (MakeMap of the invariant function)
	srcs map[string]bool
	keys map[string]bool
	path []ssa.Instruction // the instruction being scanned at every level of the scan stack
}

type invCmp struct {
	srcs   map[string]bool
	keys   map[string]bool
	vsZero bool
	path   []ssa.Instruction
}

type invFlow struct {
	m       *Model
	root    *ssa.Function
	fns     map[*ssa.Function]bool
	updates []invUpdate
	cmps    []invCmp
	maps    []ssa.Value
	clos    map[*ssa.Function]*ssa.MakeClosure
	stack   []ssa.Instruction
	// maps kept in fields of a carrier struct: "type#field" → representative load
	fieldMaps map[string]ssa.Value
}

func newInvFlow(m *Model, root *ssa.Function) *invFlow {
	return &invFlow{m: m, root: root, fns: map[*ssa.Function]bool{}, clos: map[*ssa.Function]*ssa.MakeClosure{}}
}

// canonMap: the identity of an accumulator map — the make site of a local map, or, for a map kept in a
// field of a carrier struct (accumulators and findings gathered in one value with methods), the first
// load of that field seen: all loads of one field of one struct type stand for one map.
func (f *invFlow) canonMap(v ssa.Value) ssa.Value {
	switch x := v.(type) {
	case *ssa.MakeMap:
		return x
	case *ssa.UnOp:
		fa, ok := x.X.(*ssa.FieldAddr)
		if !ok || x.Op != token.MUL {
			return nil
		}
		if _, isMap := x.Type().Underlying().(*types.Map); !isMap {
			return nil
		}
		pt, ok := fa.X.Type().Underlying().(*types.Pointer)
		if !ok {
			return nil
		}
		id := fmt.Sprintf("%s#%d", pt.Elem().String(), fa.Field)
		if f.fieldMaps == nil {
			f.fieldMaps = map[string]ssa.Value{}
		}
		if r, has := f.fieldMaps[id]; has {
			return r
		}
		f.fieldMaps[id] = x
		return x
	}
	return nil
}

func (f *invFlow) mapID(v ssa.Value) string {
	for i, m := range f.maps {
		if m == v {
			return fmt.Sprint(i + 1)
		}
	}
	f.maps = append(f.maps, v)
	return fmt.Sprint(len(f.maps))
}

type invBind struct {
	params map[*ssa.Parameter]ssa.Value
	up     *invBind
}

// resolve follows parameters to call-site arguments, loads of locals to their single store and
// captured variables to the captured slot.
func (f *invFlow) resolve(v ssa.Value, b *invBind) (ssa.Value, *invBind) {
	for i := 0; i < 8; i++ {
		switch x := v.(type) {
		case *ssa.Parameter:
			if b != nil {
				if a, ok := b.params[x]; ok {
					v, b = a, b.up
					continue
				}
			}
			return v, b
		case *ssa.UnOp:
			if x.Op != token.MUL {
				return v, b
			}
			switch a := x.X.(type) {
			case *ssa.Alloc:
				if sv := uniqueStore(a); sv != nil {
					v = sv
					continue
				}
			case *ssa.FreeVar:
				if mc := f.clos[a.Parent()]; mc != nil {
					for j, fv := range a.Parent().FreeVars {
						if fv == a && j < len(mc.Bindings) {
							if al, ok := mc.Bindings[j].(*ssa.Alloc); ok {
								if sv := uniqueStore(al); sv != nil {
									v, b = sv, nil
									goto next
								}
							}
						}
					}
				}
			}
			return v, b
		case *ssa.ChangeType:
			v = x.X
			continue
		case *ssa.MakeInterface:
			v = x.X
			continue
		}
		return v, b
	next:
	}
	return v, b
}

// srcs: the row columns / basket argument / accumulator lookups a value is computed from.
func (f *invFlow) srcs(v ssa.Value, b *invBind, depth int, out map[string]bool) {
	if depth > 12 || v == nil {
		return
	}
	v, b = f.resolve(v, b)
	switch x := v.(type) {
	case *ssa.UnOp:
		if x.Op == token.MUL {
			if fa, ok := x.X.(*ssa.FieldAddr); ok {
				if t := f.m.TableOfRow(fa.X.Type()); t != nil {
					out["col:"+t.Name+"."+fieldName(fa.X.Type(), fa.Field)] = true
					return
				}
				f.srcs(fa.X, b, depth+1, out)
				return
			}
			if a, ok := x.X.(*ssa.Alloc); ok {
				for _, r := range *a.Referrers() {
					if st, ok := r.(*ssa.Store); ok && st.Addr == a {
						f.srcs(st.Val, b, depth+1, out)
					}
				}
				return
			}
		}
		f.srcs(x.X, b, depth+1, out)
	case *ssa.Call:
		for _, a := range x.Call.Args {
			f.srcs(a, b, depth+1, out)
		}
	case *ssa.Extract:
		if nx, ok := x.Tuple.(*ssa.Next); ok {
			if rg, ok := nx.Iter.(*ssa.Range); ok {
				rv, _ := f.resolve(rg.X, b)
				if prm, ok := rv.(*ssa.Parameter); ok && prm.Parent() == f.root {
					if _, isMap := prm.Type().Underlying().(*types.Map); isMap {
						out["basket"] = true
						return
					}
				}
			}
			return
		}
		f.srcs(x.Tuple, b, depth+1, out)
	case *ssa.Lookup:
		mv, _ := f.resolve(x.X, b)
		if mv = f.canonMap(mv); mv != nil {
			out["map:"+f.mapID(mv)] = true
		}
	case *ssa.Phi:
		for _, e := range x.Edges {
			f.srcs(e, b, depth+1, out)
		}
	case *ssa.Field:
		f.srcs(x.X, b, depth+1, out)
	case *ssa.Convert:
		f.srcs(x.X, b, depth+1, out)
	}
}

// scan walks fn (arguments bound by b) and the closures / same-package helpers it calls.
func (f *invFlow) scan(fn *ssa.Function, b *invBind, depth int) {
	if depth > 3 || len(fn.Blocks) == 0 {
		return
	}
	f.fns[fn] = true
	f.stack = append(f.stack, nil)
	defer func() { f.stack = f.stack[:len(f.stack)-1] }()
	for _, blk := range fn.Blocks {
		for _, in := range blk.Instrs {
			f.stack[len(f.stack)-1] = in
			switch x := in.(type) {
			case *ssa.MakeClosure:
				if cf, ok := x.Fn.(*ssa.Function); ok {
					f.clos[cf] = x
				}
			case *ssa.MapUpdate:
				mv, _ := f.resolve(x.Map, b)
				if mv = f.canonMap(mv); mv == nil {
					continue
				}
				f.mapID(mv)
				u := invUpdate{m: mv, srcs: map[string]bool{}, keys: map[string]bool{}}
				f.srcs(x.Value, b, 0, u.srcs)
				f.srcs(x.Key, b, 0, u.keys)
				u.path = append([]ssa.Instruction(nil), f.stack...)
				f.updates = append(f.updates, u)
			case *ssa.Call:
				if isCallTo(x, "Dec.Cmp") {
					cp := invCmp{srcs: map[string]bool{}, keys: map[string]bool{}}
					for _, a := range x.Call.Args {
						f.srcs(a, b, 0, cp.srcs)
					}
					// the lookup key of the accumulator operand
					for _, a := range x.Call.Args {
						f.lookupKeys(a, b, 0, cp.keys)
					}
					for _, r := range *x.Referrers() {
						if bo, ok := r.(*ssa.BinOp); ok && (bo.Op == token.EQL || bo.Op == token.NEQ) {
							if v, isC := constInt(bo.Y); isC && v == 0 {
								cp.vsZero = true
							}
							if v, isC := constInt(bo.X); isC && v == 0 {
								cp.vsZero = true
							}
						}
					}
					cp.path = append([]ssa.Instruction(nil), f.stack...)
					f.cmps = append(f.cmps, cp)
					continue
				}
				var callee *ssa.Function
				switch cv := x.Call.Value.(type) {
				case *ssa.MakeClosure:
					callee, _ = cv.Fn.(*ssa.Function)
					if callee != nil {
						f.clos[callee] = cv
					}
				case *ssa.Function:
					callee = cv
				default:
					// a closure stored in a local variable
					if rv, _ := f.resolve(x.Call.Value, b); rv != nil {
						if mc, ok := rv.(*ssa.MakeClosure); ok {
							callee, _ = mc.Fn.(*ssa.Function)
							if callee != nil {
								f.clos[callee] = mc
							}
						}
					}
				}
				if callee == nil || callee == fn || fnPkgPath(callee) != fnPkgPath(f.root) || len(callee.Blocks) == 0 {
					continue
				}
				// arguments read out of the element of a literal table being ranged over
				// (for _, e := range []entry{{…}, {…}} { f(e.a, e.b) }): one call per table row, each
				// argument bound to what that row's literal stores
				var table *ssa.Alloc
				fieldOf := map[int]int{}
				for i, a := range x.Call.Args {
					if al, fld, ok := tableElemField(a); ok && (table == nil || table == al) {
						table = al
						fieldOf[i] = fld
					}
				}
				if table != nil {
					rows := tableStores(table)
					var ks []int
					for k := range rows {
						ks = append(ks, k)
					}
					sort.Ints(ks)
					for _, k := range ks {
						nb := &invBind{params: map[*ssa.Parameter]ssa.Value{}, up: b}
						for i, prm := range callee.Params {
							if i >= len(x.Call.Args) {
								continue
							}
							if fld, isT := fieldOf[i]; isT {
								if v, has := rows[k][fld]; has {
									nb.params[prm] = v
								}
								continue
							}
							nb.params[prm] = x.Call.Args[i]
						}
						f.scan(callee, nb, depth+1)
					}
					continue
				}
				nb := &invBind{params: map[*ssa.Parameter]ssa.Value{}, up: b}
				for i, prm := range callee.Params {
					if i < len(x.Call.Args) {
						nb.params[prm] = x.Call.Args[i]
					}
				}
				f.scan(callee, nb, depth+1)
			}
		}
	}
}

// tableElemField: v is field `fld` of the element of a local array literal selected by a (loop) index.
func tableElemField(v ssa.Value) (*ssa.Alloc, int, bool) {
	al, fld, _, ok := tableElemFieldIA(v)
	return al, fld, ok
}

// tableLoopHeader: the call reads its arguments out of the element of a non-empty literal table ranged
// over in full, and is executed on every iteration: the conditional jump of the loop header, which a path
// can only leave towards the code after the loop once the call has been made for every row.
func tableLoopHeader(call *ssa.Call) ssa.Instruction {
	for _, a := range call.Call.Args {
		al, _, ia, ok := tableElemFieldIA(a)
		if !ok || ia == nil {
			continue
		}
		if arr, isArr := al.Type().(*types.Pointer).Elem().Underlying().(*types.Array); !isArr || arr.Len() == 0 {
			continue
		}
		if sl, isSl := ia.X.(*ssa.Slice); isSl && (sl.Low != nil || sl.High != nil) {
			continue
		}
		idx, isIn := ia.Index.(ssa.Instruction)
		if !isIn {
			continue
		}
		h := idx.Block()
		if len(h.Instrs) == 0 || len(h.Succs) != 2 {
			continue
		}
		ifIn, isIf := h.Instrs[len(h.Instrs)-1].(*ssa.If)
		if !isIf {
			continue
		}
		// the call is made on every trip round the loop: from the first instruction of the body no path
		// returns to the header around it
		body := h.Succs[0]
		if len(body.Instrs) == 0 {
			continue
		}
		first := body.Instrs[0]
		if first != ssa.Instruction(call) {
			if reachesAroundFrom(body, 0, map[ssa.Instruction]bool{call: true}, map[ssa.Instruction]bool{ifIn: true}) != nil {
				continue
			}
		}
		return ifIn
	}
	return nil
}

func tableElemFieldIA(v ssa.Value) (*ssa.Alloc, int, *ssa.IndexAddr, bool) {
	var ia *ssa.IndexAddr
	fld := -1
	switch x := v.(type) {
	case *ssa.Field:
		if ld, ok := x.X.(*ssa.UnOp); ok && ld.Op == token.MUL {
			ia, _ = ld.X.(*ssa.IndexAddr)
			fld = x.Field
		}
	case *ssa.UnOp:
		if x.Op == token.MUL {
			if fa, ok := x.X.(*ssa.FieldAddr); ok {
				ia, _ = fa.X.(*ssa.IndexAddr)
				fld = fa.Field
				// the element was first copied into a local (`for _, e := range table`)
				if la, isAlloc := fa.X.(*ssa.Alloc); isAlloc && ia == nil {
					if sv := uniqueStore(la); sv != nil {
						if ld, ok := sv.(*ssa.UnOp); ok && ld.Op == token.MUL {
							ia, _ = ld.X.(*ssa.IndexAddr)
						}
					}
				}
			}
		}
	}
	if ia == nil || fld < 0 {
		return nil, 0, nil, false
	}
	base := ia.X
	if sl, ok := base.(*ssa.Slice); ok {
		base = sl.X
	}
	al, ok := base.(*ssa.Alloc)
	if !ok {
		return nil, 0, nil, false
	}
	if _, isArr := al.Type().(*types.Pointer).Elem().Underlying().(*types.Array); !isArr {
		return nil, 0, nil, false
	}
	return al, fld, ia, true
}

// tableStores: row index → field index → value stored by the literal.
func tableStores(al *ssa.Alloc) map[int]map[int]ssa.Value {
	out := map[int]map[int]ssa.Value{}
	for _, r := range *al.Referrers() {
		ia, ok := r.(*ssa.IndexAddr)
		if !ok {
			continue
		}
		k, isC := constInt(ia.Index)
		if !isC {
			continue
		}
		for _, r2 := range *ia.Referrers() {
			fa, ok := r2.(*ssa.FieldAddr)
			if !ok {
				continue
			}
			for _, r3 := range *fa.Referrers() {
				if st, ok := r3.(*ssa.Store); ok && st.Addr == fa {
					if out[int(k)] == nil {
						out[int(k)] = map[int]ssa.Value{}
					}
					out[int(k)][fa.Field] = st.Val
				}
			}
		}
	}
	return out
}

// lookupKeys: the key sources of accumulator lookups a value derives from.
func (f *invFlow) lookupKeys(v ssa.Value, b *invBind, depth int, out map[string]bool) {
	if depth > 8 || v == nil {
		return
	}
	v, b = f.resolve(v, b)
	switch x := v.(type) {
	case *ssa.Lookup:
		f.srcs(x.Index, b, 0, out)
	case *ssa.Extract:
		f.lookupKeys(x.Tuple, b, depth+1, out)
	case *ssa.Phi:
		for _, e := range x.Edges {
			f.lookupKeys(e, b, depth+1, out)
		}
	case *ssa.UnOp:
		if a, ok := x.X.(*ssa.Alloc); ok && x.Op == token.MUL {
			for _, r := range *a.Referrers() {
				if st, ok := r.(*ssa.Store); ok && st.Addr == a {
					f.lookupKeys(st.Val, b, depth+1, out)
				}
			}
		}
	}
}

// ---- C02 ---------------------------------------------------------------------------

var issuanceAtom = regexp.MustCompile(`^parse\(req\.(Issuance\[[^\]]*\]\.(TradableAmount|RetiredAmount)|Batch\.Amount)\)$`)

func checkC02(c *Ctx, e *Env) {
	c.Explanation = "E1 effect analysis, identity EQ3: on every committed path of every entry point Δ(supplyTradable + supplyRetired + supplyCancelled) per batch equals the issuance amounts parsed from the request on that path (BatchIssuance tradable/retired amounts for CreateBatch and MintBatchCredits, Batch.Amount for BridgeReceive through the nested handlers) and is zero for every other handler and for BeginBlock; " +
		"SEAL every BatchSupply effect of MintBatchCredits lies behind batch.Open and issuer equality for the batch named in the request, the only store to Batch.Open of an existing row is the constant false, no Batch row is deleted; ROW BatchSupply is inserted exactly once per created batch with the key returned by the batch insert."
	c.NotDecided = []string{"nothing numeric beyond A2; same induction base as C01 (A4)"}
	c.Assumptions = strings.Split(e1Assume, "; ")
	m, r := e1Handlers(c, e)
	p := m.P
	noteUndecided(c, m, r, "C02.E1")
	ruleArith(c, e, "C02.ARITH", func(ep *EntryPoint) bool { return ep.Kind == "msg" && ep.Service == "base" })
	nPaths := 0
	for _, h := range r.Handlers {
		if !hasLedgerEffect(h) {
			c.Trivial("C02.EQ", h.Key+"#no-ledger-effect", p.Pos(h.Fn.Pos()), "no committed path writes a supply column")
			continue
		}
		hh := h
		extra := func(o *Outcome) map[residKey]Lin {
			out := map[residKey]Lin{}
			if !(hh.Key == "base.CreateBatch" || hh.Key == "base.MintBatchCredits" || hh.Key == "base.BridgeReceive") {
				return out
			}
			atoms := map[string]bool{}
			for i := range o.St.events {
				ev := &o.St.events[i]
				if ev.Kind == "call" && ev.Method == "Parse" && inScope(o, ev) {
					if o.Kind != exitLoopback && ev.Loop != "" {
						// parsed inside a loop on a return path: belongs to that (final) iteration
					}
					a := ev.Args[0].(*Sym).N
					if issuanceAtom.MatchString(a) {
						atoms[a] = true
					}
				}
			}
			if len(atoms) == 0 {
				return out
			}
			// the batch this scope issues into
			groups := map[string]bool{}
			for _, d := range hh.Deltas(o) {
				if d.Batch != "" {
					groups[d.Batch] = true
				}
			}
			g := "no-batch"
			if len(groups) == 1 {
				for k := range groups {
					g = k
				}
			} else if len(groups) > 1 {
				g = "ambiguous-batch"
			}
			l := linConst(0)
			for a := range atoms {
				l = l.Sub(linAtom(a))
			}
			out[residKey{rEQ3, g}] = l
			return out
		}
		reports := h.checkIdentities(map[string]bool{rEQ3: true}, extra)
		nPaths += emitIdentityObligations(c, p, h, "C02.EQ", reports)
	}
	c.Count("identity_path_checks", nPaths)
	ruleSeal(c, m, r)
	c.Min("identity path checks (EQ3)", 60, nPaths)
	c.ExpectCanary("C02.EQ")
}

// ruleSeal: C02.SEAL and C02.ROW.
func ruleSeal(c *Ctx, m *Model, r *E1) {
	p := m.P
	// (1) Mint: facts batch.Open and issuer equality precede every BatchSupply/BatchBalance effect
	if h := r.byKey["base.MintBatchCredits"]; h != nil {
		bad := ""
		n := 0
		for _, o := range h.Outs {
			for i := range o.St.events {
				ev := &o.St.events[i]
				if ev.Kind != "write" || !inScope(o, ev) || !ledgerTables[ev.Table.Name] {
					continue
				}
				n++
				if why := mintGuards(o, ev); why != "" && bad == "" {
					bad = why + " on path {" + outcomeLabel(h, o) + "}"
				}
			}
		}
		if bad != "" {
			c.Violate("C02.SEAL", "base.MintBatchCredits#guards", p.Pos(h.Fn.Pos()), bad, nil)
		} else {
			c.Check(n > 0, "C02.SEAL", "base.MintBatchCredits#guards", p.Pos(h.Fn.Pos()), fmt.Sprintf("all %d ledger writes of MintBatchCredits lie behind batch.Open == true and AddrEq(batch.Issuer, signer) for batch = GetByDenom(req.BatchDenom)", n))
		}
	} else {
		c.Undecide("C02.SEAL", "base.MintBatchCredits#guards", "-", "handler not found")
	}
	// (1b) every handler: a write that changes the TOTAL (tradable + retired + cancelled) of an existing
	// batch's supply row lies behind batch.Open == true for the batch that row belongs to — whichever
	// entry point reaches it (BridgeReceive mints through a nested call or a helper of its own)
	for _, h := range r.Handlers {
		if h.EP.Kind == "canary" {
			continue
		}
		bad := ""
		n := 0
		for _, o := range h.Outs {
			st := o.St
			sums := map[*Event]Lin{}
			unknown := map[*Event]string{}
			var order []*Event
			for _, d := range h.Deltas(o) {
				if d.Table != "BatchSupply" || d.Ev == nil || d.Ev.OpKind == "insert" {
					continue
				}
				if d.Col != "TradableAmount" && d.Col != "RetiredAmount" && d.Col != "CancelledAmount" {
					continue
				}
				if _, seen := sums[d.Ev]; !seen {
					sums[d.Ev] = linConst(0)
					order = append(order, d.Ev)
				}
				if d.Bad != "" {
					unknown[d.Ev] = d.Bad
					continue
				}
				sums[d.Ev] = sums[d.Ev].Add(d.Delta)
			}
			for _, ev := range order {
				if unknown[ev] == "" && reduce(sums[ev], st.eqs).IsZero() {
					continue // the total is unchanged (a move between columns)
				}
				n++
				bk := st.canon(ev.Row["BatchKey"])
				// the fetched Batch rows whose key is that key (whatever name the key's equivalence class carries)
				var names []string
				for _, ob := range st.mem {
					if ob.Table == nil || ob.Table.Name != "Batch" || ob.Kind != "row" {
						continue
					}
					k := st.find(ob.Name + ".Key")
					if v, ok := ob.F[".Key"]; ok {
						k = st.canon(v)
					} else if v, ok := ob.Preset["Key"]; ok {
						k = st.canon(v)
					}
					if k == bk {
						names = append(names, ob.Name)
					}
				}
				sort.Strings(names)
				if len(names) == 0 {
					if bad == "" {
						bad = "supply total changes for a batch whose Batch row is not fetched on the path (key " + bk + ")"
					}
					continue
				}
				guarded := false
				for _, nm := range names {
					if factBefore(st, "+Bool("+nm+".Open)", ev) {
						guarded = true
					}
				}
				if !guarded && bad == "" {
					bad = "the supply total of an existing batch changes (Δ = " + sums[ev].String() + ") at " + p.Pos(ev.Pos.Pos()) + " without +Bool(" + names[0] + ".Open) established before it on path {" + outcomeLabel(h, o) + "}"
				}
			}
		}
		if n == 0 {
			continue
		}
		if bad != "" {
			c.Violate("C02.SEAL", h.Key+"#total-changes-only-while-open", p.Pos(h.Fn.Pos()), bad, nil)
		} else {
			c.Hold("C02.SEAL", h.Key+"#total-changes-only-while-open", p.Pos(h.Fn.Pos()), fmt.Sprintf("%d supply writes that change the total of an existing batch, each behind batch.Open == true of that batch", n), nil)
		}
	}
	// (1c) the supply rows' previous content is known at every write (no lost update, also across loop iterations)
	for _, h := range r.Handlers {
		if h.EP.Kind == "canary" {
			continue
		}
		bad := ""
		n := 0
		for _, o := range h.Outs {
			for _, d := range h.Deltas(o) {
				if d.Table != "BatchSupply" || d.Col == "*" {
					continue
				}
				n++
				if d.Bad != "" && bad == "" {
					bad = d.Bad + " at " + p.Pos(d.Ev.Pos.Pos()) + " on path {" + outcomeLabel(h, o) + "}"
				}
			}
		}
		if n == 0 {
			continue
		}
		if bad != "" {
			c.Violate("C02.FRESH", h.Key+"#supply-basis", p.Pos(h.Fn.Pos()), bad, nil)
		} else {
			c.Hold("C02.FRESH", h.Key+"#supply-basis", p.Pos(h.Fn.Pos()), fmt.Sprintf("%d supply column writes, each based on content read (or written) in the same iteration", n), nil)
		}
	}
	// (2) stores to Batch.Open / deletes of Batch anywhere
	nUpd := 0
	for _, h := range r.Handlers {
		for _, o := range h.Outs {
			for i := range o.St.events {
				ev := &o.St.events[i]
				if ev.Kind != "write" || ev.Table.Name != "Batch" {
					continue
				}
				key := h.Key + "→" + siteKey(ev)
				pos := p.Pos(ev.Pos.Pos())
				switch ev.OpKind {
				case "delete", "deleterange":
					c.Violate("C02.SEAL", key, pos, "a Batch row is deleted: its supply total would disappear", nil)
				case "update", "save":
					nUpd++
					open := o.St.canon(ev.Row["Open"])
					var oldOpen string
					if ev.Old != nil && ev.Old.Row != nil {
						oldOpen = o.St.canon(ev.Old.Row["Open"])
					}
					switch {
					case open == "false":
						c.Hold("C02.SEAL", key, pos, "Batch.Open is set to the constant false", nil)
					case open == oldOpen && oldOpen != "":
						c.Hold("C02.SEAL", key, pos, "Batch.Open is copied unchanged", nil)
					default:
						c.Violate("C02.SEAL", key, pos, "Batch.Open of an existing batch is written with "+open+" (previous "+oldOpen+"): a sealed batch could be re-opened", nil)
					}
				}
			}
		}
	}
	c.Min("Batch update sites seen", 2, nUpd)
	// (3) ROW: CreateBatch inserts BatchSupply exactly once with the returned key
	if h := r.byKey["base.CreateBatch"]; h != nil {
		bad := ""
		n := 0
		for _, o := range h.Outs {
			if o.Kind != exitReturn {
				// iterations must not insert supply rows
				for i := range o.St.events {
					ev := &o.St.events[i]
					if ev.Kind == "write" && ev.Table.Name == "BatchSupply" && inScope(o, ev) {
						bad = "BatchSupply written inside the issuance loop"
					}
				}
				continue
			}
			n++
			var batchID, supplyKey []string
			for i := range o.St.events {
				ev := &o.St.events[i]
				if ev.Kind != "write" {
					continue
				}
				if ev.Table.Name == "Batch" && ev.OpKind == "insert" {
					batchID = append(batchID, fmt.Sprintf("newid:Batch#%d", ev.ErrID))
				}
				if ev.Table.Name == "BatchSupply" {
					if ev.OpKind != "insert" {
						bad = "BatchSupply of the new batch written with " + ev.Method
					}
					supplyKey = append(supplyKey, o.St.canon(ev.Row["BatchKey"]))
				}
			}
			if len(batchID) != 1 || len(supplyKey) != 1 || batchID[0] != supplyKey[0] {
				bad = fmt.Sprintf("batch inserts %v vs supply inserts %v", batchID, supplyKey)
			}
		}
		if bad != "" {
			c.Violate("C02.ROW", "base.CreateBatch#supply-row", p.Pos(h.Fn.Pos()), bad, nil)
		} else {
			c.Check(n > 0, "C02.ROW", "base.CreateBatch#supply-row", p.Pos(h.Fn.Pos()), fmt.Sprintf("on all %d successful paths BatchSupply is inserted exactly once, keyed by the id returned by Batch.InsertReturningID", n))
		}
	}
}

// mintGuards: required facts before a ledger write in MintBatchCredits.
func mintGuards(o *Outcome, ev *Event) string {
	st := o.St
	// the batch named in the request
	var batch *Obj
	for _, ob := range st.mem {
		if ob.Table != nil && ob.Table.Name == "Batch" && ob.Origin == "get:GetByDenom(req.BatchDenom)" {
			if batch == nil || ob.ID < batch.ID {
				batch = ob
			}
		}
	}
	if batch == nil {
		return "batch is not fetched by GetByDenom(req.BatchDenom)"
	}
	need := []string{"+Bool(" + batch.Name + ".Open)"}
	a, b := sortedPair(batch.Name+".Issuer", "addr(req.Issuer)")
	need = append(need, "+AddrEq("+a+", "+b+")")
	for _, f := range need {
		idx := -1
		for i, g := range st.facts {
			if g == f {
				idx = i
			}
		}
		if idx < 0 {
			return "missing guard " + f
		}
		if idx >= ev.Facts {
			return "guard " + f + " is established after the write"
		}
	}
	return ""
}

// ---- C04 ---------------------------------------------------------------------------

func checkC04(c *Ctx, e *Env) {
	c.Explanation = "E1 effect analysis, rule MON: in every write of BatchBalance.RetiredAmount, BatchSupply.RetiredAmount and BatchSupply.CancelledAmount on every committed path of every entry point, new − old is a non-negative combination of atoms proven ≥ 0 on that path (constructor class, loop induction) — a copy gives 0, a rebuilt row that drops the column gives −old and is reported; " +
		"DEL no Delete/DeleteBy/DeleteRange on BatchBalance or BatchSupply exists in production code (canary proves the rule fires). The second sentence of the property follows: every debit in the tree draws on tradable or escrowed (C01/C03)."
	c.NotDecided = []string{"nothing beyond A1–A3"}
	c.Assumptions = strings.Split(e1Assume, "; ")
	m, r := e1Handlers(c, e)
	p := m.P
	noteUndecided(c, m, r, "C04.E1")
	ruleArith(c, e, "C04.ARITH", func(ep *EntryPoint) bool { return ep.Kind == "msg" || ep.Kind == "beginblock" })
	mono := map[string]bool{"BatchBalance.RetiredAmount": true, "BatchSupply.RetiredAmount": true, "BatchSupply.CancelledAmount": true}
	type agg struct {
		ev  *Event
		n   int
		bad string
		col string
	}
	for _, h := range r.Handlers {
		sites := map[string]*agg{}
		for _, o := range h.Outs {
			for _, d := range h.Deltas(o) {
				if !mono[d.Table+"."+d.Col] {
					continue
				}
				k := h.Key + "→" + siteKey(d.Ev) + "#" + d.Col
				a := sites[k]
				if a == nil {
					a = &agg{ev: d.Ev, col: d.Table + "." + d.Col}
					sites[k] = a
				}
				a.n++
				if a.bad != "" {
					continue
				}
				if d.Bad != "" {
					a.bad = "previous value unknown (" + d.Bad + ")"
					continue
				}
				if ok, why := h.provablyNonNeg(o.St, d.Delta); !ok {
					a.bad = fmt.Sprintf("Δ%s = %s: %s, on path {%s}", d.Col, d.Delta.String(), why, outcomeLabel(h, o))
				}
			}
		}
		var ks []string
		for k := range sites {
			ks = append(ks, k)
		}
		sort.Strings(ks)
		for _, k := range ks {
			a := sites[k]
			if a.bad != "" {
				c.Violate("C04.MON", k, p.Pos(a.ev.Pos.Pos()), a.col+" can decrease: "+a.bad, nil)
			} else {
				c.Hold("C04.MON", k, p.Pos(a.ev.Pos.Pos()), fmt.Sprintf("%s: new − old is a non-negative form on all %d path visits", a.col, a.n), nil)
			}
		}
		if len(sites) == 0 {
			c.Trivial("C04.MON", h.Key+"#no-write", p.Pos(h.Fn.Pos()), "entry point never writes a retired/cancelled column")
		}
	}
	// DEL over the whole production inventory
	inv := BuildInventory(m, false)
	nDel := 0
	for _, s := range inv.AllWrites() {
		if (s.Table.Name == "BatchBalance" || s.Table.Name == "BatchSupply") && (s.Kind == "delete" || s.Kind == "deleterange") {
			nDel++
			c.Violate("C04.DEL", funcKey(s.Fn)+"#"+s.Table.Name+"."+s.Method, p.Pos(s.At()), "deleting a "+s.Table.Name+" row erases retired/cancelled amounts", nil)
		}
	}
	if nDel == 0 {
		c.Hold("C04.DEL", "no-delete", "-", fmt.Sprintf("no delete of BatchBalance/BatchSupply among %d ORM write sites of production code", len(inv.AllWrites())), nil)
	}
	c.Count("orm_write_sites", len(inv.AllWrites()))
	c.Min("ORM write sites inventoried", 60, len(inv.AllWrites()))
	nMon := 0
	for _, o := range c.Obligs {
		if o.Rule == "C04.MON" && o.Nontrivial {
			nMon++
		}
	}
	c.Min("retired/cancelled write sites", 14, nMon)
	c.ExpectCanary("C04.MON", "C04.DEL")
}

// ---- COVER: a supply row never stands alone --------------------------------------------------------
//
// The registered batch-supply invariant reports "supply is not found" and genesis validation rejects
// the export when a BatchSupply row exists for a batch that has no BatchBalance row. Balance rows are
// never deleted (C04), so the condition is established where supply rows are born: every message path
// that inserts a BatchSupply row also writes a BatchBalance row of the same batch — in a loop over the
// issuance list each of whose committed iterations writes one, the list being non-empty because the
// message validator says so (or because the caller built it with at least one element).

var loopBoundFact = regexp.MustCompile(`^\+Lt\(\((\S+)rangeindex \+ 1\), (.+)\)$`)

func ruleSupplyCovered(c *Ctx, m *Model, r *E1, rule string) {
	p := m.P
	n := 0
	objID := regexp.MustCompile(`#\d+`)
	norm := func(s string) string { return objID.ReplaceAllString(s, "#") }
	for _, h := range r.Handlers {
		if h.EP.Kind == "canary" {
			continue
		}
		sites, bad, badPos, good := 0, "", "", ""
		for _, o := range h.Outs {
			if o.Kind != exitReturn {
				continue
			}
			st := o.St
			for i := range st.events {
				ev := &st.events[i]
				if ev.Kind != "write" || ev.Table == nil || ev.Table.Name != "BatchSupply" || ev.OpKind != "insert" {
					continue
				}
				sites++
				bk := ""
				if v, ok := ev.Row["BatchKey"]; ok {
					bk = norm(st.canon(v))
				}
				// (1) a balance write of that batch on the same straight-line path
				direct := false
				for j := range st.events {
					w := &st.events[j]
					if w.Kind == "write" && w.Table != nil && w.Table.Name == "BatchBalance" && w.Loop == ev.Loop && w.OpKind != "delete" {
						if v, ok := w.Row["BatchKey"]; ok && norm(st.canon(v)) == bk {
							direct = true
						}
					}
				}
				if direct {
					good = "the path that inserts the supply row also writes a balance row of the same batch"
					continue
				}
				// (2) loops of this handler: every committed iteration writes a balance row of the batch
				type loopInfo struct {
					all, any bool
					bound    string
				}
				loops := map[string]*loopInfo{}
				for _, lo := range h.Outs {
					if lo.Kind != exitLoopback || !strings.HasPrefix(lo.Loop, ev.Loop) {
						continue
					}
					li := loops[lo.Loop]
					if li == nil {
						li = &loopInfo{all: true}
						loops[lo.Loop] = li
					}
					wrote := false
					for j := range lo.St.events {
						w := &lo.St.events[j]
						if w.Kind == "write" && w.Table != nil && w.Table.Name == "BatchBalance" && inScope(lo, w) && w.OpKind != "delete" {
							if v, ok := w.Row["BatchKey"]; ok && norm(lo.St.canon(v)) == bk {
								wrote = true
							}
						}
					}
					if wrote {
						li.any = true
					} else {
						li.all = false
					}
					for _, f := range lo.St.facts {
						if mm := loopBoundFact.FindStringSubmatch(f); mm != nil && mm[1] == lo.Loop {
							li.bound = mm[2]
						}
					}
				}
				ok, why := false, "no loop of this handler writes a BatchBalance row of the new batch in every committed iteration"
				for tag, li := range loops {
					if !li.any {
						continue
					}
					if !li.all {
						why = "an iteration of " + tag + " can complete without writing a BatchBalance row of the new batch (a batch whose every issuance takes that path has a supply row and no balance row)"
						continue
					}
					// the loop runs at least once
					switch {
					case regexp.MustCompile(`^[1-9][0-9]*$`).MatchString(li.bound):
						ok = true
					case strings.HasPrefix(li.bound, "len(req."):
						seq := strings.TrimSuffix(strings.TrimPrefix(li.bound, "len("), ")")
						v := ValidatedFacts(m, r.X, h.EP)
						if v.OK && (v.Exit["-Eq(0, len("+seq+"))"] || v.Exit["+Lt(0, len("+seq+"))"] || v.Exit["-Lt(len("+seq+"), 1)"] || v.Exit["+Gt(len("+seq+"), 0)"]) {
							ok = true
						} else {
							why = "the loop over " + seq + " writes the balance rows, but the message validator does not guarantee that " + seq + " is non-empty on every accepting path"
						}
					default:
						why = "the trip count of " + tag + " (bound " + li.bound + ") is not known to be at least one"
					}
				}
				if ok {
					good = "every committed iteration of the issuance loop writes a balance row of the new batch and the loop runs at least once"
				} else if bad == "" {
					bad, badPos = why, p.Pos(ev.Pos.Pos())
				}
			}
		}
		if sites == 0 {
			continue
		}
		n++
		key := h.Key + "#BatchSupply.Insert"
		if bad != "" {
			c.Violate(rule, key, badPos, "a BatchSupply row can be inserted without any BatchBalance row of the batch: "+bad+"; the batch-supply invariant then reports 'supply is not found' and genesis validation rejects the exported state", nil)
		} else {
			c.Hold(rule, key, p.Pos(h.Fn.Pos()), fmt.Sprintf("%d committed paths insert a BatchSupply row: %s", sites, good), nil)
		}
	}
	c.Min("BatchSupply insert sites covered", 2, n)
}

var rowRefRe = regexp.MustCompile(`[A-Za-z]+#[0-9]+`)

// originChain lists, transitively, the rows mentioned in the lookup keys through which a value was obtained.
func originChain(st *State, term string) []string {
	var out []string
	seen := map[string]bool{}
	var walk func(t string)
	walk = func(t string) {
		for _, ref := range rowRefRe.FindAllString(t, -1) {
			if seen[ref] {
				continue
			}
			seen[ref] = true
			var id int
			fmt.Sscanf(ref[strings.Index(ref, "#")+1:], "%d", &id)
			o := st.mem[id]
			if o == nil {
				out = append(out, ref+"=?")
				continue
			}
			out = append(out, ref+"="+o.Origin)
			walk(o.Origin)
		}
	}
	walk(term)
	return out
}

var creditTypeRowRe = regexp.MustCompile(`CreditType#([0-9]+)\.Precision`)

// precisionOfBatch: "no more decimal places than the credit type's precision" means the precision of the
// credit type of the class of *the batch whose row is written*. The CreditType row behind `fixed` must have
// been fetched by the CreditTypeAbbrev column of a Class row that is tied to that batch — looked up by the
// class id parsed out of the batch's denom, or by the ClassKey of the project the batch row points to — or by
// a column that a path fact equates with such a Class row's CreditTypeAbbrev (basket Put compares the
// basket's credit type with the class's before it converts).
func (h *HandlerResult) precisionOfBatch(st *State, fixed, batch string) (bool, string) {
	m := creditTypeRowRe.FindStringSubmatch(fixed)
	if m == nil {
		return false, "no CreditType row behind the precision"
	}
	var id int
	fmt.Sscanf(m[1], "%d", &id)
	ct := st.mem[id]
	if ct == nil {
		return false, "the CreditType row is not a known object"
	}
	key, ok := originArg(ct.Origin, "get:Get(")
	if !ok {
		return false, "the CreditType row was not fetched by its primary key (" + ct.Origin + ")"
	}
	key = st.find(key)
	ent := h.X.batchEntities(st)
	// batch objects of the entity
	var batchObjs []*Obj
	for _, o := range st.mem {
		if o.Table == nil || o.Table.Name != "Batch" {
			continue
		}
		for _, nm := range []string{st.find(o.Name + ".Key"), st.find(o.Name + ".Denom"), fieldCanon(st, o, ".Key"), fieldCanon(st, o, ".Denom")} {
			if nm != "" && ent[nm] == batch {
				batchObjs = append(batchObjs, o)
				break
			}
		}
	}
	sameStr := func(a, b string) bool {
		a, b = st.find(a), st.find(b)
		return a == b || st.factSet["+StrEq("+a+", "+b+")"] || st.factSet["+StrEq("+b+", "+a+")"]
	}
	tied := func(cl *Obj) bool {
		if d, ok := originArg(cl.Origin, "get:GetById(GetClassIDFromBatchDenom("); ok {
			d = strings.TrimSuffix(d, ")")
			if ent[st.find(d)] == batch {
				return true
			}
		}
		if pk, ok := originArg(cl.Origin, "get:Get("); ok && strings.HasSuffix(pk, ".ClassKey") {
			pname := strings.TrimSuffix(pk, ".ClassKey")
			var proj *Obj
			for _, o := range st.mem {
				if o.Name == pname && o.Table != nil && o.Table.Name == "Project" {
					proj = o
				}
			}
			if proj == nil {
				return false
			}
			pkeys := []string{st.find(proj.Name + ".Key"), fieldCanon(st, proj, ".Key")}
			if a, ok := originArg(proj.Origin, "get:Get("); ok {
				pkeys = append(pkeys, st.find(a))
			}
			for _, b := range batchObjs {
				for _, bk := range []string{st.find(b.Name + ".ProjectKey"), fieldCanon(st, b, ".ProjectKey")} {
					for _, k := range pkeys {
						if bk != "" && k != "" && bk == k {
							return true
						}
					}
				}
			}
		}
		return false
	}
	var seen []string
	for _, o := range st.mem {
		if o.Table == nil || o.Table.Name != "Class" || o.Kind != "row" {
			continue
		}
		if !sameStr(key, o.Name+".CreditTypeAbbrev") && !(fieldCanon(st, o, ".CreditTypeAbbrev") != "" && sameStr(key, fieldCanon(st, o, ".CreditTypeAbbrev"))) {
			continue
		}
		seen = append(seen, o.Name+"="+o.Origin)
		if tied(o) {
			return true, ""
		}
	}
	sort.Strings(seen)
	if len(seen) == 0 {
		return false, "the credit type was looked up by " + key + ", which is not (and is not compared with) the CreditTypeAbbrev of any Class row read on this path"
	}
	return false, "the credit type belongs to " + strings.Join(seen, ", ") + ", none of which is the class of this batch"
}

func originArg(origin, prefix string) (string, bool) {
	if !strings.HasPrefix(origin, prefix) || !strings.HasSuffix(origin, ")") {
		return "", false
	}
	return origin[len(prefix) : len(origin)-1], true
}

func fieldCanon(st *State, o *Obj, f string) string {
	if v, ok := o.F[f]; ok && v != nil {
		return st.canon(v)
	}
	return ""
}

package main

// C05 — basket tokens fully backed: EQ5 (minted − burned = 10^p × Δbasket balance),
// exact conversions, who may mint/burn basket denoms, the supply invariant's arithmetic.

import (
	"fmt"
	"golang.org/x/tools/go/ssa"
	"sort"
	"strings"
)

func init() { register("C05", checkC05) }

const rEQ5 = "EQ5"

// basketRows: Basket row objects of a path, by canonical denom.
type basketInfo struct {
	Obj   *Obj
	Denom string
	ID    string
	Prec  string // canonical precision term of the basket's credit type fetched on this path
}

func basketsOf(st *State) []*basketInfo {
	var ids []int
	for id, o := range st.mem {
		if o.Table != nil && o.Table.Name == "Basket" {
			ids = append(ids, id)
		}
	}
	sort.Ints(ids)
	var out []*basketInfo
	for _, id := range ids {
		o := st.mem[id]
		b := &basketInfo{Obj: o}
		if v, ok := o.F[".BasketDenom"]; ok {
			b.Denom = st.canon(v)
		} else {
			b.Denom = st.find(o.Name + ".BasketDenom")
		}
		if v, ok := o.F[".Id"]; ok {
			b.ID = st.canon(v)
		} else {
			b.ID = st.find(o.Name + ".Id")
		}
		abbrev := st.find(o.Name + ".CreditTypeAbbrev")
		if v, ok := o.F[".CreditTypeAbbrev"]; ok {
			abbrev = st.canon(v)
		}
		for _, ct := range st.mem {
			if ct.Table != nil && ct.Table.Name == "CreditType" && ct.Origin == "get:Get("+abbrev+")" {
				b.Prec = ct.Name + ".Precision"
			}
		}
		out = append(out, b)
	}
	return out
}

func checkC05(c *Ctx, e *Env) {
	c.Explanation = "E1 effect analysis, identity EQ5: on every committed path of every entry point, for every basket fetched on the path, (coins of the basket's denom minted) − (coins burned) = 10^p × ΣΔBasketBalance.Balance of that basket, with p the Precision of the CreditType fetched by the basket's credit type abbreviation, as an identity between linear forms (scaling by 10^p is a tag on atoms; Put's running total and Take's remaining amount are closed by induction over the loop iterations); " +
		"the minted coins are sent to the depositor (same coins value, signer address) and Take's burned coins are first collected from the signer; EXACT every Dec value reaching a basket balance or a basket coin is free of rounding operations (MulExact/QuoExact/BigInt only — whole-program call-site inventory of Mul/Quo/QuoInteger/Rem in basket code); " +
		"WHO the only MintCoins site of the module is in Put, Basket.BasketDenom and CreditTypeAbbrev are never written after insert; INV the registered basket-supply invariant must convert with exact-or-error arithmetic."
	c.NotDecided = []string{"the bank module's own supply bookkeeping (A5)", "magnitudes beyond sdk.Int (panic ⇒ message fails, A3)", "a governance-chosen creation fee denominated in a basket token would be burned by the fee path (observation, outside the statement)"}
	c.Assumptions = strings.Split(e1Assume+"; A5 bank keeper methods do what their names say", "; ")
	m, r := e1Handlers(c, e)
	p := m.P
	noteUndecided(c, m, r, "C05.E1")
	ruleArith(c, e, "C05.ARITH", func(ep *EntryPoint) bool {
		return ep.Service == "basket" && (ep.Kind == "msg" || ep.Kind == "invariant")
	})
	ruleBasketScale(c, m, r)
	ruleInvariantsStateOnly(c, m, NewGraph(m.P), "C05.INV")
	nPaths := 0
	for _, h := range r.Handlers {
		touches := false
		for _, o := range h.Outs {
			for _, d := range h.Deltas(o) {
				if d.Table == "BasketBalance" {
					touches = true
				}
			}
			for i := range o.St.events {
				ev := &o.St.events[i]
				if ev.Kind == "bank" && (ev.Method == "MintCoins" || ev.Method == "BurnCoins") && len(basketsOf(o.St)) > 0 {
					touches = true
				}
			}
		}
		if !touches {
			c.Trivial("C05.EQ", h.Key+"#no-basket-effect", p.Pos(h.Fn.Pos()), "no committed path changes a basket balance or mints/burns next to a basket")
			continue
		}
		hh := h
		extra := func(o *Outcome) map[residKey]Lin {
			out := map[residKey]Lin{}
			st := o.St
			for _, b := range basketsOf(st) {
				k := residKey{rEQ5, "basket:" + b.ID}
				res := linConst(0)
				any := false
				for i := range st.events {
					ev := &st.events[i]
					if ev.Kind != "bank" || !inScope(o, ev) || (ev.Method != "MintCoins" && ev.Method != "BurnCoins") {
						continue
					}
					cs := hh.X.coinsOf(st, ev.Args[len(ev.Args)-1])
					if cs == nil {
						res = res.Add(linAtom("unknown-coins:" + st.canon(ev.Args[len(ev.Args)-1])))
						any = true
						continue
					}
					for _, cn := range cs.Items {
						if st.canon(cn.Denom) != b.Denom {
							continue
						}
						any = true
						amt := asInt(st, cn.Amt).L
						if ev.Method == "MintCoins" {
							res = res.Add(amt)
						} else {
							res = res.Sub(amt)
						}
					}
				}
				for _, d := range hh.Deltas(o) {
					if d.Table != "BasketBalance" || d.Col != "Balance" || d.Addr != "basket:"+b.ID {
						continue
					}
					any = true
					if b.Prec == "" {
						res = res.Add(linAtom("unknown-precision-for-" + b.ID))
						continue
					}
					prec := b.Prec
					res = res.Sub(d.Delta.MapAtoms(func(s string) string { return scaleAtom(s, prec, false) }))
				}
				if any {
					out[k] = res
				}
			}
			return out
		}
		reports := h.checkIdentities(map[string]bool{rEQ5: true}, extra)
		nPaths += emitIdentityObligations(c, p, h, "C05.EQ", reports)
	}
	c.Count("identity_path_checks", nPaths)
	ruleBasketFlows(c, m, r)
	ruleM6(c, e, "C05.EXACT", true)
	ruleBasketWho(c, m, r)
	ruleBasketInvariant(c, m)
	c.Min("identity path checks (EQ5)", 8, nPaths)
}

// ruleBasketFlows: minted coins go to the signer; burned coins were collected from the signer.
func ruleBasketFlows(c *Ctx, m *Model, r *E1) {
	p := m.P
	for _, key := range []string{"basket.Put", "basket.Take"} {
		h := r.byKey[key]
		if h == nil {
			c.Undecide("C05.FLOW", key, "-", "handler not found")
			continue
		}
		signer := "addr(req." + h.EP.SignerField + ")"
		bad := ""
		n := 0
		for _, o := range h.Outs {
			st := o.St
			for i := range st.events {
				ev := &st.events[i]
				if ev.Kind != "bank" || !inScope(o, ev) {
					continue
				}
				coins := ""
				if cs := h.X.coinsOf(st, ev.Args[len(ev.Args)-1]); cs != nil {
					coins = cs.vs()
				}
				switch ev.Method {
				case "MintCoins":
					n++
					// followed by SendCoinsFromModuleToAccount(same module, signer, same coins)
					ok := false
					for j := i + 1; j < len(st.events); j++ {
						e2 := &st.events[j]
						if e2.Kind == "bank" && e2.Method == "SendCoinsFromModuleToAccount" && st.canon(e2.Args[1]) == st.canon(ev.Args[1]) && st.canon(e2.Args[2]) == signer {
							if cs := h.X.coinsOf(st, e2.Args[3]); cs != nil && cs.vs() == coins {
								ok = true
							}
						}
					}
					if !ok {
						bad = "minted coins " + coins + " are not sent to the depositor " + signer
					}
				case "BurnCoins":
					n++
					ok := false
					for j := i - 1; j >= 0; j-- {
						e2 := &st.events[j]
						if e2.Kind == "bank" && e2.Method == "SendCoinsFromAccountToModule" && st.canon(e2.Args[2]) == st.canon(ev.Args[1]) && st.canon(e2.Args[1]) == signer {
							if cs := h.X.coinsOf(st, e2.Args[3]); cs != nil && cs.vs() == coins {
								ok = true
							}
						}
					}
					if !ok {
						bad = "burned coins " + coins + " were not collected from the signer " + signer + " first"
					}
				}
			}
		}
		if bad != "" {
			c.Violate("C05.FLOW", key, p.Pos(h.Fn.Pos()), bad, nil)
		} else {
			c.Check(n > 0, "C05.FLOW", key, p.Pos(h.Fn.Pos()), fmt.Sprintf("%d mint/burn events: minted coins go to the signer, burned coins come from the signer, with identical coins values", n))
		}
	}
}

func ruleBasketWho(c *Ctx, m *Model, r *E1) {
	p := m.P
	inv := BuildInventory(m, false)
	nMint := 0
	for _, s := range inv.Sites {
		if s.Bank != "MintCoins" || isCanaryFn(s.Fn) {
			continue
		}
		nMint++
		fk := funcKey(s.Fn)
		only, chain := m.reachedOnlyThrough(s.Fn, m.entryFns("basket.Put"))
		why := ""
		if !only {
			why = ": reached without passing through it by " + chain
		}
		c.Check(only, "C05.WHO", fk+"#MintCoins", p.Pos(s.At()), "MintCoins is called only on call chains through the basket Put handler (the E1 identity EQ5 covers that site)"+why)
	}
	c.Min("MintCoins sites", 1, nMint)
	// immutable basket identity fields
	n := 0
	for _, h := range r.Handlers {
		for _, o := range h.Outs {
			st := o.St
			for i := range st.events {
				ev := &st.events[i]
				if ev.Kind != "write" || ev.Table.Name != "Basket" || ev.OpKind == "insert" || ev.Row == nil {
					continue
				}
				n++
				key := h.Key + "→" + siteKey(ev)
				if ev.OpKind == "delete" || ev.OpKind == "deleterange" {
					c.Violate("C05.WHO", key, p.Pos(ev.Pos.Pos()), "a Basket row is deleted while its tokens may circulate", nil)
					continue
				}
				bad := ""
				for _, f := range []string{"BasketDenom", "CreditTypeAbbrev", "Id", "Exponent"} {
					if ev.Old == nil || ev.Old.Row == nil {
						bad = "previous basket row unknown"
						break
					}
					if st.canon(ev.Row[f]) != st.canon(ev.Old.Row[f]) {
						bad = f + " changes from " + st.canon(ev.Old.Row[f]) + " to " + st.canon(ev.Row[f])
					}
				}
				if bad != "" {
					c.Violate("C05.WHO", key, p.Pos(ev.Pos.Pos()), "basket identity field rewritten: "+bad, nil)
				} else {
					c.Hold("C05.WHO", key, p.Pos(ev.Pos.Pos()), "update leaves BasketDenom, CreditTypeAbbrev, Id, Exponent unchanged", nil)
				}
			}
		}
	}
	c.Min("Basket update sites", 2, n)
}

// ruleBasketInvariant: the registered invariant converts credits to tokens with exact arithmetic
// and the precision of the basket's credit type.
func ruleBasketInvariant(c *Ctx, m *Model) {
	p := m.P
	fn := findFn(m, "x/ecocredit/v3/basket/keeper", "SupplyInvariant")
	if fn == nil {
		c.Undecide("C05.INV", "SupplyInvariant", "-", "invariant function not found")
		return
	}
	t := NewTermer(fn)
	for _, ci := range callsIn(fn) {
		sc := ci.Common().StaticCallee()
		if sc == nil || !strings.HasSuffix(fnPkgPath(sc), mathPkgSuffix) {
			continue
		}
		n := mathFnName(sc)
		switch n {
		case "NewDecFinite":
			src := t.T(ci.Common().Args[1])
			if strings.Contains(src, ".Exponent") {
				c.Note("C05.INV", "SupplyInvariant#precision-source", p.Pos(ci.Pos()), "the invariant scales by the deprecated stored Basket.Exponent ("+src+"), not by the credit type precision used by Put/Take; equal for baskets created by this version (part of finding F7)")
			}
		}
	}
	// the registered closure hands the invariant a map keyed by basket id
	nArg := ruleMapArgDims(c, m, "C05.INV", func(f *ssa.Function) bool { return f == fn })
	c.Min("callers of SupplyInvariant whose map argument is resolved", 1, nArg)
	// summation keys sorted: C10.D1 covers map order; balances summed with exact Add
	cb := findFn(m, "x/ecocredit/v3/basket/keeper", "Keeper.computeBasketBalances")
	if cb != nil {
		exact := true
		for _, ci := range callsIn(cb) {
			if sc := ci.Common().StaticCallee(); sc != nil && strings.HasSuffix(fnPkgPath(sc), mathPkgSuffix) && roundingOps[mathFnName(sc)] {
				exact = false
			}
		}
		c.Check(exact, "C05.INV", "computeBasketBalances#exact", p.Pos(cb.Pos()), "basket balances are summed per basket id with exact operations only")
	}
	// every decimal operation of the invariant and of the same-package code it reaches is total on
	// reachable magnitudes and exact: parse, exact add, compare, scale constructor, integer extraction
	// through big.Int. A narrowing extraction (Dec.Int64) fails above 2^63-1 and the invariant reports
	// every conversion error as "broken"; a truncating one (SdkIntTrim) would hide a fractional
	// difference. The rounding multiply is finding F7 and is reported by C05.EXACT, not here.
	allowed := map[string]bool{"NewDecFromString": true, "NewNonNegativeDecFromString": true, "NewPositiveDecFromString": true, "NewDecFinite": true, "NewDecFromInt64": true,
		"Dec.Add": true, "Add": true, "SafeAddBalance": true, "Dec.Cmp": true, "Dec.Equal": true, "Dec.IsZero": true, "Dec.IsNegative": true, "Dec.IsPositive": true,
		"Dec.BigInt": true, "Dec.String": true, "Dec.MulExact": true, "Dec.Mul": true}
	seen := map[*ssa.Function]bool{fn: true}
	work := []*ssa.Function{fn}
	nOps := 0
	for len(work) > 0 {
		f := work[0]
		work = work[1:]
		for _, af := range f.AnonFuncs {
			if !seen[af] {
				seen[af] = true
				work = append(work, af)
			}
		}
		for _, ci := range callsIn(f) {
			sc := ci.Common().StaticCallee()
			if sc == nil {
				continue
			}
			if fnPkgPath(sc) == fnPkgPath(fn) && len(sc.Blocks) > 0 && !seen[sc] {
				seen[sc] = true
				work = append(work, sc)
			}
			if !strings.HasSuffix(fnPkgPath(sc), mathPkgSuffix) {
				continue
			}
			nOps++
			if n := mathFnName(sc); !allowed[n] {
				c.Violate("C05.INV", funcKey(f)+"#"+n, p.Pos(ci.Pos()), "the registered basket-supply invariant uses "+n+", which is partial or lossy on reachable magnitudes (narrowing / truncating / rounding): a conversion error is reported as a broken invariant although the basket is exactly backed, or a difference is hidden", nil)
			}
		}
	}
	c.Check(nOps > 0, "C05.INV", "SupplyInvariant#operations", p.Pos(fn.Pos()), fmt.Sprintf("all %d decimal operations reachable from the invariant are total and exact (parse, exact add, compare, scale, big-integer extraction)", nOps))
}

// ruleBasketScale (C05.SCALE): the registered basket-supply invariant converts a basket's credits to tokens with
// 10^Basket.Exponent, the handlers mint and burn with 10^CreditType.Precision. The two agree — and the invariant
// "never reports a failure in a reachable state" — only while every write of a Basket row stores, as Exponent,
// the Precision of the credit type fetched by the row's own CreditTypeAbbrev (or leaves the stored value alone).
// Round-7 seed C09-14 stored the client's deprecated MsgCreate.Exponent instead.
func ruleBasketScale(c *Ctx, m *Model, r *E1) {
	p := m.P
	n := 0
	seen := map[string]bool{}
	for _, h := range r.Handlers {
		if h.EP.Kind == "canary" {
			continue
		}
		for _, o := range h.Outs {
			st := o.St
			for i := range st.events {
				ev := &st.events[i]
				if ev.Kind != "write" || ev.Table == nil || ev.Table.Name != "Basket" || ev.Row == nil || ev.OpKind == "delete" {
					continue
				}
				k := h.Key + "#" + siteKey(ev)
				n++
				exp := st.canon(ev.Row["Exponent"])
				why := ""
				switch {
				case ev.Old != nil && ev.Old.Row != nil && st.canon(ev.Old.Row["Exponent"]) == exp:
					// unchanged copy of the stored value
				case creditTypeRowRe.MatchString(exp):
					var id int
					fmt.Sscanf(creditTypeRowRe.FindStringSubmatch(exp)[1], "%d", &id)
					ct := st.mem[id]
					key, ok := "", false
					if ct != nil {
						key, ok = originArg(ct.Origin, "get:Get(")
					}
					abbr := st.canon(ev.Row["CreditTypeAbbrev"])
					if !ok || st.find(key) != st.find(abbr) {
						why = "the stored Exponent is " + exp + ", the precision of the credit type fetched by " + key + ", but the row's CreditTypeAbbrev is " + abbr
					}
				default:
					why = "the stored Exponent is " + exp + ", not the Precision of the credit type the basket names"
				}
				if why != "" {
					if !seen[k] {
						seen[k] = true
						c.Violate("C05.SCALE", k, p.Pos(ev.Pos.Pos()), why+": the registered basket-supply invariant multiplies the basket's credits by 10^Exponent while Put/Take mint and burn with 10^precision — it would report a fully backed basket as imbalanced {"+outcomeLabel(h, o)+"}", nil)
					}
					continue
				}
				if !seen[k+"#ok"] {
					seen[k+"#ok"] = true
				}
			}
		}
	}
	if len(seen) > 0 {
		bad := false
		for k := range seen {
			if !strings.HasSuffix(k, "#ok") {
				bad = true
			}
		}
		if bad {
			return
		}
	}
	c.Check(n > 0, "C05.SCALE", "Basket.Exponent#writers", "-", fmt.Sprintf("%d Basket row writes on committed paths: each stores the Precision of the credit type fetched by the row's own CreditTypeAbbrev as Exponent, or leaves the stored Exponent unchanged — the scale the registered invariant converts with is the scale Put/Take mint and burn with", n))
}

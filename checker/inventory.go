package main

import (
	"fmt"
	"sort"
)

func inventory(mod string) {
	e := &Env{progs: map[string]*Program{}, models: map[string]*Model{}}
	m := e.Model(mod)
	var names []string
	for n := range m.Tables {
		names = append(names, n)
	}
	sort.Strings(names)
	fmt.Printf("module %s: %d repo packages, %d tables\n", mod, len(m.P.Repo), len(names))
	for _, n := range names {
		t := m.Tables[n]
		fmt.Printf("  table %-24s pkg=%s pk=%v autoinc=%v singleton=%v unique=%v\n", n, t.APIPkg, t.PK, t.AutoInc, t.Singleton, t.Unique)
	}
	for _, ep := range m.Entries {
		req := ""
		if ep.Req != nil {
			req = ep.Req.Obj().Name()
		}
		fmt.Printf("  entry %-6s %-34s impl=%v req=%s signer=%s fn=%v\n", ep.Kind, ep.Key(), ep.Implemented, req, ep.SignerField, ep.Fn)
	}
}

package main

// Ledger identities over E1 outcomes: EQ1/EQ2 (C01), EQ3 (C02), EQ4 (C06), EQ5 (C05),
// with loop accumulators closed by induction over the iteration outcomes.

import (
	"fmt"
	"math/big"
	"sort"
	"strings"
)

var debugE1 = false

// residual kinds
const (
	rEQ1 = "EQ1" // ΔsT − Σ(ΔT+ΔE) − ΣΔB          per batch
	rEQ2 = "EQ2" // ΔsR − ΣΔR                      per batch
	rEQ3 = "EQ3" // ΔsT + ΔsR + ΔsC − issued       per batch
	rEQ4 = "EQ4" // ΔE − ΣΔQ                        per (seller, batch)
)

type residKey struct {
	Eq    string
	Group string
}

// residuals computes the raw residuals of an outcome (not yet reduced).
func (h *HandlerResult) residuals(o *Outcome) (map[residKey]Lin, []ColDelta) {
	res := map[residKey]Lin{}
	add := func(eq, group string, l Lin, sign int64) {
		k := residKey{eq, group}
		cur, ok := res[k]
		if !ok {
			cur = linConst(0)
		}
		if sign < 0 {
			cur = cur.Sub(l)
		} else {
			cur = cur.Add(l)
		}
		res[k] = cur
	}
	var bad []ColDelta
	for _, d := range h.Deltas(o) {
		if d.Bad != "" {
			bad = append(bad, d)
			if d.Col == "*" {
				continue
			}
		}
		switch d.Table + "." + d.Col {
		case "BatchSupply.TradableAmount":
			add(rEQ1, d.Batch, d.Delta, +1)
			add(rEQ3, d.Batch, d.Delta, +1)
		case "BatchSupply.RetiredAmount":
			add(rEQ2, d.Batch, d.Delta, +1)
			add(rEQ3, d.Batch, d.Delta, +1)
		case "BatchSupply.CancelledAmount":
			add(rEQ3, d.Batch, d.Delta, +1)
		case "BatchBalance.TradableAmount":
			add(rEQ1, d.Batch, d.Delta, -1)
		case "BatchBalance.EscrowedAmount":
			add(rEQ1, d.Batch, d.Delta, -1)
			add(rEQ4, d.Addr+" / "+d.Batch, d.Delta, +1)
		case "BatchBalance.RetiredAmount":
			add(rEQ2, d.Batch, d.Delta, -1)
		case "BasketBalance.Balance":
			add(rEQ1, d.Batch, d.Delta, -1)
		case "SellOrder.Quantity":
			add(rEQ4, d.Addr+" / "+d.Batch, d.Delta, -1)
		}
	}
	return res, bad
}

// splitLoopAtoms separates occurrences of (possibly scaled) loop atoms.
type loopOcc struct {
	Base  string   // loop atom
	Tags  []string // scale tags applied, outermost first, e.g. "⟨p⟩·"
	Coeff *big.Rat
}

func stripTags(a string) (tags []string, base string) {
	base = a
	for strings.HasPrefix(base, "⟨") {
		i := strings.Index(base, "⟩·")
		if i < 0 {
			break
		}
		tags = append(tags, base[:i+len("⟩·")])
		base = base[i+len("⟩·"):]
	}
	return
}

func applyTags(l Lin, tags []string) Lin {
	out := l
	for i := len(tags) - 1; i >= 0; i-- {
		tag := tags[i]
		inner := strings.TrimSuffix(strings.TrimPrefix(tag, "⟨"), "⟩·")
		inv := strings.HasPrefix(inner, "-")
		p := strings.TrimPrefix(inner, "-")
		out = out.MapAtoms(func(s string) string { return scaleAtom(s, p, inv) })
		if out.C.Sign() != 0 {
			// a constant cannot be scaled symbolically: keep it visible
			out.T["⟨scaled-const⟩"] = new(big.Rat).Set(out.C)
			out.C = new(big.Rat)
		}
	}
	return out
}

func splitLoopAtoms(l Lin) (rest Lin, occ []loopOcc) {
	rest = Lin{C: new(big.Rat).Set(l.C), T: map[string]*big.Rat{}}
	for _, a := range l.Atoms() {
		tags, base := stripTags(a)
		if isLoopAtom(base) {
			occ = append(occ, loopOcc{Base: base, Tags: tags, Coeff: new(big.Rat).Set(l.T[a])})
		} else {
			rest.T[a] = new(big.Rat).Set(l.T[a])
		}
	}
	return
}

// EqReport is one evaluated identity.
type EqReport struct {
	Eq      string
	Group   string
	Outcome *Outcome
	Resid   Lin
	OK      bool
	Why     string
}

// checkIdentities evaluates residual kinds for a handler, closing loop accumulators.
// expected(o, key) gives the right-hand side (e.g. issued amounts for EQ3), may be nil.
func (h *HandlerResult) checkIdentities(eqs map[string]bool, extra func(o *Outcome) map[residKey]Lin) []EqReport {
	var reports []EqReport
	type comp struct {
		key  residKey
		occ  loopOcc
		from *Outcome
	}
	// samePrefix: both paths entered the loop with the same facts (same pre-loop path)
	samePrefix := func(a, b *Outcome, tag string) bool {
		na, nb := -1, -1
		for _, l := range a.St.loops {
			if l.Tag == tag {
				na = l.NFacts
			}
		}
		for _, l := range b.St.loops {
			if l.Tag == tag {
				nb = l.NFacts
			}
		}
		if na < 0 || na != nb || na > len(a.St.facts) || nb > len(b.St.facts) {
			return false
		}
		for i := 0; i < na; i++ {
			if a.St.facts[i] != b.St.facts[i] {
				return false
			}
		}
		return true
	}
	var comps []comp
	iterRes := map[*Outcome]map[residKey]Lin{}
	// pass 1: exit outcomes
	for _, o := range h.Outs {
		res, _ := h.residuals(o)
		if extra != nil {
			for k, v := range extra(o) {
				cur, ok := res[k]
				if !ok {
					cur = linConst(0)
				}
				res[k] = cur.Add(v)
			}
		}
		if o.Kind == exitLoopback {
			iterRes[o] = res
			continue
		}
		inits := loopInits(o)
		for k, r := range res {
			if !eqs[k.Eq] {
				continue
			}
			r = reduce(r, o.St.eqs)
			rest, occ := splitLoopAtoms(r)
			// substitute the initial values of the accumulators
			total := rest
			ok, why := true, ""
			for _, oc := range occ {
				in, known := inits[oc.Base]
				if !known {
					ok, why = false, "loop variable "+oc.Base+" has no known initial value"
					continue
				}
				total = total.Add(scaleLin(applyTags(in, oc.Tags), oc.Coeff))
				comps = append(comps, comp{k, oc, o})
			}
			total = reduce(total, o.St.eqs)
			if ok && !total.IsZero() {
				ok, why = false, "residual "+total.String()
			}
			reports = append(reports, EqReport{Eq: k.Eq, Group: k.Group, Outcome: o, Resid: total, OK: ok, Why: why})
		}
	}
	// pass 2: every (exit, iteration) pair sharing the pre-loop path: the iteration's residual plus the
	// change of the accumulators that THIS exit relies on must vanish.
	type seenKey struct {
		o *Outcome
		k residKey
		r string
	}
	seen := map[seenKey]bool{}
	paired := map[*Outcome]bool{}
	evalIter := func(o *Outcome, exit *Outcome) {
		res := iterRes[o]
		dl := loopDeltas(o)
		keys := map[residKey]bool{}
		for k := range res {
			if eqs[k.Eq] {
				keys[k] = true
			}
		}
		for _, c := range comps {
			if c.from == exit && loopOfAtom(c.occ.Base) == o.Loop {
				keys[c.key] = true
			}
		}
		for k := range keys {
			r, ok := res[k]
			if !ok {
				r = linConst(0)
			}
			dup := map[string]bool{}
			for _, c := range comps {
				if c.from != exit || c.key != k || loopOfAtom(c.occ.Base) != o.Loop {
					continue
				}
				id := c.occ.Base + strings.Join(c.occ.Tags, "") + c.occ.Coeff.RatString()
				if dup[id] {
					continue
				}
				dup[id] = true
				if d, has := dl[c.occ.Base]; has {
					r = r.Add(scaleLin(applyTags(d, c.occ.Tags), c.occ.Coeff))
				}
			}
			r = reduce(r, o.St.eqs)
			sk := seenKey{o, k, r.String()}
			if seen[sk] {
				continue
			}
			seen[sk] = true
			rest, occ := splitLoopAtoms(r)
			okk, why := true, ""
			if len(occ) > 0 {
				okk, why = false, "iteration residual depends on loop variable: "+r.String()
			} else if !rest.IsZero() {
				okk, why = false, "residual "+rest.String()
				if exit != nil {
					why += " (against the successful exit {" + clip(strings.Join(exit.St.facts, " "), 300) + "})"
				}
			}
			reports = append(reports, EqReport{Eq: k.Eq, Group: k.Group, Outcome: o, Resid: r, OK: okk, Why: why})
		}
	}
	for _, ex := range h.Outs {
		if ex.Kind == exitLoopback {
			continue
		}
		for _, l := range ex.St.loops {
			for _, o := range h.Outs {
				if o.Kind == exitLoopback && o.Loop == l.Tag && samePrefix(ex, o, l.Tag) {
					paired[o] = true
					evalIter(o, ex)
				}
			}
		}
	}
	// iterations with no successful exit sharing their prefix: the raw residual must vanish
	for _, o := range h.Outs {
		if o.Kind == exitLoopback && !paired[o] {
			evalIter(o, nil)
		}
	}
	return reports
}

// issuedExtra: EQ3 right-hand side — minus the issuance atoms parsed on this path's own scope.
func issuedExtra(h *HandlerResult) func(o *Outcome) map[residKey]Lin {
	return func(o *Outcome) map[residKey]Lin {
		out := map[residKey]Lin{}
		// issuing handlers only
		switch h.Key {
		case "base.CreateBatch", "base.MintBatchCredits", "base.BridgeReceive":
		default:
			return out
		}
		return out
	}
}

// reportKey: stable obligation key for an identity class.
func eqClassKey(h *HandlerResult, r EqReport) string {
	kind := "exit"
	if r.Outcome.Kind == exitLoopback {
		kind = "iter:" + r.Outcome.Loop
	}
	return fmt.Sprintf("%s#%s#%s#%s", h.Key, r.Eq, kind, r.Group)
}

// emitIdentityObligations folds path-level reports into one obligation per
// (handler, equation, scope, group): holds iff it holds on every path.
func emitIdentityObligations(c *Ctx, p *Program, h *HandlerResult, rule string, reports []EqReport) (paths int) {
	type agg struct {
		n   int
		bad *EqReport
		any *EqReport
	}
	m := map[string]*agg{}
	var order []string
	for i := range reports {
		r := &reports[i]
		k := eqClassKey(h, *r)
		a := m[k]
		if a == nil {
			a = &agg{}
			m[k] = a
			order = append(order, k)
		}
		a.n++
		a.any = r
		if !r.OK && a.bad == nil {
			a.bad = r
		}
	}
	sort.Strings(order)
	for _, k := range order {
		a := m[k]
		paths += a.n
		pos := p.Pos(h.Fn.Pos())
		if a.bad != nil {
			c.Violate(rule, k, pos, fmt.Sprintf("identity %s broken on path {%s}: %s; effects: %s", a.bad.Eq, outcomeLabel(h, a.bad.Outcome), a.bad.Why, oneLine(h.X.effectSignature(a.bad.Outcome))), nil)
		} else {
			c.Hold(rule, k, pos, fmt.Sprintf("identity %s holds on all %d committed paths of this scope (sample effects: %s)", a.any.Eq, a.n, clip(oneLine(h.X.effectSignature(a.any.Outcome)), 400)), nil)
		}
	}
	return
}

func oneLine(s string) string { return strings.Join(strings.Fields(s), " ") }

func clip(s string, n int) string {
	if len(s) > n {
		return s[:n] + "…"
	}
	return s
}

package main

// C12 — expired sell orders are refunded at block start; BeginBlock failure modes inventoried.

import (
	"fmt"
	"go/types"
	"sort"
	"strings"

	"golang.org/x/tools/go/ssa"
)

func init() { register("C12", checkC12) }

// error origins of the prune path, each mapped to what makes it unreachable in a reachable state.
var pruneErrs = map[string]string{
	"orm:SellOrder.ListRange":   "store error (A1)",
	"iter.Value":                "store/decoding error (A1)",
	"math.NewDecFromString":     "stored quantity / balance strings are valid decimals (C01.SIGN, C06.FIELDS)",
	"orm:BatchBalance.Get":      "a seller with an open order has a balance row (C06.EQ: escrow = Σ order quantities > 0)",
	"math.SafeSubBalance":       "escrowed ≥ order quantity (C06.EQ)",
	"math.SafeAddBalance":       "stored amounts are non-negative (C01.SIGN)",
	"orm:BatchBalance.Update":   "the row was just read (A1)",
	"orm:SellOrder.DeleteRange": "store error (A1)",
}

func checkC12(c *Ctx, e *Env) {
	c.Explanation = "CHAIN (call graph + dominators) Module.BeginBlock reaches marketplace PruneSellOrders and panics on its error (a failure is loud, never skipped); RANGE (E1) ListRange and DeleteRange on SellOrder use the same two keys on the expiration index, lower = timestamp of time.Unix(0, 1) (excludes the nil ≡ epoch encoding), upper = timestamp of the context's block time, and the delete is reached only after the iterator is exhausted; " +
		"REFUND (E1) every iterated order's quantity moves from the seller's escrowed to the seller's tradable balance of the order's batch (EQ4 with the range delete modelled through its iterator), nothing else is written; FUTURE (E1 relation extraction) every SellOrder insert/update that stores an expiration lies behind blockTime < expiration for exactly the stored value (accept set {>}), so with the inclusive upper bound no order with expiration ≤ T survives BeginBlock(T) and BuyDirect in block T only sees orders expiring after T; " +
		"ERRS the error origins of all aborting paths of PruneSellOrders are enumerated and each is mapped to the invariant that makes it unreachable; a new origin is undecided."
	c.NotDecided = []string{"'never returns an error or panics' is conditional on C01/C06 and A1 — stated, not hidden", "ORM ordering/encoding of timestamps on the expiration index (A1)"}
	c.Assumptions = strings.Split(e1Assume, "; ")
	m, r := e1Handlers(c, e)
	p := m.P
	noteUndecided(c, m, r, "C12.E1")
	importObligations(c, e, checkC06, "C06", "C12.ESCROW", "escrow-covers-open-orders", "the begin-block refund subtracts every expired order from its seller's escrow; it cannot fail only while escrow equals the sum of the open orders", func(o *Oblig) bool { return o.Rule == "C06.EQ" })
	importObligations(c, e, checkC10, "C10", "C12.LOUD", "begin block#no-recover", "a failure of the begin-block prune is loud (the module panics on its error): a recover() on the way would turn a failed or out-of-gas prune into a silent nil, and expired orders would stay open", func(o *Oblig) bool { return o.Rule == "C10.D8" || o.Rule == "C10.CLOSURE" })
	ruleArith(c, e, "C12.ARITH", func(ep *EntryPoint) bool {
		return ep.Service == "marketplace" && (ep.Kind == "msg" || ep.Kind == "beginblock")
	})
	h := r.byKey["marketplace.PruneSellOrders"]
	if h == nil {
		c.Undecide("C12.E1", "PruneSellOrders", "-", "prune function not found")
		return
	}
	// ---- CHAIN
	var begin *ssa.Function
	for _, pk := range m.P.RepoList {
		if !strings.HasSuffix(pk.PkgPath, "x/ecocredit/v3/module") {
			continue
		}
		if tn, ok := pk.Types.Scope().Lookup("Module").(*types.TypeName); ok {
			if sel := m.P.SSA.MethodSets.MethodSet(tn.Type()).Lookup(pk.Types, "BeginBlock"); sel != nil {
				begin = m.P.SSA.MethodValue(sel)
			}
		}
	}
	if begin == nil {
		c.Undecide("C12.CHAIN", "Module.BeginBlock", "-", "Module.BeginBlock not found")
	} else {
		g := NewGraph(p)
		cl := g.Closure([]*ssa.Function{begin})
		c.Check(cl[h.Fn], "C12.CHAIN", "BeginBlock→PruneSellOrders", p.Pos(begin.Pos()), "Module.BeginBlock reaches PruneSellOrders: "+g.PathTo(h.Fn))
		// panics on error: a Panic instruction behind err != nil of the BeginBlocker result
		loud := false
		for _, ci := range callsIn(begin) {
			call, ok := ci.(*ssa.Call)
			if !ok || !isErrorType(call.Type()) {
				continue
			}
			for _, rf := range *call.Referrers() {
				bo, ok := rf.(*ssa.BinOp)
				if !ok || !(isNilConst(bo.X) || isNilConst(bo.Y)) {
					continue
				}
				ifi, br := branchOf(bo, bo.Op.String() == "!=")
				if ifi == nil {
					continue
				}
				for _, b := range begin.Blocks {
					if _, isPanic := b.Instrs[len(b.Instrs)-1].(*ssa.Panic); isPanic && edgeDominates(ifi.Block(), br, b) {
						loud = true
					}
				}
			}
		}
		c.Check(loud, "C12.CHAIN", "BeginBlock#panics-on-error", p.Pos(begin.Pos()), "an error from the begin blocker is turned into a panic (never silently skipped)")
	}
	// ---- RANGE / REFUND on E1 outcomes
	pos := p.Pos(h.Fn.Pos())
	rangeOK, refundOK := "", ""
	nIter := 0
	for _, o := range h.Outs {
		st := o.St
		for i := range st.events {
			ev := &st.events[i]
			if ev.Kind == "read" && ev.OpKind == "list" && ev.Table.Name == "SellOrder" {
				var ks []string
				for _, k := range ev.Keys {
					ks = append(ks, st.canon(k))
				}
				want := []string{"SellOrderExpirationIndexKey.WithExpiration(ts(Unix(0, 1)))", "SellOrderExpirationIndexKey.WithExpiration(ts(blocktime))"}
				if ev.Method != "ListRange" || strings.Join(ks, " | ") != strings.Join(want, " | ") {
					rangeOK = "scan is " + ev.Method + "(" + strings.Join(ks, ", ") + "), required ListRange(" + strings.Join(want, ", ") + ")"
				}
			}
		}
		if o.Kind != exitLoopback {
			continue
		}
		nIter++
		// refund shape: ΔE = −Q, ΔT = +Q on the seller's row of the order's batch; nothing else
		var row *Obj
		for i := range st.events {
			ev := &st.events[i]
			if ev.Kind == "read" && ev.OpKind == "itervalue" && inScope(o, ev) {
				row = st.mem[ev.RowObj]
			}
		}
		if row == nil {
			refundOK = "iteration without an iterated order"
			continue
		}
		q := linAtom("parse(" + row.Name + ".Quantity)")
		var dT, dE, other Lin = linConst(0), linConst(0), linConst(0)
		for _, d := range h.Deltas(o) {
			right := d.Table == "BatchBalance" && d.Addr == row.Name+".Seller" && d.Batch == "batchkey<"+row.Name+".BatchKey>"
			switch {
			case right && d.Col == "TradableAmount":
				dT = dT.Add(d.Delta)
			case right && d.Col == "EscrowedAmount":
				dE = dE.Add(d.Delta)
			default:
				other = other.Add(d.Delta)
				if !d.Delta.IsZero() || d.Bad != "" {
					refundOK = fmt.Sprintf("unexpected write %s[%s|%s].%s Δ=%s %s", d.Table, d.Addr, d.Batch, d.Col, d.Delta.String(), d.Bad)
				}
			}
		}
		if !dT.Sub(q).IsZero() || !dE.Add(q).IsZero() {
			refundOK = fmt.Sprintf("refund of the iterated order is Δtradable = %s, Δescrowed = %s (required +Q, −Q for the order's seller and batch)", dT.String(), dE.String())
		}
	}
	if rangeOK != "" {
		c.Violate("C12.RANGE", "PruneSellOrders#bounds", pos, rangeOK, nil)
	} else {
		c.Hold("C12.RANGE", "PruneSellOrders#bounds", pos, "scan range is [timestamp(1 ns), timestamp(block time)] on the expiration index", nil)
	}
	rulePruneShape(c, p, h)
	for i := range c.Obligs {
		if c.Obligs[i].Rule == "C06.PRUNE" {
			c.Obligs[i].Rule = "C12.RANGE"
		}
	}
	if refundOK != "" {
		c.Violate("C12.REFUND", "PruneSellOrders#refund", pos, refundOK, nil)
	} else {
		c.Check(nIter > 0, "C12.REFUND", "PruneSellOrders#refund", pos, fmt.Sprintf("all %d committed iterations move exactly the order's quantity from the seller's escrow to the seller's tradable balance", nIter))
	}
	hh := h
	rangeDel := rangeDeleteKeys(hh)
	extra := func(o *Outcome) map[residKey]Lin {
		out := map[residKey]Lin{}
		st := o.St
		ent := hh.X.batchEntities(st)
		for i := range st.events {
			ev := &st.events[i]
			if ev.Kind != "read" || ev.OpKind != "itervalue" || ev.Table.Name != "SellOrder" || !inScope(o, ev) {
				continue
			}
			it := ev.Keys[0].(*IterV)
			if !rangeDel[iterKeyString(st, it)] {
				continue
			}
			row := st.mem[ev.RowObj]
			k := residKey{rEQ4, st.find(row.Name+".Seller") + " / " + hh.X.entityOf(st, ent, &Sym{N: row.Name + ".BatchKey"})}
			out[k] = linAtom("parse(" + row.Name + ".Quantity)")
		}
		return out
	}
	emitIdentityObligations(c, p, h, "C12.REFUND", h.checkIdentities(map[string]bool{rEQ4: true}, extra))
	// ---- FUTURE
	ruleFutureExpiration(c, p, r)
	// ---- ERRS
	var origins []string
	for o := range h.AbortOrigins {
		origins = append(origins, o)
	}
	sort.Strings(origins)
	for _, o := range origins {
		base := o
		if i := strings.Index(o, "("); i > 0 && !strings.HasPrefix(o, "orm:") {
			base = o[:i]
		}
		if why, ok := pruneErrs[base]; ok {
			c.Hold("C12.ERRS", "PruneSellOrders#err:"+base, pos, fmt.Sprintf("error exit (%d paths) unreachable in a reachable state because: %s", h.AbortOrigins[o], why), nil)
		} else {
			c.Undecide("C12.ERRS", "PruneSellOrders#err:"+base, pos, "new error exit of begin-block processing ("+o+"): it must be shown unreachable in every reachable state")
		}
	}
	c.Count("prune_error_origins", len(origins))
	c.Min("prune error origins inventoried", 6, len(origins))
}

// ruleFutureExpiration: stored expirations are strictly after the block time.
func ruleFutureExpiration(c *Ctx, p *Program, r *E1) {
	type agg struct {
		ev  *Event
		n   int
		bad string
	}
	for _, key := range []string{"marketplace.Sell", "marketplace.UpdateSellOrders"} {
		h := r.byKey[key]
		if h == nil {
			c.Undecide("C12.FUTURE", key, "-", "handler not found")
			continue
		}
		sites := map[string]*agg{}
		for _, o := range h.Outs {
			st := o.St
			for i := range st.events {
				ev := &st.events[i]
				if ev.Kind != "write" || ev.Table.Name != "SellOrder" || !inScope(o, ev) || ev.Row == nil || ev.OpKind == "delete" {
					continue
				}
				k := h.Key + "→" + siteKey(ev)
				a := sites[k]
				if a == nil {
					a = &agg{ev: ev}
					sites[k] = a
				}
				a.n++
				exp := st.canon(ev.Row["Expiration"])
				if exp == "nil" {
					continue
				}
				if ev.Old != nil && ev.Old.Row != nil && exp == st.canon(ev.Old.Row["Expiration"]) {
					continue
				}
				if !strings.HasPrefix(exp, "ts(") {
					if a.bad == "" {
						a.bad = "stored expiration " + exp + " is not the timestamp of a checked time value"
					}
					continue
				}
				t := strings.TrimSuffix(strings.TrimPrefix(exp, "ts("), ")")
				cands := []string{t, strings.TrimPrefix(t, "*"), "*" + t}
				ok := false
				for _, cd := range cands {
					if factBefore(st, "+TimeLt(blocktime, "+cd+")", ev) {
						ok = true
					}
				}
				if !ok && a.bad == "" {
					a.bad = "expiration " + t + " is stored without the fact blockTime < expiration for that value on path {" + clip(strings.Join(st.facts, " "), 500) + "}"
				}
			}
		}
		var ks []string
		for k := range sites {
			ks = append(ks, k)
		}
		sort.Strings(ks)
		for _, k := range ks {
			a := sites[k]
			if a.bad != "" {
				c.Violate("C12.FUTURE", k, p.Pos(a.ev.Pos.Pos()), a.bad, nil)
			} else {
				c.Hold("C12.FUTURE", k, p.Pos(a.ev.Pos.Pos()), fmt.Sprintf("every stored (new) expiration lies behind blockTime < expiration on all %d path visits", a.n), nil)
			}
		}
		if len(sites) == 0 {
			c.Undecide("C12.FUTURE", key, "-", "no SellOrder write found")
		}
	}
}

package main

// Canaries: tiny positive examples, injected as an overlay-only package
// <module>/zzverifcanary, on which zero-expected rules MUST fire on every run.

import (
	"embed"
	"go/types"
	"path/filepath"
	"sort"
	"strings"

	"golang.org/x/tools/go/ssa"
)

const canaryPkgName = "zzverifcanary"

//go:embed canaries/*.go.txt
var canaryFS embed.FS

func withCanary(mod string, overlay map[string][]byte) map[string][]byte {
	name := "canaries/" + filepath.Base(mod) + ".go.txt"
	b, err := canaryFS.ReadFile(name)
	if err != nil {
		return overlay
	}
	out := map[string][]byte{}
	for k, v := range overlay {
		out[k] = v
	}
	out[filepath.Join(repoRoot, mod, canaryPkgName, "canary.go")] = b
	return out
}

// canaryFns returns every function and method declared in the canary package.
func canaryFns(m *Model) []*ssa.Function {
	var out []*ssa.Function
	for _, pk := range m.P.RepoList {
		if !strings.HasSuffix(pk.PkgPath, "/"+canaryPkgName) {
			continue
		}
		sp := m.P.ssaPkgs[pk.Types]
		if sp == nil {
			continue
		}
		for _, mem := range sp.Members {
			switch x := mem.(type) {
			case *ssa.Function:
				out = append(out, x)
			case *ssa.Type:
				for _, recv := range []types.Type{x.Type(), types.NewPointer(x.Type())} {
					ms := m.P.SSA.MethodSets.MethodSet(recv)
					for i := 0; i < ms.Len(); i++ {
						if f := m.P.SSA.MethodValue(ms.At(i)); f != nil && f.Synthetic == "" {
							out = append(out, f)
						}
					}
				}
			}
		}
	}
	sort.Slice(out, func(i, j int) bool { return out[i].String() < out[j].String() })
	return out
}

func isCanaryFn(f *ssa.Function) bool { return strings.Contains(fnPkgPath(f), canaryPkgName) }

package main

// Call-graph closure over repo functions. Static callees, closures, function
// values and interface invokes (resolved CHA-style against every repo type that
// implements the interface). Dependencies are leaves.

import (
	"go/types"
	"sort"
	"strings"

	"golang.org/x/tools/go/ssa"
)

type Graph struct {
	P        *Program
	implMemo map[string][]*ssa.Function
	allNamed []*types.Named
	Callers  map[*ssa.Function][]*ssa.Function
}

func NewGraph(p *Program) *Graph {
	g := &Graph{P: p, implMemo: map[string][]*ssa.Function{}}
	for _, pk := range p.RepoList {
		sc := pk.Types.Scope()
		for _, n := range sc.Names() {
			if tn, ok := sc.Lookup(n).(*types.TypeName); ok && !tn.IsAlias() {
				if nt, ok := tn.Type().(*types.Named); ok {
					if nt.TypeParams().Len() == 0 {
						g.allNamed = append(g.allNamed, nt)
					}
				}
			}
		}
	}
	return g
}

func (g *Graph) isRepoFn(f *ssa.Function) bool {
	if f == nil {
		return false
	}
	if f.Pkg != nil {
		return isRepoPkgPath(f.Pkg.Pkg.Path())
	}
	if f.Parent() != nil {
		return g.isRepoFn(f.Parent())
	}
	if o := f.Object(); o != nil && o.Pkg() != nil {
		return isRepoPkgPath(o.Pkg().Path())
	}
	// synthetic wrappers / bound methods / instantiations
	if f.Origin() != nil {
		return g.isRepoFn(f.Origin())
	}
	return false
}

func fnPkgPath(f *ssa.Function) string {
	for f != nil {
		if f.Pkg != nil {
			return f.Pkg.Pkg.Path()
		}
		if o := f.Object(); o != nil && o.Pkg() != nil {
			return o.Pkg().Path()
		}
		if f.Parent() != nil {
			f = f.Parent()
			continue
		}
		if f.Origin() != nil {
			f = f.Origin()
			continue
		}
		break
	}
	return ""
}

// implementations of an interface method among repo types.
func (g *Graph) Impl(iface types.Type, m *types.Func) []*ssa.Function {
	key := iface.String() + "#" + m.Name()
	if r, ok := g.implMemo[key]; ok {
		return r
	}
	it, ok := iface.Underlying().(*types.Interface)
	var out []*ssa.Function
	if ok {
		for _, nt := range g.allNamed {
			if _, isI := nt.Underlying().(*types.Interface); isI {
				continue
			}
			if pp := nt.Obj().Pkg().Path(); strings.Contains(pp, "/mocks") || strings.Contains(pp, "/testutil") {
				continue // gomock doubles: test-only implementations, never linked into the chain binary's wiring
			}
			for _, recv := range []types.Type{nt, types.NewPointer(nt)} {
				if !types.Implements(recv, it) {
					continue
				}
				sel := g.P.SSA.MethodSets.MethodSet(recv).Lookup(m.Pkg(), m.Name())
				if sel == nil {
					continue
				}
				if f := g.P.SSA.MethodValue(sel); f != nil {
					out = append(out, f)
				}
				break
			}
		}
	}
	g.implMemo[key] = out
	return out
}

// Callees returns the repo functions a function may call or reference.
func (g *Graph) Callees(fn *ssa.Function) []*ssa.Function {
	var out []*ssa.Function
	add := func(f *ssa.Function) {
		if f != nil && g.isRepoFn(f) {
			out = append(out, f)
		}
	}
	for _, af := range fn.AnonFuncs {
		add(af)
	}
	for _, b := range fn.Blocks {
		for _, in := range b.Instrs {
			if ci, ok := in.(ssa.CallInstruction); ok {
				cc := ci.Common()
				if cc.IsInvoke() {
					for _, f := range g.Impl(cc.Value.Type(), cc.Method) {
						add(f)
					}
				} else if sc := cc.StaticCallee(); sc != nil {
					add(sc)
				}
			}
			// function values used as operands
			for _, op := range in.Operands(nil) {
				if op == nil || *op == nil {
					continue
				}
				if f, ok := (*op).(*ssa.Function); ok {
					add(f)
				}
			}
		}
	}
	return out
}

// Closure computes functions reachable from roots (roots included).
func (g *Graph) Closure(roots []*ssa.Function) map[*ssa.Function]bool {
	seen := map[*ssa.Function]bool{}
	g.Callers = map[*ssa.Function][]*ssa.Function{}
	var work []*ssa.Function
	for _, r := range roots {
		if r != nil && !seen[r] {
			seen[r] = true
			work = append(work, r)
		}
	}
	for len(work) > 0 {
		f := work[len(work)-1]
		work = work[:len(work)-1]
		for _, c := range g.Callees(f) {
			g.Callers[c] = append(g.Callers[c], f)
			if !seen[c] {
				seen[c] = true
				work = append(work, c)
			}
		}
	}
	return seen
}

// PathTo gives one call chain root→fn for diagnostics.
func (g *Graph) PathTo(fn *ssa.Function) string {
	var chain []string
	seen := map[*ssa.Function]bool{}
	for fn != nil && !seen[fn] {
		seen[fn] = true
		chain = append(chain, funcKey(fn))
		cs := g.Callers[fn]
		if len(cs) == 0 {
			break
		}
		fn = cs[0]
	}
	for i, j := 0, len(chain)-1; i < j; i, j = i+1, j-1 {
		chain[i], chain[j] = chain[j], chain[i]
	}
	return strings.Join(chain, " → ")
}

func sortedFns(m map[*ssa.Function]bool) []*ssa.Function {
	var out []*ssa.Function
	for f := range m {
		out = append(out, f)
	}
	sort.Slice(out, func(i, j int) bool { return out[i].String() < out[j].String() })
	return out
}

// isSubjectFn: a repo function written by hand (not generated) with a body.
func (g *Graph) isSubjectFn(f *ssa.Function) bool {
	if f == nil || len(f.Blocks) == 0 || !g.isRepoFn(f) {
		return false
	}
	if f.Synthetic != "" && f.Parent() == nil && f.Origin() == nil {
		// wrappers, bound methods, init: init is synthetic "package initializer" — keep it; an
		// instantiation of a hand-written generic function is hand-written code too
		if !strings.HasPrefix(f.Synthetic, "package init") {
			return false
		}
	}
	pos := f.Pos()
	if !pos.IsValid() {
		for p := f.Parent(); p != nil && !pos.IsValid(); p = p.Parent() {
			pos = p.Pos()
		}
	}
	if pos.IsValid() && isGeneratedFile(g.P.Fset.Position(pos).Filename) {
		return false
	}
	if !pos.IsValid() && f.Synthetic != "" {
		// package initializer: decide by package (api packages are entirely generated)
		if strings.Contains(fnPkgPath(f), "/api/v2/") {
			return false
		}
	}
	return true
}

// pkgClass classifies a repo package path for closure exclusions.
func excludedPkg(path string) string {
	sp := shortPkg(path)
	for _, s := range []string{"/simulation", "/client", "/testsuite", "/mocks", "/migrations", "/testutil", "/tests"} {
		if strings.Contains(sp, s) {
			return s
		}
	}
	return ""
}

// ConsensusRoots: implemented msg handlers, module BeginBlock/EndBlock/InitGenesis/
// ExportGenesis/RegisterInvariants of `module` packages.
func (m *Model) ConsensusRoots() []*ssa.Function {
	var roots []*ssa.Function
	for _, e := range m.Entries {
		if e.Kind == "msg" && e.Implemented && e.Fn != nil {
			roots = append(roots, e.Fn)
		}
	}
	for _, pk := range m.P.RepoList {
		if !strings.HasSuffix(pk.PkgPath, "/module") {
			continue
		}
		tn, ok := pk.Types.Scope().Lookup("Module").(*types.TypeName)
		if !ok {
			tn, ok = pk.Types.Scope().Lookup("AppModule").(*types.TypeName)
			if !ok {
				continue
			}
		}
		for _, recv := range []types.Type{tn.Type(), types.NewPointer(tn.Type())} {
			ms := m.P.SSA.MethodSets.MethodSet(recv)
			for _, name := range []string{"BeginBlock", "EndBlock", "InitGenesis", "ExportGenesis", "RegisterInvariants"} {
				if sel := ms.Lookup(pk.Types, name); sel != nil {
					if f := m.P.SSA.MethodValue(sel); f != nil {
						// skip wrapper if the value-receiver method exists
						roots = append(roots, f)
					}
				}
			}
		}
	}
	return roots
}

package main

// E1 — intrinsic summaries, selected by the type-resolved callee (package path +
// receiver + name). types/math is a closed layer: never inlined (its shape is
// checked separately by the C19 rules), only summarised.

import (
	"fmt"
	"go/types"
	"math/big"
	"sort"
	"strings"

	"golang.org/x/tools/go/ssa"
)

func newErr(st *State, origin string, state int8) *ErrV {
	e := &ErrV{ID: st.newID(), Origin: origin, At: len(st.facts)}
	if state != 0 {
		st.errs[e.ID] = state
	}
	return e
}

// asDec coerces a value to a decimal.
func asDec(st *State, v Val) *DecV {
	switch d := v.(type) {
	case *DecV:
		return d
	case *StructV:
		return &DecV{L: linAtom("opaque:" + d.vs())}
	}
	return &DecV{L: linAtom("opaque:" + vstr(v))}
}

func asInt(st *State, v Val) *IntV {
	switch i := v.(type) {
	case *IntV:
		return i
	case *KConst:
		var n int64
		if _, err := fmt.Sscanf(i.S, "%d", &n); err == nil {
			return &IntV{L: linConst(n), NonNeg: n >= 0}
		}
	}
	return &IntV{L: linAtom("opaque:" + vstr(v))}
}

// parseDec: the decimal denoted by a string value.
func (x *Explorer) parseDec(st *State, s Val) *DecV {
	switch v := s.(type) {
	case *DecStr:
		d := *v.D
		return &d
	case *KConst:
		var n int64
		t := strings.Trim(v.S, `"`)
		if t == "" {
			return &DecV{L: linConst(0), NonNeg: true, Fixed: "*"}
		}
		if _, err := fmt.Sscanf(t, "%d", &n); err == nil && fmt.Sprint(n) == t {
			return &DecV{L: linConst(n), NonNeg: n >= 0, Pos: n > 0, Fixed: "*"}
		}
	}
	atom := "parse(" + st.canon(s) + ")"
	d := &DecV{L: linAtom(atom)}
	if a := st.atomAttr[atom]; a != nil {
		d.NonNeg, d.Pos, d.Fixed = a.NonNeg, a.Pos, a.Fixed
	}
	return d
}

func (st *State) attr(atom string) *AtomAttr {
	a := st.atomAttr[atom]
	if a == nil {
		a = &AtomAttr{}
		st.atomAttr[atom] = a
	}
	return a
}

// constrain records what a successful constructor proves about the parsed atom.
func (x *Explorer) constrain(st *State, d *DecV, nonneg, pos bool, fixed string) *DecV {
	r := *d
	if nonneg {
		r.NonNeg = true
	}
	if pos {
		r.Pos, r.NonNeg = true, true
	}
	if fixed != "" && r.Fixed != "*" {
		r.Fixed = fixed
	}
	if len(r.L.T) == 1 && r.L.C.Sign() == 0 {
		for a, c := range r.L.T {
			if c.Cmp(big.NewRat(1, 1)) == 0 {
				st.events = append(st.events, Event{Kind: "call", Method: "Parse", Args: []Val{&Sym{N: a}}, Loop: x.curTag, Seq: len(st.events)})
				at := st.attr(a)
				at.NonNeg = at.NonNeg || r.NonNeg
				at.Pos = at.Pos || r.Pos
				if fixed != "" {
					at.Fixed = fixed
				}
			}
		}
	}
	return &r
}

func decSum(a, b *DecV, sub bool) *DecV {
	r := &DecV{}
	if sub {
		r.L = a.L.Sub(b.L)
		if b.L.IsConst() && b.L.C.Sign() <= 0 {
			r.NonNeg, r.Pos = a.NonNeg, a.Pos
		}
	} else {
		r.L = a.L.Add(b.L)
		r.NonNeg = a.NonNeg && b.NonNeg
		r.Pos = r.NonNeg && (a.Pos || b.Pos)
	}
	switch {
	case a.Fixed == "*":
		r.Fixed = b.Fixed
	case b.Fixed == "*":
		r.Fixed = a.Fixed
	case a.Fixed == b.Fixed:
		r.Fixed = a.Fixed
	}
	r.Inexact = a.Inexact || b.Inexact
	return r
}

func (x *Explorer) sliceElems(st *State, v Val) ([]Val, bool) {
	p, ok := v.(*Ptr)
	if !ok {
		if isK(v, "nil") {
			return nil, true
		}
		return nil, false
	}
	o := st.mem[p.O]
	if o == nil {
		return nil, false
	}
	var idx []int
	for k := range o.F {
		var i int
		if _, err := fmt.Sscanf(k, p.Path+"[%d]", &i); err == nil && k == fmt.Sprintf("%s[%d]", p.Path, i) {
			idx = append(idx, i)
		}
	}
	sort.Ints(idx)
	var out []Val
	for n, i := range idx {
		if n != i {
			return nil, false
		}
		out = append(out, o.F[fmt.Sprintf("%s[%d]", p.Path, i)])
	}
	return out, true
}

func (x *Explorer) coinOf(st *State, v Val) *CoinV {
	switch c := v.(type) {
	case *CoinV:
		return c
	case *StructV:
		return &CoinV{Denom: orZero(c.F[".Denom"], `""`), Amt: orZero(c.F[".Amount"], "0")}
	case *Ptr:
		if o := st.mem[c.O]; o != nil {
			return &CoinV{Denom: orZero(o.F[c.Path+".Denom"], `""`), Amt: orZero(o.F[c.Path+".Amount"], "0")}
		}
	case *SymPtr:
		return &CoinV{Denom: &Sym{N: c.Base + ".Denom"}, Amt: &IntV{L: linAtom("intfield(" + c.Base + ".Amount)")}}
	case *Sym:
		return &CoinV{Denom: &Sym{N: c.N + ".Denom"}, Amt: &IntV{L: linAtom("intfield(" + c.N + ".Amount)")}}
	}
	return &CoinV{Denom: &Sym{N: vstr(v) + ".Denom"}, Amt: &IntV{L: linAtom("opaque:" + vstr(v) + ".Amount")}}
}

func (x *Explorer) coinsOf(st *State, v Val) *CoinsV {
	if c, ok := v.(*CoinsV); ok {
		return c
	}
	if els, ok := x.sliceElems(st, v); ok {
		out := &CoinsV{}
		for _, e := range els {
			out.Items = append(out.Items, x.coinOf(st, e))
		}
		return out
	}
	return nil
}

func sortedPair(a, b string) (string, string) {
	if b < a {
		return b, a
	}
	return a, b
}

func (x *Explorer) intrinsic(fr *Frame, st *State, ins *ssa.Call, callee *ssa.Function, args []Val) (Val, bool) {
	pkg := fnPkgPath(callee)
	name := shortFn(callee)
	T := func(vs ...Val) Val { return &Tuple{Vs: vs} }
	switch {
	// ------------------------------------------------------------ types/math
	case strings.HasSuffix(pkg, mathPkgSuffix):
		switch name {
		case "NewDecFromString":
			return T(x.parseDec(st, args[0]), newErr(st, "math."+name, 0)), true
		case "NewNonNegativeDecFromString":
			return T(x.constrain(st, x.parseDec(st, args[0]), true, false, ""), newErr(st, "math."+name, 0)), true
		case "NewPositiveDecFromString":
			return T(x.constrain(st, x.parseDec(st, args[0]), true, true, ""), newErr(st, "math."+name, 0)), true
		case "NewNonNegativeFixedDecFromString":
			return T(x.constrain(st, x.parseDec(st, args[0]), true, false, st.canon(args[1])), newErr(st, "math."+name, 0)), true
		case "NewPositiveFixedDecFromString":
			return T(x.constrain(st, x.parseDec(st, args[0]), true, true, st.canon(args[1])), newErr(st, "math."+name, 0)), true
		case "NewDecFromInt64":
			if k, ok := args[0].(*KConst); ok {
				var n int64
				fmt.Sscanf(k.S, "%d", &n)
				return &DecV{L: linConst(n), NonNeg: n >= 0, Pos: n > 0, Fixed: "*"}, true
			}
			return &DecV{L: linAtom("int64(" + st.canon(args[0]) + ")"), Fixed: "*"}, true
		case "NewDecFinite":
			if isK(args[0], "1") {
				p := st.canon(args[1])
				return &DecV{L: linAtom("pow10(" + p + ")"), NonNeg: true, Pos: true, Pow10: p}, true
			}
			return &DecV{L: linAtom("finite(" + st.canon(args[0]) + "," + st.canon(args[1]) + ")")}, true
		case "Dec.Add", "Add":
			return T(decSum(asDec(st, args[0]), asDec(st, args[1]), false), newErr(st, "math.Add", 0)), true
		case "SafeAddBalance":
			r := decSum(asDec(st, args[0]), asDec(st, args[1]), false)
			r.NonNeg = true // success implies both operands were non-negative
			return T(r, newErr(st, "math.SafeAddBalance", 0)), true
		case "Dec.Sub":
			return T(decSum(asDec(st, args[0]), asDec(st, args[1]), true), newErr(st, "math.Sub", 0)), true
		case "SafeSubBalance", "SubNonNegative":
			r := decSum(asDec(st, args[0]), asDec(st, args[1]), true)
			r.NonNeg = true // success implies the result is not negative
			st.events = append(st.events, Event{Kind: "call", Method: "SafeSub", Args: []Val{asDec(st, args[0]), asDec(st, args[1])}, Loop: x.loopTag(fr, ins.Block()), Pos: ins, Fn: fr.fn, Seq: len(st.events)})
			return T(r, newErr(st, "math."+name, 0)), true
		case "Dec.Mul", "Dec.MulExact", "Dec.Quo", "Dec.QuoExact", "Dec.QuoInteger", "Dec.Rem":
			a, b := asDec(st, args[0]), asDec(st, args[1])
			exact := name == "Dec.MulExact" || name == "Dec.QuoExact"
			isMul := strings.HasPrefix(name, "Dec.Mul")
			var r *DecV
			scale := func(d *DecV, p string, inv bool) *DecV {
				if d.L.C.Sign() != 0 {
					return nil // a non-zero constant cannot be scaled symbolically
				}
				return &DecV{L: d.L.MapAtoms(func(s string) string { return scaleAtom(s, p, inv) }), NonNeg: d.NonNeg, Pos: d.Pos}
			}
			isQuo := name == "Dec.Quo" || name == "Dec.QuoExact"
			switch {
			case isMul && a.L.IsConst():
				r = &DecV{L: scaleLin(b.L, a.L.C), NonNeg: a.L.C.Sign() >= 0 && b.NonNeg, Pos: a.L.C.Sign() > 0 && b.Pos}
			case isMul && b.L.IsConst():
				r = &DecV{L: scaleLin(a.L, b.L.C), NonNeg: b.L.C.Sign() >= 0 && a.NonNeg, Pos: b.L.C.Sign() > 0 && a.Pos}
			case isMul && a.Pow10 != "":
				r = scale(b, a.Pow10, false)
			case isMul && b.Pow10 != "":
				r = scale(a, b.Pow10, false)
			case isQuo && b.Pow10 != "":
				r = scale(a, b.Pow10, true)
			}
			if r == nil {
				op := "mul"
				if !isMul {
					op = strings.ToLower(strings.TrimPrefix(name, "Dec."))
				}
				as, bs := regLin(a.L), regLin(b.L)
				if isMul {
					as, bs = sortedPair(as, bs)
				}
				r = &DecV{L: linAtom(op + "[" + as + " ; " + bs + "]"), NonNeg: a.NonNeg && b.NonNeg, Pos: a.Pos && b.Pos}
			}
			r.Inexact = a.Inexact || b.Inexact || !exact
			st.events = append(st.events, Event{Kind: "call", Method: name, Args: []Val{a, b, r}, Loop: x.loopTag(fr, ins.Block()), Pos: ins, Fn: fr.fn, Seq: len(st.events)})
			return T(r, newErr(st, "math."+name, 0)), true
		case "Dec.String":
			return &DecStr{D: asDec(st, args[0])}, true
		case "Dec.Cmp":
			return &CmpV{A: asDec(st, args[0]).L, B: asDec(st, args[1]).L}, true
		case "Dec.Equal":
			return &BoolV{F: "Eq0(" + regLin(asDec(st, args[0]).L.Sub(asDec(st, args[1]).L)) + ")"}, true
		case "Dec.IsZero":
			d := asDec(st, args[0])
			if d.L.IsConst() {
				if d.L.C.Sign() == 0 {
					return kTrue, true
				}
				return kFalse, true
			}
			return &BoolV{F: "Eq0(" + regLin(d.L) + ")"}, true
		case "Dec.IsPositive":
			if d := asDec(st, args[0]); d.L.IsConst() {
				if d.L.C.Sign() > 0 {
					return kTrue, true
				}
				return kFalse, true
			}
			return &BoolV{F: "Gt0(" + regLin(asDec(st, args[0]).L) + ")"}, true
		case "Dec.IsNegative":
			if d := asDec(st, args[0]); d.L.IsConst() {
				if d.L.C.Sign() < 0 {
					return kTrue, true
				}
				return kFalse, true
			}
			return &BoolV{F: "Lt0(" + regLin(asDec(st, args[0]).L) + ")"}, true
		case "Dec.IsFinite":
			return kTrue, true
		case "Dec.SdkIntTrim":
			d := asDec(st, args[0])
			return &IntV{L: linAtom("trunc[" + regLin(d.L) + "]"), NonNeg: d.NonNeg, Inexact: d.Inexact}, true
		case "Dec.BigInt":
			d := asDec(st, args[0])
			return T(&IntV{L: d.L, NonNeg: d.NonNeg, Inexact: d.Inexact}, newErr(st, "math.BigInt", 0)), true
		case "Dec.Int64":
			return T(&Sym{N: "int64of(" + regLin(asDec(st, args[0]).L) + ")"}, newErr(st, "math.Int64", 0)), true
		case "Dec.NumDecimalPlaces":
			return &Sym{N: "places(" + regLin(asDec(st, args[0]).L) + ")"}, true
		case "Dec.Reduce":
			return T(asDec(st, args[0]), &Sym{N: "reduced"}), true
		}
		return nil, false
	// ------------------------------------------------------------ server/utils
	case strings.HasSuffix(pkg, "x/ecocredit/v3/server/utils") && name == "GetNonNegativeFixedDecs":
		strs, ok := x.sliceElems(st, args[1])
		if !ok {
			st.note("GetNonNegativeFixedDecs with a non-literal argument list")
			return nil, false
		}
		arr := st.newObj("array", ins.Type())
		p := st.canon(args[0])
		for i, s := range strs {
			arr.F[fmt.Sprintf("[%d]", i)] = x.constrain(st, x.parseDec(st, s), true, false, p)
		}
		return T(&Ptr{O: arr.ID}, newErr(st, "utils.GetNonNegativeFixedDecs", 0)), true
	// ------------------------------------------------------------ cosmos-sdk types
	case strings.HasSuffix(pkg, "cosmos-sdk/types"):
		switch name {
		case "AccAddressFromBech32":
			return T(&Sym{N: "addr(" + st.canon(args[0]) + ")", T: ins.Type()}, newErr(st, "bech32("+st.canon(args[0])+")", 0)), true
		case "MustAccAddressFromBech32":
			return &Sym{N: "addr(" + st.canon(args[0]) + ")", T: ins.Type()}, true
		case "AccAddress.Equals":
			a, b := sortedPair(st.canon(args[0]), st.canon(args[1]))
			if a == b {
				return kTrue, true
			}
			return &BoolV{F: "AddrEq(" + a + ", " + b + ")"}, true
		case "AccAddress.String":
			if s, ok := args[0].(*Sym); ok && strings.HasPrefix(s.N, "addr(") {
				// String(FromBech32(s)) is s for a valid address
				return &Sym{N: strings.TrimSuffix(strings.TrimPrefix(st.canon(args[0]), "addr("), ")"), T: ins.Type()}, true
			}
			return &Sym{N: "addrstr(" + st.canon(args[0]) + ")", T: ins.Type()}, true
		case "AccAddress.Empty":
			return &BoolV{F: "Empty(" + st.canon(args[0]) + ")"}, true
		case "UnwrapSDKContext", "WrapSDKContext":
			return &Sym{N: "ctx", T: ins.Type()}, true
		case "Context.BlockTime":
			return &Sym{N: "blocktime", T: ins.Type()}, true
		case "EventManager.EmitTypedEvent", "EventManager.EmitTypedEvents":
			return x.emitEvent(fr, st, ins, args), true
		case "Context.EventManager", "Context.GasMeter", "Context.Logger", "Context.BlockHeight":
			return &Sym{N: name, T: ins.Type()}, true
		case "NewCoin":
			amt := asInt(st, args[1])
			// was the amount provably ≥ 0 BEFORE this call (NewCoin panics otherwise)?
			proven := amt.NonNeg || amt.L.C.Sign() >= 0
			if !amt.NonNeg {
				for a, cf := range amt.L.T {
					at := st.atomAttr[a]
					if cf.Sign() < 0 || at == nil || !at.NonNeg {
						if !(cf.Sign() >= 0 && (strings.HasPrefix(a, "bankbal(") || storedLedgerAtom.MatchString(a))) {
							proven = false
						}
					}
				}
			}
			pv := kFalse
			if proven {
				pv = kTrue
			}
			defer func() {
				for i := len(st.events) - 1; i >= 0; i-- {
					if st.events[i].Kind == "call" && st.events[i].Method == "NewCoin" {
						st.events[i].Args = append(st.events[i].Args, pv)
						break
					}
				}
			}()
			// sdk.NewCoin panics on a negative amount: on the continuing path the amount is ≥ 0
			if len(amt.L.T) == 1 && amt.L.C.Sign() == 0 {
				for a, cf := range amt.L.T {
					if cf.Cmp(big.NewRat(1, 1)) == 0 {
						st.attr(a).NonNeg = true
					}
				}
			}
			st.events = append(st.events, Event{Kind: "call", Method: "NewCoin", Args: []Val{args[0], amt}, Loop: x.loopTag(fr, ins.Block()), Pos: ins, Fn: fr.fn, Facts: len(st.facts), Seq: len(st.events)})
			return &CoinV{Denom: args[0], Amt: amt}, true
		case "NewInt64Coin":
			return &CoinV{Denom: args[0], Amt: asInt(st, args[1])}, true
		case "NewCoins":
			if cs := x.coinsOf(st, args[0]); cs != nil {
				return &CoinsV{Items: cs.Items, Sanitised: true}, true
			}
			return nil, false
		case "Coin.IsLT", "Coin.IsGTE", "Coin.IsLTE", "Coin.IsGT":
			a, b := x.coinOf(st, args[0]), x.coinOf(st, args[1])
			d := regLin(asInt(st, a.Amt).L.Sub(asInt(st, b.Amt).L))
			switch name {
			case "Coin.IsLT":
				return &BoolV{F: "Lt0(" + d + ")"}, true
			case "Coin.IsGTE":
				return &BoolV{F: "Lt0(" + d + ")", Neg: true}, true
			case "Coin.IsGT":
				return &BoolV{F: "Gt0(" + d + ")"}, true
			}
			return &BoolV{F: "Gt0(" + d + ")", Neg: true}, true
		case "Coin.IsNil":
			c := x.coinOf(st, args[0])
			return &BoolV{F: "IntNil(" + st.canon(c.Amt) + ")"}, true
		case "Coin.IsPositive":
			return &BoolV{F: "Gt0(" + regLin(asInt(st, x.coinOf(st, args[0]).Amt).L) + ")"}, true
		case "Coin.IsZero":
			return &BoolV{F: "Eq0(" + regLin(asInt(st, x.coinOf(st, args[0]).Amt).L) + ")"}, true
		case "Coin.String", "Coins.String":
			return &Sym{N: "coinstr(" + vstr(args[0]) + ")", T: ins.Type()}, true
		case "NewInt", "NewIntFromUint64":
			return asInt(st, args[0]), true
		case "NewIntFromBigInt":
			return asInt(st, args[0]), true
		case "NewIntFromString":
			return x.intFromString(st, args[0]), true
		}
	case pkg == "cosmossdk.io/math":
		switch name {
		case "NewInt", "NewIntFromUint64", "NewIntFromBigInt":
			return asInt(st, args[0]), true
		case "NewIntFromString":
			return x.intFromString(st, args[0]), true
		case "Int.Add":
			a, b := asInt(st, args[0]), asInt(st, args[1])
			return &IntV{L: a.L.Add(b.L), NonNeg: a.NonNeg && b.NonNeg, Inexact: a.Inexact || b.Inexact}, true
		case "Int.Sub":
			a, b := asInt(st, args[0]), asInt(st, args[1])
			return &IntV{L: a.L.Sub(b.L), Inexact: a.Inexact || b.Inexact}, true
		case "Int.String":
			i := asInt(st, args[0])
			return &DecStr{D: &DecV{L: i.L, NonNeg: i.NonNeg, Fixed: "*"}}, true
		case "Int.GT":
			return &BoolV{F: "Gt0(" + regLin(asInt(st, args[0]).L.Sub(asInt(st, args[1]).L)) + ")"}, true
		case "Int.LT":
			return &BoolV{F: "Lt0(" + regLin(asInt(st, args[0]).L.Sub(asInt(st, args[1]).L)) + ")"}, true
		case "Int.GTE":
			return &BoolV{F: "Lt0(" + regLin(asInt(st, args[0]).L.Sub(asInt(st, args[1]).L)) + ")", Neg: true}, true
		case "Int.LTE":
			return &BoolV{F: "Gt0(" + regLin(asInt(st, args[0]).L.Sub(asInt(st, args[1]).L)) + ")", Neg: true}, true
		case "Int.Equal":
			return &BoolV{F: "Eq0(" + regLin(asInt(st, args[0]).L.Sub(asInt(st, args[1]).L)) + ")"}, true
		case "Int.IsPositive":
			return &BoolV{F: "Gt0(" + regLin(asInt(st, args[0]).L) + ")"}, true
		case "Int.IsNegative":
			return &BoolV{F: "Lt0(" + regLin(asInt(st, args[0]).L) + ")"}, true
		case "Int.IsZero":
			return &BoolV{F: "Eq0(" + regLin(asInt(st, args[0]).L) + ")"}, true
		case "Int.IsNil":
			return &BoolV{F: "IntNil(" + st.canon(args[0]) + ")"}, true
		}
	case strings.HasSuffix(pkg, "regen-ledger/types/v2"):
		switch name {
		case "CoinFromCosmosAPILegacy":
			base := ""
			switch p := args[0].(type) {
			case *SymPtr:
				base = p.Base
			case *Sym:
				base = p.N
			default:
				base = vstr(args[0])
			}
			amt := x.intFromString(st, x.typed(st, &Sym{N: base + ".Amount"})).(*Tuple).Vs[0]
			return &CoinV{Denom: &Sym{N: base + ".Denom"}, Amt: amt}, true
		case "CoinToCosmosAPILegacy", "CoinToProtoCoin":
			c := x.coinOf(st, args[0])
			o := st.newObj("struct", nil)
			o.F[".Denom"] = c.Denom
			i := asInt(st, c.Amt)
			o.F[".Amount"] = &DecStr{D: &DecV{L: i.L, NonNeg: i.NonNeg, Fixed: "*"}}
			return &Ptr{O: o.ID}, true
		}
	case pkg == "bytes" && name == "Equal":
		a, b := sortedPair(st.canon(args[0]), st.canon(args[1]))
		if a == b {
			return kTrue, true
		}
		return &BoolV{F: "AddrEq(" + a + ", " + b + ")"}, true
	case pkg == "strings" && name == "ToLower":
		return &Sym{N: "lower(" + st.canon(args[0]) + ")", T: ins.Type()}, true
	case strings.HasSuffix(pkg, "ormerrors") && name == "IsNotFound":
		if e, ok := args[0].(*ErrV); ok {
			if st.errs[e.ID] == 1 {
				return kFalse, true
			}
			return &BoolV{F: fmt.Sprintf("ErrIs(%d,NotFound)", e.ID)}, true
		}
	case pkg == "cosmossdk.io/errors":
		switch name {
		case "Error.Wrap", "Error.Wrapf":
			return newErr(st, "wrap:"+st.canon(args[0]), 2), true
		case "Error.Is":
			if e, ok := args[1].(*ErrV); ok {
				if st.errs[e.ID] == 1 {
					return kFalse, true
				}
				return &BoolV{F: fmt.Sprintf("ErrIs(%d,%s)", e.ID, sentinelClass(vstr(args[0])))}, true
			}
			if isK(args[1], "nil") {
				return kFalse, true
			}
		case "Wrap", "Wrapf":
			if e, ok := args[0].(*ErrV); ok {
				return e, true
			}
			if isK(args[0], "nil") {
				return kNil, true
			}
		case "New", "Register":
			return newErr(st, "errors."+name, 2), true
		}
	case pkg == "fmt" && name == "Errorf", pkg == "errors" && name == "New":
		// fmt.Errorf("…: %w", err): the error that is wrapped, with more text — it is that error's
		// failure, not a new way to fail
		if name == "Errorf" {
			var found *ErrV
			n := 0
			for _, a := range args[1:] {
				if pv, ok := a.(*Ptr); ok {
					if o := st.mem[pv.O]; o != nil {
						for _, fv := range o.F {
							if ev, isE := fv.(*ErrV); isE {
								found = ev
								n++
							}
						}
					}
				}
				if ev, isE := a.(*ErrV); isE {
					found = ev
					n++
				}
			}
			if n == 1 && st.errs[found.ID] != 1 {
				return found, true
			}
		}
		return newErr(st, pkg+"."+name, 2), true
	case strings.HasSuffix(pkg, "grpc/status") && (name == "Error" || name == "Errorf"):
		return newErr(st, "status."+name, 2), true
	case pkg == "time":
		switch name {
		case "Time.After":
			return &BoolV{F: "TimeLt(" + st.canon(args[1]) + ", " + st.canon(args[0]) + ")"}, true
		case "Time.Before":
			return &BoolV{F: "TimeLt(" + st.canon(args[0]) + ", " + st.canon(args[1]) + ")"}, true
		case "Time.Equal":
			a, b := sortedPair(st.canon(args[0]), st.canon(args[1]))
			return &BoolV{F: "TimeEq(" + a + ", " + b + ")"}, true
		case "Time.UTC":
			return args[0], true
		case "Time.Compare":
			return &TCmpV{A: st.canon(args[0]), B: st.canon(args[1])}, true
		}
	case strings.HasSuffix(pkg, "gogoproto/types") && name == "Timestamp.Compare":
		return &TCmpV{A: st.canon(args[0]), B: st.canon(args[1])}, true
	case strings.HasSuffix(pkg, "timestamppb"):
		switch name {
		case "New":
			return &Sym{N: "ts(" + st.canon(args[0]) + ")", T: ins.Type()}, true
		case "Timestamp.AsTime":
			s := st.canon(args[0])
			if strings.HasPrefix(s, "ts(") {
				return &Sym{N: strings.TrimSuffix(strings.TrimPrefix(s, "ts("), ")"), T: ins.Type()}, true
			}
			return &Sym{N: "time(" + s + ")", T: ins.Type()}, true
		}
	}
	// gogo ⇄ pulsar converters copy every field of `from` into `to`
	if (callee.Name() == "GogoToPulsarSlow" || callee.Name() == "gogoToProtoReflect" || callee.Name() == "PulsarToGogoSlow") && len(args) == 2 && isRepoPkgPath(pkg) {
		if p, ok := args[1].(*Ptr); ok {
			if o := st.mem[p.O]; o != nil {
				o.Kind = "row"
				o.Name = "conv(" + st.canon(args[0]) + ")"
				o.Origin = "converted"
				for k := range o.F {
					delete(o.F, k)
				}
			}
		}
		return newErr(st, "convert", 0), true
	}
	// generated ORM index keys: <T><Fields>IndexKey.With<Fields>(values…)
	if strings.Contains(pkg, "/api/v2/") && strings.HasPrefix(callee.Name(), "With") && callee.Signature.Recv() != nil && len(args) >= 1 {
		if nt := namedOf(callee.Signature.Recv().Type()); nt != nil && strings.HasSuffix(nt.Obj().Name(), "IndexKey") {
			k := &IndexKeyV{Type: nt.Obj().Name()}
			var as []string
			for i := 0; i < callee.Signature.Params().Len() && i+1 < len(args); i++ {
				k.Fields = append(k.Fields, snakeToCamel(callee.Signature.Params().At(i).Name()))
				k.Vals = append(k.Vals, args[i+1])
				as = append(as, st.canon(args[i+1]))
			}
			k.Name = nt.Obj().Name() + "." + callee.Name() + "(" + strings.Join(as, ", ") + ")"
			k.PrefixOnly = -1
			if n := callee.Signature.Params().Len(); n > 0 && x.terminalKey(nt, n) {
				switch lt := callee.Signature.Params().At(n - 1).Type().Underlying().(type) {
				case *types.Basic:
					if lt.Kind() == types.String {
						k.PrefixOnly = n - 1
					}
				case *types.Slice:
					k.PrefixOnly = n - 1
				}
			}
			return k, true
		}
	}
	// generated ORM iterator Value()
	if strings.Contains(pkg, "/api/v2/") && callee.Name() == "Value" && len(args) == 1 {
		if it, ok := args[0].(*IterV); ok {
			return x.iterValue(fr, st, ins, it), true
		}
	}
	return nil, false
}

// terminalKey: the With… method with n parameters binds *all* components of a primary key or of a unique
// index (nothing follows the last component in the encoded key, so a trailing string is unterminated).
func (x *Explorer) terminalKey(keyType *types.Named, n int) bool {
	name := keyType.Obj().Name()
	// the full key is the With… method with the most parameters
	max := 0
	for i := 0; i < keyType.NumMethods(); i++ {
		if m := keyType.Method(i); strings.HasPrefix(m.Name(), "With") {
			if sig, ok := m.Type().(*types.Signature); ok && sig.Params().Len() > max {
				max = sig.Params().Len()
			}
		}
	}
	if n != max {
		return false
	}
	if strings.HasSuffix(name, "PrimaryKey") {
		return true
	}
	for _, t := range x.M.Tables {
		if !strings.HasPrefix(name, t.Name) {
			continue
		}
		rest := strings.TrimSuffix(strings.TrimPrefix(name, t.Name), "IndexKey")
		if _, uniq := t.Unique["GetBy"+rest]; uniq {
			return true
		}
	}
	return false
}

// intFromString models sdk.NewIntFromString (base-0 big.Int.SetString!).
func (x *Explorer) intFromString(st *State, s Val) Val {
	ok := &BoolV{F: "IntOK(" + st.canon(s) + ")"}
	switch v := s.(type) {
	case *DecStr:
		// the canonical decimal rendering of an integer value parses back to itself in any base-0 reading
		if v.D.Fixed == "*" {
			return &Tuple{Vs: []Val{&IntV{L: v.D.L, NonNeg: v.D.NonNeg, Inexact: v.D.Inexact}, ok}}
		}
	case *KConst:
		var n int64
		t := strings.Trim(v.S, `"`)
		if _, err := fmt.Sscanf(t, "%d", &n); err == nil && fmt.Sprint(n) == t {
			return &Tuple{Vs: []Val{&IntV{L: linConst(n), NonNeg: n >= 0}, kTrue}}
		}
	}
	return &Tuple{Vs: []Val{&IntV{L: linAtom("int0(" + st.canon(s) + ")")}, ok}}
}

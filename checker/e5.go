package main

// E5 — regular-language engine: regexp/syntax → NFA over byte classes, product
// exploration for inclusion (A ⊆ B) and intersection emptiness, with shortest witnesses.
// Exhaustive over all strings: the one place where "for all inputs" is decided outright.

import (
	"fmt"
	"go/ast"
	"go/constant"
	"go/token"
	"go/types"
	"regexp/syntax"
	"sort"
	"strconv"
	"strings"

	"golang.org/x/tools/go/packages"
)

const maxSym = 128 // 0..127 ASCII, 128 = any non-ASCII rune

type nfaEdge struct {
	lo, hi int // inclusive symbol range; lo<0 = epsilon
	to     int
}

type nfa struct {
	edges  [][]nfaEdge
	start  int
	accept int
}

func (n *nfa) newState() int {
	n.edges = append(n.edges, nil)
	return len(n.edges) - 1
}

func (n *nfa) eps(a, b int)             { n.edges[a] = append(n.edges[a], nfaEdge{-1, -1, b}) }
func (n *nfa) rng(a, b int, lo, hi int) { n.edges[a] = append(n.edges[a], nfaEdge{lo, hi, b}) }

func clipRune(r rune) int {
	if r > 127 {
		return maxSym
	}
	return int(r)
}

// build compiles re between states (in, out).
func (n *nfa) build(re *syntax.Regexp, in, out int) error {
	switch re.Op {
	case syntax.OpEmptyMatch, syntax.OpBeginText, syntax.OpEndText, syntax.OpBeginLine, syntax.OpEndLine:
		n.eps(in, out)
	case syntax.OpLiteral:
		cur := in
		for i, r := range re.Rune {
			next := out
			if i < len(re.Rune)-1 {
				next = n.newState()
			}
			c := clipRune(r)
			n.rng(cur, next, c, c)
			if re.Flags&syntax.FoldCase != 0 {
				for _, f := range []rune{r + 32, r - 32} {
					if (f >= 'a' && f <= 'z' && r >= 'A' && r <= 'Z') || (f >= 'A' && f <= 'Z' && r >= 'a' && r <= 'z') {
						n.rng(cur, next, int(f), int(f))
					}
				}
			}
			cur = next
		}
		if len(re.Rune) == 0 {
			n.eps(in, out)
		}
	case syntax.OpCharClass:
		for i := 0; i+1 < len(re.Rune); i += 2 {
			lo, hi := re.Rune[i], re.Rune[i+1]
			if lo <= 127 {
				h := hi
				if h > 127 {
					h = 127
				}
				n.rng(in, out, int(lo), int(h))
			}
			if hi > 127 {
				n.rng(in, out, maxSym, maxSym)
			}
		}
	case syntax.OpAnyChar:
		n.rng(in, out, 0, maxSym)
	case syntax.OpAnyCharNotNL:
		n.rng(in, out, 0, 9)
		n.rng(in, out, 11, maxSym)
	case syntax.OpCapture:
		return n.build(re.Sub[0], in, out)
	case syntax.OpConcat:
		cur := in
		for i, s := range re.Sub {
			next := out
			if i < len(re.Sub)-1 {
				next = n.newState()
			}
			if err := n.build(s, cur, next); err != nil {
				return err
			}
			cur = next
		}
		if len(re.Sub) == 0 {
			n.eps(in, out)
		}
	case syntax.OpAlternate:
		for _, s := range re.Sub {
			if err := n.build(s, in, out); err != nil {
				return err
			}
		}
	case syntax.OpStar:
		m := n.newState()
		n.eps(in, m)
		n.eps(m, out)
		if err := n.build(re.Sub[0], m, m); err != nil {
			return err
		}
	case syntax.OpPlus:
		m := n.newState()
		if err := n.build(re.Sub[0], in, m); err != nil {
			return err
		}
		n.eps(m, out)
		if err := n.build(re.Sub[0], m, m); err != nil {
			return err
		}
	case syntax.OpQuest:
		n.eps(in, out)
		return n.build(re.Sub[0], in, out)
	case syntax.OpRepeat:
		cur := in
		for i := 0; i < re.Min; i++ {
			next := n.newState()
			if err := n.build(re.Sub[0], cur, next); err != nil {
				return err
			}
			cur = next
		}
		if re.Max < 0 {
			m := n.newState()
			n.eps(cur, m)
			if err := n.build(re.Sub[0], m, m); err != nil {
				return err
			}
			n.eps(m, out)
		} else {
			n.eps(cur, out)
			for i := re.Min; i < re.Max; i++ {
				next := n.newState()
				if err := n.build(re.Sub[0], cur, next); err != nil {
					return err
				}
				n.eps(next, out)
				cur = next
			}
		}
	case syntax.OpNoMatch:
	default:
		return fmt.Errorf("unsupported regexp construct %v", re.Op)
	}
	return nil
}

func compileRegex(src string) (*nfa, error) {
	re, err := syntax.Parse(src, syntax.Perl)
	if err != nil {
		return nil, err
	}
	n := &nfa{}
	n.start = n.newState()
	n.accept = n.newState()
	if err := n.build(re, n.start, n.accept); err != nil {
		return nil, err
	}
	return n, nil
}

type stateSet []int

func (s stateSet) key() string {
	var b strings.Builder
	for _, x := range s {
		b.WriteString(strconv.Itoa(x))
		b.WriteByte(',')
	}
	return b.String()
}

func (n *nfa) closure(in []int) stateSet {
	seen := map[int]bool{}
	var stack []int
	for _, s := range in {
		if !seen[s] {
			seen[s] = true
			stack = append(stack, s)
		}
	}
	for len(stack) > 0 {
		s := stack[len(stack)-1]
		stack = stack[:len(stack)-1]
		for _, e := range n.edges[s] {
			if e.lo < 0 && !seen[e.to] {
				seen[e.to] = true
				stack = append(stack, e.to)
			}
		}
	}
	var out stateSet
	for s := range seen {
		out = append(out, s)
	}
	sort.Ints(out)
	return out
}

func (n *nfa) step(s stateSet, sym int) stateSet {
	var next []int
	for _, st := range s {
		for _, e := range n.edges[st] {
			if e.lo >= 0 && e.lo <= sym && sym <= e.hi {
				next = append(next, e.to)
			}
		}
	}
	return n.closure(next)
}

func (n *nfa) accepting(s stateSet) bool {
	for _, st := range s {
		if st == n.accept {
			return true
		}
	}
	return false
}

// symbolReps: one representative symbol per equivalence class of the two automata.
func symbolReps(as ...*nfa) []int {
	cuts := map[int]bool{0: true, maxSym + 1: true}
	for _, a := range as {
		for _, es := range a.edges {
			for _, e := range es {
				if e.lo >= 0 {
					cuts[e.lo] = true
					cuts[e.hi+1] = true
				}
			}
		}
	}
	var cs []int
	for c := range cuts {
		cs = append(cs, c)
	}
	sort.Ints(cs)
	var reps []int
	for i := 0; i+1 < len(cs); i++ {
		reps = append(reps, cs[i])
	}
	return reps
}

// witness searches the product for a string with (inA == wantA) && (inB == wantB); BFS ⇒ shortest.
func witness(a, b *nfa, wantA, wantB bool) (string, bool, int) {
	reps := symbolReps(a, b)
	type node struct {
		sa, sb stateSet
		w      string
	}
	start := node{a.closure([]int{a.start}), b.closure([]int{b.start}), ""}
	seen := map[string]bool{start.sa.key() + "|" + start.sb.key(): true}
	queue := []node{start}
	states := 0
	for len(queue) > 0 {
		cur := queue[0]
		queue = queue[1:]
		states++
		if a.accepting(cur.sa) == wantA && b.accepting(cur.sb) == wantB {
			return cur.w, true, states
		}
		for _, sym := range reps {
			na, nb := a.step(cur.sa, sym), b.step(cur.sb, sym)
			if len(na) == 0 && wantA {
				continue
			}
			if len(nb) == 0 && wantB {
				continue
			}
			k := na.key() + "|" + nb.key()
			if seen[k] {
				continue
			}
			seen[k] = true
			ch := string(rune(sym))
			if sym == maxSym {
				ch = "é"
			}
			queue = append(queue, node{na, nb, cur.w + ch})
		}
		if states > 200000 {
			return "", false, -states
		}
	}
	return "", false, states
}

// langIncluded: L(a) ⊆ L(b)? Returns a counterexample otherwise.
func langIncluded(aSrc, bSrc string) (ok bool, counter string, states int, err error) {
	a, err := compileRegex("^(?:" + aSrc + ")$")
	if err != nil {
		return false, "", 0, err
	}
	b, err := compileRegex("^(?:" + bSrc + ")$")
	if err != nil {
		return false, "", 0, err
	}
	w, found, n := witness(a, b, true, false)
	if n < 0 {
		return false, "", -n, fmt.Errorf("state cap exceeded")
	}
	return !found, w, n, nil
}

// langDisjoint: L(a) ∩ L(b) = ∅? Returns a common string otherwise.
func langDisjoint(aSrc, bSrc string) (ok bool, common string, states int, err error) {
	a, err := compileRegex("^(?:" + aSrc + ")$")
	if err != nil {
		return false, "", 0, err
	}
	b, err := compileRegex("^(?:" + bSrc + ")$")
	if err != nil {
		return false, "", 0, err
	}
	w, found, n := witness(a, b, true, true)
	if n < 0 {
		return false, "", -n, fmt.Errorf("state cap exceeded")
	}
	return !found, w, n, nil
}

// ---- constant evaluation of string initialisers ------------------------------------------

// evalString evaluates a string-valued expression built from literals, package-level
// variables with evaluable initialisers, constants, + and fmt.Sprintf with %s/%d/%v verbs.
func evalString(pk *packages.Package, all map[string]*packages.Package, e ast.Expr, depth int) (string, bool) {
	if depth > 12 {
		return "", false
	}
	if tv, ok := pk.TypesInfo.Types[e]; ok && tv.Value != nil {
		switch tv.Value.Kind() {
		case constant.String:
			return constant.StringVal(tv.Value), true
		case constant.Int:
			return tv.Value.ExactString(), true
		}
	}
	switch x := e.(type) {
	case *ast.ParenExpr:
		return evalString(pk, all, x.X, depth+1)
	case *ast.BasicLit:
		if x.Kind == token.STRING {
			s, err := strconv.Unquote(x.Value)
			return s, err == nil
		}
	case *ast.BinaryExpr:
		if x.Op == token.ADD {
			a, ok1 := evalString(pk, all, x.X, depth+1)
			b, ok2 := evalString(pk, all, x.Y, depth+1)
			return a + b, ok1 && ok2
		}
	case *ast.Ident, *ast.SelectorExpr:
		var id *ast.Ident
		if i, ok := x.(*ast.Ident); ok {
			id = i
		} else {
			id = x.(*ast.SelectorExpr).Sel
		}
		obj := pk.TypesInfo.Uses[id]
		v, ok := obj.(*types.Var)
		if !ok || v.Pkg() == nil {
			return "", false
		}
		dp := all[v.Pkg().Path()]
		if dp == nil {
			return "", false
		}
		// find the initialiser
		for _, f := range dp.Syntax {
			for _, d := range f.Decls {
				gd, ok := d.(*ast.GenDecl)
				if !ok || gd.Tok != token.VAR {
					continue
				}
				for _, sp := range gd.Specs {
					vs := sp.(*ast.ValueSpec)
					for i, n := range vs.Names {
						if dp.TypesInfo.Defs[n] == obj && i < len(vs.Values) {
							return evalString(dp, all, vs.Values[i], depth+1)
						}
					}
				}
			}
		}
	case *ast.CallExpr:
		sel, ok := x.Fun.(*ast.SelectorExpr)
		if !ok || sel.Sel.Name != "Sprintf" || len(x.Args) == 0 {
			return "", false
		}
		if pid, ok := sel.X.(*ast.Ident); !ok || pid.Name != "fmt" {
			return "", false
		}
		format, ok := evalString(pk, all, x.Args[0], depth+1)
		if !ok {
			return "", false
		}
		var out strings.Builder
		arg := 1
		for i := 0; i < len(format); i++ {
			if format[i] != '%' {
				out.WriteByte(format[i])
				continue
			}
			i++
			if i >= len(format) {
				return "", false
			}
			switch format[i] {
			case '%':
				out.WriteByte('%')
			case 's', 'd', 'v':
				if arg >= len(x.Args) {
					return "", false
				}
				s, ok := evalString(pk, all, x.Args[arg], depth+1)
				if !ok {
					return "", false
				}
				out.WriteString(s)
				arg++
			default:
				return "", false
			}
		}
		return out.String(), true
	}
	return "", false
}

// regexSourceOf finds the source of a package-level *regexp.Regexp variable initialised with regexp.MustCompile(expr).
func regexSourceOf(p *Program, pkgSuffix, varName string) (string, string, bool) {
	pk := p.Pkg(pkgSuffix)
	if pk == nil {
		return "", "", false
	}
	all := map[string]*packages.Package{}
	for _, q := range p.RepoList {
		all[q.PkgPath] = q
	}
	for _, f := range pk.Syntax {
		for _, d := range f.Decls {
			gd, ok := d.(*ast.GenDecl)
			if !ok || gd.Tok != token.VAR {
				continue
			}
			for _, sp := range gd.Specs {
				vs := sp.(*ast.ValueSpec)
				for i, n := range vs.Names {
					if n.Name != varName || i >= len(vs.Values) {
						continue
					}
					call, ok := vs.Values[i].(*ast.CallExpr)
					if !ok || len(call.Args) != 1 {
						return "", p.Pos(n.Pos()), false
					}
					if sel, ok := call.Fun.(*ast.SelectorExpr); !ok || (sel.Sel.Name != "MustCompile" && sel.Sel.Name != "Compile") {
						return "", p.Pos(n.Pos()), false
					}
					s, ok := evalString(pk, all, call.Args[0], 0)
					return s, p.Pos(n.Pos()), ok
				}
			}
		}
	}
	return "", "", false
}

package main

// Key-dimension analysis: every integer/string value loaded from an ORM row column gets the
// "dimension" of the column it refers to (Project.ClassKey and Class.Key are both Class.Key).
// Go maps, ORM lookups and equality tests must combine values of one dimension only — the
// units-of-measure discipline for keys. Flow-insensitive, per function, on SSA.

import (
	"fmt"
	"go/constant"
	"go/token"
	"go/types"
	"os"
	"sort"
	"strings"

	"golang.org/x/tools/go/ssa"
)

type dimAnalyzer struct {
	m    *Model
	refs map[string]string // Table.Field → referenced Table.Field
	// per-function map kinds, memoised for the flow of maps between functions of one package
	fnMemo map[*ssa.Function]*fnDims
	fnBusy map[*ssa.Function]bool
	// kinds of maps that more than one function reaches (carrier-struct fields, variables captured by
	// closures): what any function of the package fills them under
	sharedKey map[ssa.Value]string
	sharedVal map[ssa.Value]string
	sharedFor map[*ssa.Package]bool
}

func newDimAnalyzer(m *Model) *dimAnalyzer {
	d := &dimAnalyzer{m: m, refs: map[string]string{}, fnMemo: map[*ssa.Function]*fnDims{}, fnBusy: map[*ssa.Function]bool{}, sharedKey: map[ssa.Value]string{}, sharedVal: map[ssa.Value]string{}, sharedFor: map[*ssa.Package]bool{}}
	for _, fk := range fkSpecs {
		d.refs[fk.table+"."+fk.field] = fk.refTable + "." + fk.refField
	}
	// further reference columns (read off the schema)
	for k, v := range map[string]string{
		"OriginTxIndex.ClassKey": "Class.Key", "BatchContract.ClassKey": "Class.Key", "BatchSequence.ProjectKey": "Project.Key",
		"ProjectSequence.ClassKey": "Class.Key", "ClassSequence.CreditTypeAbbrev": "CreditType.Abbreviation",
		"DataAnchor.Id": "DataID.Id", "DataAttestor.Id": "DataID.Id", "DataResolver.Id": "DataID.Id", "DataResolver.ResolverId": "Resolver.Id",
	} {
		d.refs[k] = v
	}
	return d
}

func (d *dimAnalyzer) columnDim(t *Table, field string) string {
	k := t.Name + "." + field
	if r, ok := d.refs[k]; ok {
		return r
	}
	for _, pk := range t.PK {
		if snakeToCamel(pk) == field && len(t.PK) == 1 {
			return k
		}
	}
	for _, fs := range t.Unique {
		if len(fs) == 1 && snakeToCamel(fs[0]) == field {
			return k
		}
	}
	return ""
}

type fnDims struct {
	d       *dimAnalyzer
	fn      *ssa.Function
	memo    map[ssa.Value]string
	busy    map[ssa.Value]bool
	mapKey  map[ssa.Value]string
	mapVal  map[ssa.Value]string
	mapSite map[ssa.Value]ssa.Instruction
}

// mapRoot resolves a map-typed value to its creating instruction (MakeMap) when it is local.
func mapRoot(v ssa.Value) ssa.Value {
	for i := 0; i < 6; i++ {
		switch x := v.(type) {
		case *ssa.MakeMap:
			return x
		case *ssa.Parameter:
			if _, isMap := x.Type().Underlying().(*types.Map); isMap {
				return x
			}
			return nil
		case *ssa.UnOp:
			if x.Op == token.MUL {
				if a, ok := x.X.(*ssa.Alloc); ok {
					if sv := uniqueStore(a); sv != nil {
						v = sv
						continue
					}
				}
				// a map held in a field of a carrier struct: one identity per (struct type, field), shared by
				// all the functions and methods that reach it
				if fa, ok := x.X.(*ssa.FieldAddr); ok {
					if _, isMap := x.Type().Underlying().(*types.Map); isMap {
						return fieldMapRoot(fa)
					}
				}
				// a map variable of the enclosing function captured by a closure: the enclosing function's map
				if fv, ok := x.X.(*ssa.FreeVar); ok {
					if a := freeVarAlloc(fv); a != nil {
						if sv := uniqueStore(a); sv != nil {
							v = sv
							continue
						}
					}
				}
			}
			return nil
		case *ssa.Phi:
			return nil
		default:
			return nil
		}
	}
	return nil
}

var fieldMapRoots = map[string]ssa.Value{}

func fieldMapRoot(fa *ssa.FieldAddr) ssa.Value {
	key := fa.X.Type().String() + "#" + fmt.Sprint(fa.Field)
	if r, ok := fieldMapRoots[key]; ok {
		return r
	}
	r := ssa.NewConst(constant.MakeString("fieldmap:"+key), types.Typ[types.String])
	fieldMapRoots[key] = r
	return r
}

// freeVarAlloc: the variable of the enclosing function that a closure's free variable is bound to.
func freeVarAlloc(fv *ssa.FreeVar) *ssa.Alloc {
	fn := fv.Parent()
	if fn == nil || fn.Parent() == nil {
		return nil
	}
	idx := -1
	for i, q := range fn.FreeVars {
		if q == fv {
			idx = i
		}
	}
	if idx < 0 {
		return nil
	}
	for _, b := range fn.Parent().Blocks {
		for _, in := range b.Instrs {
			if mc, ok := in.(*ssa.MakeClosure); ok && mc.Fn == ssa.Value(fn) && idx < len(mc.Bindings) {
				switch bv := mc.Bindings[idx].(type) {
				case *ssa.Alloc:
					return bv
				case *ssa.FreeVar:
					return freeVarAlloc(bv)
				}
			}
		}
	}
	return nil
}

func (f *fnDims) dim(v ssa.Value) string {
	if s, ok := f.memo[v]; ok {
		return s
	}
	if f.busy[v] {
		return ""
	}
	f.busy[v] = true
	s := f.compute(v)
	delete(f.busy, v)
	f.memo[v] = s
	return s
}

func (f *fnDims) rowField(x ssa.Value, idx int) string {
	t := f.d.m.TableOfRow(x.Type())
	if t == nil {
		return ""
	}
	return f.d.columnDim(t, fieldName(x.Type(), idx))
}

func (f *fnDims) compute(v ssa.Value) string {
	switch x := v.(type) {
	case *ssa.UnOp:
		if x.Op == token.MUL {
			if fa, ok := x.X.(*ssa.FieldAddr); ok {
				return f.rowField(fa.X, fa.Field)
			}
			if a, ok := x.X.(*ssa.Alloc); ok {
				// local variable: all stores must agree
				got := ""
				for _, r := range *a.Referrers() {
					if st, ok := r.(*ssa.Store); ok && st.Addr == a {
						d := f.dim(st.Val)
						if d == "" {
							continue
						}
						if got != "" && got != d {
							return ""
						}
						got = d
					}
				}
				return got
			}
		}
	case *ssa.Field:
		return f.rowField(x.X, x.Field)
	case *ssa.Lookup:
		if r := mapRoot(x.X); r != nil && !x.CommaOk {
			return f.valOf(r)
		}
	case *ssa.Extract:
		if lk, ok := x.Tuple.(*ssa.Lookup); ok && x.Index == 0 {
			if r := mapRoot(lk.X); r != nil {
				return f.valOf(r)
			}
		}
		if call, ok := x.Tuple.(*ssa.Call); ok && x.Index == 0 {
			if oc := f.d.m.AsORMCall(call); oc != nil && oc.Method == "InsertReturningID" && len(oc.Table.PK) == 1 {
				return oc.Table.Name + "." + snakeToCamel(oc.Table.PK[0])
			}
		}
		// a key handed back by a helper of the package
		if call, ok := x.Tuple.(*ssa.Call); ok {
			if h := call.Call.StaticCallee(); h != nil && !call.Call.IsInvoke() && h.Pkg == f.fn.Pkg {
				return f.d.returnedValueDim(h, x.Index)
			}
		}
	case *ssa.Call:
		if h := x.Call.StaticCallee(); h != nil && !x.Call.IsInvoke() && h.Pkg == f.fn.Pkg && h.Signature.Results().Len() == 1 {
			return f.d.returnedValueDim(h, 0)
		}
	case *ssa.Phi:
		got := ""
		for _, e := range x.Edges {
			d := f.dim(e)
			if d == "" {
				continue
			}
			if got != "" && got != d {
				return ""
			}
			got = d
		}
		return got
	case *ssa.Convert:
		return f.dim(x.X)
	case *ssa.ChangeType:
		return f.dim(x.X)
	}
	return ""
}

type dimIssue struct {
	Pos  token.Pos
	Key  string
	What string
}

// analyzeDims runs the discipline on one function.
func (d *dimAnalyzer) analyzeDims(fn *ssa.Function) (issues []dimIssue, sites int) {
	f, issues := d.mapDims(fn)
	return d.analyzeUses(f, issues)
}

// mapDims: pass 1 of the discipline — the key and value kinds of the maps a function fills.
func (d *dimAnalyzer) mapDims(fn *ssa.Function) (f *fnDims, issues []dimIssue) {
	f = &fnDims{d: d, fn: fn, memo: map[ssa.Value]string{}, busy: map[ssa.Value]bool{}, mapKey: map[ssa.Value]string{}, mapVal: map[ssa.Value]string{}, mapSite: map[ssa.Value]ssa.Instruction{}}
	// maps received as parameters: the kinds every caller in the package agrees on
	if !d.fnBusy[fn] {
		d.fnBusy[fn] = true
		for _, prm := range fn.Params {
			if _, isMap := prm.Type().Underlying().(*types.Map); !isMap {
				continue
			}
			k, v, first := "", "", true
			for _, arg := range callerArgs(prm) {
				ak, av := d.argMapDims(arg)
				if first {
					k, v, first = ak, av, false
					continue
				}
				if ak != k {
					k = ""
				}
				if av != v {
					v = ""
				}
			}
			if k != "" {
				f.mapKey[prm] = k
			}
			if v != "" {
				f.mapVal[prm] = v
			}
		}
		delete(d.fnBusy, fn)
	}
	// pass 1 (twice, so value dims that depend on other maps settle): map updates define key/value dims
	for round := 0; round < 2; round++ {
		f.memo = map[ssa.Value]string{}
		for _, b := range fn.Blocks {
			for _, in := range b.Instrs {
				// a helper of the package that fills a map it is handed: its updates count as updates here,
				// with its parameters bound to this call's arguments
				if call, isCall := in.(*ssa.Call); isCall {
					if h := call.Call.StaticCallee(); h != nil && h != fn && h.Pkg == fn.Pkg && len(h.Blocks) > 0 && !call.Call.IsInvoke() && !d.fnBusy[h] {
						for i, a := range call.Call.Args {
							r := mapRoot(a)
							if r == nil || i >= len(h.Params) {
								continue
							}
							d.fnBusy[fn] = true
							var hd *fnDims
							for _, hb := range h.Blocks {
								for _, hin := range hb.Instrs {
									mu, ok := hin.(*ssa.MapUpdate)
									if !ok || mapRoot(mu.Map) != ssa.Value(h.Params[i]) {
										continue
									}
									bind := func(v ssa.Value) string {
										if q, isP := v.(*ssa.Parameter); isP {
											for j, hp := range h.Params {
												if hp == q && j < len(call.Call.Args) {
													return f.dim(call.Call.Args[j])
												}
											}
											return ""
										}
										if hd == nil {
											hd = d.dimsOf(h)
										}
										return hd.dim(v)
									}
									if kd := bind(mu.Key); kd != "" {
										if _, has := f.mapKey[r]; !has {
											f.mapKey[r] = kd
										}
									}
									if vd := bind(mu.Value); vd != "" {
										if _, has := f.mapVal[r]; !has {
											f.mapVal[r] = vd
										}
									}
								}
							}
							delete(d.fnBusy, fn)
						}
					}
				}
				mu, ok := in.(*ssa.MapUpdate)
				if !ok {
					continue
				}
				r := mapRoot(mu.Map)
				if r == nil {
					continue
				}
				if kd := f.dim(mu.Key); kd != "" {
					if old, has := f.mapKey[r]; has && old != kd && round == 1 {
						issues = append(issues, dimIssue{mu.Pos(), fmt.Sprintf("map@%d#update-key", ordinalMake(fn, r)), fmt.Sprintf("map is filled under keys of two different kinds: %s and %s", old, kd)})
					} else if !has {
						f.mapKey[r] = kd
					}
				}
				if vd := f.dim(mu.Value); vd != "" {
					if _, has := f.mapVal[r]; !has {
						f.mapVal[r] = vd
					}
				}
			}
		}
	}
	f.memo = map[ssa.Value]string{}
	for r, k := range f.mapKey {
		if _, has := d.sharedKey[r]; !has {
			d.sharedKey[r] = k
		}
	}
	for r, v := range f.mapVal {
		if _, has := d.sharedVal[r]; !has {
			d.sharedVal[r] = v
		}
	}
	return f, issues
}

// ensureShared: the map kinds of every function of the package (closures included) are known — two rounds,
// so that a value kind that depends on another shared map settles.
func (d *dimAnalyzer) ensureShared(pkg *ssa.Package) {
	if pkg == nil || d.sharedFor[pkg] {
		return
	}
	d.sharedFor[pkg] = true
	for round := 0; round < 2; round++ {
		for _, fn := range pkgFuncs(pkg.Prog, pkg) {
			if len(fn.Blocks) > 0 {
				d.mapDims(fn)
			}
			for _, an := range fn.AnonFuncs {
				d.mapDims(an)
			}
		}
	}
}

func (f *fnDims) valOf(r ssa.Value) string {
	if v, ok := f.mapVal[r]; ok && v != "" {
		return v
	}
	f.d.ensureShared(f.fn.Pkg)
	return f.d.sharedVal[r]
}

func (f *fnDims) keyOf(r ssa.Value) string {
	if v, ok := f.mapKey[r]; ok && v != "" {
		return v
	}
	f.d.ensureShared(f.fn.Pkg)
	return f.d.sharedKey[r]
}

func (d *dimAnalyzer) analyzeUses(f *fnDims, issues []dimIssue) ([]dimIssue, int) {
	fn := f.fn
	sites := 0
	// pass 2: uses
	nLook, nGet, nEq := 0, 0, 0
	for _, b := range fn.Blocks {
		for _, in := range b.Instrs {
			switch x := in.(type) {
			case *ssa.Lookup:
				r := mapRoot(x.X)
				if r == nil {
					continue
				}
				kd, md := f.dim(x.Index), f.mapKey[r]
				if kd != "" && md != "" {
					sites++
					nLook++
					if kd != md {
						issues = append(issues, dimIssue{x.Pos(), fmt.Sprintf("map@%d#lookup@%d", ordinalMake(fn, r), nLook), fmt.Sprintf("a map keyed by %s is looked up with a %s value: the entry found (or missed) belongs to a different entity", md, kd)})
					}
				}
			case *ssa.BinOp:
				if x.Op != token.EQL && x.Op != token.NEQ {
					continue
				}
				a, bb := f.dim(x.X), f.dim(x.Y)
				if a != "" && bb != "" {
					sites++
					nEq++
					if a != bb {
						issues = append(issues, dimIssue{x.Pos(), fmt.Sprintf("compare@%d", nEq), fmt.Sprintf("a %s value is compared with a %s value", a, bb)})
					}
				}
			case *ssa.Call:
				oc := d.m.AsORMCall(x)
				if oc == nil || (oc.Kind != "get" && oc.Kind != "has") {
					continue
				}
				names := oc.Table.PK
				if oc.Method != "Get" && oc.Method != "Has" {
					names = oc.Table.Unique["Get"+strings.TrimPrefix(strings.TrimPrefix(oc.Method, "Has"), "Get")]
				}
				for i, n := range names {
					if i+1 >= len(x.Call.Args) {
						break
					}
					want := d.columnDim(oc.Table, snakeToCamel(n))
					got := f.dim(x.Call.Args[i+1])
					if want == "" || got == "" {
						continue
					}
					sites++
					nGet++
					if want != got {
						issues = append(issues, dimIssue{x.Pos(), fmt.Sprintf("%s.%s#arg%d@%d", oc.Table.Name, oc.Method, i, nGet), fmt.Sprintf("%s.%s is keyed on %s but receives a %s value", oc.Table.Name, oc.Method, want, got)})
					}
				}
			}
		}
	}
	return issues, sites
}

// checkedLookups: the key dimensions that fn resolves with a lookup that can FAIL — an ORM Get/Has by
// key (not found ⇒ error) or a comma-ok map lookup whose ok flag is branched on. A plain map index
// silently yields the zero value and resolves nothing.
func (d *dimAnalyzer) checkedLookups(fn *ssa.Function) map[string]string {
	f, _ := d.mapDims(fn)
	out := map[string]string{}
	for _, b := range fn.Blocks {
		for _, in := range b.Instrs {
			switch x := in.(type) {
			case *ssa.Call:
				oc := d.m.AsORMCall(x)
				if oc == nil {
					// a hand-written helper that performs the tested comma-ok lookup on a map and a key it is
					// handed (`lookup[K,V](m, key, missing)`): the call resolves the key like the lookup would
					if sc := x.Call.StaticCallee(); sc != nil && len(sc.Blocks) > 0 && isRepoPkgPath(fnPkgPath(sc)) {
						if mi, ki, ok := lookupHelperParams(sc); ok && mi < len(x.Call.Args) && ki < len(x.Call.Args) {
							// the helper's error must be what fails: its error result is tested or returned by the caller
							if kd := f.dim(x.Call.Args[ki]); kd != "" {
								out[kd] = "tested map lookup (through " + sc.Name() + ")"
							}
							for _, src := range rowColumnSources(x.Call.Args[ki], 0) {
								out["src:"+src] = "tested map lookup (through " + sc.Name() + ")"
							}
						}
					}
					continue
				}
				if oc.Kind != "get" && oc.Kind != "has" {
					continue
				}
				for i := 1; i < len(x.Call.Args); i++ {
					if kd := f.dim(x.Call.Args[i]); kd != "" {
						out[kd] = "store lookup " + oc.Table.Name + "." + oc.Method
					}
					for _, src := range rowColumnSources(x.Call.Args[i], 0) {
						out["src:"+src] = "store lookup " + oc.Table.Name + "." + oc.Method
					}
				}
			case *ssa.Lookup:
				if !x.CommaOk {
					continue
				}
				tested := false
				for _, r := range *x.Referrers() {
					if ex, ok := r.(*ssa.Extract); ok && ex.Index == 1 {
						// the not-found arm must FAIL (an `if v, ok := m[k]; ok { add } else { set }` accumulator
						// tests the flag too, and resolves nothing — catalogue mutant R6M01)
						if ifi, neg := ifOn(ex); ifi != nil && notFoundArmFails(ifi, neg) {
							tested = true
						}
					}
				}
				if !tested {
					continue
				}
				if kd := f.dim(x.Index); kd != "" {
					out[kd] = "tested map lookup"
				}
				// … and which row column the key was read from: that row's reference is what is resolved
				for _, src := range rowColumnSources(x.Index, 0) {
					out["src:"+src] = "tested map lookup"
				}
			}
		}
	}
	return out
}

func ordinalMake(fn *ssa.Function, r ssa.Value) int {
	n := 0
	for _, b := range fn.Blocks {
		for _, in := range b.Instrs {
			if _, ok := in.(*ssa.MakeMap); ok {
				n++
				if in.(ssa.Value) == r {
					return n
				}
			}
		}
	}
	return n
}

// ruleKeyDims applies the discipline to the functions selected by pkgFilter.
func ruleKeyDims(c *Ctx, m *Model, rule string, pkgFilter func(pkg string) bool) (sites int) {
	d := newDimAnalyzer(m)
	p := m.P
	var fns []*ssa.Function
	for _, fn := range m.subjectFns(false) {
		if pkgFilter(fnPkgPath(fn)) {
			fns = append(fns, fn)
		}
	}
	sort.Slice(fns, func(i, j int) bool { return fns[i].String() < fns[j].String() })
	for _, fn := range fns {
		issues, n := d.analyzeDims(fn)
		sites += n
		for _, is := range issues {
			c.Violate(rule, funcKey(fn)+"#"+is.Key, p.Pos(is.Pos), is.What, nil)
		}
		if len(issues) == 0 && n > 0 {
			c.Hold(rule, funcKey(fn), p.Pos(fn.Pos()), fmt.Sprintf("%d key uses (map lookups, ORM lookups, equality tests) combine values of one key kind only", n), nil)
		}
	}
	return sites
}

// ---- maps handed from one function to another ---------------------------------------------

// returnedValueDim: the key kind of a (non-map) result of a function of the package, when all its
// returning sites agree (constants and zero values aside).
func (d *dimAnalyzer) returnedValueDim(fn *ssa.Function, resIdx int) string {
	if len(fn.Blocks) == 0 || d.fnBusy[fn] {
		return ""
	}
	if resIdx >= fn.Signature.Results().Len() {
		return ""
	}
	switch fn.Signature.Results().At(resIdx).Type().Underlying().(type) {
	case *types.Basic:
	default:
		return ""
	}
	d.fnBusy[fn] = true
	defer delete(d.fnBusy, fn)
	f, _ := d.mapDims(fn)
	got := ""
	for _, b := range fn.Blocks {
		for _, in := range b.Instrs {
			rt, ok := in.(*ssa.Return)
			if !ok || resIdx >= len(rt.Results) {
				continue
			}
			cands := []ssa.Value{rt.Results[resIdx]}
			if ld, isLd := rt.Results[resIdx].(*ssa.UnOp); isLd && ld.Op == token.MUL {
				if al, isA := ld.X.(*ssa.Alloc); isA {
					cands = nil
					for _, rf := range *al.Referrers() {
						if st, isSt := rf.(*ssa.Store); isSt && st.Addr == al {
							cands = append(cands, st.Val)
						}
					}
				}
			}
			for _, cv := range cands {
				if _, isC := cv.(*ssa.Const); isC {
					continue
				}
				k := f.dim(cv)
				if k == "" || (got != "" && got != k) {
					return ""
				}
				got = k
			}
		}
	}
	return got
}

// dimsOf: memoised map kinds of a function.
func (d *dimAnalyzer) dimsOf(fn *ssa.Function) *fnDims {
	if f, ok := d.fnMemo[fn]; ok {
		return f
	}
	f, _ := d.mapDims(fn)
	d.fnMemo[fn] = f
	return f
}

// argMapDims: key and value kinds of a map-typed argument — a local map of the calling function, or the
// result of a call to a function that returns a map it filled.
func (d *dimAnalyzer) argMapDims(arg ssa.Value) (string, string) {
	var caller *ssa.Function
	if in, ok := arg.(ssa.Instruction); ok {
		caller = in.Parent()
	} else if p, ok := arg.(*ssa.Parameter); ok {
		caller = p.Parent()
	}
	if caller == nil || d.fnBusy[caller] {
		return "", ""
	}
	if r := mapRoot(arg); r != nil {
		fd := d.dimsOf(caller)
		return fd.mapKey[r], fd.mapVal[r]
	}
	v := arg
	if ld, ok := v.(*ssa.UnOp); ok && ld.Op == token.MUL {
		if al, ok := ld.X.(*ssa.Alloc); ok {
			if sv := uniqueStore(al); sv != nil {
				v = sv
			}
		}
	}
	resIdx := 0
	if ex, ok := v.(*ssa.Extract); ok {
		resIdx = ex.Index
		v = ex.Tuple
	}
	if pc, ok := v.(*ssa.Call); ok {
		if prod := pc.Call.StaticCallee(); prod != nil && !pc.Call.IsInvoke() && !d.fnBusy[prod] {
			return d.returnedMapKey(prod, resIdx), d.returnedMapVal(prod, resIdx)
		}
	}
	return "", ""
}

func (d *dimAnalyzer) returnedMapVal(fn *ssa.Function, resIdx int) string {
	return d.returnedMapDim(fn, resIdx, true)
}

// returnedMapKey: the key kind of the map a function returns (all returning sites agree).
func (d *dimAnalyzer) returnedMapKey(fn *ssa.Function, resIdx int) string {
	return d.returnedMapDim(fn, resIdx, false)
}

func (d *dimAnalyzer) returnedMapDim(fn *ssa.Function, resIdx int, value bool) string {
	if len(fn.Blocks) == 0 {
		return ""
	}
	f := d.dimsOf(fn)
	got := ""
	for _, b := range fn.Blocks {
		for _, in := range b.Instrs {
			rt, ok := in.(*ssa.Return)
			if !ok || resIdx >= len(rt.Results) {
				continue
			}
			// results spilled to a local because of a defer: every value stored there
			cands := []ssa.Value{rt.Results[resIdx]}
			if ld, isLd := rt.Results[resIdx].(*ssa.UnOp); isLd && ld.Op == token.MUL {
				if al, isA := ld.X.(*ssa.Alloc); isA {
					cands = nil
					for _, rf := range *al.Referrers() {
						if st, isSt := rf.(*ssa.Store); isSt && st.Addr == al {
							cands = append(cands, st.Val)
						}
					}
				}
			}
			for _, cv := range cands {
				r := mapRoot(cv)
				if r == nil {
					continue
				}
				k := f.mapKey[r]
				if value {
					k = f.mapVal[r]
				}
				if k == "" {
					continue
				}
				if got != "" && got != k {
					return ""
				}
				got = k
			}
		}
	}
	return got
}

// sliceRoot: identity of a local slice (its make site, or the local variable that holds it).
func sliceRoot(v ssa.Value) ssa.Value {
	switch x := v.(type) {
	case *ssa.MakeSlice:
		return x
	case *ssa.UnOp:
		if a, ok := x.X.(*ssa.Alloc); ok && x.Op == token.MUL {
			return a
		}
	case *ssa.Slice:
		return sliceRoot(x.X)
	case *ssa.Alloc:
		return x
	}
	if _, isSl := v.Type().Underlying().(*types.Slice); isSl {
		return v
	}
	return nil
}

// paramMapKeyDemand: the key kind a function expects of a map parameter, read off what it does with the
// keys it ranges over — looks them up in a map of a known key kind, or hands them to an ORM lookup keyed
// on a known column — directly or after collecting them in a local slice (collect, sort, iterate).
func (d *dimAnalyzer) paramMapKeyDemand(fn *ssa.Function, prm *ssa.Parameter) (string, token.Pos) {
	f, _ := d.mapDims(fn)
	tainted, _ := keyTaint(fn, prm, 0)
	isT := func(v ssa.Value) bool {
		for i := 0; i < 4; i++ {
			if tainted[v] {
				return true
			}
			switch x := v.(type) {
			case *ssa.Convert:
				v = x.X
			case *ssa.ChangeType:
				v = x.X
			default:
				return false
			}
		}
		return false
	}
	return d.demandFromTaint(fn, prm, f, isT)
}

// keyTaint: the values of fn that hold a key of the map parameter prm, and the local slices that hold
// such keys (collected, possibly by a helper of the package that returns them, possibly sorted).
func keyTaint(fn *ssa.Function, prm *ssa.Parameter, depth int) (map[ssa.Value]bool, map[ssa.Value]bool) {
	tainted := map[ssa.Value]bool{}
	slices := map[ssa.Value]bool{}
	isT := func(v ssa.Value) bool {
		for i := 0; i < 4; i++ {
			if tainted[v] {
				return true
			}
			switch x := v.(type) {
			case *ssa.Convert:
				v = x.X
			case *ssa.ChangeType:
				v = x.X
			default:
				return false
			}
		}
		return false
	}
	for changed, round := true, 0; changed && round < 6; round++ {
		changed = false
		mark := func(v ssa.Value) {
			if !tainted[v] {
				tainted[v] = true
				changed = true
			}
		}
		for _, b := range fn.Blocks {
			for _, in := range b.Instrs {
				switch x := in.(type) {
				case *ssa.Extract:
					if nx, ok := x.Tuple.(*ssa.Next); ok && x.Index == 1 {
						if rg, ok := nx.Iter.(*ssa.Range); ok {
							src := rg.X
							if ld, isLd := src.(*ssa.UnOp); isLd && ld.Op == token.MUL {
								if a, isA := ld.X.(*ssa.Alloc); isA {
									if sv := uniqueStore(a); sv != nil {
										src = sv
									}
								}
							}
							if src == ssa.Value(prm) {
								mark(x)
							}
						}
					}
				case *ssa.Store:
					// a slice of keys kept in a local variable
					if slices[x.Val] {
						if a, isA := x.Addr.(*ssa.Alloc); isA && !slices[a] {
							slices[a] = true
							changed = true
						}
					}
					if !isT(x.Val) {
						continue
					}
					switch a := x.Addr.(type) {
					case *ssa.IndexAddr:
						if r := sliceRoot(a.X); r != nil && !slices[r] {
							slices[r] = true
							changed = true
						}
					case *ssa.Alloc:
						// a local variable holding a key
						for _, rf := range *a.Referrers() {
							if ld, ok := rf.(*ssa.UnOp); ok && ld.Op == token.MUL {
								mark(ld)
							}
						}
					}
				case *ssa.UnOp:
					if x.Op == token.MUL {
						if ia, ok := x.X.(*ssa.IndexAddr); ok {
							if r := sliceRoot(ia.X); r != nil && slices[r] {
								mark(x)
							}
						}
					}
				case *ssa.Call:
					// keys := sortedKeys(m): a helper of the package that returns the keys of the map it is handed
					if h := x.Call.StaticCallee(); h != nil && isRepoPkgPath(fnPkgPath(h)) && len(h.Blocks) > 0 && depth < 2 && !x.Call.IsInvoke() {
						for i, a := range x.Call.Args {
							src := a
							if ld, isLd := src.(*ssa.UnOp); isLd && ld.Op == token.MUL {
								if al, isA := ld.X.(*ssa.Alloc); isA {
									if sv := uniqueStore(al); sv != nil {
										src = sv
									}
								}
							}
							if src != ssa.Value(prm) || i >= len(h.Params) {
								continue
							}
							ht, hs := keyTaint(h, h.Params[i], depth+1)
							for _, hb := range h.Blocks {
								for _, hin := range hb.Instrs {
									rt, isRet := hin.(*ssa.Return)
									if !isRet {
										continue
									}
									for ri, rv := range rt.Results {
										isKeys := ht[rv]
										if r := sliceRoot(rv); r != nil && hs[r] {
											isKeys = true
										}
										if ld, isLd := rv.(*ssa.UnOp); isLd && !isKeys {
											if al, isA := ld.X.(*ssa.Alloc); isA {
												for _, rf := range *al.Referrers() {
													if st, isSt := rf.(*ssa.Store); isSt && st.Addr == al {
														if r := sliceRoot(st.Val); r != nil && hs[r] {
															isKeys = true
														}
													}
												}
											}
										}
										if !isKeys {
											continue
										}
										var res ssa.Value = x
										if len(rt.Results) > 1 {
											res = nil
											for _, rf := range *x.Referrers() {
												if ex, isEx := rf.(*ssa.Extract); isEx && ex.Index == ri {
													res = ex
												}
											}
										}
										if res == nil {
											continue
										}
										if _, isSl := res.Type().Underlying().(*types.Slice); isSl {
											if !slices[res] {
												slices[res] = true
												changed = true
											}
										} else {
											mark(res)
										}
									}
								}
							}
						}
					}
					// append(keys, k)
					if bi, ok := x.Call.Value.(*ssa.Builtin); ok && bi.Name() == "append" && len(x.Call.Args) == 2 {
						if sl, ok := x.Call.Args[1].(*ssa.Slice); ok {
							if al, ok := sl.X.(*ssa.Alloc); ok {
								for _, rf := range *al.Referrers() {
									if ia, ok := rf.(*ssa.IndexAddr); ok {
										for _, r2 := range *ia.Referrers() {
											if st, ok := r2.(*ssa.Store); ok && isT(st.Val) {
												// the appended-to slice and its result carry keys
												for _, tgt := range []ssa.Value{x.Call.Args[0], x} {
													if r := sliceRoot(tgt); r != nil && !slices[r] {
														slices[r] = true
														changed = true
													}
												}
												for _, rf2 := range *x.Referrers() {
													if st2, ok := rf2.(*ssa.Store); ok {
														if a2, ok := st2.Addr.(*ssa.Alloc); ok && !slices[a2] {
															slices[a2] = true
															changed = true
														}
													}
												}
											}
										}
									}
								}
							}
						}
					}
				case *ssa.Phi:
					for _, e := range x.Edges {
						if isT(e) {
							mark(x)
						}
					}
				}
			}
		}
	}
	return tainted, slices
}

func (d *dimAnalyzer) demandFromTaint(fn *ssa.Function, prm *ssa.Parameter, f *fnDims, isT func(ssa.Value) bool) (string, token.Pos) {
	got, pos := "", token.NoPos
	demand := func(k string, p token.Pos) bool {
		if k == "" {
			return true
		}
		if got != "" && got != k {
			return false
		}
		if got == "" {
			got, pos = k, p
		}
		return true
	}
	for _, b := range fn.Blocks {
		for _, in := range b.Instrs {
			switch x := in.(type) {
			case *ssa.Lookup:
				if r := mapRoot(x.X); r != nil && r != ssa.Value(prm) && isT(x.Index) {
					if !demand(f.mapKey[r], x.Pos()) {
						return "", token.NoPos
					}
				}
			case *ssa.MapUpdate:
				if r := mapRoot(x.Map); r != nil && r != ssa.Value(prm) && isT(x.Key) {
					// filling a local map under the parameter's keys: the kind the other fillers give it
					for _, b2 := range fn.Blocks {
						for _, in2 := range b2.Instrs {
							if mu, ok := in2.(*ssa.MapUpdate); ok && mapRoot(mu.Map) == r && !isT(mu.Key) {
								if !demand(f.dim(mu.Key), mu.Pos()) {
									return "", token.NoPos
								}
							}
						}
					}
				}
			case *ssa.Call:
				oc := d.m.AsORMCall(x)
				if oc == nil || (oc.Kind != "get" && oc.Kind != "has") {
					continue
				}
				names := oc.Table.PK
				if oc.Method != "Get" && oc.Method != "Has" {
					names = oc.Table.Unique["Get"+strings.TrimPrefix(strings.TrimPrefix(oc.Method, "Has"), "Get")]
				}
				for i, n := range names {
					if i+1 >= len(x.Call.Args) {
						break
					}
					if isT(x.Call.Args[i+1]) {
						if !demand(d.columnDim(oc.Table, snakeToCamel(n)), x.Pos()) {
							return "", token.NoPos
						}
					}
				}
			}
		}
	}
	return got, pos
}

// ruleMapArgDims: a map handed to a function is keyed by the kind of key the function uses its keys as.
// Both sides are read off the code: what the producer fills the map under, what the consumer looks the
// keys up in. Two maps of the same Go type (map[uint64]Dec by basket id / by batch key) are
// interchangeable for the compiler and for tests in which ids and keys coincide (first basket, first batch).
func ruleMapArgDims(c *Ctx, m *Model, rule string, calleeFilter func(*ssa.Function) bool, demandOf ...func(sc *ssa.Function, prm *ssa.Parameter) string) (sites int) {
	d := newDimAnalyzer(m)
	p := m.P
	for _, fn := range sortedFns(fnSet(m.subjectFns(false))) {
		var fd *fnDims
		for _, ci := range callsIn(fn) {
			call, isCall := ci.(*ssa.Call)
			if !isCall {
				continue
			}
			sc := call.Call.StaticCallee()
			if sc == nil || len(sc.Blocks) == 0 || !calleeFilter(sc) {
				continue
			}
			off := 0
			if call.Call.IsInvoke() {
				continue
			}
			for i, a := range call.Call.Args {
				if i-off >= len(sc.Params) {
					break
				}
				if _, isMap := a.Type().Underlying().(*types.Map); !isMap {
					continue
				}
				want, _ := d.paramMapKeyDemand(sc, sc.Params[i])
				for _, df := range demandOf {
					if want == "" {
						want = df(sc, sc.Params[i])
					}
				}
				if os.Getenv("DIMDEBUG") != "" {
					fmt.Println("DIMDEBUG", funcKey(fn), "→", funcKey(sc), sc.Params[i].Name(), "want=", want)
				}
				if want == "" {
					continue
				}
				have := ""
				if r := mapRoot(a); r != nil {
					if fd == nil {
						fd, _ = d.mapDims(fn)
					}
					have = fd.mapKey[r]
				} else {
					v := a
					if ld, ok := v.(*ssa.UnOp); ok && ld.Op == token.MUL {
						if al, ok := ld.X.(*ssa.Alloc); ok {
							if sv := uniqueStore(al); sv != nil {
								v = sv
							}
						}
					}
					resIdx := 0
					if ex, ok := v.(*ssa.Extract); ok {
						resIdx = ex.Index
						v = ex.Tuple
					}
					if pc, ok := v.(*ssa.Call); ok {
						if prod := pc.Call.StaticCallee(); prod != nil {
							have = d.returnedMapKey(prod, resIdx)
						}
					}
				}
				if have == "" {
					continue
				}
				sites++
				key := funcKey(fn) + "→" + funcKey(sc) + "#" + sc.Params[i].Name()
				if have != want {
					c.Violate(rule, key, p.Pos(call.Pos()), fmt.Sprintf("the map passed as %s is filled under %s keys, but %s uses its keys as %s values: every entry is attributed to a different entity", sc.Params[i].Name(), have, sc.Name(), want), nil)
				} else {
					c.Hold(rule, key, p.Pos(call.Pos()), fmt.Sprintf("the map passed as %s is filled under %s keys, which is what %s uses its keys as", sc.Params[i].Name(), have, sc.Name()), nil)
				}
			}
		}
	}
	return sites
}

func fnSet(fns []*ssa.Function) map[*ssa.Function]bool {
	out := map[*ssa.Function]bool{}
	for _, f := range fns {
		out[f] = true
	}
	return out
}

var _ = types.Typ

// lookupHelperParams: fn performs a comma-ok lookup `m[k]` on two of its own parameters, branches on the ok flag,
// and has an error result (the not-found arm is what makes the lookup one that can fail).
func lookupHelperParams(fn *ssa.Function) (mapIdx, keyIdx int, ok bool) {
	if errResultIndex(fn.Signature) < 0 {
		return 0, 0, false
	}
	pidx := func(v ssa.Value) int {
		for i, q := range fn.Params {
			if ssa.Value(q) == v {
				return i
			}
		}
		return -1
	}
	for _, b := range fn.Blocks {
		for _, in := range b.Instrs {
			lk, isL := in.(*ssa.Lookup)
			if !isL || !lk.CommaOk {
				continue
			}
			mi, ki := pidx(lk.X), pidx(lk.Index)
			if mi < 0 || ki < 0 {
				continue
			}
			for _, r := range *lk.Referrers() {
				if ex, isEx := r.(*ssa.Extract); isEx && ex.Index == 1 {
					if ifi, neg := ifOn(ex); ifi != nil && notFoundArmFails(ifi, neg) {
						return mi, ki, true
					}
				}
			}
		}
	}
	return 0, 0, false
}

// notFoundArmFails: the branch taken when the comma-ok flag is false ends (possibly after plain jumps) in a return
// whose error result is not the nil constant.
func notFoundArmFails(ifi *ssa.If, neg bool) bool {
	b := ifi.Block()
	if len(b.Succs) != 2 {
		return false
	}
	nf := b.Succs[1]
	if neg {
		nf = b.Succs[0]
	}
	for i := 0; i < 4 && nf != nil; i++ {
		last := nf.Instrs[len(nf.Instrs)-1]
		switch t := last.(type) {
		case *ssa.Return:
			ei := errResultIndex(nf.Parent().Signature)
			if ei < 0 || ei >= len(t.Results) {
				return false
			}
			if k, isK := t.Results[ei].(*ssa.Const); isK && k.Value == nil {
				return false
			}
			return true
		case *ssa.Jump:
			nf = nf.Succs[0]
		default:
			return false
		}
	}
	return false
}

package main

// Key-dimension analysis: every integer/string value loaded from an ORM row column gets the
// "dimension" of the column it refers to (Project.ClassKey and Class.Key are both Class.Key).
// Go maps, ORM lookups and equality tests must combine values of one dimension only — the
// units-of-measure discipline for keys. Flow-insensitive, per function, on SSA.

import (
	"fmt"
	"go/token"
	"go/types"
	"sort"
	"strings"

	"golang.org/x/tools/go/ssa"
)

type dimAnalyzer struct {
	m    *Model
	refs map[string]string // Table.Field → referenced Table.Field
}

func newDimAnalyzer(m *Model) *dimAnalyzer {
	d := &dimAnalyzer{m: m, refs: map[string]string{}}
	for _, fk := range fkSpecs {
		d.refs[fk.table+"."+fk.field] = fk.refTable + "." + fk.refField
	}
	// further reference columns (read off the schema)
	for k, v := range map[string]string{
		"OriginTxIndex.ClassKey": "Class.Key", "BatchContract.ClassKey": "Class.Key", "BatchSequence.ProjectKey": "Project.Key",
		"ProjectSequence.ClassKey": "Class.Key", "ClassSequence.CreditTypeAbbrev": "CreditType.Abbreviation",
		"DataAnchor.Id": "DataID.Id", "DataAttestor.Id": "DataID.Id", "DataResolver.Id": "DataID.Id", "DataResolver.ResolverId": "Resolver.Id",
	} {
		d.refs[k] = v
	}
	return d
}

func (d *dimAnalyzer) columnDim(t *Table, field string) string {
	k := t.Name + "." + field
	if r, ok := d.refs[k]; ok {
		return r
	}
	for _, pk := range t.PK {
		if snakeToCamel(pk) == field && len(t.PK) == 1 {
			return k
		}
	}
	for _, fs := range t.Unique {
		if len(fs) == 1 && snakeToCamel(fs[0]) == field {
			return k
		}
	}
	return ""
}

type fnDims struct {
	d       *dimAnalyzer
	fn      *ssa.Function
	memo    map[ssa.Value]string
	busy    map[ssa.Value]bool
	mapKey  map[ssa.Value]string
	mapVal  map[ssa.Value]string
	mapSite map[ssa.Value]ssa.Instruction
}

// mapRoot resolves a map-typed value to its creating instruction (MakeMap) when it is local.
func mapRoot(v ssa.Value) ssa.Value {
	for i := 0; i < 6; i++ {
		switch x := v.(type) {
		case *ssa.MakeMap:
			return x
		case *ssa.UnOp:
			if x.Op == token.MUL {
				if a, ok := x.X.(*ssa.Alloc); ok {
					if sv := uniqueStore(a); sv != nil {
						v = sv
						continue
					}
				}
			}
			return nil
		case *ssa.Phi:
			return nil
		default:
			return nil
		}
	}
	return nil
}

func (f *fnDims) dim(v ssa.Value) string {
	if s, ok := f.memo[v]; ok {
		return s
	}
	if f.busy[v] {
		return ""
	}
	f.busy[v] = true
	s := f.compute(v)
	delete(f.busy, v)
	f.memo[v] = s
	return s
}

func (f *fnDims) rowField(x ssa.Value, idx int) string {
	t := f.d.m.TableOfRow(x.Type())
	if t == nil {
		return ""
	}
	return f.d.columnDim(t, fieldName(x.Type(), idx))
}

func (f *fnDims) compute(v ssa.Value) string {
	switch x := v.(type) {
	case *ssa.UnOp:
		if x.Op == token.MUL {
			if fa, ok := x.X.(*ssa.FieldAddr); ok {
				return f.rowField(fa.X, fa.Field)
			}
			if a, ok := x.X.(*ssa.Alloc); ok {
				// local variable: all stores must agree
				got := ""
				for _, r := range *a.Referrers() {
					if st, ok := r.(*ssa.Store); ok && st.Addr == a {
						d := f.dim(st.Val)
						if d == "" {
							continue
						}
						if got != "" && got != d {
							return ""
						}
						got = d
					}
				}
				return got
			}
		}
	case *ssa.Field:
		return f.rowField(x.X, x.Field)
	case *ssa.Lookup:
		if r := mapRoot(x.X); r != nil && !x.CommaOk {
			return f.mapVal[r]
		}
	case *ssa.Extract:
		if lk, ok := x.Tuple.(*ssa.Lookup); ok && x.Index == 0 {
			if r := mapRoot(lk.X); r != nil {
				return f.mapVal[r]
			}
		}
		if call, ok := x.Tuple.(*ssa.Call); ok && x.Index == 0 {
			if oc := f.d.m.AsORMCall(call); oc != nil && oc.Method == "InsertReturningID" && len(oc.Table.PK) == 1 {
				return oc.Table.Name + "." + snakeToCamel(oc.Table.PK[0])
			}
		}
	case *ssa.Phi:
		got := ""
		for _, e := range x.Edges {
			d := f.dim(e)
			if d == "" {
				continue
			}
			if got != "" && got != d {
				return ""
			}
			got = d
		}
		return got
	case *ssa.Convert:
		return f.dim(x.X)
	case *ssa.ChangeType:
		return f.dim(x.X)
	}
	return ""
}

type dimIssue struct {
	Pos  token.Pos
	Key  string
	What string
}

// analyzeDims runs the discipline on one function.
func (d *dimAnalyzer) analyzeDims(fn *ssa.Function) (issues []dimIssue, sites int) {
	f := &fnDims{d: d, fn: fn, memo: map[ssa.Value]string{}, busy: map[ssa.Value]bool{}, mapKey: map[ssa.Value]string{}, mapVal: map[ssa.Value]string{}, mapSite: map[ssa.Value]ssa.Instruction{}}
	// pass 1 (twice, so value dims that depend on other maps settle): map updates define key/value dims
	for round := 0; round < 2; round++ {
		f.memo = map[ssa.Value]string{}
		for _, b := range fn.Blocks {
			for _, in := range b.Instrs {
				mu, ok := in.(*ssa.MapUpdate)
				if !ok {
					continue
				}
				r := mapRoot(mu.Map)
				if r == nil {
					continue
				}
				if kd := f.dim(mu.Key); kd != "" {
					if old, has := f.mapKey[r]; has && old != kd && round == 1 {
						issues = append(issues, dimIssue{mu.Pos(), fmt.Sprintf("map@%d#update-key", ordinalMake(fn, r)), fmt.Sprintf("map is filled under keys of two different kinds: %s and %s", old, kd)})
					} else if !has {
						f.mapKey[r] = kd
					}
				}
				if vd := f.dim(mu.Value); vd != "" {
					if _, has := f.mapVal[r]; !has {
						f.mapVal[r] = vd
					}
				}
			}
		}
	}
	f.memo = map[ssa.Value]string{}
	// pass 2: uses
	nLook, nGet, nEq := 0, 0, 0
	for _, b := range fn.Blocks {
		for _, in := range b.Instrs {
			switch x := in.(type) {
			case *ssa.Lookup:
				r := mapRoot(x.X)
				if r == nil {
					continue
				}
				kd, md := f.dim(x.Index), f.mapKey[r]
				if kd != "" && md != "" {
					sites++
					nLook++
					if kd != md {
						issues = append(issues, dimIssue{x.Pos(), fmt.Sprintf("map@%d#lookup@%d", ordinalMake(fn, r), nLook), fmt.Sprintf("a map keyed by %s is looked up with a %s value: the entry found (or missed) belongs to a different entity", md, kd)})
					}
				}
			case *ssa.BinOp:
				if x.Op != token.EQL && x.Op != token.NEQ {
					continue
				}
				a, bb := f.dim(x.X), f.dim(x.Y)
				if a != "" && bb != "" {
					sites++
					nEq++
					if a != bb {
						issues = append(issues, dimIssue{x.Pos(), fmt.Sprintf("compare@%d", nEq), fmt.Sprintf("a %s value is compared with a %s value", a, bb)})
					}
				}
			case *ssa.Call:
				oc := d.m.AsORMCall(x)
				if oc == nil || (oc.Kind != "get" && oc.Kind != "has") {
					continue
				}
				names := oc.Table.PK
				if oc.Method != "Get" && oc.Method != "Has" {
					names = oc.Table.Unique["Get"+strings.TrimPrefix(strings.TrimPrefix(oc.Method, "Has"), "Get")]
				}
				for i, n := range names {
					if i+1 >= len(x.Call.Args) {
						break
					}
					want := d.columnDim(oc.Table, snakeToCamel(n))
					got := f.dim(x.Call.Args[i+1])
					if want == "" || got == "" {
						continue
					}
					sites++
					nGet++
					if want != got {
						issues = append(issues, dimIssue{x.Pos(), fmt.Sprintf("%s.%s#arg%d@%d", oc.Table.Name, oc.Method, i, nGet), fmt.Sprintf("%s.%s is keyed on %s but receives a %s value", oc.Table.Name, oc.Method, want, got)})
					}
				}
			}
		}
	}
	return issues, sites
}

// checkedLookups: the key dimensions that fn resolves with a lookup that can FAIL — an ORM Get/Has by
// key (not found ⇒ error) or a comma-ok map lookup whose ok flag is branched on. A plain map index
// silently yields the zero value and resolves nothing.
func (d *dimAnalyzer) checkedLookups(fn *ssa.Function) map[string]string {
	f := &fnDims{d: d, fn: fn, memo: map[ssa.Value]string{}, busy: map[ssa.Value]bool{}, mapKey: map[ssa.Value]string{}, mapVal: map[ssa.Value]string{}, mapSite: map[ssa.Value]ssa.Instruction{}}
	for round := 0; round < 2; round++ {
		f.memo = map[ssa.Value]string{}
		for _, b := range fn.Blocks {
			for _, in := range b.Instrs {
				if mu, ok := in.(*ssa.MapUpdate); ok {
					if r := mapRoot(mu.Map); r != nil {
						if kd := f.dim(mu.Key); kd != "" {
							if _, has := f.mapKey[r]; !has {
								f.mapKey[r] = kd
							}
						}
						if vd := f.dim(mu.Value); vd != "" {
							if _, has := f.mapVal[r]; !has {
								f.mapVal[r] = vd
							}
						}
					}
				}
			}
		}
	}
	f.memo = map[ssa.Value]string{}
	out := map[string]string{}
	for _, b := range fn.Blocks {
		for _, in := range b.Instrs {
			switch x := in.(type) {
			case *ssa.Call:
				oc := d.m.AsORMCall(x)
				if oc == nil || (oc.Kind != "get" && oc.Kind != "has") {
					continue
				}
				for i := 1; i < len(x.Call.Args); i++ {
					if kd := f.dim(x.Call.Args[i]); kd != "" {
						out[kd] = "store lookup " + oc.Table.Name + "." + oc.Method
					}
				}
			case *ssa.Lookup:
				if !x.CommaOk {
					continue
				}
				tested := false
				for _, r := range *x.Referrers() {
					if ex, ok := r.(*ssa.Extract); ok && ex.Index == 1 {
						if ifi, _ := ifOn(ex); ifi != nil {
							tested = true
						}
					}
				}
				if !tested {
					continue
				}
				if kd := f.dim(x.Index); kd != "" {
					out[kd] = "tested map lookup"
				}
			}
		}
	}
	return out
}

func ordinalMake(fn *ssa.Function, r ssa.Value) int {
	n := 0
	for _, b := range fn.Blocks {
		for _, in := range b.Instrs {
			if _, ok := in.(*ssa.MakeMap); ok {
				n++
				if in.(ssa.Value) == r {
					return n
				}
			}
		}
	}
	return n
}

// ruleKeyDims applies the discipline to the functions selected by pkgFilter.
func ruleKeyDims(c *Ctx, m *Model, rule string, pkgFilter func(pkg string) bool) (sites int) {
	d := newDimAnalyzer(m)
	p := m.P
	var fns []*ssa.Function
	for _, fn := range m.subjectFns(false) {
		if pkgFilter(fnPkgPath(fn)) {
			fns = append(fns, fn)
		}
	}
	sort.Slice(fns, func(i, j int) bool { return fns[i].String() < fns[j].String() })
	for _, fn := range fns {
		issues, n := d.analyzeDims(fn)
		sites += n
		for _, is := range issues {
			c.Violate(rule, funcKey(fn)+"#"+is.Key, p.Pos(is.Pos), is.What, nil)
		}
		if len(issues) == 0 && n > 0 {
			c.Hold(rule, funcKey(fn), p.Pos(fn.Pos()), fmt.Sprintf("%d key uses (map lookups, ORM lookups, equality tests) combine values of one key kind only", n), nil)
		}
	}
	return sites
}

var _ = types.Typ

package main

// E1 — the path explorer: depth-first over the SSA of an entry point, inlining
// repo callees that can touch tracked state, forking at interpreted branches.

import (
	"fmt"
	"go/constant"
	"go/token"
	"go/types"
	"os"
	"sort"
	"strings"

	"golang.org/x/tools/go/ssa"
)

// State is the per-path abstract state (cloned at forks).
type State struct {
	mem      map[int]*Obj
	symMem   map[string]Val // stores through symbolic pointers
	nextID   int
	errs     map[int]int8 // 1 nil, 2 non-nil
	facts    []string     // ordered, "+F" / "-F"
	factSet  map[string]bool
	events   []Event
	atomAttr map[string]*AtomAttr
	uf       map[string]string // union-find over canonical names (equalities)
	notes    []string          // undecided constructs met on this path
	loops    []LoopRec
	steps    int
	eqs      []Lin // linear forms known to be zero on this path
}

type AtomAttr struct {
	NonNeg, Pos bool
	Fixed       string
}

type LoopRec struct {
	NFacts int // facts established before the loop was entered
	Tag    string
	Phis   []PhiRec
	Fn     *ssa.Function
}

type PhiRec struct {
	Name  string
	Init  Val
	Havoc Val
	Back  Val // set on loopback
	// loop-carried state that lives in a memory cell (a field of a struct the loop body updates through
	// a pointer, a captured local) rather than in an SSA φ: where to read its value at the back edge
	MemObj int
	MemKey string
}

func newState() *State {
	return &State{mem: map[int]*Obj{}, symMem: map[string]Val{}, nextID: 1, errs: map[int]int8{}, factSet: map[string]bool{}, atomAttr: map[string]*AtomAttr{}, uf: map[string]string{}}
}

func (s *State) clone() *State {
	n := &State{nextID: s.nextID, steps: s.steps}
	n.mem = make(map[int]*Obj, len(s.mem))
	for k, v := range s.mem {
		n.mem[k] = v.clone()
	}
	n.symMem = make(map[string]Val, len(s.symMem))
	for k, v := range s.symMem {
		n.symMem[k] = v
	}
	n.errs = make(map[int]int8, len(s.errs))
	for k, v := range s.errs {
		n.errs[k] = v
	}
	n.facts = append([]string(nil), s.facts...)
	n.factSet = make(map[string]bool, len(s.factSet))
	for k, v := range s.factSet {
		n.factSet[k] = v
	}
	n.events = append([]Event(nil), s.events...)
	n.atomAttr = make(map[string]*AtomAttr, len(s.atomAttr))
	for k, v := range s.atomAttr {
		c := *v
		n.atomAttr[k] = &c
	}
	n.uf = make(map[string]string, len(s.uf))
	for k, v := range s.uf {
		n.uf[k] = v
	}
	n.notes = append([]string(nil), s.notes...)
	n.eqs = append([]Lin(nil), s.eqs...)
	n.loops = make([]LoopRec, len(s.loops))
	for i, l := range s.loops {
		n.loops[i] = LoopRec{Tag: l.Tag, Fn: l.Fn, NFacts: l.NFacts, Phis: append([]PhiRec(nil), l.Phis...)}
	}
	return n
}

func (s *State) newID() int { id := s.nextID; s.nextID++; return id }

func (s *State) newObj(kind string, t types.Type) *Obj {
	o := &Obj{ID: s.newID(), Kind: kind, T: t, F: map[string]Val{}}
	s.mem[o.ID] = o
	return o
}

func (s *State) find(x string) string {
	for {
		p, ok := s.uf[x]
		if !ok || p == x {
			return x
		}
		x = p
	}
}

func (s *State) union(a, b string) {
	ra, rb := s.find(a), s.find(b)
	if ra == rb {
		return
	}
	// deterministic representative: prefer the shorter / lexicographically smaller
	if len(rb) < len(ra) || (len(rb) == len(ra) && rb < ra) {
		ra, rb = rb, ra
	}
	s.uf[rb] = ra
}

// canon gives the canonical (equality-normalised) name of a value.
func (s *State) canon(v Val) string { return s.find(vstr(v)) }

// assume adds a fact with polarity; returns false when it contradicts the path.
func (s *State) assume(f string, pos bool) bool {
	key, opp := "+"+f, "-"+f
	if !pos {
		key, opp = opp, key
	}
	if s.factSet[opp] {
		return false
	}
	if s.factSet[key] {
		return true
	}
	s.factSet[key] = true
	s.facts = append(s.facts, key)
	return true
}

func (s *State) known(f string) (val bool, ok bool) {
	if s.factSet["+"+f] {
		return true, true
	}
	if s.factSet["-"+f] {
		return false, true
	}
	return false, false
}

func (s *State) note(n string) { s.notes = append(s.notes, n) }

// ---- explorer -----------------------------------------------------------------

type exitKind int

const (
	exitReturn exitKind = iota
	exitLoopback
	exitPanic
	exitCut // path cap / depth cap
)

// Outcome is one completed path of an entry point.
type Outcome struct {
	St     *State
	Rets   []Val
	Kind   exitKind
	Commit bool
	Loop   string // for loopback: tag of the loop
}

type Frame struct {
	fn      *ssa.Function
	env     map[ssa.Value]Val
	visited map[*ssa.BasicBlock]bool
	unroll  map[*ssa.BasicBlock]int // loop headers executed concretely (constant small trip count): visits so far
	entries map[*ssa.BasicBlock]int // symbolic loop headers: how often the loop was entered from outside (re-entry inside an unrolled loop)
	depth   int
	tag     string // loop tag prefix inherited from callers
	id      int
	// flag-controlled loop header about to be evaluated: 1 = only the successor inside the loop may be
	// taken (first visit: the flag's initial value enters the loop), 2 = only the successor outside (the
	// flag as the iteration left it ends the loop); consumed by the header's If
	hdrMode  int
	hdrBlock *ssa.BasicBlock
}

func (f *Frame) clone() *Frame {
	n := &Frame{fn: f.fn, depth: f.depth, tag: f.tag, id: f.id, hdrMode: f.hdrMode, hdrBlock: f.hdrBlock}
	n.env = make(map[ssa.Value]Val, len(f.env))
	for k, v := range f.env {
		n.env[k] = v
	}
	n.visited = make(map[*ssa.BasicBlock]bool, len(f.visited))
	for k, v := range f.visited {
		n.visited[k] = v
	}
	if f.unroll != nil {
		n.unroll = make(map[*ssa.BasicBlock]int, len(f.unroll))
		for k, v := range f.unroll {
			n.unroll[k] = v
		}
	}
	if f.entries != nil {
		n.entries = make(map[*ssa.BasicBlock]int, len(f.entries))
		for k, v := range f.entries {
			n.entries[k] = v
		}
	}
	return n
}

type loopInfo struct {
	headers map[*ssa.BasicBlock]bool
	body    map[*ssa.BasicBlock]map[*ssa.BasicBlock]bool // header → blocks
	inner   map[*ssa.BasicBlock]*ssa.BasicBlock          // block → innermost header
}

type Explorer struct {
	graph *Graph // call graph, built on first use (sole implementations of hand-written interfaces)
	// loop-carried variables that only ever hold one of a few loop-invariant values (a value computed on
	// first use and kept): tag+φ name → those values; filled by a first exploration, used by the second
	phiHints      map[string][]Val
	M             *Model
	P             *Program
	touches       map[*ssa.Function]bool
	reqTypeSet    map[*types.TypeName]bool
	statePkgs     map[string]bool // packages holding state-touching code (keepers, servers, their utils): helpers there are inlined
	loops         map[*ssa.Function]*loopInfo
	outcomes      []*Outcome
	pathCap       int
	maxDepth      int
	cut           bool
	frameSeq      int
	validatorMode bool // inline nested Validate()/ValidateBasic() methods (validator exploration)
	curTag        string
	Stats         struct{ Paths, Forks, Inlined, Steps int }
}

func NewExplorer(m *Model) *Explorer {
	x := &Explorer{M: m, P: m.P, loops: map[*ssa.Function]*loopInfo{}, pathCap: 20000, maxDepth: 7}
	if thoroughTier {
		x.pathCap, x.maxDepth = 400000, 12
	}
	x.touches = touchesState(m)
	x.statePkgs = map[string]bool{}
	for fn := range x.touches {
		x.statePkgs[fnPkgPath(fn)] = true
	}
	for _, ep := range m.Entries {
		if ep.Fn != nil && ep.Implemented {
			x.statePkgs[fnPkgPath(ep.Fn)] = true
		}
	}
	return x
}

// touchesState: functions that (transitively) perform an ORM or bank call.
func touchesState(m *Model) map[*ssa.Function]bool {
	fns := m.subjectFns(false)
	w := map[*ssa.Function]bool{}
	for _, fn := range fns {
		for _, ci := range callsIn(fn) {
			if oc := m.AsORMCall(ci); oc != nil {
				w[fn] = true
			}
			if b := AsBankCall(ci); b != "" {
				w[fn] = true
			}
		}
	}
	for changed := true; changed; {
		changed = false
		for _, fn := range fns {
			if w[fn] {
				continue
			}
			mark := false
			for _, ci := range callsIn(fn) {
				if sc := ci.Common().StaticCallee(); sc != nil && w[sc] {
					mark = true
				}
			}
			for _, af := range fn.AnonFuncs {
				if w[af] {
					mark = true
				}
			}
			if mark {
				w[fn] = true
				changed = true
			}
		}
	}
	return w
}

func (x *Explorer) loopsOf(fn *ssa.Function) *loopInfo {
	if li, ok := x.loops[fn]; ok {
		return li
	}
	li := &loopInfo{headers: map[*ssa.BasicBlock]bool{}, body: map[*ssa.BasicBlock]map[*ssa.BasicBlock]bool{}, inner: map[*ssa.BasicBlock]*ssa.BasicBlock{}}
	for _, b := range fn.Blocks {
		for _, p := range b.Preds {
			if b.Dominates(p) {
				li.headers[b] = true
				if li.body[b] == nil {
					li.body[b] = map[*ssa.BasicBlock]bool{b: true}
				}
				var back func(q *ssa.BasicBlock)
				back = func(q *ssa.BasicBlock) {
					if li.body[b][q] {
						return
					}
					li.body[b][q] = true
					for _, r := range q.Preds {
						back(r)
					}
				}
				back(p)
			}
		}
	}
	for _, b := range fn.Blocks {
		var best *ssa.BasicBlock
		for h, body := range li.body {
			if body[b] {
				if best == nil || len(body) < len(li.body[best]) {
					best = h
				}
			}
		}
		li.inner[b] = best
	}
	x.loops[fn] = li
	return li
}

func (x *Explorer) loopTag(fr *Frame, b *ssa.BasicBlock) string {
	li := x.loopsOf(fr.fn)
	h := li.inner[b]
	if h != nil && fr.unroll != nil {
		if _, un := fr.unroll[h]; un {
			// a concretely unrolled loop is straight-line code: the innermost symbolic loop around it counts
			var best *ssa.BasicBlock
			for hh, body := range li.body {
				if _, u2 := fr.unroll[hh]; u2 || !body[b] {
					continue
				}
				if best == nil || len(body) < len(li.body[best]) {
					best = hh
				}
			}
			h = best
		}
	}
	if h == nil {
		return fr.tag
	}
	return fr.tag + fr.headerTag(h)
}

// headerTag names a symbolic loop; a loop entered again from outside (it sits inside a concretely
// unrolled loop) gets a fresh name per entry so that its variables are not confused with the earlier run's.
func (fr *Frame) headerTag(h *ssa.BasicBlock) string {
	if n := fr.entries[h]; n > 1 {
		return fmt.Sprintf("%s.L%d#%d/", fr.fn.Name(), h.Index, n)
	}
	return fmt.Sprintf("%s.L%d/", fr.fn.Name(), h.Index)
}

func containsFuncType(t types.Type, depth int) bool {
	if depth > 3 {
		return false
	}
	switch u := t.Underlying().(type) {
	case *types.Signature:
		return true
	case *types.Pointer:
		return containsFuncType(u.Elem(), depth+1)
	case *types.Struct:
		for i := 0; i < u.NumFields(); i++ {
			if containsFuncType(u.Field(i).Type(), depth+1) {
				return true
			}
		}
	}
	return false
}

// localLiteralTable: v is a slice of an array allocated and filled in fn itself — the lowering of a
// composite literal `[]T{…}` written in this function (a table of cases), as opposed to a slice that
// arrives through a parameter or a request field.
func localLiteralTable(v ssa.Value, fn *ssa.Function) bool {
	sl, ok := v.(*ssa.Slice)
	if !ok || sl.Low != nil || sl.High != nil {
		return false
	}
	al, ok := sl.X.(*ssa.Alloc)
	if !ok || al.Parent() != fn {
		return false
	}
	pt, ok := al.Type().Underlying().(*types.Pointer)
	if !ok {
		return false
	}
	_, isArr := pt.Elem().Underlying().(*types.Array)
	return isArr
}

// isVariadicParam: v is the variadic parameter of fn — `f(prec, a, b, c)`: the caller wrote the elements
// out, their number is a constant of the call site.
func isVariadicParam(v ssa.Value, fn *ssa.Function) bool {
	p, ok := v.(*ssa.Parameter)
	return ok && fn.Signature.Variadic() && len(fn.Params) > 0 && fn.Params[len(fn.Params)-1] == p
}

// dataOnlyLoop: the body of the loop at header h only shuffles data — no static call except builtins
// and conversions, no interface method call, no go/defer/send/select, no store outside locals. Calls of
// function *values* (a conversion closure handed to a map/filter helper) are allowed. Such a loop over
// a sequence whose elements are known is evaluated element by element.
func (x *Explorer) dataOnlyLoop(fn *ssa.Function, h *ssa.BasicBlock) bool {
	li := x.loopsOf(fn)
	for b := range li.body[h] {
		for _, in := range b.Instrs {
			switch y := in.(type) {
			case *ssa.Call:
				if y.Call.IsInvoke() {
					return false
				}
				if _, isB := y.Call.Value.(*ssa.Builtin); isB {
					continue
				}
				if y.Call.StaticCallee() != nil {
					if _, isClosure := y.Call.Value.(*ssa.MakeClosure); !isClosure {
						return false
					}
				}
			case *ssa.Go, *ssa.Defer, *ssa.Send, *ssa.Select, *ssa.Panic, *ssa.MapUpdate:
				return false
			case *ssa.Store:
				if _, isG := y.Addr.(*ssa.Global); isG {
					return false
				}
			}
		}
	}
	return true
}

// constantTrip: the loop at header b runs a small constant number of times that is known now — its exit
// test compares (index φ + c) with a value that evaluates to a constant ≤ 8, the φ starting from a
// constant (the shape of `for i := range <literal slice>` and `for i := 0; i < 3; i++`).
func (x *Explorer) constantTrip(fr *Frame, st *State, b, pred *ssa.BasicBlock) bool {
	if len(b.Instrs) == 0 {
		return false
	}
	ifi, ok := b.Instrs[len(b.Instrs)-1].(*ssa.If)
	if !ok {
		return false
	}
	bo, ok := ifi.Cond.(*ssa.BinOp)
	if !ok || bo.Block() != b {
		return false
	}
	switch bo.Op {
	case token.LSS, token.LEQ, token.GTR, token.GEQ, token.NEQ:
	default:
		return false
	}
	isIdx := func(v ssa.Value) bool {
		for i := 0; i < 3; i++ {
			switch y := v.(type) {
			case *ssa.Phi:
				if y.Block() != b {
					return false
				}
				_, isK := x.eval(fr, st, y.Edges[predIndex(b, pred)]).(*KConst)
				return isK
			case *ssa.BinOp:
				if _, isC := y.Y.(*ssa.Const); isC && (y.Op == token.ADD || y.Op == token.SUB) && y.Block() == b {
					v = y.X
					continue
				}
				return false
			default:
				return false
			}
		}
		return false
	}
	bound := func(v ssa.Value) bool {
		if in, isInstr := v.(ssa.Instruction); isInstr && in.Block() == b {
			// computed inside the header: not known before the loop — except len(xs) of a slice value defined
			// before the loop (`for i := 0; i < len(xs); i++` re-evaluates len in the header; xs is one SSA
			// value, so its length does not change while the loop runs)
			inv := false
			if call, isCall := v.(*ssa.Call); isCall && len(call.Call.Args) == 1 {
				if bi, isB := call.Call.Value.(*ssa.Builtin); isB && bi.Name() == "len" {
					if ai, isI := call.Call.Args[0].(ssa.Instruction); !isI || ai.Block() != b {
						if li := x.loopsOf(fr.fn); li == nil || !isInstrInLoop(li, b, call.Call.Args[0]) {
							inv = true
						}
					}
				}
			}
			if !inv {
				return false
			}
		}
		// unrolled are: tables of code (a literal slice whose elements carry function values), tables of
		// cases written as a literal in this very function, and loops that only shuffle data (map / filter
		// helpers) — each only when the length is a known small constant now. Loops over request data
		// stay symbolic: one iteration stands for all, and the path count stays a sum instead of a product.
		call, isCall := v.(*ssa.Call)
		if !isCall || len(call.Call.Args) != 1 {
			return false
		}
		if bi, isB := call.Call.Value.(*ssa.Builtin); !isB || bi.Name() != "len" {
			return false
		}
		var et types.Type
		switch tt := call.Call.Args[0].Type().Underlying().(type) {
		case *types.Slice:
			et = tt.Elem()
		case *types.Array:
			et = tt.Elem()
		}
		if et == nil {
			return false
		}
		if !containsFuncType(et, 0) && !localLiteralTable(call.Call.Args[0], fr.fn) && !x.dataOnlyLoop(fr.fn, b) && !isVariadicParam(call.Call.Args[0], fr.fn) {
			return false
		}
		var kv Val
		if in, isInstr := v.(ssa.Instruction); isInstr && in.Block() == b {
			// the header has not run yet: evaluate len of the (pre-loop) slice directly
			kv = x.builtin(fr, st, call, []Val{x.eval(fr, st, call.Call.Args[0])})
		} else {
			kv = x.eval(fr, st, v)
		}
		k, isK := kv.(*KConst)
		if !isK {
			return false
		}
		var n int64
		if _, err := fmt.Sscanf(k.S, "%d", &n); err != nil {
			return false
		}
		return n >= 0 && n <= 8
	}
	// `for i := 0; i < N; i++ { … table[i] … }` with N a small constant (len of a local ARRAY literal is folded
	// to a constant by the SSA builder) and `table` a literal array of this function: a table of cases
	constTable := func(idx, bnd ssa.Value) bool {
		k, isC := bnd.(*ssa.Const)
		if !isC || k.Value == nil || !isIdx(idx) {
			return false
		}
		n, exact := constant.Int64Val(constant.ToInt(k.Value))
		if !exact || n < 0 || n > 8 {
			return false
		}
		li := x.loopsOf(fr.fn)
		for blk := range li.body[b] {
			for _, in := range blk.Instrs {
				var base, index ssa.Value
				switch y := in.(type) {
				case *ssa.IndexAddr:
					base, index = y.X, y.Index
				case *ssa.Index:
					base, index = y.X, y.Index
				default:
					continue
				}
				if index != idx {
					continue
				}
				if sl, isSl := base.(*ssa.Slice); isSl {
					base = sl.X
				}
				if al, isAl := base.(*ssa.Alloc); isAl {
					if pt, isP := al.Type().Underlying().(*types.Pointer); isP {
						if _, isArr := pt.Elem().Underlying().(*types.Array); isArr {
							return true
						}
					}
				}
			}
		}
		return false
	}
	if constTable(bo.X, bo.Y) || constTable(bo.Y, bo.X) {
		return true
	}
	if os.Getenv("E1DEBUG_TRIP") != "" {
		fmt.Fprintf(os.Stderr, "TRIP %s b=%d op=%s isIdx(X)=%v bound(Y)=%v X=%T Y=%T\n", fr.fn.Name(), b.Index, bo.Op, isIdx(bo.X), bound(bo.Y), bo.X, bo.Y)
	}
	return (isIdx(bo.X) && bound(bo.Y)) || (isIdx(bo.Y) && bound(bo.X))
}

// Explore runs an entry point. params gives the abstract arguments.
func (x *Explorer) Explore(fn *ssa.Function, params []Val) []*Outcome {
	return x.ExploreWith(fn, func(*State) []Val { return params })
}

// ExploreWith: as Explore, the arguments being built in the initial state (objects, known sequences).
func (x *Explorer) ExploreWith(fn *ssa.Function, build func(st *State) []Val) []*Outcome {
	outs := x.exploreOnce(fn, build)
	if x.phiHints != nil {
		return outs
	}
	if hints := phiValueSets(outs); len(hints) > 0 {
		x.phiHints = hints
		paths := x.Stats.Paths
		outs = x.exploreOnce(fn, build)
		x.Stats.Paths += paths
		x.phiHints = nil
	}
	return outs
}

// pureLoopInvariant: a value that means the same in every state and every iteration — nil, a constant,
// or a term over the request only.
func pureLoopInvariant(v Val, tag string) bool {
	switch y := v.(type) {
	case *KConst:
		return true
	case *Sym:
		return !strings.Contains(y.N, "#") && !strings.Contains(y.N, "/") && !strings.Contains(y.N, tag) && strings.Contains(y.N, "req.")
	}
	return false
}

// phiValueSets: for each loop-carried φ, if at every back edge seen it holds either what it held at the start
// of the iteration or one and the same loop-invariant value X, and it enters the loop as nil / a constant,
// then by induction it only ever holds the initial value or X.
func phiValueSets(outs []*Outcome) map[string][]Val {
	type acc struct {
		init  Val
		other map[string]Val
		bad   bool
		n     int
	}
	accs := map[string]*acc{}
	for _, o := range outs {
		if o.Kind != exitLoopback {
			continue
		}
		for _, l := range o.St.loops {
			if l.Tag != o.Loop {
				continue
			}
			for _, ph := range l.Phis {
				if ph.MemKey != "" || ph.Havoc == nil {
					continue
				}
				hs, isSym := ph.Havoc.(*Sym)
				if !isSym {
					continue
				}
				k := l.Tag + "|" + ph.Name
				a := accs[k]
				if a == nil {
					a = &acc{init: ph.Init, other: map[string]Val{}}
					accs[k] = a
				}
				a.n++
				if _, isK := ph.Init.(*KConst); !isK || vstr(ph.Init) != vstr(a.init) {
					a.bad = true
				}
				if ph.Back == nil {
					a.bad = true
					continue
				}
				if bs, ok := ph.Back.(*Sym); ok && bs.N == hs.N {
					continue // unchanged in this iteration
				}
				if vstr(ph.Back) == vstr(a.init) {
					continue
				}
				if !pureLoopInvariant(ph.Back, l.Tag) {
					a.bad = true
					continue
				}
				a.other[vstr(ph.Back)] = ph.Back
			}
		}
	}
	out := map[string][]Val{}
	for k, a := range accs {
		if a.bad || len(a.other) != 1 {
			continue
		}
		vals := []Val{a.init}
		for _, v := range a.other {
			vals = append(vals, v)
		}
		out[k] = vals
	}
	return out
}

func (x *Explorer) exploreOnce(fn *ssa.Function, build func(st *State) []Val) []*Outcome {
	x.outcomes = nil
	x.cut = false
	st := newState()
	params := build(st)
	x.callFn(fn, params, nil, st, 0, "", func(st *State, rets []Val, kind exitKind, loop string) {
		o := &Outcome{St: st, Rets: rets, Kind: kind, Loop: loop}
		switch kind {
		case exitReturn:
			// `return helper(x)` / `_, err = f(x); return err`: the committed outcome is the one in which
			// that error turned out nil — which, for a validation helper, is a fact about its argument
			if idx := errResultIndex(fn.Signature); idx >= 0 && idx < len(rets) {
				if e, ok := rets[idx].(*ErrV); ok && st.errs[e.ID] == 0 {
					st.errs[e.ID] = 1
					if strings.Contains(e.Origin, "(") && !strings.HasPrefix(e.Origin, "orm:") {
						st.assume("Ok("+e.Origin+")", true)
					}
				}
			}
			o.Commit = !x.isAbort(st, fn, rets)
		case exitLoopback:
			o.Commit = true
		}
		x.outcomes = append(x.outcomes, o)
		x.Stats.Paths++
	})
	return x.outcomes
}

func (x *Explorer) isAbort(st *State, fn *ssa.Function, rets []Val) bool {
	idx := errResultIndex(fn.Signature)
	if idx < 0 || idx >= len(rets) {
		return false
	}
	if e, ok := rets[idx].(*ErrV); ok {
		return st.errs[e.ID] == 2
	}
	return false
}

type cont func(st *State, rets []Val, kind exitKind, loop string)

func (x *Explorer) callFn(fn *ssa.Function, args []Val, binds []Val, st *State, depth int, tag string, k cont) {
	x.frameSeq++
	fr := &Frame{fn: fn, env: map[ssa.Value]Val{}, visited: map[*ssa.BasicBlock]bool{}, depth: depth, tag: tag, id: x.frameSeq}
	for i, p := range fn.Params {
		if i < len(args) {
			fr.env[p] = args[i]
		} else {
			fr.env[p] = &Sym{N: p.Name(), T: p.Type()}
		}
	}
	for i, fv := range fn.FreeVars {
		if i < len(binds) {
			fr.env[fv] = binds[i]
		} else {
			fr.env[fv] = &Sym{N: "^" + fv.Name(), T: fv.Type()}
		}
	}
	x.Stats.Inlined++
	x.runBlock(fr, fn.Blocks[0], nil, st, k)
}

// condKnown: the truth value of a condition value if the path decides it.
func condKnown(st *State, cond Val) (bool, bool) {
	switch c := cond.(type) {
	case *KConst:
		return c.S == "true", c.S == "true" || c.S == "false"
	case *BoolV:
		if v, ok := st.known(c.F); ok {
			return v != c.Neg, true
		}
	default:
		if cond != nil {
			if v, ok := st.known("Cond(" + vstr(cond) + ")"); ok {
				return v, true
			}
		}
	}
	return false, false
}

// flagPhi: the header does nothing but test one of its own boolean φs (possibly negated) and has one
// successor inside and one outside the loop — a loop controlled by a flag. Returns that φ.
func flagPhi(b *ssa.BasicBlock, body map[*ssa.BasicBlock]bool) *ssa.Phi {
	if len(b.Succs) != 2 || body[b.Succs[0]] == body[b.Succs[1]] || len(b.Instrs) == 0 {
		return nil
	}
	ifi, ok := b.Instrs[len(b.Instrs)-1].(*ssa.If)
	if !ok {
		return nil
	}
	cond := ifi.Cond
	var not *ssa.UnOp
	if u, isU := cond.(*ssa.UnOp); isU && u.Op == token.NOT {
		not, cond = u, u.X
	}
	ph, ok := cond.(*ssa.Phi)
	if !ok || ph.Block() != b || phiOfNextCalls(ph) {
		return nil
	}
	for _, in := range b.Instrs {
		switch x := in.(type) {
		case *ssa.Phi, *ssa.If, *ssa.DebugRef:
		case *ssa.UnOp:
			if x != not {
				return nil
			}
		default:
			return nil
		}
	}
	return ph
}

// flagEnters: the flag's value on every entry from outside the loop is a constant with which the header
// goes into the body (the loop cannot end before its first iteration).
func (x *Explorer) flagEnters(fr *Frame, st *State, fl *ssa.Phi, b *ssa.BasicBlock, body map[*ssa.BasicBlock]bool) bool {
	ifi := b.Instrs[len(b.Instrs)-1].(*ssa.If)
	_, negated := ifi.Cond.(*ssa.UnOp)
	for i, p := range b.Preds {
		if body[p] {
			continue
		}
		c, ok := fl.Edges[i].(*ssa.Const)
		if !ok || c.Value == nil {
			return false
		}
		v := c.Value.String() == "true"
		if negated {
			v = !v
		}
		// true → Succs[0]
		target := b.Succs[1]
		if v {
			target = b.Succs[0]
		}
		if !body[target] {
			return false
		}
	}
	return true
}

// phiOfNextCalls: every edge of the φ is the result of Next() invoked on one and the same iterator value.
func phiOfNextCalls(ph *ssa.Phi) bool {
	var recv ssa.Value
	for _, e := range ph.Edges {
		c, ok := e.(*ssa.Call)
		if !ok || !c.Call.IsInvoke() || c.Call.Method.Name() != "Next" {
			return false
		}
		if recv != nil && !sameSSAValue(c.Call.Value, recv, 0) {
			return false
		}
		recv = c.Call.Value
	}
	return recv != nil
}

// sameSSAValue: the two registers hold the same value by construction (identical, or the same embedded
// field / conversion of values that are).
func sameSSAValue(a, b ssa.Value, depth int) bool {
	if a == b {
		return true
	}
	if depth > 4 {
		return false
	}
	switch x := a.(type) {
	case *ssa.Field:
		y, ok := b.(*ssa.Field)
		return ok && x.Field == y.Field && sameSSAValue(x.X, y.X, depth+1)
	case *ssa.ChangeInterface:
		y, ok := b.(*ssa.ChangeInterface)
		return ok && sameSSAValue(x.X, y.X, depth+1)
	case *ssa.MakeInterface:
		y, ok := b.(*ssa.MakeInterface)
		return ok && sameSSAValue(x.X, y.X, depth+1)
	}
	return false
}

// runBlock enters block b coming from pred.
func (x *Explorer) runBlock(fr *Frame, b *ssa.BasicBlock, pred *ssa.BasicBlock, st *State, k cont) {
	if x.Stats.Paths > x.pathCap {
		x.cut = true
		k(st, nil, exitCut, "")
		return
	}
	li := x.loopsOf(fr.fn)
	if li.headers[b] {
		if _, un := fr.unroll[b]; un || (!fr.visited[b] && pred != nil && !li.body[b][pred] && x.constantTrip(fr, st, b, pred)) {
			// concrete execution of a constant-trip loop: φs take their incoming values, the header may be revisited
			if fr.unroll == nil {
				fr.unroll = map[*ssa.BasicBlock]int{}
			}
			if pred != nil && !li.body[b][pred] {
				fr.unroll[b] = 0 // (re-)entered from outside
			}
			fr.unroll[b]++
			if fr.unroll[b] > 12 {
				x.cut = true
				k(st, nil, exitCut, "")
				return
			}
			var phis []*ssa.Phi
			var vals []Val
			for _, in := range b.Instrs {
				ph, ok := in.(*ssa.Phi)
				if !ok {
					break
				}
				phis = append(phis, ph)
				vals = append(vals, x.eval(fr, st, ph.Edges[predIndex(b, pred)]))
			}
			for i, ph := range phis {
				fr.env[ph] = vals[i]
			}
			x.runInstrs(fr, b, firstNonPhi(b), st, k)
			return
		}
		if pred != nil && !li.body[b][pred] {
			// entry from outside the loop
			if fr.entries == nil {
				fr.entries = map[*ssa.BasicBlock]int{}
			}
			fr.entries[b]++
			fr.visited[b] = false
		}
		tag := fr.tag + fr.headerTag(b)
		if fr.visited[b] {
			// back edge: end of one symbolic iteration
			for i := range st.loops {
				if st.loops[i].Tag == tag {
					for j := range st.loops[i].Phis {
						if mk := st.loops[i].Phis[j].MemKey; mk != "" {
							if o := st.mem[st.loops[i].Phis[j].MemObj]; o != nil {
								st.loops[i].Phis[j].Back = o.F[mk]
							}
							continue
						}
						ph := x.findPhi(b, st.loops[i].Phis[j].Name)
						if ph != nil {
							st.loops[i].Phis[j].Back = x.eval(fr, st, ph.Edges[predIndex(b, pred)])
						}
					}
				}
			}
			// a loop ended by a flag the body sets (`for done := false; !done; { …; done = … }`): the header
			// tests what this iteration left in the flag, so the way out of the loop continues this
			// iteration — exactly as a `break` at the end of the body would
			if fl := flagPhi(b, li.body[b]); fl != nil && x.flagEnters(fr, st, fl, b, li.body[b]) {
				st2, fr2 := st.clone(), fr.clone()
				var phis []*ssa.Phi
				var vals []Val
				for _, in := range b.Instrs {
					ph, ok := in.(*ssa.Phi)
					if !ok {
						break
					}
					phis = append(phis, ph)
					vals = append(vals, x.eval(fr2, st2, ph.Edges[predIndex(b, pred)]))
				}
				for i, ph := range phis {
					fr2.env[ph] = vals[i]
				}
				// does the flag, as this iteration left it, certainly end the loop? Then this was the last
				// iteration, not one that is followed by another
				ifi := b.Instrs[len(b.Instrs)-1].(*ssa.If)
				var flagVal Val = fr2.env[fl]
				certain := false
				if v, known := condKnown(st2, flagVal); known {
					if _, negated := ifi.Cond.(*ssa.UnOp); negated {
						v = !v
					}
					target := b.Succs[1]
					if v {
						target = b.Succs[0]
					}
					certain = !li.body[b][target]
				}
				fr2.hdrMode, fr2.hdrBlock = 2, b
				x.runInstrs(fr2, b, firstNonPhi(b), st2, k)
				if certain {
					return
				}
			}
			k(st, nil, exitLoopback, tag)
			return
		}
		fr.visited[b] = true
		rec := LoopRec{Tag: tag, Fn: fr.fn, NFacts: len(st.facts)}
		for _, in := range b.Instrs {
			ph, ok := in.(*ssa.Phi)
			if !ok {
				break
			}
			init := x.eval(fr, st, ph.Edges[predIndex(b, pred)])
			name := ph.Name()
			if ph.Comment != "" {
				name = ph.Comment
			}
			hv := x.havoc(st, fr, ph, tag+name)
			// `for more := it.Next(); more; more = it.Next()`: the φ holds the result of the latest Next()
			// of one iterator on every edge — it is such a result, not an unknown boolean
			if ib, isB := init.(*BoolV); isB && !ib.Neg && strings.HasPrefix(ib.F, "IterNext(") && phiOfNextCalls(ph) {
				if c := strings.Index(ib.F, ","); c > 0 {
					hv = &BoolV{F: fmt.Sprintf("%s,%d)", ib.F[:c], st.newID())}
				}
			}
			fr.env[ph] = hv
			rec.Phis = append(rec.Phis, PhiRec{Name: ph.Name(), Init: init, Havoc: hv})
		}
		// loop-carried state that is not an SSA φ: local variables whose address is taken (so they live in
		// memory cells) and that the loop body stores to. Their content at the start of the symbolic
		// iteration is whatever earlier iterations left, not the pre-loop value: forget it — and record
		// them like φs (initial value, havoc'd value, value at the back edge) so that accumulators kept in a
		// struct or a captured variable are closed by the same induction
		rec.Phis = append(rec.Phis, x.havocLoopMemory(fr, st, b, li.body[b], tag)...)
		if fl := flagPhi(b, li.body[b]); fl != nil && x.flagEnters(fr, st, fl, b, li.body[b]) {
			fr.hdrMode, fr.hdrBlock = 1, b
		}
		st.loops = append(st.loops, rec)
		st.events = append(st.events, Event{Kind: "loopenter", Method: tag, Loop: tag, Fn: fr.fn, Seq: len(st.events)})
		// φs known (from the first exploration) to hold one of a few loop-invariant values: one path each
		if x.phiHints != nil {
			type alt struct {
				idx  int
				vals []Val
			}
			var alts []alt
			for i, pr := range rec.Phis {
				if vs := x.phiHints[tag+"|"+pr.Name]; len(vs) > 0 && pr.MemKey == "" {
					alts = append(alts, alt{i, vs})
				}
			}
			if len(alts) > 0 && len(alts) <= 2 {
				var rec2 func(ai int, st *State, fr *Frame)
				rec2 = func(ai int, st *State, fr *Frame) {
					if ai == len(alts) {
						x.runInstrs(fr, b, firstNonPhi(b), st, k)
						return
					}
					for vi, v := range alts[ai].vals {
						st2, fr2 := st, fr
						if vi < len(alts[ai].vals)-1 {
							st2, fr2 = st.clone(), fr.clone()
							x.Stats.Forks++
						}
						if ph := x.findPhi(b, rec.Phis[alts[ai].idx].Name); ph != nil {
							fr2.env[ph] = v
						}
						ls := st2.loops
						st2.loops = append([]LoopRec(nil), ls...)
						lr := st2.loops[len(st2.loops)-1]
						lr.Phis = append([]PhiRec(nil), lr.Phis...)
						lr.Phis[alts[ai].idx].Havoc = v
						st2.loops[len(st2.loops)-1] = lr
						rec2(ai+1, st2, fr2)
					}
				}
				rec2(0, st, fr)
				return
			}
		}
	} else if pred != nil {
		// ordinary phis: evaluate simultaneously
		var phis []*ssa.Phi
		var vals []Val
		for _, in := range b.Instrs {
			ph, ok := in.(*ssa.Phi)
			if !ok {
				break
			}
			phis = append(phis, ph)
			vals = append(vals, x.eval(fr, st, ph.Edges[predIndex(b, pred)]))
		}
		for i, ph := range phis {
			fr.env[ph] = vals[i]
		}
	}
	x.runInstrs(fr, b, firstNonPhi(b), st, k)
}

func (x *Explorer) havocLoopMemory(fr *Frame, st *State, header *ssa.BasicBlock, body map[*ssa.BasicBlock]bool, tag string) []PhiRec {
	var recs []PhiRec
	type loc struct {
		a    *ssa.Alloc
		path string
		t    types.Type
	}
	var locs []loc
	seen := map[string]bool{}
	// fieldPath: addr = root.f.g… → (root, ".f.g")
	fieldPath := func(v ssa.Value) (ssa.Value, string) {
		path := ""
		for i := 0; i < 6; i++ {
			if fa, ok := v.(*ssa.FieldAddr); ok {
				path = "." + fieldName(fa.X.Type(), fa.Field) + path
				v = fa.X
				continue
			}
			break
		}
		return v, path
	}
	add := func(root ssa.Value, path string, t types.Type) {
		a, ok := root.(*ssa.Alloc)
		if !ok || a.Block() == nil || body[a.Block()] {
			return
		}
		key := fmt.Sprintf("%p%s", a, path)
		if seen[key] {
			return
		}
		seen[key] = true
		locs = append(locs, loc{a, path, t})
	}
	// paramStores: the field paths a hand-written callee stores through its i-th (pointer) parameter,
	// directly or by handing the parameter on (depth-bounded)
	var paramStores func(f *ssa.Function, i, depth int) map[string]types.Type
	paramStores = func(f *ssa.Function, i, depth int) map[string]types.Type {
		out := map[string]types.Type{}
		if f == nil || depth > 2 || i >= len(f.Params) || len(f.Blocks) == 0 || !isRepoPkgPath(fnPkgPath(f)) {
			return out
		}
		prm := f.Params[i]
		for _, b2 := range f.Blocks {
			for _, in2 := range b2.Instrs {
				switch y := in2.(type) {
				case *ssa.Store:
					if root, path := fieldPath(y.Addr); root == ssa.Value(prm) && path != "" {
						out[path] = y.Val.Type()
					}
				case ssa.CallInstruction:
					for j, a := range y.Common().Args {
						if a == ssa.Value(prm) {
							for pth, t := range paramStores(y.Common().StaticCallee(), j, depth+1) {
								out[pth] = t
							}
						}
					}
				}
			}
		}
		return out
	}
	for blk := range body {
		for _, in := range blk.Instrs {
			switch y := in.(type) {
			case *ssa.Store:
				// address = Alloc or a field path of an Alloc defined outside the loop
				root, path := fieldPath(y.Addr)
				add(root, path, y.Val.Type())
			case ssa.CallInstruction:
				// an object built before the loop and handed by pointer to a helper that sets some of its
				// fields (a row reused across iterations, filled by setter helpers)
				for j, a := range y.Common().Args {
					if _, isAlloc := a.(*ssa.Alloc); !isAlloc {
						continue
					}
					for pth, t := range paramStores(y.Common().StaticCallee(), j, 0) {
						add(a, pth, t)
					}
				}
			}
		}
	}
	sort.Slice(locs, func(i, j int) bool {
		if locs[i].a.Pos() != locs[j].a.Pos() {
			return locs[i].a.Pos() < locs[j].a.Pos()
		}
		return locs[i].path < locs[j].path
	})
	for _, l := range locs {
		p, ok := fr.env[l.a].(*Ptr)
		if !ok {
			continue
		}
		o := st.mem[p.O]
		if o == nil || (o.Table != nil && o.Kind != "lit") {
			continue // fetched rows are governed by the freshness rules; a row *literal* built before the loop is plain memory
		}
		name := tag + "mem:" + l.a.Comment + l.path
		init := o.F[p.Path+l.path]
		switch {
		case isDecType(l.t):
			o.F[p.Path+l.path] = &DecV{L: linAtom("loop:" + name)}
		case isSdkIntType(l.t):
			o.F[p.Path+l.path] = &IntV{L: linAtom("loop:" + name)}
		default:
			o.F[p.Path+l.path] = x.typed(st, &Sym{N: name, T: l.t})
		}
		if init == nil {
			init = zeroVal(l.t)
		}
		recs = append(recs, PhiRec{Name: "mem:" + l.a.Comment + l.path, Init: init, Havoc: o.F[p.Path+l.path], MemObj: p.O, MemKey: p.Path + l.path})
	}
	return recs
}

func (x *Explorer) findPhi(b *ssa.BasicBlock, name string) *ssa.Phi {
	for _, in := range b.Instrs {
		if ph, ok := in.(*ssa.Phi); ok && ph.Name() == name {
			return ph
		}
	}
	return nil
}

func predIndex(b, pred *ssa.BasicBlock) int {
	for i, p := range b.Preds {
		if p == pred {
			return i
		}
	}
	return 0
}

func firstNonPhi(b *ssa.BasicBlock) int {
	for i, in := range b.Instrs {
		if _, ok := in.(*ssa.Phi); !ok {
			return i
		}
	}
	return len(b.Instrs)
}

func isDecType(t types.Type) bool { return typeIs(t, mathPkgSuffix, "Dec") }
func isSdkIntType(t types.Type) bool {
	return typeIs(t, "cosmossdk.io/math", "Int") || typeIs(t, "math/big", "Int")
}

func (x *Explorer) havoc(st *State, fr *Frame, ph *ssa.Phi, name string) Val {
	switch {
	case isDecType(ph.Type()):
		return &DecV{L: linAtom("loop:" + name)}
	case isSdkIntType(ph.Type()):
		return &IntV{L: linAtom("loop:" + name)}
	}
	return &Sym{N: name, T: ph.Type()}
}

func (x *Explorer) runInstrs(fr *Frame, b *ssa.BasicBlock, idx int, st *State, k cont) {
	for i := idx; i < len(b.Instrs); i++ {
		st.steps++
		x.Stats.Steps++
		in := b.Instrs[i]
		switch ins := in.(type) {
		case *ssa.If:
			x.branch(fr, b, ins, st, k)
			return
		case *ssa.Jump:
			x.runBlock(fr, b.Succs[0], b, st, k)
			return
		case *ssa.Return:
			var rets []Val
			for _, r := range ins.Results {
				rets = append(rets, x.eval(fr, st, r))
			}
			k(st, rets, exitReturn, "")
			return
		case *ssa.Panic:
			k(st, nil, exitPanic, "")
			return
		case *ssa.Call:
			// calls may fork (inlining): continue in the continuation
			handled := x.call(fr, b, i, ins, st, k)
			if handled {
				return
			}
		default:
			x.step(fr, st, in)
		}
	}
}

// branch evaluates an If.
func (x *Explorer) branch(fr *Frame, b *ssa.BasicBlock, ins *ssa.If, st *State, k cont) {
	cond := x.eval(fr, st, ins.Cond)
	mode := 0
	if fr.hdrBlock == b {
		mode = fr.hdrMode
	}
	take := func(which int, st *State, fr *Frame) {
		if fr.hdrBlock == b {
			fr.hdrMode, fr.hdrBlock = 0, nil
		}
		if mode != 0 {
			inLoop := x.loopsOf(fr.fn).body[b][b.Succs[which]]
			if (mode == 1 && !inLoop) || (mode == 2 && inLoop) {
				return
			}
		}
		x.runBlock(fr, b.Succs[which], b, st, k)
	}
	switch c := cond.(type) {
	case *KConst:
		if c.S == "true" {
			take(0, st, fr)
		} else {
			take(1, st, fr)
		}
		return
	case *BoolV:
		fact := c.F
		// error-state facts
		if strings.HasPrefix(fact, "ErrNil(") {
			var id int
			fmt.Sscanf(fact, "ErrNil(%d)", &id)
			if s := st.errs[id]; s != 0 {
				v := (s == 1) != c.Neg
				if v {
					take(0, st, fr)
				} else {
					take(1, st, fr)
				}
				return
			}
			x.Stats.Forks++
			st2, fr2 := st.clone(), fr.clone()
			// branch 0 taken when (ErrNil) != Neg
			if !c.Neg {
				st.errs[id] = 1
				st2.errs[id] = 2
			} else {
				st.errs[id] = 2
				st2.errs[id] = 1
			}
			// a validation helper that succeeded is a fact about its argument
			if strings.Contains(c.Aux, "(") && !strings.HasPrefix(c.Aux, "orm:") {
				if st.errs[id] == 1 {
					st.assume("Ok("+c.Aux+")", true)
				} else {
					st2.assume("Ok("+c.Aux+")", true)
				}
			}
			take(0, st, fr)
			take(1, st2, fr2)
			return
		}
		if v, ok := st.known(fact); ok {
			if v != c.Neg {
				take(0, st, fr)
			} else {
				take(1, st, fr)
			}
			return
		}
		x.Stats.Forks++
		st2, fr2 := st.clone(), fr.clone()
		ok1 := x.assumeFact(st, fact, !c.Neg)
		ok2 := x.assumeFact(st2, fact, c.Neg)
		if ok1 {
			take(0, st, fr)
		}
		if ok2 {
			take(1, st2, fr2)
		}
		return
	default:
		fact := "Cond(" + vstr(cond) + ")"
		if v, ok := st.known(fact); ok {
			if v {
				take(0, st, fr)
			} else {
				take(1, st, fr)
			}
			return
		}
		x.Stats.Forks++
		st2, fr2 := st.clone(), fr.clone()
		st.assume(fact, true)
		st2.assume(fact, false)
		take(0, st, fr)
		take(1, st2, fr2)
	}
}

// assumeFact adds a fact and derives equalities from it.
func (x *Explorer) assumeFact(st *State, fact string, pos bool) bool {
	if !st.assume(fact, pos) {
		return false
	}
	// err == sentinel / Is(err, sentinel) holding implies err != nil
	if pos && strings.HasPrefix(fact, "ErrIs(") {
		var id int
		fmt.Sscanf(fact, "ErrIs(%d,", &id)
		if st.errs[id] == 1 {
			return false
		}
		st.errs[id] = 2
	}
	// sign trichotomy of a linear form d: exactly one of Gt0(d), Eq0(d), Lt0(d)
	for _, pfx := range []string{"Gt0(", "Eq0(", "Lt0("} {
		if strings.HasPrefix(fact, pfx) {
			d := fact[len(pfx) : len(fact)-1]
			trio := []string{"Gt0(" + d + ")", "Eq0(" + d + ")", "Lt0(" + d + ")"}
			if pos {
				for _, o := range trio {
					if o != fact && !st.assume(o, false) {
						return false
					}
				}
				if pfx == "Eq0(" {
					if l, ok := linByStr[d]; ok {
						st.eqs = append(st.eqs, l)
					}
				}
			} else {
				var unknown []string
				for _, o := range trio {
					if o == fact {
						continue
					}
					if v, ok := st.known(o); !ok {
						unknown = append(unknown, o)
					} else if v {
						unknown = nil
						break
					}
				}
				if len(unknown) == 1 {
					// both others are known false or this is the last candidate
					other := ""
					for _, o := range trio {
						if o != fact && o != unknown[0] {
							other = o
						}
					}
					if v, ok := st.known(other); ok && !v {
						if !x.assumeFact(st, unknown[0], true) {
							return false
						}
					}
				} else if len(unknown) == 0 {
					// all three false is a contradiction unless one is known true
					anyTrue := false
					for _, o := range trio {
						if v, ok := st.known(o); ok && v {
							anyTrue = true
						}
					}
					if !anyTrue {
						return false
					}
				}
			}
		}
	}
	if pos {
		for _, pfx := range []string{"AddrEq(", "StrEq(", "BytesEq("} {
			if strings.HasPrefix(fact, pfx) {
				args := splitArgs(fact[len(pfx) : len(fact)-1])
				if len(args) == 2 {
					st.union(args[0], args[1])
				}
			}
		}
	}
	return true
}

// splitArgs splits "a, b" at top-level commas followed by a space.
func splitArgs(s string) []string {
	var out []string
	depth := 0
	start := 0
	for i := 0; i < len(s); i++ {
		switch s[i] {
		case '(', '[', '{':
			depth++
		case ')', ']', '}':
			depth--
		case ',':
			if depth == 0 && i+1 < len(s) && s[i+1] == ' ' {
				out = append(out, s[start:i])
				start = i + 2
			}
		}
	}
	out = append(out, s[start:])
	return out
}

// ---- evaluation of non-call instructions ---------------------------------------

func (x *Explorer) eval(fr *Frame, st *State, v ssa.Value) Val {
	if r, ok := fr.env[v]; ok {
		return r
	}
	switch c := v.(type) {
	case *ssa.Const:
		return constVal(c)
	case *ssa.Global:
		return &SymPtr{Base: "global:" + c.Pkg.Pkg.Name() + "." + c.Name(), T: c.Type().(*types.Pointer).Elem()}
	case *ssa.Function:
		return &ClosureV{Fn: c}
	case *ssa.Builtin:
		return &Sym{N: "builtin:" + c.Name(), T: c.Type()}
	}
	return &Sym{N: "?" + v.Name(), T: v.Type()}
}

func constVal(c *ssa.Const) Val {
	if c.Value == nil {
		// nil / zero value of a struct type
		if isDecType(c.Type()) {
			return &DecV{L: linConst(0), NonNeg: true, Fixed: "*"}
		}
		return kNil
	}
	switch c.Value.Kind() {
	case constant.Bool:
		if constant.BoolVal(c.Value) {
			return kTrue
		}
		return kFalse
	case constant.String:
		return &KConst{S: fmt.Sprintf("%q", constant.StringVal(c.Value))}
	}
	return &KConst{S: c.Value.ExactString()}
}

func (x *Explorer) step(fr *Frame, st *State, in ssa.Instruction) {
	switch ins := in.(type) {
	case *ssa.Alloc:
		elem := ins.Type().(*types.Pointer).Elem()
		kind := "cell"
		switch elem.Underlying().(type) {
		case *types.Struct:
			kind = "struct"
		case *types.Array:
			kind = "array"
		}
		o := st.newObj(kind, elem)
		o.Loop = x.loopTag(fr, ins.Block())
		if t := x.M.TableOfRow(elem); t != nil {
			o.Kind = "lit"
			o.Table = t
			o.Name = fmt.Sprintf("new:%s#%d", t.Name, o.ID)
			o.Origin = "literal"
		}
		if kind == "cell" {
			o.F[""] = zeroVal(elem)
		}
		fr.env[ins] = &Ptr{O: o.ID}
	case *ssa.Store:
		val := x.eval(fr, st, ins.Val)
		// a state-touching closure put away (slice element, field) inside one iteration of a loop over
		// data, to be run later: what it will do then — with which captured loop variables — is outside
		// the one-iteration model (and, before Go 1.22, all such closures share the last loop variable)
		if cv, isC := val.(*ClosureV); isC && x.touches[cv.Fn] && x.loopTag(fr, ins.Block()) != "" {
			switch ins.Addr.(type) {
			case *ssa.IndexAddr, *ssa.FieldAddr:
				st.note("state-touching closure " + cv.Fn.Name() + " stored for later execution inside loop " + x.loopTag(fr, ins.Block()))
			}
		}
		x.store(fr, st, x.eval(fr, st, ins.Addr), val, ins)
	case *ssa.UnOp:
		fr.env[ins] = x.unop(fr, st, ins)
	case *ssa.FieldAddr:
		fr.env[ins] = x.fieldAddr(st, x.eval(fr, st, ins.X), fieldName(ins.X.Type(), ins.Field), ins.Type().(*types.Pointer).Elem())
	case *ssa.Field:
		fr.env[ins] = x.field(st, x.eval(fr, st, ins.X), fieldName(ins.X.Type(), ins.Field), ins.Type())
	case *ssa.IndexAddr:
		base := x.eval(fr, st, ins.X)
		idx := x.eval(fr, st, ins.Index)
		et := ins.Type().(*types.Pointer).Elem()
		switch b := base.(type) {
		case *Ptr:
			// a one-element literal indexed by a (bounds-checked) loop variable: element 0
			if _, isConst := idx.(*KConst); !isConst {
				if els, ok := x.sliceElems(st, b); ok && len(els) == 1 {
					fr.env[ins] = &Ptr{O: b.O, Path: b.Path + "[0]"}
					break
				}
			}
			fr.env[ins] = &Ptr{O: b.O, Path: b.Path + "[" + vstr(idx) + "]"}
		case *SymPtr:
			fr.env[ins] = &SymPtr{Base: b.Base + "[" + vstr(idx) + "]", T: et}
		default:
			fr.env[ins] = &SymPtr{Base: vstr(base) + "[" + vstr(idx) + "]", T: et}
		}
	case *ssa.Index:
		fr.env[ins] = &Sym{N: vstr(x.eval(fr, st, ins.X)) + "[" + vstr(x.eval(fr, st, ins.Index)) + "]", T: ins.Type()}
	case *ssa.Lookup:
		v := &Sym{N: vstr(x.eval(fr, st, ins.X)) + "[" + vstr(x.eval(fr, st, ins.Index)) + "]", T: ins.Type()}
		if ins.CommaOk {
			fr.env[ins] = &Tuple{Vs: []Val{v, &BoolV{F: "MapHas(" + v.N + ")"}}}
		} else {
			fr.env[ins] = v
		}
	case *ssa.Slice:
		// make([]T, 0, c) with constant c is lowered to new([c]T)[:0]: an empty sequence
		if n, ok := constIntOrNil(ins.High); ok && n == 0 {
			o := st.newObj("array", ins.Type())
			o.Origin = "make:0"
			fr.env[ins] = &Ptr{O: o.ID}
			break
		}
		fr.env[ins] = x.eval(fr, st, ins.X)
	case *ssa.Extract:
		t := x.eval(fr, st, ins.Tuple)
		if tp, ok := t.(*Tuple); ok && ins.Index < len(tp.Vs) {
			fr.env[ins] = tp.Vs[ins.Index]
		} else {
			fr.env[ins] = x.typed(st, &Sym{N: fmt.Sprintf("%s#%d", vstr(t), ins.Index), T: ins.Type()})
		}
	case *ssa.BinOp:
		fr.env[ins] = x.binop(fr, st, ins)
	case *ssa.Convert:
		fr.env[ins] = x.convert(st, x.eval(fr, st, ins.X), ins.X.Type(), ins.Type())
	case *ssa.ChangeType:
		fr.env[ins] = x.eval(fr, st, ins.X)
	case *ssa.ChangeInterface:
		fr.env[ins] = x.eval(fr, st, ins.X)
	case *ssa.MakeInterface:
		fr.env[ins] = x.eval(fr, st, ins.X)
	case *ssa.TypeAssert:
		v := x.eval(fr, st, ins.X)
		if ins.CommaOk {
			fr.env[ins] = &Tuple{Vs: []Val{v, &BoolV{F: "TypeIs(" + vstr(v) + "," + ins.AssertedType.String() + ")"}}}
		} else {
			fr.env[ins] = v
		}
	case *ssa.MakeClosure:
		var binds []Val
		for _, b := range ins.Bindings {
			binds = append(binds, x.eval(fr, st, b))
		}
		fr.env[ins] = &ClosureV{Fn: ins.Fn.(*ssa.Function), Binds: binds}
	case *ssa.MakeSlice:
		o := st.newObj("array", ins.Type())
		if n, ok := constInt(ins.Len); ok && n == 0 {
			o.Origin = "make:0" // empty: a later append chain has exactly the appended elements
		}
		fr.env[ins] = &Ptr{O: o.ID}
	case *ssa.MakeMap:
		o := st.newObj("map", ins.Type())
		fr.env[ins] = &Ptr{O: o.ID}
	case *ssa.MapUpdate:
		// local maps only feed events/responses; record nothing
	case *ssa.Range:
		fr.env[ins] = &Sym{N: "range(" + vstr(x.eval(fr, st, ins.X)) + ")", T: ins.Type()}
	case *ssa.Next:
		id := st.newID()
		fr.env[ins] = &Tuple{Vs: []Val{&BoolV{F: fmt.Sprintf("RangeNext(%d)", id)}, &Sym{N: fmt.Sprintf("rangekey%d", id)}, &Sym{N: fmt.Sprintf("rangeval%d", id)}}}
	case *ssa.Defer:
		// deferred calls in the analysed code are iterator Close and telemetry
		if oc := x.M.AsORMCall(ins); oc != nil && isWriteOp(oc.Kind) {
			st.note("deferred ORM write " + oc.Table.Name + "." + oc.Method)
		}
	case *ssa.RunDefers, *ssa.DebugRef:
	case *ssa.Go:
		st.note("go statement")
	case *ssa.Send, *ssa.Select:
		st.note("channel operation")
	case *ssa.MakeChan:
		fr.env[ins] = &Sym{N: "chan", T: ins.Type()}
	default:
		if v, ok := in.(ssa.Value); ok {
			fr.env[v] = &Sym{N: fmt.Sprintf("?%T", in), T: v.Type()}
		}
	}
}

func zeroVal(t types.Type) Val {
	if t == nil {
		return &Sym{N: "zero"}
	}
	switch u := t.Underlying().(type) {
	case *types.Basic:
		switch {
		case u.Info()&types.IsString != 0:
			return &KConst{S: `""`}
		case u.Info()&types.IsBoolean != 0:
			return kFalse
		case u.Info()&types.IsNumeric != 0:
			return &KConst{S: "0"}
		}
	case *types.Pointer, *types.Slice, *types.Map, *types.Interface, *types.Signature, *types.Chan:
		return kNil
	}
	if isDecType(t) {
		return &DecV{L: linConst(0), NonNeg: true, Fixed: "*"}
	}
	return &KConst{S: "zero:" + t.String()}
}

// typed refines an opaque symbol according to its static type.
func (x *Explorer) typed(st *State, s *Sym) Val {
	if s.T == nil {
		return s
	}
	switch {
	case isErrorType(s.T):
		return &ErrV{ID: st.newID(), Origin: s.N}
	case isDecType(s.T):
		return &DecV{L: linAtom("opaque:" + s.N)}
	case isSdkIntType(s.T):
		return &IntV{L: linAtom("intfield(" + s.N + ")")}
	}
	if b, ok := s.T.Underlying().(*types.Basic); ok && b.Info()&types.IsBoolean != 0 {
		return &BoolV{F: "Bool(" + s.N + ")"}
	}
	return s
}

func (x *Explorer) fieldAddr(st *State, base Val, f string, elem types.Type) Val {
	switch b := base.(type) {
	case *Ptr:
		return &Ptr{O: b.O, Path: b.Path + "." + f}
	case *SymPtr:
		return &SymPtr{Base: b.Base + "." + f, T: elem}
	case *Sym:
		// dereferencing a pointer: on the continuing path it is not nil (a nil dereference panics)
		st.assume("Nil("+st.find(b.N)+")", false)
		return &SymPtr{Base: b.N + "." + f, T: elem}
	case *KConst:
		return &SymPtr{Base: "nilderef." + f, T: elem}
	}
	return &SymPtr{Base: vstr(base) + "." + f, T: elem}
}

func (x *Explorer) field(st *State, base Val, f string, t types.Type) Val {
	switch b := base.(type) {
	case *StructV:
		if v, ok := b.F["."+f]; ok {
			return v
		}
		// nested struct value stored by path prefix
		sub := &StructV{T: t, F: map[string]Val{}}
		for k, v := range b.F {
			if strings.HasPrefix(k, "."+f+".") {
				sub.F[strings.TrimPrefix(k, "."+f)] = v
			}
		}
		if len(sub.F) > 0 {
			return sub
		}
		return zeroVal(t)
	case *IterV:
		return b
	case *CoinV:
		switch f {
		case "Denom":
			return b.Denom
		case "Amount":
			return b.Amt
		}
	case *Sym:
		return x.typed(st, &Sym{N: b.N + "." + f, T: t})
	}
	return x.typed(st, &Sym{N: vstr(base) + "." + f, T: t})
}

func (x *Explorer) objOf(st *State, p *Ptr) *Obj { return st.mem[p.O] }

// load reads through a pointer.
func (x *Explorer) load(st *State, addr Val, t types.Type) Val {
	switch a := addr.(type) {
	case *Ptr:
		o := st.mem[a.O]
		if o == nil {
			return &Sym{N: "?dangling", T: t}
		}
		if v, ok := o.F[a.Path]; ok {
			return v
		}
		// a field of an aggregate that was stored whole (symbolic struct, coin, struct value)
		for p := a.Path; p != ""; {
			i := strings.LastIndexAny(p, ".[")
			if i < 0 {
				break
			}
			parent, rest := p[:i], a.Path[i:]
			if pv, ok := o.F[parent]; ok {
				switch pv.(type) {
				case *Sym, *StructV, *CoinV, *IterV:
					v := pv
					for _, f := range strings.Split(strings.TrimPrefix(rest, "."), ".") {
						if f == "" || strings.Contains(f, "[") {
							return x.typed(st, &Sym{N: vstr(pv) + rest, T: t})
						}
						v = x.field(st, v, f, nil)
					}
					if sv, ok := v.(*Sym); ok {
						return x.typed(st, &Sym{N: sv.N, T: t})
					}
					return v
				}
				break
			}
			p = parent
		}
		// aggregate read: struct value assembled from sub-paths
		if _, isStruct := t.Underlying().(*types.Struct); isStruct && !isDecType(t) && !isSdkIntType(t) {
			sv := &StructV{T: t, F: map[string]Val{}}
			for k, v := range o.F {
				if strings.HasPrefix(k, a.Path+".") {
					sv.F[strings.TrimPrefix(k, a.Path)] = v
				}
			}
			if typeIs(t, "cosmos-sdk/types", "Coin") {
				return &CoinV{Denom: orZero(sv.F[".Denom"], `""`), Amt: orZero(sv.F[".Amount"], "0")}
			}
			if o.Kind == "row" && len(sv.F) == 0 {
				return x.typed(st, &Sym{N: o.Name + a.Path, T: t})
			}
			return sv
		}
		switch o.Kind {
		case "row":
			return x.typed(st, &Sym{N: o.Name + a.Path, T: t})
		case "lit", "struct", "cell":
			return zeroVal(t)
		case "array":
			return x.typed(st, &Sym{N: fmt.Sprintf("arr%d%s", o.ID, a.Path), T: t})
		}
		return x.typed(st, &Sym{N: fmt.Sprintf("obj%d%s", o.ID, a.Path), T: t})
	case *SymPtr:
		if v, ok := st.symMem[a.Base]; ok {
			return v
		}
		if strings.HasPrefix(a.Base, "global:") && t != nil {
			if isErrorType(t) || typeIs(t, "cosmossdk.io/errors", "Error") {
				e := &ErrV{ID: st.newID(), Origin: a.Base}
				st.errs[e.ID] = 2
				st.symMem[a.Base] = e
				return e
			}
		}
		v := x.typed(st, &Sym{N: a.Base, T: t})
		if _, isErr := v.(*ErrV); isErr {
			st.symMem[a.Base] = v
		}
		return v
	case *Sym:
		return x.typed(st, &Sym{N: "*" + a.N, T: t})
	}
	return x.typed(st, &Sym{N: "*" + vstr(addr), T: t})
}

func orZero(v Val, z string) Val {
	if v == nil {
		return &KConst{S: z}
	}
	return v
}

func (x *Explorer) store(fr *Frame, st *State, addr, val Val, ins *ssa.Store) {
	switch a := addr.(type) {
	case *Ptr:
		o := st.mem[a.O]
		if o == nil {
			return
		}
		// overwriting an aggregate clears its sub-paths
		for k := range o.F {
			if strings.HasPrefix(k, a.Path+".") || strings.HasPrefix(k, a.Path+"[") {
				delete(o.F, k)
			}
		}
		switch sv := val.(type) {
		case *StructV:
			for k, v := range sv.F {
				o.F[a.Path+k] = v
			}
			if len(sv.F) == 0 {
				o.F[a.Path] = val
			}
		default:
			o.F[a.Path] = val
		}
		// a store into a field of a coin that was stored whole: split the coin first
		for p := a.Path; p != ""; {
			i := strings.LastIndexAny(p, ".[")
			if i < 0 {
				break
			}
			p = p[:i]
			if cv, ok := o.F[p].(*CoinV); ok {
				delete(o.F, p)
				if _, set := o.F[p+".Denom"]; !set {
					o.F[p+".Denom"] = cv.Denom
				}
				if _, set := o.F[p+".Amount"]; !set {
					o.F[p+".Amount"] = cv.Amt
				}
			}
		}
	case *SymPtr:
		st.symMem[a.Base] = val
		if strings.HasPrefix(a.Base, "global:") || strings.HasPrefix(a.Base, "k.") || strings.HasPrefix(a.Base, "s.") {
			st.note("store to shared location " + a.Base)
		}
	}
}

func (x *Explorer) unop(fr *Frame, st *State, ins *ssa.UnOp) Val {
	v := x.eval(fr, st, ins.X)
	switch ins.Op {
	case token.MUL:
		return x.load(st, v, ins.Type())
	case token.NOT:
		switch b := v.(type) {
		case *BoolV:
			return &BoolV{F: b.F, Neg: !b.Neg}
		case *KConst:
			if b.S == "true" {
				return kFalse
			}
			return kTrue
		}
		return &BoolV{F: "Cond(" + vstr(v) + ")", Neg: true}
	case token.SUB:
		if k, ok := v.(*KConst); ok {
			return &KConst{S: "-" + k.S}
		}
		return &Sym{N: "-" + vstr(v), T: ins.Type()}
	}
	return &Sym{N: ins.Op.String() + vstr(v), T: ins.Type()}
}

func (x *Explorer) convert(st *State, v Val, from, to types.Type) Val {
	// numeric narrowing keeps the symbolic name but marks the conversion
	if fb, ok := from.Underlying().(*types.Basic); ok {
		if tb, ok := to.Underlying().(*types.Basic); ok && fb.Info()&types.IsNumeric != 0 && tb.Info()&types.IsNumeric != 0 {
			if s, ok := v.(*Sym); ok {
				return &Sym{N: s.N, T: to}
			}
		}
	}
	return v
}

func relFlip(op token.Token) token.Token { return flipCmp(op) }

// strLenOperand: v is len(s) for a string s (the builtin applied to a string-typed value).
func strLenOperand(v ssa.Value) ssa.Value {
	call, ok := v.(*ssa.Call)
	if !ok || len(call.Call.Args) != 1 {
		return nil
	}
	if b, ok := call.Call.Value.(*ssa.Builtin); !ok || b.Name() != "len" {
		return nil
	}
	if bt, ok := call.Call.Args[0].Type().Underlying().(*types.Basic); ok && bt.Info()&types.IsString != 0 {
		return call.Call.Args[0]
	}
	return nil
}

// emptinessTest recognises every spelling of "string s is (not) empty" that compares len(s) with a
// constant — len(s) == 0, != 0, > 0, < 1, >= 1, <= 0, with either operand order — and returns the
// one canonical fact StrEq("", s), the same fact `s == ""` yields.
func (x *Explorer) emptinessTest(fr *Frame, st *State, ins *ssa.BinOp) Val {
	s, k, op := strLenOperand(ins.X), ins.Y, ins.Op
	if s == nil {
		s, k, op = strLenOperand(ins.Y), ins.X, relFlip(ins.Op)
		if ins.Op == token.EQL || ins.Op == token.NEQ {
			op = ins.Op
		}
	}
	if s == nil {
		return nil
	}
	n, isC := constInt(k)
	if !isC {
		return nil
	}
	var empty bool // does the test being true mean "s is empty"?
	switch {
	case op == token.EQL && n == 0, op == token.LSS && n == 1, op == token.LEQ && n == 0:
		empty = true
	case op == token.NEQ && n == 0, op == token.GTR && n == 0, op == token.GEQ && n == 1:
		empty = false
	default:
		return nil
	}
	sv := x.eval(fr, st, s)
	if kc, ok := sv.(*KConst); ok && strings.HasPrefix(kc.S, `"`) {
		if (kc.S == `""`) == empty {
			return kTrue
		}
		return kFalse
	}
	return &BoolV{F: `StrEq("", ` + st.canon(sv) + ")", Neg: !empty}
}

func (x *Explorer) binop(fr *Frame, st *State, ins *ssa.BinOp) Val {
	switch ins.Op {
	case token.EQL, token.NEQ, token.LSS, token.GTR, token.LEQ, token.GEQ:
		if v := x.emptinessTest(fr, st, ins); v != nil {
			return v
		}
	}
	a, b := x.eval(fr, st, ins.X), x.eval(fr, st, ins.Y)
	op := ins.Op
	// an untyped "zero" (a never-assigned field of a zero-initialised local struct) is the zero value of the
	// operand's static type: an enum tag left at its zero compares as the integer 0
	normZero := func(v Val, t types.Type) Val {
		if sy, isSym := v.(*Sym); isSym && sy.N == "zero" && t != nil {
			if z := zeroVal(t); z != nil {
				if _, stillSym := z.(*Sym); !stillSym {
					return z
				}
			}
		}
		return v
	}
	a, b = normZero(a, ins.X.Type()), normZero(b, ins.Y.Type())
	switch op {
	case token.EQL, token.NEQ:
		neg := op == token.NEQ
		// error comparisons
		if e, ok := a.(*ErrV); ok {
			return x.errCompare(st, e, b, neg)
		}
		if e, ok := b.(*ErrV); ok {
			return x.errCompare(st, e, a, neg)
		}
		// nil tests
		if isK(b, "nil") {
			return x.nilTest(st, a, neg)
		}
		if isK(a, "nil") {
			return x.nilTest(st, b, neg)
		}
		// Cmp results against constants
		if c, ok := a.(*CmpV); ok {
			return cmpFact(c, op, b)
		}
		if c, ok := b.(*CmpV); ok {
			return cmpFact(c, op, a)
		}
		if c, ok := a.(*TCmpV); ok {
			return tcmpFact(c, op, b)
		}
		ka, okA := a.(*KConst)
		kb, okB := b.(*KConst)
		if okA && okB {
			if (ka.S == kb.S) != neg {
				return kTrue
			}
			return kFalse
		}
		// booleans compared with constants
		if ba, ok := a.(*BoolV); ok && okB {
			want := kb.S == "true"
			return &BoolV{F: ba.F, Neg: ba.Neg != (want == neg)}
		}
		sa, sb := st.canon(a), st.canon(b)
		if sa == sb {
			if neg {
				return kFalse
			}
			return kTrue
		}
		if sb < sa {
			sa, sb = sb, sa
		}
		kind := "Eq("
		if bt, ok := ins.X.Type().Underlying().(*types.Basic); ok && bt.Info()&types.IsString != 0 {
			kind = "StrEq("
		}
		return &BoolV{F: kind + sa + ", " + sb + ")", Neg: neg}
	case token.LSS, token.GTR, token.LEQ, token.GEQ:
		if c, ok := a.(*TCmpV); ok {
			return tcmpFact(c, op, b)
		}
		if ka, okA := a.(*KConst); okA {
			if kb, okB := b.(*KConst); okB {
				if na, nb, ok := twoInts(ka.S, kb.S); ok {
					var r bool
					switch op {
					case token.LSS:
						r = na < nb
					case token.GTR:
						r = na > nb
					case token.LEQ:
						r = na <= nb
					case token.GEQ:
						r = na >= nb
					}
					if r {
						return kTrue
					}
					return kFalse
				}
			}
		}
		if c, ok := a.(*CmpV); ok {
			return cmpFact(c, op, b)
		}
		if c, ok := b.(*CmpV); ok {
			return cmpFact(c, relFlip(op), a)
		}
		// canonical orientation: a < b  /  a <= b
		sa, sb := vstr(a), vstr(b)
		switch op {
		case token.GTR:
			return &BoolV{F: "Lt(" + sb + ", " + sa + ")"}
		case token.GEQ:
			return &BoolV{F: "Lt(" + sa + ", " + sb + ")", Neg: true}
		case token.LEQ:
			return &BoolV{F: "Lt(" + sb + ", " + sa + ")", Neg: true}
		}
		return &BoolV{F: "Lt(" + sa + ", " + sb + ")"}
	case token.ADD, token.SUB, token.MUL, token.QUO, token.REM:
		ka, okA := a.(*KConst)
		kb, okB := b.(*KConst)
		if okA && okB && op == token.ADD && strings.HasPrefix(ka.S, `"`) && strings.HasPrefix(kb.S, `"`) {
			return &KConst{S: ka.S[:len(ka.S)-1] + kb.S[1:]}
		}
		if okA && okB {
			if na, nb, ok := twoInts(ka.S, kb.S); ok && isIntegerType(ins.Type()) {
				switch op {
				case token.ADD:
					return &KConst{S: fmt.Sprint(na + nb)}
				case token.SUB:
					return &KConst{S: fmt.Sprint(na - nb)}
				case token.MUL:
					return &KConst{S: fmt.Sprint(na * nb)}
				}
			}
		}
		return &Sym{N: "(" + vstr(a) + " " + op.String() + " " + vstr(b) + ")", T: ins.Type()}
	}
	return &Sym{N: "(" + vstr(a) + " " + op.String() + " " + vstr(b) + ")", T: ins.Type()}
}

func twoInts(a, b string) (int64, int64, bool) {
	var na, nb int64
	if _, err := fmt.Sscanf(a, "%d", &na); err != nil || fmt.Sprint(na) != a {
		return 0, 0, false
	}
	if _, err := fmt.Sscanf(b, "%d", &nb); err != nil || fmt.Sprint(nb) != b {
		return 0, 0, false
	}
	return na, nb, true
}

func isIntegerType(t types.Type) bool {
	bt, ok := t.Underlying().(*types.Basic)
	return ok && bt.Info()&types.IsInteger != 0
}

func isK(v Val, s string) bool {
	k, ok := v.(*KConst)
	return ok && k.S == s
}

func (x *Explorer) errCompare(st *State, e *ErrV, other Val, neg bool) Val {
	if isK(other, "nil") {
		return &BoolV{F: fmt.Sprintf("ErrNil(%d)", e.ID), Neg: neg, Aux: e.Origin}
	}
	// comparison with a sentinel (ormerrors.NotFound, …)
	name := vstr(other)
	if o, ok := other.(*ErrV); ok {
		name = o.Origin
	}
	if st.errs[e.ID] == 1 {
		if neg {
			return kTrue
		}
		return kFalse
	}
	cls := sentinelClass(name)
	return &BoolV{F: fmt.Sprintf("ErrIs(%d,%s)", e.ID, cls), Neg: neg}
}

func sentinelClass(name string) string {
	switch {
	case strings.Contains(name, "NotFound"):
		return "NotFound"
	case strings.Contains(name, "AlreadyExists"):
		return "AlreadyExists"
	case strings.Contains(name, "UniqueKeyViolation"):
		return "UniqueKeyViolation"
	}
	return name
}

func (x *Explorer) nilTest(st *State, v Val, neg bool) Val {
	switch p := v.(type) {
	case *Ptr:
		// a row returned by an ORM Get is nil exactly when the Get failed
		if o := st.mem[p.O]; o != nil && o.Kind == "row" && o.ErrID != 0 && p.Path == "" {
			switch st.errs[o.ErrID] {
			case 1:
			case 2:
				if neg {
					return kFalse
				}
				return kTrue
			default:
				return &BoolV{F: fmt.Sprintf("ErrNil(%d)", o.ErrID), Neg: !neg}
			}
		}
		if neg {
			return kTrue
		}
		return kFalse
	case *KConst:
		if (p.S == "nil") != neg {
			return kTrue
		}
		return kFalse
	case *ClosureV, *TableV, *IterV:
		if neg {
			return kTrue
		}
		return kFalse
	}
	return &BoolV{F: "Nil(" + st.canon(v) + ")", Neg: neg}
}

// cmpFact turns `a.Cmp(b) <op> const` into an ordering fact.
func cmpFact(c *CmpV, op token.Token, other Val) Val {
	k, ok := other.(*KConst)
	if !ok {
		return &BoolV{F: "Cond(" + c.vs() + op.String() + vstr(other) + ")"}
	}
	d := regLin(c.A.Sub(c.B)) // sign of (A-B)
	gt, eq, lt := "Gt0("+d+")", "Eq0("+d+")", "Lt0("+d+")"
	switch k.S {
	case "0":
		switch op {
		case token.EQL:
			return &BoolV{F: eq}
		case token.NEQ:
			return &BoolV{F: eq, Neg: true}
		case token.GTR:
			return &BoolV{F: gt}
		case token.LSS:
			return &BoolV{F: lt}
		case token.GEQ:
			return &BoolV{F: lt, Neg: true}
		case token.LEQ:
			return &BoolV{F: gt, Neg: true}
		}
	case "1":
		switch op {
		case token.EQL, token.GEQ:
			return &BoolV{F: gt}
		case token.NEQ, token.LSS:
			return &BoolV{F: gt, Neg: true}
		}
	case "-1":
		switch op {
		case token.EQL, token.LEQ:
			return &BoolV{F: lt}
		case token.NEQ, token.GTR:
			return &BoolV{F: lt, Neg: true}
		}
	}
	return &BoolV{F: "Cond(" + c.vs() + op.String() + k.S + ")"}
}

// sortedFacts returns the facts of a path (stable order).
func sortedFacts(st *State) []string {
	out := append([]string(nil), st.facts...)
	sort.Strings(out)
	return out
}

// tcmpFact turns `a.Compare(b) <op> const` on times into an ordering fact.
func tcmpFact(c *TCmpV, op token.Token, other Val) Val {
	k, ok := other.(*KConst)
	if !ok {
		return &BoolV{F: "Cond(" + c.vs() + op.String() + vstr(other) + ")"}
	}
	lt, gt := "TimeLt("+c.A+", "+c.B+")", "TimeLt("+c.B+", "+c.A+")"
	x, y := sortedPair(c.A, c.B)
	eq := "TimeEq(" + x + ", " + y + ")"
	switch k.S {
	case "1":
		switch op {
		case token.EQL, token.GEQ:
			return &BoolV{F: gt}
		case token.NEQ, token.LSS:
			return &BoolV{F: gt, Neg: true}
		}
	case "-1":
		switch op {
		case token.EQL, token.LEQ:
			return &BoolV{F: lt}
		case token.NEQ, token.GTR:
			return &BoolV{F: lt, Neg: true}
		}
	case "0":
		switch op {
		case token.EQL:
			return &BoolV{F: eq}
		case token.NEQ:
			return &BoolV{F: eq, Neg: true}
		case token.GTR:
			return &BoolV{F: gt}
		case token.LSS:
			return &BoolV{F: lt}
		case token.GEQ:
			return &BoolV{F: lt, Neg: true}
		case token.LEQ:
			return &BoolV{F: gt, Neg: true}
		}
	}
	return &BoolV{F: "Cond(" + c.vs() + op.String() + k.S + ")"}
}

// isInstrInLoop: v is computed by an instruction inside the loop headed by h.
func isInstrInLoop(li *loopInfo, h *ssa.BasicBlock, v ssa.Value) bool {
	in, ok := v.(ssa.Instruction)
	if !ok || in.Block() == nil {
		return false
	}
	return li.body[h][in.Block()]
}

package main

// C06 — marketplace escrow equals open sell orders (EQ4), order field domains, allowed-denom gate.

import (
	"fmt"
	"go/types"
	"os"
	"regexp"
	"sort"
	"strings"
	"time"
)

func init() { register("C06", checkC06) }

// loopIdx: an index expression built from a loop variable — `(f.L3/rangeindex + 1)` for range loops,
// `f.L3/i` for index loops — whatever the loop form, it stands for "the element of this iteration".
var loopIdx = regexp.MustCompile(`\[\(?[A-Za-z0-9_.$#/]+\.L\d+(?:#\d+)?/[A-Za-z0-9_]+(?: \+ 1\))?\]`)

func normIdx(s string) string { return loopIdx.ReplaceAllString(s, "[*]") }

// ValidatedFacts explores a message's ValidateBasic with the effect explorer and returns the
// facts common to all accepting paths: at top level, and inside each loop iteration.
type Validated struct {
	ExitPaths []map[string]bool // fact sets of the individual accepting paths (loop indices normalised)
	IterPaths []map[string]bool
	Exit      map[string]bool
	Iter      map[string]bool     // facts holding in every accepted iteration (loop indices normalised)
	Attrs     map[string]AtomAttr // sign classes of parsed decimals proven on every accepting exit path
	OK        bool
}

var validatedCache = map[string]*Validated{}

func ValidatedFacts(m *Model, x *Explorer, ep *EntryPoint) *Validated {
	if ep.Req == nil {
		return &Validated{}
	}
	key := ep.Req.String()
	if v, ok := validatedCache[key]; ok {
		return v
	}
	v := &Validated{Exit: map[string]bool{}, Iter: map[string]bool{}}
	validatedCache[key] = v
	fn := methodOf(m, ep.Req, "ValidateBasic")
	if fn == nil {
		return v
	}
	t0 := time.Now()
	var recv Val = &Sym{N: "req", T: ep.Req}
	if len(fn.Params) > 0 {
		if _, isPtr := fn.Params[0].Type().(*types.Pointer); isPtr {
			recv = &SymPtr{Base: "req", T: ep.Req}
		}
	}
	x.validatorMode = true
	outs := x.Explore(fn, []Val{recv})
	x.validatorMode = false
	if os.Getenv("E1DEBUG") != "" {
		fmt.Printf("DBG validate %s: %d outcomes in %v\n", key, len(outs), time.Since(t0))
	}
	inter := func(dst map[string]bool, first *bool, facts []string) {
		cur := map[string]bool{}
		for _, f := range facts {
			cur[normIdx(f)] = true
		}
		if *first {
			for f := range cur {
				dst[f] = true
			}
			*first = false
			return
		}
		for f := range dst {
			if !cur[f] {
				delete(dst, f)
			}
		}
	}
	fe, fi := true, true
	for _, o := range outs {
		switch {
		case o.Kind == exitReturn && o.Commit:
			if fe {
				v.Attrs = map[string]AtomAttr{}
				for a, at := range o.St.atomAttr {
					v.Attrs[a] = *at
				}
			} else {
				for a, at := range v.Attrs {
					o2 := o.St.atomAttr[a]
					if o2 == nil {
						delete(v.Attrs, a)
						continue
					}
					at.NonNeg = at.NonNeg && o2.NonNeg
					at.Pos = at.Pos && o2.Pos
					v.Attrs[a] = at
				}
			}
			inter(v.Exit, &fe, o.St.facts)
			v.ExitPaths = append(v.ExitPaths, factMap(o.St.facts))
		case o.Kind == exitLoopback:
			inter(v.Iter, &fi, o.St.facts)
			v.IterPaths = append(v.IterPaths, factMap(o.St.facts))
		}
	}
	v.OK = !fe
	return v
}

func checkC06(c *Ctx, e *Env) {
	c.Explanation = "E1 effect analysis: EQ4 on every committed path of every entry point, per (seller, batch): Δescrowed = ΣΔquantity of that seller's orders (insert +q, delete −q, update new−old), with the BeginBlock range delete modelled as the deletion of exactly the rows its iterator visits (same key pair for scan and delete, loop left only when the iterator is exhausted); " +
		"FIELDS every SellOrder insert/update stores a quantity proven positive and precision-gated (request string that passed NewPositiveFixedDecFromString with a CreditType.Precision, or old−buy under the ordering fact old > buy), an ask amount that is the decimal rendering of the request's AskPrice.Amount (positive by the message validator, extracted from ValidateBasic with the same explorer) or an unchanged copy, a BatchKey taken from a fetched Batch row, a MarketId taken from a fetched or newly inserted Market row, and never changes Seller or BatchKey on update; " +
		"DENOM every insert, and every update that changes the ask amount or market, lies on a path carrying AllowedDenom.Has(denom) = true for the bank denom of the order's market."
	c.NotDecided = []string{"updates that do not touch the price are not re-checked against the allow-list (the statement says 'when created or last updated')", "Market and Batch rows are never deleted (C14.FK)"}
	c.Assumptions = strings.Split(e1Assume+"; A7 ValidateBasic precedes top-level handlers", "; ")
	m, r := e1Handlers(c, e)
	p := m.P
	if os.Getenv("E1DEBUG") != "" {
		fmt.Printf("DBG C06 explored at %v\n", time.Since(c.Start))
	}
	noteUndecided(c, m, r, "C06.E1")
	ruleArith(c, e, "C06.ARITH", func(ep *EntryPoint) bool {
		return ep.Service == "marketplace" && (ep.Kind == "msg" || ep.Kind == "beginblock")
	})
	nPaths := 0
	for _, h := range r.Handlers {
		touches := false
		for _, o := range h.Outs {
			for _, d := range h.Deltas(o) {
				if d.Table == "SellOrder" || (d.Table == "BatchBalance" && d.Col == "EscrowedAmount" && !d.Delta.IsZero()) {
					touches = true
				}
			}
		}
		if !touches {
			c.Trivial("C06.EQ", h.Key+"#no-escrow-effect", p.Pos(h.Fn.Pos()), "no committed path changes an escrowed balance or a sell order")
			continue
		}
		hh := h
		rangeDel := rangeDeleteKeys(hh)
		extra := func(o *Outcome) map[residKey]Lin {
			out := map[residKey]Lin{}
			if len(rangeDel) == 0 {
				return out
			}
			st := o.St
			ent := hh.X.batchEntities(st)
			for i := range st.events {
				ev := &st.events[i]
				if ev.Kind != "read" || ev.OpKind != "itervalue" || ev.Table.Name != "SellOrder" || !inScope(o, ev) {
					continue
				}
				it := ev.Keys[0].(*IterV)
				if !rangeDel[iterKeyString(st, it)] {
					continue
				}
				row := st.mem[ev.RowObj]
				seller := st.find(row.Name + ".Seller")
				batch := hh.X.entityOf(st, ent, &Sym{N: row.Name + ".BatchKey"})
				k := residKey{rEQ4, seller + " / " + batch}
				cur, ok := out[k]
				if !ok {
					cur = linConst(0)
				}
				// the row is removed by the range delete: ΔQ = −Q, entering EQ4 as −ΔQ
				out[k] = cur.Add(linAtom("parse(" + row.Name + ".Quantity)"))
			}
			return out
		}
		reports := h.checkIdentities(map[string]bool{rEQ4: true}, extra)
		nPaths += emitIdentityObligations(c, p, h, "C06.EQ", reports)
		if len(rangeDel) > 0 {
			rulePruneShape(c, p, h)
		}
	}
	c.Count("identity_path_checks", nPaths)
	if os.Getenv("E1DEBUG") != "" {
		fmt.Printf("DBG C06 identities done at %v\n", time.Since(c.Start))
	}
	ruleOrderFields(c, m, r)
	if os.Getenv("E1DEBUG") != "" {
		fmt.Printf("DBG C06 fields done at %v\n", time.Since(c.Start))
	}
	c.Min("identity path checks (EQ4)", 25, nPaths)
	c.ExpectCanary("C06.EQ")
}

func iterKeyString(st *State, it *IterV) string {
	var ks []string
	for _, k := range it.Keys {
		ks = append(ks, st.canon(k))
	}
	return it.T.Name + "." + it.Kind + "(" + strings.Join(ks, ", ") + ")"
}

// rangeDeleteKeys: "Table.ListRange(keys)" strings for which a DeleteRange with the same keys exists on a successful path.
func rangeDeleteKeys(h *HandlerResult) map[string]bool {
	out := map[string]bool{}
	for _, o := range h.Outs {
		if o.Kind != exitReturn {
			continue
		}
		st := o.St
		for i := range st.events {
			ev := &st.events[i]
			if ev.Kind == "write" && ev.OpKind == "deleterange" && ev.Method == "DeleteRange" {
				var ks []string
				for _, k := range ev.Keys {
					ks = append(ks, st.canon(k))
				}
				out[ev.Table.Name+".ListRange("+strings.Join(ks, ", ")+")"] = true
			}
		}
	}
	return out
}

// rulePruneShape: the scan loop is left only by iterator exhaustion; scan and delete use the same keys.
func rulePruneShape(c *Ctx, p *Program, h *HandlerResult) {
	for _, o := range h.Outs {
		if o.Kind != exitReturn {
			continue
		}
		st := o.St
		var del *Event
		var lists []*Event
		for i := range st.events {
			ev := &st.events[i]
			if ev.Kind == "write" && ev.OpKind == "deleterange" {
				del = ev
			}
			if ev.Kind == "read" && ev.OpKind == "list" && ev.Table.Name == "SellOrder" {
				lists = append(lists, ev)
			}
		}
		if del == nil {
			continue
		}
		key := h.Key + "#range-delete"
		pos := p.Pos(del.Pos.Pos())
		match := false
		for _, l := range lists {
			if l.Method != "ListRange" || len(l.Keys) != len(del.Keys) {
				continue
			}
			same := true
			for i := range l.Keys {
				if st.canon(l.Keys[i]) != st.canon(del.Keys[i]) {
					same = false
				}
			}
			if same {
				match = true
				// the path must have seen the iterator exhausted: last IterNext fact for this iterator is negative
				last := ""
				for _, f := range st.facts {
					if strings.Contains(f, fmt.Sprintf("IterNext(%d,", l.RowObj)) {
						last = f
					}
				}
				if !strings.HasPrefix(last, "-") {
					c.Violate("C06.PRUNE", key+"#exhausted", pos, "the range delete is reachable on a path that left the refund loop before the iterator was exhausted ("+last+"): rows deleted without refund", nil)
					return
				}
			}
		}
		if !match {
			c.Violate("C06.PRUNE", key+"#same-keys", pos, "DeleteRange keys differ from the keys of the ListRange whose rows are refunded", nil)
			return
		}
		c.Hold("C06.PRUNE", key, pos, "DeleteRange uses the same key pair as the refunding ListRange and is reached only after the iterator is exhausted", nil)
	}
}

// ruleOrderFields: C06.FIELDS and C06.DENOM per SellOrder write site.
func ruleOrderFields(c *Ctx, m *Model, r *E1) {
	p := m.P
	type agg struct {
		ev  *Event
		n   int
		bad map[string]string
	}
	for _, h := range r.Handlers {
		sites := map[string]*agg{}
		var val *Validated
		for _, o := range h.Outs {
			st := o.St
			for i := range st.events {
				ev := &st.events[i]
				if ev.Kind != "write" || ev.Table.Name != "SellOrder" || !inScope(o, ev) || ev.Row == nil {
					continue
				}
				if ev.OpKind != "insert" && ev.OpKind != "update" && ev.OpKind != "save" {
					continue
				}
				if val == nil {
					val = ValidatedFacts(m, r.X, h.EP)
				}
				k := h.Key + "→" + siteKey(ev)
				a := sites[k]
				if a == nil {
					a = &agg{ev: ev, bad: map[string]string{}}
					sites[k] = a
				}
				a.n++
				fail := func(rule, why string) {
					if a.bad[rule] == "" {
						a.bad[rule] = why + " on path {" + outcomeLabel(h, o) + "}"
					}
				}
				row := ev.Row
				var old map[string]Val
				if ev.Old != nil {
					old = ev.Old.Row
				}
				// quantity
				switch q := row["Quantity"].(type) {
				case *Sym:
					if old != nil && st.canon(q) == st.canon(old["Quantity"]) {
						break // unchanged copy
					}
					at := st.atomAttr["parse("+st.canon(q)+")"]
					switch {
					case at == nil || !at.Pos:
						fail("quantity", "quantity "+q.N+" stored without a positive parse")
					case !strings.Contains(at.Fixed, "CreditType#") || !strings.HasSuffix(at.Fixed, ".Precision"):
						fail("quantity", "quantity "+q.N+" not gated by a CreditType.Precision (gate: "+at.Fixed+")")
					}
				case *DecStr:
					pos := q.D.Pos
					if !pos {
						if v, ok := st.known("Gt0(" + q.D.L.String() + ")"); ok && v {
							pos = true
						}
					}
					if !pos {
						fail("quantity", "quantity "+q.D.L.String()+" not proven positive")
					}
				default:
					fail("quantity", "quantity is "+vstr(row["Quantity"]))
				}
				// ask amount
				ask := row["AskAmount"]
				if old == nil || st.canon(ask) != st.canon(old["AskAmount"]) {
					okAsk := false
					if ds, isDS := ask.(*DecStr); isDS && len(ds.D.L.T) == 1 {
						for atom := range ds.D.L.T {
							if strings.HasPrefix(atom, "intfield(req.") && strings.HasSuffix(atom, ".Amount)") {
								if val.Iter["+Gt0("+normIdx(atom)+")"] {
									okAsk = true
								} else {
									fail("ask", "ask amount "+atom+" is not proven positive by the message validator")
									okAsk = true
								}
							}
						}
					}
					if !okAsk {
						fail("ask", "ask amount is "+vstr(ask)+", not the rendering of the request's ask price amount")
					}
				}
				// references
				bk := st.canon(row["BatchKey"])
				if !regexp.MustCompile(`^Batch#\d+\.Key$`).MatchString(bk) && !(old != nil && bk == st.canon(old["BatchKey"])) {
					fail("batchref", "BatchKey "+bk+" is not the key of a fetched Batch row")
				}
				mk := st.canon(row["MarketId"])
				if !regexp.MustCompile(`^(Market#\d+\.Id|newid:Market#\d+)$`).MatchString(mk) && !(old != nil && mk == st.canon(old["MarketId"])) {
					fail("marketref", "MarketId "+mk+" is not the id of a fetched or newly inserted Market row")
				}
				if old != nil {
					for _, f := range []string{"Seller", "BatchKey", "Id"} {
						if st.canon(row[f]) != st.canon(old[f]) {
							fail("immutable", f+" of an existing order changes from "+st.canon(old[f])+" to "+st.canon(row[f]))
						}
					}
				}
				// allowed denom
				priceChanged := old == nil || st.canon(ask) != st.canon(old["AskAmount"]) || mk != st.canon(old["MarketId"])
				if priceChanged {
					denom := marketDenom(st, row["MarketId"])
					if denom == "" {
						fail("denom", "bank denom of market "+mk+" unknown")
					} else if v, ok := st.known("Has:AllowedDenom.Has(" + denom + ")"); !ok || !v {
						// the Has fact may have been recorded before an equality merged the names
						found := false
						for _, f := range st.facts {
							if strings.HasPrefix(f, "+Has:AllowedDenom.Has(") {
								arg := strings.TrimSuffix(strings.TrimPrefix(f, "+Has:AllowedDenom.Has("), ")")
								if st.find(arg) == st.find(denom) {
									found = true
								}
							}
						}
						if !found {
							fail("denom", "no AllowedDenom.Has("+denom+") = true on the path")
						}
					}
				}
			}
		}
		var ks []string
		for k := range sites {
			ks = append(ks, k)
		}
		sort.Strings(ks)
		for _, k := range ks {
			a := sites[k]
			pos := p.Pos(a.ev.Pos.Pos())
			for _, rule := range []string{"quantity", "ask", "batchref", "marketref", "immutable"} {
				if why := a.bad[rule]; why != "" {
					c.Violate("C06.FIELDS", k+"#"+rule, pos, why, nil)
				} else {
					c.Hold("C06.FIELDS", k+"#"+rule, pos, fmt.Sprintf("holds on all %d path visits", a.n), nil)
				}
			}
			if why := a.bad["denom"]; why != "" {
				c.Violate("C06.DENOM", k, pos, why, nil)
			} else {
				c.Hold("C06.DENOM", k, pos, fmt.Sprintf("every price-setting visit (%d visits) carries the allowed-denom fact for the market's bank denom", a.n), nil)
			}
		}
	}
}

// marketDenom: the bank denom of the market whose id is v.
func marketDenom(st *State, v Val) string {
	id := st.canon(v)
	var ids []int
	for k := range st.mem {
		ids = append(ids, k)
	}
	sort.Ints(ids)
	for _, k := range ids {
		o := st.mem[k]
		if o.Table == nil || o.Table.Name != "Market" {
			continue
		}
		oid := ""
		if iv, ok := o.F[".Id"]; ok {
			oid = st.canon(iv)
		} else {
			oid = st.find(o.Name + ".Id")
		}
		if oid == id {
			if d, ok := o.F[".BankDenom"]; ok {
				return st.canon(d)
			}
			return st.find(o.Name + ".BankDenom")
		}
	}
	return ""
}

func factMap(facts []string) map[string]bool {
	m := map[string]bool{}
	for _, f := range facts {
		m[normIdx(f)] = true
	}
	return m
}

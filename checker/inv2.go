package main

import (
	"fmt"
	"sort"
	"strings"
)

// calleeInventory lists callees used inside keeper/server packages reachable from msg handlers.
func calleeInventory(mod string) {
	e := &Env{progs: map[string]*Program{}, models: map[string]*Model{}}
	m := e.Model(mod)
	g := NewGraph(m.P)
	cl := g.Closure(m.ConsensusRoots())
	cnt := map[string]int{}
	for fn := range cl {
		if !g.isSubjectFn(fn) || isCanaryFn(fn) {
			continue
		}
		pp := fnPkgPath(fn)
		if !(strings.Contains(pp, "/keeper") || strings.Contains(pp, "/server")) {
			continue
		}
		for _, ci := range callsIn(fn) {
			cc := ci.Common()
			if cc.IsInvoke() {
				n := namedOf(cc.Value.Type())
				nm := "?"
				if n != nil {
					nm = n.Obj().Name()
				}
				cnt["invoke "+nm+"."+cc.Method.Name()]++
				continue
			}
			cnt[calleeFullName(cc)]++
		}
	}
	var ks []string
	for k := range cnt {
		ks = append(ks, k)
	}
	sort.Strings(ks)
	for _, k := range ks {
		fmt.Printf("%4d %s\n", cnt[k], strings.ReplaceAll(k, repoPrefix, ""))
	}
}

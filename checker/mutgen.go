package main

// mutgen — automatic, type-aware mutation operators over the hand-written consensus code of /repo.
// It only *generates* candidate edits (file, byte range, replacement, operator); running the checks on
// them is tools/mutsweep.py's job (overlay, /repo untouched). The sweep is a measurement of the checker
// (DESIGN §6.5), never part of a verdict.
//
// Operators (each yields a program that still type-checks in the common case; the sweep discards the rest):
//   NEG      if c {…}            → if !(c) {…}
//   CMP      a < b ↔ a <= b, a > b ↔ a >= b, a == b ↔ a != b
//   ARITH    x.Add(y) ↔ x.Sub(y) on values of one type with both methods (Dec, sdk.Int); a + b ↔ a - b on ints
//   FIELD    s.F → s.G where G is another field of the same struct with an identical type
//   SWAPARG  f(…, a, b, …) → f(…, b, a, …) for adjacent arguments of identical type that are not the same expression
//   DELGUARD if c { return … }   → (deleted) when the statement has no init clause
//   DELCALL  a call statement whose results are all discarded or that returns nothing → (deleted)
//   CONST    integer literal n → n+1 (not in array lengths / indexes of literals)

import (
	"encoding/json"
	"fmt"
	"go/ast"
	"go/token"
	"go/types"
	"math/rand"
	"os"
	"path/filepath"
	"sort"
	"strings"
)

type AutoMutant struct {
	ID      string `json:"id"`
	Op      string `json:"op"`
	File    string `json:"file"` // relative to the repo root
	Line    int    `json:"line"`
	Func    string `json:"func"`
	Start   int    `json:"start"` // byte offsets in the file
	End     int    `json:"end"`
	Old     string `json:"old"`
	New     string `json:"new"`
	Context string `json:"context"`
}

// packages whose hand-written files are mutated: (module, package path suffix)
var mutScope = []struct{ mod, suffix string }{
	{"x/ecocredit", "x/ecocredit/v3/base/keeper"},
	{"x/ecocredit", "x/ecocredit/v3/basket/keeper"},
	{"x/ecocredit", "x/ecocredit/v3/marketplace/keeper"},
	{"x/ecocredit", "x/ecocredit/v3/server/utils"},
	{"x/ecocredit", "x/ecocredit/v3/server"},
	{"x/ecocredit", "x/ecocredit/v3/genesis"},
	{"x/ecocredit", "x/ecocredit/v3/module"},
	{"x/data", "x/data/v3/server"},
	{"x/data", "x/data/v3"},
	{"x/intertx", "x/intertx/keeper"},
	{"types", "types/v2/math"},
}

func mutgen(out string, seed int64, perOp int) {
	e := &Env{overlay: cliOverlay, progs: map[string]*Program{}, models: map[string]*Model{}}
	var all []AutoMutant
	for _, sc := range mutScope {
		p, err := loadForMutgen(e, sc.mod)
		if err != nil {
			fmt.Fprintln(os.Stderr, "mutgen:", err)
			os.Exit(2)
		}
		pk := p.Pkg(sc.suffix)
		if pk == nil {
			fmt.Fprintln(os.Stderr, "mutgen: package not found:", sc.suffix)
			continue
		}
		for _, f := range pk.Syntax {
			name := p.Fset.Position(f.Pos()).Filename
			if isGeneratedFile(name) || strings.HasSuffix(name, "_test.go") || strings.Contains(name, "/simulation/") {
				continue
			}
			base := filepath.Base(name)
			if strings.HasPrefix(base, "migrations") || base == "features.go" {
				continue
			}
			src, err := os.ReadFile(name)
			if err != nil {
				continue
			}
			rel, _ := filepath.Rel(repoRoot, name)
			all = append(all, mutantsOfFile(p, pk.TypesInfo, f, src, rel)...)
		}
	}
	// stable order, then a seeded sample per operator
	sort.Slice(all, func(i, j int) bool {
		if all[i].File != all[j].File {
			return all[i].File < all[j].File
		}
		if all[i].Start != all[j].Start {
			return all[i].Start < all[j].Start
		}
		return all[i].Op < all[j].Op
	})
	byOp := map[string][]AutoMutant{}
	for _, m := range all {
		byOp[m.Op] = append(byOp[m.Op], m)
	}
	var ops []string
	for op := range byOp {
		ops = append(ops, op)
	}
	sort.Strings(ops)
	rng := rand.New(rand.NewSource(seed))
	var sel []AutoMutant
	for _, op := range ops {
		ms := byOp[op]
		rng.Shuffle(len(ms), func(i, j int) { ms[i], ms[j] = ms[j], ms[i] })
		n := perOp
		if n <= 0 || n > len(ms) {
			n = len(ms)
		}
		fmt.Fprintf(os.Stderr, "mutgen: %-8s %4d candidates, %d selected\n", op, len(ms), n)
		sel = append(sel, ms[:n]...)
	}
	for i := range sel {
		sel[i].ID = fmt.Sprintf("A%d-%03d-%s", seed, i, sel[i].Op)
	}
	b, _ := json.MarshalIndent(sel, "", " ")
	if err := os.WriteFile(out, b, 0o644); err != nil {
		fmt.Fprintln(os.Stderr, err)
		os.Exit(2)
	}
	fmt.Fprintf(os.Stderr, "mutgen: %d candidates in total, %d written to %s\n", len(all), len(sel), out)
}

func loadForMutgen(e *Env, mod string) (*Program, error) {
	if p, ok := e.progs[mod]; ok {
		return p, nil
	}
	p, err := LoadModule(mod, e.overlay, false)
	if err != nil {
		return nil, err
	}
	e.progs[mod] = p
	return p, nil
}

func mutantsOfFile(p *Program, info *types.Info, f *ast.File, src []byte, rel string) []AutoMutant {
	var out []AutoMutant
	off := func(pos token.Pos) int { return p.Fset.Position(pos).Offset }
	text := func(n ast.Node) string { return string(src[off(n.Pos()):off(n.End())]) }
	curFn := ""
	add := func(op string, start, end token.Pos, repl string) {
		s, e := off(start), off(end)
		if s < 0 || e > len(src) || s >= e && repl == "" {
			return
		}
		ls := s
		for ls > 0 && src[ls-1] != '\n' {
			ls--
		}
		le := e
		for le < len(src) && src[le] != '\n' {
			le++
		}
		ctx := strings.TrimSpace(string(src[ls:le]))
		if len(ctx) > 160 {
			ctx = ctx[:160]
		}
		out = append(out, AutoMutant{Op: op, File: rel, Line: p.Fset.Position(start).Line, Func: curFn, Start: s, End: e, Old: string(src[s:e]), New: repl, Context: ctx})
	}
	sameType := func(a, b ast.Expr) bool {
		ta, tb := info.TypeOf(a), info.TypeOf(b)
		return ta != nil && tb != nil && types.Identical(ta, tb)
	}
	isErrNilTest := func(c ast.Expr) bool {
		be, ok := c.(*ast.BinaryExpr)
		if !ok {
			return false
		}
		id, ok := be.Y.(*ast.Ident)
		if !ok || id.Name != "nil" {
			return false
		}
		t := info.TypeOf(be.X)
		return t != nil && t.String() == "error"
	}
	for _, d := range f.Decls {
		fd, ok := d.(*ast.FuncDecl)
		if !ok || fd.Body == nil {
			continue
		}
		curFn = fd.Name.Name
		if fd.Recv != nil && len(fd.Recv.List) > 0 {
			curFn = strings.TrimPrefix(types.ExprString(fd.Recv.List[0].Type), "*") + "." + curFn
		}
		if strings.HasPrefix(fd.Name.Name, "Simulate") || strings.HasPrefix(fd.Name.Name, "Weighted") {
			continue
		}
		ast.Inspect(fd.Body, func(n ast.Node) bool {
			switch x := n.(type) {
			case *ast.IfStmt:
				if !isErrNilTest(x.Cond) {
					add("NEG", x.Cond.Pos(), x.Cond.End(), "!("+text(x.Cond)+")")
				}
				// guard deletion: no init, no else, body ends in return
				if x.Init == nil && x.Else == nil && len(x.Body.List) > 0 {
					if _, ok := x.Body.List[len(x.Body.List)-1].(*ast.ReturnStmt); ok && !isErrNilTest(x.Cond) {
						add("DELGUARD", x.Pos(), x.End(), "")
					}
				}
			case *ast.BinaryExpr:
				var repl string
				switch x.Op {
				case token.LSS:
					repl = "<="
				case token.LEQ:
					repl = "<"
				case token.GTR:
					repl = ">="
				case token.GEQ:
					repl = ">"
				case token.EQL:
					repl = "!="
				case token.NEQ:
					repl = "=="
				}
				if repl != "" && !isErrNilTest(x) {
					add("CMP", x.OpPos, x.OpPos+token.Pos(len(x.Op.String())), repl)
				}
				if (x.Op == token.ADD || x.Op == token.SUB) && isIntT(info.TypeOf(x)) {
					r := "-"
					if x.Op == token.SUB {
						r = "+"
					}
					add("ARITH", x.OpPos, x.OpPos+1, r)
				}
			case *ast.CallExpr:
				// Add ↔ Sub style siblings
				if se, ok := x.Fun.(*ast.SelectorExpr); ok {
					if sel := info.Selections[se]; sel != nil && sel.Kind() == types.MethodVal {
						if sib := siblingMethod(se.Sel.Name); sib != "" {
							if o, _, _ := types.LookupFieldOrMethod(sel.Recv(), true, sel.Obj().Pkg(), sib); o != nil {
								if fn, ok := o.(*types.Func); ok && types.Identical(fn.Type().(*types.Signature).Params(), sel.Obj().Type().(*types.Signature).Params()) &&
									types.Identical(fn.Type().(*types.Signature).Results(), sel.Obj().Type().(*types.Signature).Results()) {
									add("ARITH", se.Sel.Pos(), se.Sel.End(), sib)
								}
							}
						}
					}
				}
				for i := 0; i+1 < len(x.Args); i++ {
					a, b := x.Args[i], x.Args[i+1]
					if x.Ellipsis.IsValid() && i+1 == len(x.Args)-1 {
						continue
					}
					if sameType(a, b) && text(a) != text(b) && !isContextType(info.TypeOf(a)) {
						add("SWAPARG", a.Pos(), b.End(), text(b)+string(src[off(a.End()):off(b.Pos())])+text(a))
					}
				}
			case *ast.ExprStmt:
				if call, ok := x.X.(*ast.CallExpr); ok {
					if t := info.TypeOf(call); t != nil {
						if tup, ok := t.(*types.Tuple); ok && tup.Len() == 0 {
							add("DELCALL", x.Pos(), x.End(), "")
						}
					}
				}
			case *ast.SelectorExpr:
				sel := info.Selections[x]
				if sel == nil || sel.Kind() != types.FieldVal {
					return true
				}
				st := structOf(sel.Recv())
				if st == nil {
					return true
				}
				fv := sel.Obj().(*types.Var)
				for i := 0; i < st.NumFields(); i++ {
					g := st.Field(i)
					if g == fv || !g.Exported() && g.Pkg() != fv.Pkg() || g.Embedded() {
						continue
					}
					if strings.HasPrefix(g.Name(), "XXX_") || g.Name() == "state" || g.Name() == "sizeCache" || g.Name() == "unknownFields" {
						continue
					}
					if types.Identical(g.Type(), fv.Type()) {
						add("FIELD", x.Sel.Pos(), x.Sel.End(), g.Name())
						break // one sibling per site keeps the sample varied
					}
				}
			case *ast.BasicLit:
				if x.Kind == token.INT && isIntT(info.TypeOf(x)) {
					add("CONST", x.Pos(), x.End(), "("+x.Value+" + 1)")
				}
			}
			return true
		})
	}
	return out
}

func siblingMethod(name string) string {
	switch name {
	case "Add":
		return "Sub"
	case "Sub":
		return "Add"
	case "IsPositive":
		return "IsNegative"
	case "IsNegative":
		return "IsPositive"
	case "SafeAddBalance":
		return "SafeSubBalance"
	case "SafeSubBalance":
		return "SafeAddBalance"
	case "Mul":
		return "Quo"
	case "Quo":
		return "Mul"
	case "After":
		return "Before"
	case "Before":
		return "After"
	case "IsLT":
		return "IsGTE"
	case "IsGTE":
		return "IsLT"
	case "GT":
		return "LT"
	case "LT":
		return "GT"
	case "Insert":
		return "Save"
	case "Update":
		return "Save"
	case "Has":
		return ""
	}
	return ""
}

func structOf(t types.Type) *types.Struct {
	for {
		switch u := t.(type) {
		case *types.Pointer:
			t = u.Elem()
			continue
		case *types.Named:
			t = u.Underlying()
			continue
		case *types.Alias:
			t = types.Unalias(u)
			continue
		case *types.Struct:
			return u
		}
		return nil
	}
}

func isContextType(t types.Type) bool {
	return t != nil && (strings.HasSuffix(t.String(), "context.Context") || strings.HasSuffix(t.String(), "types.Context"))
}

func isIntT(t types.Type) bool { return t != nil && isIntegerType(t) }

package main

// C16 — data anchors / attestations / registrations are permanent.

import (
	"fmt"
	"go/types"
	"regexp"
	"sort"
	"strings"

	"golang.org/x/tools/go/ssa"
)

func init() { register("C16", checkC16) }

func findFn(m *Model, pkgSuffix, name string) *ssa.Function {
	for _, fn := range m.subjectFns(false) {
		if strings.HasSuffix(fnPkgPath(fn), pkgSuffix) && (fn.Name() == name || mathFnName(fn) == name) && fn.Parent() == nil {
			return fn
		}
	}
	return nil
}

func ormCallsIn(m *Model, fn *ssa.Function, table, method string) []*ssa.Call {
	var out []*ssa.Call
	for _, ci := range callsIn(fn) {
		call, ok := ci.(*ssa.Call)
		if !ok {
			continue
		}
		if oc := m.AsORMCall(ci); oc != nil && oc.Table.Name == table && oc.Method == method {
			out = append(out, call)
		}
	}
	return out
}

func checkC16(c *Ctx, e *Env) {
	c.Explanation = "x/data, from SSA and the dominator tree: INSONLY (E3) DataID, DataAnchor, DataAttestor, Resolver have only Insert/InsertReturningID writers, DataResolver only a Save of a row consisting solely of its primary key, no delete of any data table anywhere (canary proves the rule fires); " +
		"FIRST the anchor insert happens only on the not-found arm with the block time and every other arm returns the stored timestamp; Attest inserts only on Has==false for (id, signer) with the block time; " +
		"PROBE in getOrCreateDataID every success return lies behind dataID.Iri == iri for the row stored under the candidate id, the candidate is CreateID(iri, n) with n = 0,1,2,… and the row inserted on not-found is {Id: candidate, Iri: iri} — for any Hasher; " +
		"MGR every effect of RegisterResolver is reachable only through resolver.Manager == nil or bytes.Equal(resolver.Manager, signer) for resolver = Get(msg.ResolverId), signer = bech32(msg.Signer); DefineResolver stores manager = signer or nil."
	c.NotDecided = []string{"termination of the probe loop within gas for adversarial hashers", "CreateID's byte arithmetic (distinct n ⇒ distinct candidate is the Hasher contract)", "ORM Insert never overwrites (A1)"}
	c.Assumptions = []string{"A1", "A3", "A6"}
	m := e.Model("x/data")
	p := m.P
	inv := BuildInventory(m, false)
	c.Count("functions_scanned", len(inv.Fns))
	c.Count("orm_call_sites", len(inv.Sites))
	// --- INSONLY
	allowed := map[string]map[string]bool{
		"DataID":       {"insert": true},
		"DataAnchor":   {"insert": true},
		"DataAttestor": {"insert": true},
		"Resolver":     {"insert": true},
		"DataResolver": {"save": true},
	}
	nW := 0
	for _, s := range inv.AllWrites() {
		if isCanaryFn(s.Fn) {
			c.Violate("C16.INSONLY", funcKey(s.Fn)+"#"+s.Table.Name+"."+s.Method, p.Pos(s.At()), "canary", nil)
			continue
		}
		nW++
		key := funcKey(s.Fn) + "#" + s.Table.Name + "." + s.Method
		al, known := allowed[s.Table.Name]
		if !known {
			c.Undecide("C16.INSONLY", key, p.Pos(s.At()), "write to a table that was not in the confirmed schema: "+s.Table.Name)
			continue
		}
		if !al[s.Kind] {
			c.Violate("C16.INSONLY", key, p.Pos(s.At()), fmt.Sprintf("%s on %s: this table may only be written by %v — an overwrite or removal would change or lose a permanent record", s.Method, s.Table.Name, keysOf(al)), nil)
			continue
		}
		if s.Table.Name == "DataResolver" {
			// row must consist solely of primary-key fields
			ok := true
			var extra []string
			pkSet := map[string]bool{}
			for _, k := range s.Table.PK {
				pkSet[snakeToCamel(k)] = true
			}
			rowStruct := s.Table.Row.Underlying().(*types.Struct)
			for i := 0; i < rowStruct.NumFields(); i++ {
				f := rowStruct.Field(i)
				if f.Exported() && !pkSet[f.Name()] {
					ok = false
					extra = append(extra, "schema field "+f.Name())
				}
			}
			if ok {
				c.Hold("C16.INSONLY", key, p.Pos(s.At()), "Save of a row that consists solely of its primary key (idempotent)", nil)
			} else {
				c.Violate("C16.INSONLY", key, p.Pos(s.At()), "Save on DataResolver with non-key content "+strings.Join(extra, ",")+": repeated registration could alter the record", nil)
			}
			continue
		}
		c.Hold("C16.INSONLY", key, p.Pos(s.At()), s.Method+" on insert-only table "+s.Table.Name, nil)
	}
	c.Min("ORM write sites in x/data", 5, nW)
	c.ExpectCanary("C16.INSONLY")

	ruleC16First(c, m)
	ruleC16Probe(c, m)
	ruleC16Mgr(c, m)
	ruleC16Every(c, m)
	ruleC16Stateless(c, m)
	// every write of a committed path happened: its error was looked at and found nil (round 7: an Insert into
	// DataID refused by the unique IRI index was tolerated — the probe then hands back an id no row maps to
	// the IRI, and a second anchor row with a new timestamp is written under it)
	{
		r := RunE1(m)
		seen := map[string]bool{}
		nEff := 0
		for _, h := range r.Handlers {
			if h.EP.Kind == "canary" {
				continue
			}
			nEff += effectErrorsOf(c, m, h, "C16.E1", seen)
		}
		if len(seen) == 0 {
			c.Check(nEff > 0, "C16.E1", "x/data handlers#effect-errors", "-", fmt.Sprintf("%d write events on the committed paths of the x/data handlers: each one's error value is known nil where the handler succeeds (a refused write never passes for a record made)", nEff))
		}
	}
	importObligations(c, e, checkC15, "C15", "C16.IRI", "data ids#one-per-content-hash", "anchors, attestations and registrations are kept per data id, and the data id is looked up by IRI: two different content hashes keep separate permanent records only if the encoders give them different IRIs", func(o *Oblig) bool {
		return o.Rule == "C15.CODEC" || o.Rule == "C15.NARROW" || o.Rule == "C15.LOOKUP" || o.Rule == "C15.IDENT"
	})
}

// ruleC16Every: every content hash named in a successful Attest / RegisterResolver message is dealt
// with — each committed iteration of the handler's loop over the request's content hashes either
// writes the record for that hash or finds it already present (Has == true). An iteration that does
// neither (a skip on some other condition, e.g. an in-message dedupe) leaves data the message named
// without its anchor / attestation although the message succeeded, and the "first" timestamp is lost.
func ruleC16Every(c *Ctx, m *Model) {
	p := m.P
	r := RunE1(m)
	for hk, table := range map[string]string{"data.Attest": "DataAttestor", "data.RegisterResolver": "DataResolver"} {
		h := r.byKey[hk]
		if h == nil {
			c.Undecide("C16.EVERY", hk, "-", "handler not found")
			continue
		}
		bad := ""
		n := 0
		// a loop none of whose iterations touches state (validation, IRI computation, a pass that only
		// builds a list ahead of the real loop) is not where the records are made; a loop that does touch
		// state must deal with every element — also on the iterations that skip early
		stateful := map[string]bool{}
		for _, o := range h.Outs {
			if o.Kind != exitLoopback || strings.Count(o.Loop, "/") != 1 {
				continue
			}
			for i := range o.St.events {
				if ev := &o.St.events[i]; (ev.Kind == "write" || ev.Kind == "read") && inScope(o, ev) {
					stateful[o.Loop] = true
				}
			}
		}
		for _, o := range h.Outs {
			if o.Kind != exitLoopback || strings.Count(o.Loop, "/") != 1 || !stateful[o.Loop] {
				continue // only iterations of the handler's own (outermost) loops that touch state
			}
			st := o.St
			n++
			done := false
			for i := range st.events {
				ev := &st.events[i]
				if ev.Kind == "write" && ev.Table != nil && ev.Table.Name == table && inScope(o, ev) {
					done = true
				}
			}
			for _, f := range st.facts {
				if strings.HasPrefix(f, "+Has:"+table+".Has(") {
					// "present" counts only under the data id the probe loop settled on for this hash; a raw
					// candidate id (CreateID with a fixed collision counter) may belong to other data
					if key := strings.TrimPrefix(f, "+Has:"+table+".Has("); strings.HasPrefix(key, "invoke:CreateID(") {
						if bad == "" {
							bad = "the record is looked up under a raw candidate id (" + clip(key, 120) + "), not under the data id the collision walk settled on: when that slot belongs to other data the hash is taken for already dealt with"
						}
						continue
					}
					done = true
				}
			}
			if !done && bad == "" {
				bad = "an iteration over the request's content hashes completes without writing " + table + " and without having found the record present, on path {" + clip(strings.Join(st.facts, " "), 300) + "}"
			}
		}
		c.Check(bad == "" && n > 0, "C16.EVERY", hk+"#every-hash", p.Pos(h.Fn.Pos()), fmt.Sprintf("%d committed iterations over the request's content hashes, each writing the %s record or finding it present %s", n, table, bad))
	}
}

// ruleC16Stateless: the x/data handlers and everything they reach keep nothing outside the store —
// no write through references held by the server / hasher objects, no process-local maps, no
// sync primitives, no method calls on shared standard-library objects. A memo that survives a
// discarded execution (simulation, failed transaction) would make ids and timestamps depend on
// the process history. (The determinism lints of C10, applied to the x/data closure.)
func ruleC16Stateless(c *Ctx, m *Model) {
	p := m.P
	tmp := NewCtx("C10", c.Tier)
	g := NewGraph(p)
	var roots []*ssa.Function
	for _, e := range m.Entries {
		if e.Kind == "msg" && e.Implemented && e.Fn != nil {
			roots = append(roots, e.Fn)
		}
	}
	total := map[string]int{}
	n := 0
	for _, fn := range sortedFns(g.Closure(roots)) {
		if !g.isSubjectFn(fn) || excludedPkg(fnPkgPath(fn)) != "" || isCanaryFn(fn) {
			continue
		}
		n++
		lintDeterminism(tmp, m, g, fn, total)
	}
	nBad := 0
	for _, o := range tmp.Obligs {
		if (o.Rule == "C10.D3" || o.Rule == "C10.D4") && o.Status == Violated {
			nBad++
			c.Violate("C16.STATE", o.Construct, o.Pos, o.Detail, nil)
		}
	}
	if nBad == 0 {
		c.Check(n > 5, "C16.STATE", "x/data#stateless", p.Pos(roots[0].Pos()), fmt.Sprintf("%d functions reachable from the x/data handlers: no state outside the store (no stores through server/hasher references, process-local maps, sync primitives or shared standard-library objects)", n))
	}
}

func keysOf(m map[string]bool) []string {
	var out []string
	for k := range m {
		out = append(out, k)
	}
	return out
}

// isNotFoundCall: ormerrors.IsNotFound(err) / NotFound.Is(err)
func isNotFoundCall(v ssa.Value) (*ssa.Call, bool) {
	call, ok := v.(*ssa.Call)
	if !ok {
		return nil, false
	}
	pkg, name := calleePkgName(&call.Call)
	if strings.HasSuffix(pkg, "ormerrors") && name == "IsNotFound" {
		return call, true
	}
	return nil, false
}

// blockTimeTerm: the canonical term is the block time of the handler context, possibly passed
// through the timestamp converters, and nothing else.
var blockTimeTerm = regexp.MustCompile(`^((GogoToProtobufTimestamp|ProtobufToGogoTimestamp|TimestampProto|ts|time)\()*blocktime(\)|#0)*$`)

// ruleC16First decides the first-seen discipline on the explored paths of every x/data handler
// (E1): whichever helper the reads and writes live in, on each committed path
//   - a DataAnchor row is written only by Insert, only after DataAnchor.Get for the same id came
//     back NotFound on that path, and its timestamp is the block time;
//   - a DataAttestor row is written only by Insert, only behind Has(id, signer) == false for the
//     same key, with attestor = the signer-derived address and timestamp = block time;
//   - Anchor's response carries the stored timestamp whenever the anchor already existed.
func ruleC16First(c *Ctx, m *Model) {
	p := m.P
	r := RunE1(m)
	nAnchor, nAttest := 0, 0
	type agg struct {
		n   int
		bad string
		pos string
	}
	res := map[string]*agg{}
	note := func(key, pos, bad string) {
		a := res[key]
		if a == nil {
			a = &agg{pos: pos}
			res[key] = a
		}
		a.n++
		if bad != "" && a.bad == "" {
			a.bad = bad
		}
	}
	for _, h := range r.Handlers {
		if h.EP.Kind != "msg" {
			continue
		}
		if h.Cut {
			c.Undecide("C16.FIRST", h.Key, p.Pos(h.Fn.Pos()), "path exploration was cut short")
			continue
		}
		signer := "addr(req." + h.EP.SignerField + ")"
		for _, o := range h.Outs {
			st := o.St
			for i := range st.events {
				ev := &st.events[i]
				if ev.Kind != "write" || ev.Table == nil || !inScope(o, ev) {
					continue
				}
				pos := p.Pos(ev.Pos.Pos())
				path := " on path {" + clip(strings.Join(st.facts, " "), 300) + "}"
				switch ev.Table.Name {
				case "DataAnchor":
					nAnchor++
					key := h.Key + "#anchor"
					bad := ""
					id := st.canon(ev.Row["Id"])
					switch {
					case ev.OpKind != "insert":
						bad = "DataAnchor written by " + ev.Method
					case ev.Old == nil || !ev.Old.Absent:
						bad = "DataAnchor.Insert is not behind a NotFound result of DataAnchor.Get for the same id " + id
					case !blockTimeTerm.MatchString(st.canon(ev.Row["Timestamp"])):
						bad = "anchor timestamp is " + st.canon(ev.Row["Timestamp"]) + ", not the block time"
					}
					if bad != "" {
						bad += path
					}
					note(key, pos, bad)
				case "DataAttestor":
					nAttest++
					key := h.Key + "#attest"
					bad := ""
					id, att := st.canon(ev.Row["Id"]), st.canon(ev.Row["Attestor"])
					switch {
					case ev.OpKind != "insert":
						bad = "DataAttestor written by " + ev.Method
					case !factBefore(st, "-Has:DataAttestor.Has("+id+", "+att+")", ev):
						bad = "DataAttestor.Insert is not behind Has(" + id + ", " + att + ") == false"
					case att != signer:
						bad = "attestor is " + att + ", required the signer-derived " + signer
					case !blockTimeTerm.MatchString(st.canon(ev.Row["Timestamp"])):
						bad = "attestation timestamp is " + st.canon(ev.Row["Timestamp"]) + ", not the block time"
					}
					if bad != "" {
						bad += path
					}
					note(key, pos, bad)
				}
			}
		}
	}
	var keys []string
	for k := range res {
		keys = append(keys, k)
	}
	sort.Strings(keys)
	for _, k := range keys {
		a := res[k]
		if a.bad != "" {
			c.Violate("C16.FIRST", k, a.pos, a.bad, nil)
		} else if strings.HasSuffix(k, "#anchor") {
			c.Hold("C16.FIRST", k, a.pos, fmt.Sprintf("%d explored anchor writes: Insert only, behind NotFound of the Get for that id, timestamp = block time", a.n), nil)
		} else {
			c.Hold("C16.FIRST", k, a.pos, fmt.Sprintf("%d explored attestation writes: Insert only, behind Has(id, signer) == false, attestor = signer, timestamp = block time", a.n), nil)
		}
	}
	c.Min("explored DataAnchor writes", 3, nAnchor)
	c.Min("explored DataAttestor writes", 1, nAttest)
	// Anchor's response: stored timestamp when the anchor existed, block time when it was created
	if h := r.byKey["data.Anchor"]; h == nil {
		c.Undecide("C16.FIRST", "data.Anchor#response", "-", "Anchor handler not found")
	} else {
		bad := ""
		n := 0
		for _, o := range h.Outs {
			if o.Kind != exitReturn || len(o.Rets) == 0 {
				continue
			}
			st := o.St
			rp, ok := o.Rets[0].(*Ptr)
			if !ok || st.mem[rp.O] == nil {
				bad = "response is not a locally built message"
				continue
			}
			ts := ""
			if v, ok := st.mem[rp.O].F[".Timestamp"]; ok {
				ts = st.canon(v)
			}
			created := false
			for i := range st.events {
				if ev := &st.events[i]; ev.Kind == "write" && ev.Table != nil && ev.Table.Name == "DataAnchor" {
					created = true
				}
			}
			n++
			if created {
				if !blockTimeTerm.MatchString(ts) {
					bad = "response timestamp after a first anchoring is " + ts
				}
				continue
			}
			okStored := false
			for _, row := range st.mem {
				if row.Table != nil && row.Table.Name == "DataAnchor" && row.Kind == "row" {
					for _, w := range []string{row.Name + ".Timestamp", "ProtobufToGogoTimestamp(" + row.Name + ".Timestamp)"} {
						if ts == w || ts == st.find(w) {
							okStored = true
						}
					}
				}
			}
			if !okStored {
				bad = "response timestamp on the already-anchored path is " + ts + ", not the stored DataAnchor timestamp"
			}
		}
		c.Check(bad == "" && n >= 2, "C16.FIRST", "data.Anchor#response", p.Pos(h.Fn.Pos()), fmt.Sprintf("%d committed paths: the response carries the stored timestamp when the anchor existed and the block time when it was created %s", n, bad))
	}
}

func extractOf(call *ssa.Call, idx int) *ssa.Extract {
	if call.Referrers() == nil {
		return nil
	}
	for _, r := range *call.Referrers() {
		if ex, ok := r.(*ssa.Extract); ok && ex.Index == idx {
			return ex
		}
	}
	return nil
}

func asValue(in ssa.Instruction) ssa.Value {
	v, _ := in.(ssa.Value)
	return v
}

func ruleC16Probe(c *Ctx, m *Model) {
	p := m.P
	// the single function that inserts into DataID (for IRI provenance and the single-writer clause)
	var fn *ssa.Function
	for _, f := range m.subjectFns(false) {
		if len(ormCallsIn(m, f, "DataID", "Insert")) > 0 && !isCanaryFn(f) {
			if fn != nil {
				c.Violate("C16.PROBE", "dataid#single-writer", p.Pos(f.Pos()), "more than one function inserts into DataID", nil)
			}
			fn = f
		}
	}
	if fn == nil {
		c.Undecide("C16.PROBE", "dataid-insert", "-", "no function inserting into DataID found")
		return
	}
	// The probe loop, on the explored paths of every x/data handler (whatever functions hold its parts):
	//   candidate   every DataID.Get inside the loop is keyed by CreateID(hasher, iri, counter) with iri a
	//               ToIRI result and counter a variable carried by that loop;
	//   counter     that variable starts at 0 and grows by exactly 1 per iteration;
	//   insert      DataID is written only by Insert{Id: the candidate just looked up, Iri: iri}, only
	//               after that lookup came back NotFound;
	//   exit        every committed path that has left the loop carries a positive equality between iri
	//               and a value the loop carried (the Iri found or stored under the returned id) — a
	//               bound on the number of probes, or any other way out, would hand back an id whose
	//               row belongs to other data.
	r := RunE1(m)
	createRe := regexp.MustCompile(`^invoke:CreateID\((.+), (invoke:ToIRI\(.+\)#0), ([^,()]+)\)$`)
	type agg struct{ bad string }
	res := map[string]*agg{"candidate": {}, "counter": {}, "insert": {}, "exit": {}}
	fail := func(k, why string) {
		if res[k].bad == "" {
			res[k].bad = why
		}
	}
	nGet, nIns, nExit, nCounter := 0, 0, 0, 0
	for _, h := range r.Handlers {
		if h.EP.Kind != "msg" {
			continue
		}
		loops := map[string]string{} // probe loop tag → iri term
		for _, o := range h.Outs {
			st := o.St
			var lastGet *Event
			for i := range st.events {
				ev := &st.events[i]
				if ev.Table == nil || ev.Table.Name != "DataID" || !inScope(o, ev) {
					continue
				}
				switch {
				case ev.Kind == "read" && ev.OpKind == "get" && ev.Method == "Get":
					nGet++
					lastGet = ev
					key := ""
					if len(ev.Keys) == 1 {
						key = st.canon(ev.Keys[0])
					}
					mm := createRe.FindStringSubmatch(key)
					if mm == nil || ev.Loop == "" {
						if strings.Contains(key, "CreateID(") || ev.Loop != "" {
							fail("candidate", "DataID.Get in "+h.Key+" is keyed by "+key+" (loop "+ev.Loop+"), not by CreateID(hasher, ToIRI(...), loop counter)")
						}
						continue // a lookup by a stored id (queries, attest on an existing anchor) is not a probe
					}
					if !strings.HasPrefix(mm[3], ev.Loop) {
						fail("candidate", "the collision counter "+mm[3]+" of the candidate id is not a variable of the probe loop "+ev.Loop)
					}
					loops[ev.Loop] = mm[2]
				case ev.Kind == "write":
					nIns++
					if ev.OpKind != "insert" {
						fail("insert", "DataID is written by "+ev.Method+" in "+h.Key)
						continue
					}
					if lastGet == nil || len(lastGet.Keys) != 1 {
						fail("insert", "DataID.Insert in "+h.Key+" is not preceded by the lookup of the candidate id")
						continue
					}
					key := st.canon(lastGet.Keys[0])
					mm := createRe.FindStringSubmatch(key)
					if mm == nil || st.canon(ev.Row["Id"]) != key || st.canon(ev.Row["Iri"]) != mm[2] {
						fail("insert", fmt.Sprintf("inserted row is {Id: %s, Iri: %s}, required {Id: the candidate just looked up (%s), Iri: the iri}", st.canon(ev.Row["Id"]), st.canon(ev.Row["Iri"]), key))
					}
					nf := false
					for _, f := range st.facts {
						if f == fmt.Sprintf("+ErrIs(%d,NotFound)", lastGet.ErrID) {
							nf = true
						}
					}
					if !nf {
						fail("insert", "DataID.Insert in "+h.Key+" is reachable without the candidate lookup having returned NotFound")
					}
				}
			}
		}
		for tag, iri := range loops {
			// counter: the loop variable used in CreateID
			for _, o := range h.Outs {
				if o.Kind != exitLoopback || o.Loop != tag {
					continue
				}
				for _, l := range o.St.loops {
					if l.Tag != tag {
						continue
					}
					for _, ph := range l.Phis {
						hv := o.St.canon(ph.Havoc)
						used := false
						for i := range o.St.events {
							if ev := &o.St.events[i]; ev.Table != nil && ev.Table.Name == "DataID" && ev.Kind == "read" && len(ev.Keys) == 1 {
								if mm := createRe.FindStringSubmatch(o.St.canon(ev.Keys[0])); mm != nil && mm[3] == hv {
									used = true
								}
							}
						}
						if !used {
							continue
						}
						nCounter++
						if init, back := o.St.canon(ph.Init), o.St.canon(ph.Back); init != "0" || back != "("+hv+" + 1)" {
							fail("counter", fmt.Sprintf("collision counter %s starts at %s and becomes %s per iteration (required 0 and +1)", hv, init, back))
						}
					}
				}
			}
			// exit: outcomes that have left the loop
			for _, o := range h.Outs {
				if !(o.Kind == exitReturn || (o.Kind == exitLoopback && o.Loop != tag && strings.HasPrefix(tag, o.Loop))) {
					continue
				}
				mentions, eq := false, false
				for _, f := range o.St.facts {
					if strings.Contains(f, tag) {
						mentions = true
					}
					if strings.HasPrefix(f, "+StrEq(") && strings.Contains(f, iri) && strings.Contains(f, tag) {
						eq = true
					}
				}
				for i := range o.St.events {
					if ev := &o.St.events[i]; ev.Row != nil {
						for _, v := range ev.Row {
							if strings.Contains(o.St.canon(v), tag) {
								mentions = true
							}
						}
					}
				}
				if !mentions {
					continue
				}
				nExit++
				if !eq {
					fail("exit", "a committed path of "+h.Key+" leaves the probe loop "+tag+" without the Iri stored under the returned id having been found equal to the requested iri, on path {"+clip(strings.Join(o.St.facts, " "), 260)+"}")
				}
			}
		}
	}
	pos := p.Pos(fn.Pos())
	for _, k := range []string{"candidate", "counter", "insert", "exit"} {
		n := map[string]int{"candidate": nGet, "counter": nCounter, "insert": nIns, "exit": nExit}[k]
		if res[k].bad != "" {
			c.Violate("C16.PROBE", "probe#"+k, pos, res[k].bad, nil)
		} else {
			c.Check(n > 0, "C16.PROBE", "probe#"+k, pos, fmt.Sprintf("holds on all %d explored instances (%s)", n, map[string]string{
				"candidate": "DataID lookups inside the probe loop are keyed by CreateID(hasher, ToIRI(...), loop counter)",
				"counter":   "the collision counter starts at 0 and grows by exactly 1 per iteration",
				"insert":    "DataID is written only by Insert{Id: candidate just looked up, Iri: iri} behind NotFound",
				"exit":      "every committed path that has left the probe loop carries iri == the Iri the loop ended on",
			}[k]))
		}
	}
	// unique iri index in the schema
	_, uniq := m.Tables["DataID"].Unique["GetByIri"]
	c.Check(uniq, "C16.PROBE", "schema#DataID.iri-unique", "-", "DataID has a unique index on iri (generated GetByIri)")
	// DataID.Iri provenance: every caller passes a ToIRI result
	ruleIriProvenance(c, m, fn, "C16.PROBE")
}

// ruleIriProvenance: the iri parameter of the DataID writer originates, at every
// call site (transitively through pass-through parameters), from a ToIRI() result.
func ruleIriProvenance(c *Ctx, m *Model, writer *ssa.Function, rule string) {
	p := m.P
	type pp struct {
		fn  *ssa.Function
		idx int
	}
	seen := map[pp]bool{}
	var origins []string
	bad := false
	var trace func(fn *ssa.Function, idx int, depth int)
	trace = func(fn *ssa.Function, idx int, depth int) {
		if seen[pp{fn, idx}] || depth > 4 {
			return
		}
		seen[pp{fn, idx}] = true
		n := 0
		for _, caller := range m.subjectFns(false) {
			if isCanaryFn(caller) {
				continue
			}
			ct := NewTermer(caller)
			for _, ci := range callsIn(caller) {
				if ci.Common().StaticCallee() != fn {
					continue
				}
				n++
				arg := ci.Common().Args[idx]
				tm := ct.T(arg)
				if strings.Contains(tm, "ToIRI(") {
					origins = append(origins, funcKey(caller)+": "+tm)
					continue
				}
				// pass-through parameter?
				resolved := arg
				if u, ok := arg.(*ssa.UnOp); ok {
					if a, ok := u.X.(*ssa.Alloc); ok {
						// named result / local: all stores
						for _, r := range *a.Referrers() {
							if st, ok := r.(*ssa.Store); ok && st.Addr == a {
								resolved = st.Val
								tm2 := ct.T(resolved)
								if strings.Contains(tm2, "ToIRI(") {
									origins = append(origins, funcKey(caller)+": "+tm2)
								} else if _, isC := resolved.(*ssa.Const); !isC {
									bad = true
									c.Violate(rule, "DataID.iri#origin:"+funcKey(caller), p.Pos(ci.Pos()), "IRI stored in DataID does not originate from ToIRI(): "+tm2, nil)
								}
							}
						}
						continue
					}
				}
				if prm, ok := resolved.(*ssa.Parameter); ok {
					for i, q := range caller.Params {
						if q == prm {
							trace(caller, i, depth+1)
						}
					}
					continue
				}
				// a field of a local struct value (several results carried in one struct): every store to
				// that field of that local
				if u, ok := arg.(*ssa.UnOp); ok {
					if fa, ok := u.X.(*ssa.FieldAddr); ok {
						if al, ok := fa.X.(*ssa.Alloc); ok {
							nSt, okAll := 0, true
							for _, r := range *al.Referrers() {
								fa2, ok := r.(*ssa.FieldAddr)
								if !ok || fa2.Field != fa.Field {
									continue
								}
								for _, r2 := range *fa2.Referrers() {
									if st, ok := r2.(*ssa.Store); ok && st.Addr == fa2 {
										nSt++
										if tm2 := ct.T(st.Val); strings.Contains(tm2, "ToIRI(") {
											origins = append(origins, funcKey(caller)+": "+tm2)
										} else if _, isC := st.Val.(*ssa.Const); !isC {
											okAll = false
										}
									}
								}
							}
							if nSt > 0 && okAll {
								continue
							}
						}
					}
				}
				bad = true
				c.Violate(rule, "DataID.iri#origin:"+funcKey(caller), p.Pos(ci.Pos()), "IRI stored in DataID does not originate from ToIRI(): "+tm, nil)
			}
		}
		if n == 0 && depth > 0 {
			bad = true
			c.Undecide(rule, "DataID.iri#origin:"+funcKey(fn), p.Pos(fn.Pos()), "pass-through function has no callers: origin of the IRI unknown")
		}
	}
	trace(writer, len(writer.Params)-1, 0)
	if !bad {
		c.Check(len(origins) > 0, rule, "DataID.iri#origin", p.Pos(writer.Pos()), fmt.Sprintf("every IRI stored in DataID is the result of ToIRI() (%d origin sites)", len(origins)))
	}
}

// ruleC16Mgr decides the manager discipline on the explored paths (E1) of the two resolver handlers,
// wherever the reads, tests and writes live:
//
//	RegisterResolver — every state effect lies behind `manager == nil` (public resolver) or
//	  `manager == signer` for the resolver fetched by the id in the message, and the registration row
//	  names that resolver;
//	DefineResolver — every committed path inserts exactly one Resolver whose manager is the signer,
//	  or nil exactly when the message says public, and whose URL is the message's.
func ruleC16Mgr(c *Ctx, m *Model) {
	p := m.P
	r := RunE1(m)
	if h := r.byKey["data.RegisterResolver"]; h == nil || h.Cut {
		c.Undecide("C16.MGR", "register", "-", "RegisterResolver exploration missing or cut short")
	} else {
		signer := "addr(req." + h.EP.SignerField + ")"
		bad, badRow := "", ""
		nEff := 0
		for _, o := range h.Outs {
			st := o.St
			var mgrRows []string
			for _, ob := range st.mem {
				if ob.Table != nil && ob.Table.Name == "Resolver" && ob.Kind == "row" && ob.Origin == "get:Get(req.ResolverId)" {
					mgrRows = append(mgrRows, ob.Name)
				}
			}
			for i := range st.events {
				ev := &st.events[i]
				if !isEffect(ev) || !inScope(o, ev) {
					continue
				}
				nEff++
				ok := false
				for _, rn := range mgrRows {
					a, b := sortedPair(rn+".Manager", signer)
					if factBefore(st, "+Nil("+rn+".Manager)", ev) || factBefore(st, "+AddrEq("+a+", "+b+")", ev) || factBefore(st, "+BytesEq("+a+", "+b+")", ev) {
						ok = true
					}
				}
				if !ok && bad == "" {
					bad = "effect " + describeEvent(st, ev) + " at " + p.Pos(ev.Pos.Pos()) + " is reachable without the manager of Resolver(req.ResolverId) being nil or equal to the signer, on path {" + clip(strings.Join(st.facts, " "), 300) + "}"
				}
				if ev.Kind == "write" && ev.Table != nil && ev.Table.Name == "DataResolver" && ev.Row != nil {
					if got := st.canon(ev.Row["ResolverId"]); got != "req.ResolverId" && badRow == "" {
						badRow = "registration row carries resolver " + got
					}
				}
			}
		}
		if bad != "" {
			c.Violate("C16.MGR", "register#effects-guarded", p.Pos(h.Fn.Pos()), bad, nil)
		} else {
			c.Check(nEff >= 2, "C16.MGR", "register#effects-guarded", p.Pos(h.Fn.Pos()), fmt.Sprintf("all %d state effects on explored paths lie behind manager == nil (public) or manager == signer for the resolver named in the message", nEff))
		}
		c.Check(badRow == "", "C16.MGR", "register#row-resolver", p.Pos(h.Fn.Pos()), "registration rows carry req.ResolverId (the resolver whose manager was checked) "+badRow)
	}
	if h := r.byKey["data.DefineResolver"]; h == nil || h.Cut {
		c.Undecide("C16.MGR", "define", "-", "DefineResolver exploration missing or cut short")
	} else {
		signer := "addr(req." + h.EP.SignerField + ")"
		bad := ""
		n := 0
		for _, o := range h.Outs {
			if o.Kind != exitReturn {
				continue
			}
			n++
			st := o.St
			var ins []*Event
			for i := range st.events {
				if ev := &st.events[i]; ev.Kind == "write" && ev.Table != nil && ev.Table.Name == "Resolver" {
					ins = append(ins, ev)
				}
			}
			if len(ins) != 1 || ins[0].OpKind != "insert" {
				bad = fmt.Sprintf("%d Resolver writes on a committed path (required: exactly one insert)", len(ins))
				continue
			}
			mgr, url := st.canon(ins[0].Row["Manager"]), st.canon(ins[0].Row["Url"])
			pub, known := st.known("Bool(req.Public)")
			switch {
			case mgr == signer && (!known || !pub):
			case mgr == "nil" && known && pub:
			default:
				bad = "stored manager is " + mgr + " on path {" + clip(strings.Join(st.facts, " "), 200) + "} (required: the signer, or nil exactly when the message says public)"
			}
			if url != "req.ResolverUrl" {
				bad = "stored URL is " + url
			}
		}
		c.Check(bad == "" && n >= 2, "C16.MGR", "define#manager", p.Pos(h.Fn.Pos()), fmt.Sprintf("%d committed paths: one Resolver insert each, manager = signer or nil (public), URL = req.ResolverUrl %s", n, bad))
	}
}

func onlyOf(phi string, allowed ...string) bool {
	inner := strings.TrimSuffix(strings.TrimPrefix(phi, "phi("), ")")
	for _, part := range strings.Split(inner, " | ") {
		ok := false
		for _, a := range allowed {
			if part == a || part == "[]byte("+a+")" {
				ok = true
			}
		}
		if !ok {
			return false
		}
	}
	return true
}

// writerFns: subject functions that (transitively, via static calls) perform an ORM write or bank mutation.
func writerFns(m *Model) map[*ssa.Function]bool {
	fns := m.subjectFns(false)
	w := map[*ssa.Function]bool{}
	for _, fn := range fns {
		for _, ci := range callsIn(fn) {
			if oc := m.AsORMCall(ci); oc != nil && isWriteOp(oc.Kind) {
				w[fn] = true
			}
			if b := AsBankCall(ci); b != "" && isBankMutator(b) {
				w[fn] = true
			}
		}
	}
	for changed := true; changed; {
		changed = false
		for _, fn := range fns {
			if w[fn] {
				continue
			}
			for _, ci := range callsIn(fn) {
				if sc := ci.Common().StaticCallee(); sc != nil && w[sc] {
					w[fn] = true
					changed = true
					break
				}
				// closures
				if mc, ok := ci.Common().Value.(*ssa.MakeClosure); ok {
					if f, ok := mc.Fn.(*ssa.Function); ok && w[f] {
						w[fn] = true
						changed = true
						break
					}
				}
			}
		}
	}
	return w
}

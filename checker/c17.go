package main

// C17 — query shape rules (engine E7) on the effect explorer's view of every QueryServer method.

import (
	"fmt"
	"go/types"
	"regexp"
	"sort"
	"strings"

	"golang.org/x/tools/go/ssa"
)

func init() { register("C17", checkC17) }

// listSpec: the confirmed scan of a list query. Key value patterns:
//
//	literal canonical term, or "@Table@origin@.Field" = that column of the row fetched with this origin.
type listSpec struct {
	table     string
	keyType   string   // generated index key type ("" = unfiltered primary/other index without values)
	vals      []string // value patterns for the With… arguments
	paginated bool
}

var querySpecs = map[string][]listSpec{
	"base.Classes":                   {{"Class", "", nil, true}},
	"base.Projects":                  {{"Project", "", nil, true}},
	"base.Batches":                   {{"Batch", "", nil, true}},
	"base.AllBalances":               {{"BatchBalance", "", nil, true}},
	"base.AllowedClassCreators":      {{"AllowedClassCreator", "", nil, true}},
	"base.ClassesByAdmin":            {{"Class", "ClassAdminIndexKey", []string{"addr(req.Admin)"}, true}},
	"base.ClassIssuers":              {{"ClassIssuer", "ClassIssuerClassKeyIssuerIndexKey", []string{"@Class@get:GetById(req.ClassId)@.Key"}, true}},
	"base.ProjectsByClass":           {{"Project", "ProjectClassKeyIdIndexKey", []string{"@Class@get:GetById(req.ClassId)@.Key"}, true}},
	"base.ProjectsByAdmin":           {{"Project", "ProjectAdminIndexKey", []string{"addr(req.Admin)"}, true}},
	"base.ProjectsByReferenceId":     {{"Project", "ProjectReferenceIdIndexKey", []string{"req.ReferenceId"}, true}},
	"base.BatchesByClass":            {{"Batch", "BatchDenomIndexKey", []string{`(@Class@get:GetById(req.ClassId)@.Id + "-")`}, true}},
	"base.BatchesByProject":          {{"Batch", "BatchProjectKeyIndexKey", []string{"@Project@get:GetById(req.ProjectId)@.Key"}, true}},
	"base.BatchesByIssuer":           {{"Batch", "BatchIssuerIndexKey", []string{"addr(req.Issuer)"}, true}},
	"base.Balances":                  {{"BatchBalance", "BatchBalanceAddressBatchKeyIndexKey", []string{"addr(req.Address)"}, true}},
	"base.BalancesByBatch":           {{"BatchBalance", "BatchBalanceBatchKeyAddressIndexKey", []string{"@Batch@get:GetByDenom(req.BatchDenom)@.Key"}, true}},
	"base.CreditTypes":               {{"CreditType", "", nil, false}},
	"base.AllowedBridgeChains":       {{"AllowedBridgeChain", "", nil, false}},
	"base.Params":                    {{"AllowedClassCreator", "", nil, false}, {"AllowedDenom", "", nil, false}, {"AllowedBridgeChain", "", nil, false}},
	"basket.Baskets":                 {{"Basket", "", nil, true}},
	"basket.BasketBalances":          {{"BasketBalance", "BasketBalanceBasketIdBatchDenomIndexKey", []string{"@Basket@get:GetByBasketDenom(req.BasketDenom)@.Id"}, true}},
	"basket.Basket":                  {{"BasketClass", "BasketClassBasketIdClassIdIndexKey", []string{"@Basket@get:GetByBasketDenom(req.BasketDenom)@.Id"}, false}},
	"marketplace.SellOrders":         {{"SellOrder", "", nil, true}},
	"marketplace.AllowedDenoms":      {{"AllowedDenom", "", nil, true}},
	"marketplace.SellOrdersByBatch":  {{"SellOrder", "SellOrderBatchKeyIndexKey", []string{"@Batch@get:GetByDenom(req.BatchDenom)@.Key"}, true}},
	"marketplace.SellOrdersBySeller": {{"SellOrder", "SellOrderSellerIndexKey", []string{"addr(req.Seller)"}, true}},
	"data.AttestationsByIRI":         {{"DataAttestor", "DataAttestorIdAttestorIndexKey", []string{"@DataID@get:GetByIri(req.Iri)@.Id"}, true}},
	"data.AttestationsByHash":        {{"DataAttestor", "DataAttestorIdAttestorIndexKey", []string{"@DataID@get:GetByIri(ContentHash.ToIRI(*req.ContentHash)#0)@.Id"}, true}},
	"data.AttestationsByAttestor":    {{"DataAttestor", "DataAttestorAttestorIndexKey", []string{"addr(req.Attestor)"}, true}},
	"data.ResolversByIRI":            {{"DataResolver", "DataResolverIdResolverIdIndexKey", []string{"@DataID@get:GetByIri(req.Iri)@.Id"}, true}},
	"data.ResolversByHash":           {{"DataResolver", "DataResolverIdResolverIdIndexKey", []string{"@DataID@get:GetByIri(ContentHash.ToIRI(*req.ContentHash)#0)@.Id"}, true}},
	"data.ResolversByURL":            {{"Resolver", "ResolverUrlIndexKey", []string{"req.Url"}, true}},
}

func resolvePattern(st *State, pat string) string {
	for strings.Contains(pat, "@") {
		i := strings.Index(pat, "@")
		rest := pat[i+1:]
		parts := strings.SplitN(rest, "@", 3)
		if len(parts) < 3 {
			return pat
		}
		table, origin := parts[0], parts[1]
		name := "?unfetched:" + table
		tail := parts[2]
		for _, o := range rowsWithOrigin(st, table, origin) {
			name = o.Name
			// a column fixed by the lookup key carries the key's value
			if strings.HasPrefix(tail, ".") {
				f := tail[1:]
				end := strings.IndexAny(f, " +)")
				if end < 0 {
					end = len(f)
				}
				if v, ok := o.Preset[f[:end]]; ok {
					name = st.canon(v)
					tail = f[end:]
				}
			}
			break
		}
		pat = pat[:i] + name + tail
	}
	return pat
}

func checkC17(c *Ctx, e *Env) {
	c.Explanation = "E7 query-shape rules, evaluated on the effect explorer's paths of every QueryServer method of x/ecocredit and x/data (49 methods): Q1/Q2 each list query scans the confirmed table with the confirmed generated index key type, whose With… arguments derive from the request field directly, via bech32 decoding, or via the unique lookup of the entity named in the request; Q3 the one string-prefix scan (BatchesByClass) uses class.Id + \"-\" and class ids contain no '-' (E5: C14.SEP); " +
		"Q4 req.Pagination → PageReqToOrmPaginate → the List call, and the iterator's PageResponse → PageResToCosmosTypes → the response's Pagination, and the request adapter copies Key, Offset, Limit, CountTotal and Reverse on its only non-default path; Q5 no post-pagination filtering: every committed iteration of the scan loop appends exactly once to each result slice (or the query fails); Q6 response fields loaded from a fetched row come from the column of the same name (no swapped fields)."
	c.NotDecided = []string{"that the ORM returns exactly the rows matching a key prefix and pages them correctly (A1): set equality with a brute-force scan is a runtime statement"}
	c.Assumptions = []string{"A1", "A6"}
	e.Preload("x/ecocredit", "x/data")
	nQ, nList := 0, 0
	for _, mod := range []string{"x/ecocredit", "x/data"} {
		m := e.Model(mod)
		p := m.P
		x := NewExplorer(m)
		for _, ep := range m.Entries {
			if ep.Kind != "query" || !ep.Implemented || ep.Fn == nil {
				continue
			}
			nQ++
			outs := x.Explore(ep.Fn, entryParams(ep.Fn))
			key := ep.Key()
			pos := p.Pos(ep.Fn.Pos())
			if x.cut {
				c.Undecide("C17.E7", key, pos, "path cap exceeded")
				continue
			}
			specs, hasSpec := querySpecs[key]
			seenList := map[string]bool{}
			var bad []string
			nSucc := 0
			for _, o := range outs {
				if !((o.Kind == exitReturn && o.Commit) || o.Kind == exitLoopback) {
					continue
				}
				st := o.St
				if o.Kind == exitReturn {
					nSucc++
				}
				// writes in a query?
				for i := range st.events {
					if isEffect(&st.events[i]) {
						bad = append(bad, "query performs a state effect: "+describeEvent(st, &st.events[i]))
					}
				}
				// list events
				var lists []*Event
				for i := range st.events {
					ev := &st.events[i]
					if ev.Kind == "read" && ev.OpKind == "list" {
						lists = append(lists, ev)
					}
				}
				for _, ev := range lists {
					kt, vals := "", []string(nil)
					if len(ev.Keys) > 0 {
						if ik, ok := ev.Keys[0].(*IndexKeyV); ok {
							kt = ik.Type
							for _, v := range ik.Vals {
								vals = append(vals, st.canon(v))
							}
						}
					}
					desc := fmt.Sprintf("%s.%s(%s%v)", ev.Table.Name, ev.Method, kt, vals)
					if !hasSpec {
						bad = append(bad, "list query without a confirmed spec scans "+desc)
						continue
					}
					matched := false
					for _, sp := range specs {
						if sp.table != ev.Table.Name || sp.keyType != kt || len(sp.vals) != len(vals) || ev.Method != "List" {
							continue
						}
						ok := true
						for i, pat := range sp.vals {
							if resolvePattern(st, pat) != vals[i] {
								ok = false
							}
						}
						if !ok {
							continue
						}
						matched = true
						seenList[desc] = true
						// Q4 request side
						var opts []string
						for _, a := range ev.Args {
							opts = append(opts, st.canon(a))
						}
						if sp.paginated {
							if len(opts) != 1 || opts[0] != "PageReqToOrmPaginate(req.Pagination)" {
								bad = append(bad, fmt.Sprintf("Q4: scan options are %v, required [PageReqToOrmPaginate(req.Pagination)]", opts))
							}
						}
					}
					if !matched {
						var want []string
						for _, sp := range specs {
							var ws []string
							for _, pat := range sp.vals {
								ws = append(ws, resolvePattern(st, pat))
							}
							want = append(want, fmt.Sprintf("%s.List(%s%v)", sp.table, sp.keyType, ws))
						}
						bad = append(bad, "Q1/Q2: scans "+desc+", confirmed: "+strings.Join(want, " | "))
					}
				}
				// Q4 response side + Q6 on successful returns
				if o.Kind == exitReturn && len(o.Rets) > 0 {
					if rp, ok := o.Rets[0].(*Ptr); ok {
						if ro := st.mem[rp.O]; ro != nil {
							bad = append(bad, checkResponse(st, ro, lists, hasSpec && anyPaginated(specs))...)
						}
					}
				}
				// Q7: a paginated scan ends only when the iterator says so. The ORM builds the PageResponse
				// (next key, total) when Next() returns false; a loop left earlier — a cap on the number of
				// collected rows, a break on some condition — returns a truncated page with no next key
				if o.Kind == exitReturn && hasSpec && anyPaginated(specs) {
					listed, exhausted := false, false
					for i := range st.events {
						if ev := &st.events[i]; ev.Kind == "read" && ev.OpKind == "list" {
							listed = true
						}
					}
					for _, f := range st.facts {
						if strings.HasPrefix(f, "-IterNext(") {
							exhausted = true
						}
					}
					if listed && !exhausted {
						bad = append(bad, "Q7: a successful return is reachable without the iterator's Next() having returned false: the scan loop can be left early (row cap, break), and the ORM only produces the page response — next key and total — at exhaustion, so the caller gets a truncated page it cannot continue")
					}
				}
				// Q5 on iterations of scan loops
				if o.Kind == exitLoopback {
					hasValue, appends := false, 0
					for i := range st.events {
						ev := &st.events[i]
						if !inScope(o, ev) {
							continue
						}
						if ev.Kind == "read" && ev.OpKind == "itervalue" {
							hasValue = true
						}
						if ev.Kind == "call" && ev.Method == "append" {
							appends++
							// Q6 on the element appended in this iteration: each field named like a
							// stored column is loaded from that column
							if len(ev.Args) == 2 {
								if els, ok := x.sliceElems(st, ev.Args[1]); ok {
									for _, el := range els {
										if ep, isPtr := el.(*Ptr); isPtr {
											if eo := st.mem[ep.O]; eo != nil && eo.Kind != "row" {
												for f2, v2 := range eo.F {
													if n2 := strings.TrimPrefix(f2, "."); !strings.ContainsAny(n2, ".[") {
														tv := st.canon(v2)
														bad = append(bad, sameName(n2, tv)...)
														// a scalar of the element that is itself carried from one scan iteration to the
														// next (a local assigned on one branch only)
														if ts := strings.TrimSuffix(strings.TrimPrefix(tv, "addrstr("), ")"); loopCarriedScalar.MatchString(ts) && strings.HasPrefix(ts, strings.TrimSuffix(o.Loop, "/")) && !strings.HasSuffix(ts, "/rangeindex") {
															bad = append(bad, "Q6: field "+n2+" of the listed element is a value carried over from an earlier iteration of the scan loop ("+tv+"): on the branch that does not assign it, the element shows the previous element's value")
														}
													}
												}
											}
										}
									}
								}
							}
						}
					}
					if hasValue {
						k := fmt.Sprintf("%s#%d", o.Loop, appends)
						_ = k
						if appends == 0 {
							bad = append(bad, "Q5: an element read from the (already paginated) iterator is not appended to the result: post-pagination filtering in loop "+o.Loop)
						}
					}
				}
			}
			// Q5: all iterations of one loop append the same number of times
			counts := map[string]map[int]bool{}
			for _, o := range outs {
				if o.Kind != exitLoopback {
					continue
				}
				hasValue, appends := false, 0
				for i := range o.St.events {
					ev := &o.St.events[i]
					if !inScope(o, ev) {
						continue
					}
					if ev.Kind == "read" && ev.OpKind == "itervalue" {
						hasValue = true
					}
					if ev.Kind == "call" && ev.Method == "append" {
						appends++
					}
				}
				if hasValue {
					if counts[o.Loop] == nil {
						counts[o.Loop] = map[int]bool{}
					}
					counts[o.Loop][appends] = true
				}
			}
			for l, cs := range counts {
				if len(cs) > 1 {
					bad = append(bad, fmt.Sprintf("Q5: iterations of %s append a varying number of elements %v: conditional append after pagination", l, keysInt(cs)))
				}
			}
			nList += len(seenList)
			bad = uniqStrings(bad)
			if len(bad) > 0 {
				c.Violate("C17.SHAPE", key, pos, strings.Join(bad, "; "), nil)
			} else if nSucc == 0 {
				c.Undecide("C17.SHAPE", key, pos, "query has no successful path")
			} else if len(seenList) > 0 {
				var ls []string
				for l := range seenList {
					ls = append(ls, l)
				}
				sort.Strings(ls)
				c.Hold("C17.SHAPE", key, pos, "scans "+strings.Join(ls, ", ")+"; pagination wired; every iteration appends; response fields map by name", nil)
			} else {
				c.Hold("C17.SHAPE", key, pos, "single-entity query: response fields loaded from the fetched rows map by name", nil)
			}
			if hasSpec {
				for _, sp := range specs {
					found := false
					for l := range seenList {
						if strings.HasPrefix(l, sp.table+".List("+sp.keyType) {
							found = true
						}
					}
					if !found {
						c.Violate("C17.SHAPE", key+"#missing:"+sp.table, pos, "the confirmed scan of "+sp.table+" no longer happens on any successful path", nil)
					}
				}
			}
		}
	}
	c.Count("query_methods", nQ)
	c.Count("list_scans", nList)
	importObligations(c, e, checkC15, "C15", "C17.IRI", "by-IRI queries#parser-agrees-with-encoder", "the queries keyed by an IRI resolve it with ParseIRI; they find the record of every anchored hash only if the parser accepts exactly what the encoders write", func(o *Oblig) bool { return o.Rule == "C15.CODEC" })
	ruleTimestampConverters(c, e.Model("x/ecocredit"))
	if ruleLossyDurations(c, e.Model("x/ecocredit"))+ruleLossyDurations(c, e.Model("x/data")) == 0 {
		c.Hold("C17.CONV", "queries#no-lossy-duration", "-", "no conversion through time.Duration (AsDuration, durationpb.New, DurationProto, DurationFromProto) in the closure of the query handlers: stored durations reach responses field by field", nil)
	}
	c.Min("query methods explored", 45, nQ)
	c.Min("list scans matched", 30, nList)
	rulePageAdapter(c, e)
}

func anyPaginated(s []listSpec) bool {
	for _, x := range s {
		if x.paginated {
			return true
		}
	}
	return false
}

func keysInt(m map[int]bool) []int {
	var out []int
	for k := range m {
		out = append(out, k)
	}
	sort.Ints(out)
	return out
}

// checkResponse: Q4 response side and Q6 same-name rule.
func checkResponse(st *State, ro *Obj, lists []*Event, paginated bool) []string {
	var bad []string
	for f, v := range ro.F {
		name := strings.TrimPrefix(f, ".")
		if strings.Contains(name, ".") || strings.Contains(name, "[") {
			continue
		}
		term := st.canon(v)
		if name == "Pagination" {
			ok := false
			for _, l := range lists {
				if term == fmt.Sprintf("PageResToCosmosTypes(iter%d.PageResponse())", l.RowObj) {
					ok = true
				}
			}
			if paginated && !ok {
				bad = append(bad, "Q4: response Pagination is "+term+", not PageResToCosmosTypes(<the scan's iterator>.PageResponse())")
			}
			continue
		}
		bad = append(bad, sameName(name, term)...)
		// nested info literal
		if p, ok := v.(*Ptr); ok {
			if io := st.mem[p.O]; io != nil && io.Kind != "row" {
				for f2, v2 := range io.F {
					n2 := strings.TrimPrefix(f2, ".")
					if !strings.ContainsAny(n2, ".[") {
						bad = append(bad, sameName(n2, st.canon(v2))...)
					}
				}
			}
		}
	}
	if paginated {
		if _, has := ro.F[".Pagination"]; !has {
			bad = append(bad, "Q4: response has no Pagination although the scan is paginated")
		}
	}
	return bad
}

// field aliases between responses and stored columns (read off the response types).
var fieldAlias = map[string][]string{
	"Denom": {"BasketDenom", "BankDenom"}, "BatchDenom": {"Denom"}, "ClassId": {"Id"}, "ProjectId": {"Id"}, "Id": {"Key"}, "TradableAmount": {}, "Balance": {},
	"BasketDenom": {"Denom"}, "Iri": {}, "Url": {}, "Manager": {}, "Amount": {"Quantity", "Balance"}, "AskDenom": {"BankDenom"}, "Name": {}, "Curator": {}, "Admin": {}, "Issuer": {}, "Seller": {}, "Address": {},
}

// a scalar (string, number) that is itself carried from one scan iteration to the next — a local assigned
// on one branch only keeps the previous element's value on the other
var loopCarriedScalar = regexp.MustCompile(`^[A-Za-z0-9_$]+\.L\d+(?:#\d+)?/[A-Za-z_][A-Za-z0-9_]*$`)

var loopCarried = regexp.MustCompile(`[A-Za-z0-9_$]+\.L\d+(?:#\d+)?/[A-Za-z_][A-Za-z0-9_]*\.[A-Z]`)

func sameName(field, term string) []string {
	// term of the form <Table>#n.<Column> (possibly wrapped by a conversion helper)
	i := strings.LastIndex(term, "#")
	if i < 0 {
		// a field of a variable carried over from an earlier iteration of the scan loop (a row cached
		// across iterations): nothing ties it to the element being listed in this iteration
		if loopCarried.MatchString(term) {
			if _, isCol := fieldAlias[field]; isCol || true {
				return []string{"Q6: response field " + field + " is taken from a value carried over from an earlier iteration of the scan loop (" + term + "), not from a row fetched for the element listed in this iteration"}
			}
		}
		return nil
	}
	rest := term[i+1:]
	j := strings.Index(rest, ".")
	if j < 0 {
		return nil
	}
	col := rest[j+1:]
	col = strings.TrimRight(col, ")")
	if strings.ContainsAny(col, ".(,[ ") {
		return nil
	}
	if col == field {
		return nil
	}
	for _, a := range fieldAlias[field] {
		if a == col {
			return nil
		}
	}
	// only columns that also exist as response field names can be swapped silently
	switch col {
	case "TradableAmount", "RetiredAmount", "CancelledAmount", "EscrowedAmount", "Metadata", "Admin", "Issuer", "Jurisdiction", "ReferenceId", "StartDate", "EndDate", "IssuanceDate", "Open", "Quantity", "AskAmount", "Expiration", "Timestamp", "Curator", "Name":
		return []string{"Q6: response field " + field + " is loaded from column " + col + " (" + term + ")"}
	}
	return nil
}

// rulePageAdapter: PageReqToCosmosAPILegacy copies all five fields.
func rulePageAdapter(c *Ctx, e *Env) {
	m := e.Model("x/ecocredit")
	p := m.P
	var fn *ssa.Function
	for _, pk := range p.RepoList {
		if !strings.HasSuffix(pk.PkgPath, "types/v2/ormutil") {
			continue
		}
		if sp := p.ssaPkgs[pk.Types]; sp != nil {
			fn = sp.Func("PageReqToCosmosAPILegacy")
		}
	}
	if fn == nil {
		c.Undecide("C17.PAGE", "PageReqToCosmosAPILegacy", "-", "adapter not found")
		return
	}
	x := NewExplorer(m)
	outs := x.Explore(fn, []Val{&Sym{N: "from", T: fn.Params[0].Type()}})
	var bad []string
	n := 0
	for _, o := range outs {
		if o.Kind != exitReturn || len(o.Rets) == 0 {
			continue
		}
		st := o.St
		rp, ok := o.Rets[0].(*Ptr)
		if !ok {
			bad = append(bad, "adapter returns "+vstr(o.Rets[0]))
			continue
		}
		ro := st.mem[rp.O]
		if v, known := st.known("Nil(from)"); known && v {
			continue // default page request
		}
		n++
		for _, f := range []string{"Key", "Offset", "Limit", "CountTotal", "Reverse"} {
			got := ""
			if v, ok := ro.F["."+f]; ok {
				got = st.canon(v)
			}
			if got != "from."+f && got != "Bool(from."+f+")" {
				bad = append(bad, fmt.Sprintf("on path {%s} field %s of the ORM page request is %q, not from.%s", strings.Join(st.facts, " "), f, got, f))
			}
		}
	}
	if len(bad) > 0 {
		c.Violate("C17.PAGE", "PageReqToCosmosAPILegacy#fields", p.Pos(fn.Pos()), strings.Join(uniqStrings(bad), "; "), nil)
	} else {
		c.Check(n > 0, "C17.PAGE", "PageReqToCosmosAPILegacy#fields", p.Pos(fn.Pos()), fmt.Sprintf("all %d non-default paths copy Key, Offset, Limit, CountTotal, Reverse", n))
	}
	// PageReqToOrmPaginate wraps exactly that adapter
	for _, pk := range p.RepoList {
		if !strings.HasSuffix(pk.PkgPath, "types/v2/ormutil") {
			continue
		}
		f2 := p.ssaPkgs[pk.Types].Func("PageReqToOrmPaginate")
		if f2 == nil {
			c.Undecide("C17.PAGE", "PageReqToOrmPaginate", "-", "not found")
			continue
		}
		t := NewTermer(f2)
		ok := false
		for _, b := range f2.Blocks {
			if r, isR := b.Instrs[len(b.Instrs)-1].(*ssa.Return); isR {
				ok = t.T(r.Results[0]) == "Paginate(PageReqToCosmosAPILegacy("+f2.Params[0].Name()+"))"
			}
		}
		c.Check(ok, "C17.PAGE", "PageReqToOrmPaginate", p.Pos(f2.Pos()), "returns ormlist.Paginate(PageReqToCosmosAPILegacy(pg))")
	}
}

// ---- CONV: the timestamp converters every query renders stored dates with ------------------------------
//
// The query rules treat ProtobufToGogoTimestamp(x) / GogoToProtobufTimestamp(x) as "the same instant in the
// other representation". Confirmed by exploring their bodies: nil exactly for a nil argument, otherwise a
// value whose Seconds and Nanos are the argument's. (A converter that maps the zero timestamp to nil makes
// every query drop a date the state holds — the Unix epoch is a valid batch start date.)
func ruleTimestampConverters(c *Ctx, m *Model) {
	p := m.P
	n := 0
	for _, name := range []string{"ProtobufToGogoTimestamp", "GogoToProtobufTimestamp", "GogoToProtobufDuration"} {
		fn := findFn(m, "types/v2", name)
		if fn == nil || len(fn.Params) != 1 {
			c.Undecide("C17.CONV", name, "-", "converter not found")
			continue
		}
		n++
		x := NewExplorer(m)
		pt, isPtr := fn.Params[0].Type().(*types.Pointer)
		if !isPtr {
			c.Undecide("C17.CONV", name, p.Pos(fn.Pos()), "converter does not take a pointer")
			continue
		}
		outs := x.Explore(fn, []Val{&SymPtr{Base: "ts", T: pt.Elem()}})
		bad, seenNil, seenVal := "", false, false
		for _, o := range outs {
			if o.Kind != exitReturn || len(o.Rets) != 1 {
				if o.Kind == exitLoopback {
					bad = "the converter contains a loop"
				}
				continue
			}
			st := o.St
			argNil, known := st.known("Nil(&ts)")
			if !known {
				argNil, known = st.known("Nil(ts)")
			}
			ret := st.canon(o.Rets[0])
			switch {
			case ret == "nil":
				seenNil = true
				if !known || !argNil {
					bad = "returns nil for a non-nil argument on path {" + strings.Join(st.facts, " ") + "}: a stored timestamp is rendered as absent"
				}
			default:
				seenVal = true
				if known && argNil {
					bad = "returns a value for a nil argument"
				}
				rp, isP := o.Rets[0].(*Ptr)
				var ro *Obj
				if isP {
					ro = st.mem[rp.O]
				}
				if ro == nil {
					bad = "the result " + ret + " is not a freshly built timestamp"
					break
				}
				sec, nano := "", ""
				if v, has := ro.F[rp.Path+".Seconds"]; has {
					sec = st.canon(v)
				}
				if v, has := ro.F[rp.Path+".Nanos"]; has {
					nano = st.canon(v)
				}
				// generated protobuf getters (possibly called through a small local interface) return the field
				getter := regexp.MustCompile(`^invoke:Get(Seconds|Nanos)\(&?ts\)$`)
				if mm := getter.FindStringSubmatch(sec); mm != nil {
					sec = "ts." + mm[1]
				}
				if mm := getter.FindStringSubmatch(nano); mm != nil {
					nano = "ts." + mm[1]
				}
				if sec != "ts.Seconds" || nano != "ts.Nanos" {
					bad = fmt.Sprintf("the result carries Seconds=%q Nanos=%q, required the argument's", sec, nano)
				}
			}
		}
		if bad == "" && !(seenNil && seenVal) {
			bad = "expected one nil-returning and one value-returning path"
		}
		c.Check(bad == "", "C17.CONV", name, p.Pos(fn.Pos()), name+": nil exactly for nil, otherwise Seconds and Nanos copied "+bad)
	}
	c.Count("timestamp_converters", n)
}

// ruleLossyDurations: a stored protobuf Duration / Timestamp reaches a query response by copying its
// fields (the confirmed converters, the gogo ⇄ pulsar marshalling round trip). Going through Go's
// time.Duration saturates at about 292 years and through time.Time loses the valid range check, while the
// stored message may legally hold more (a start-date window of 1000 years as "any vintage"): no
// AsDuration / AsTime in the closure of the query handlers.
func ruleLossyDurations(c *Ctx, m *Model) int {
	p := m.P
	g := NewGraph(p)
	var roots []*ssa.Function
	for _, ep := range m.Entries {
		if ep.Kind == "query" && ep.Implemented && ep.Fn != nil {
			roots = append(roots, ep.Fn)
		}
	}
	n := 0
	for _, fn := range sortedFns(g.Closure(roots)) {
		if !g.isSubjectFn(fn) || excludedPkg(fnPkgPath(fn)) != "" || isCanaryFn(fn) {
			continue
		}
		for _, ci := range callsIn(fn) {
			pkg, name := calleePkgName(ci.Common())
			lossy := (strings.HasSuffix(pkg, "durationpb") && (name == "Duration.AsDuration" || name == "New")) ||
				((strings.HasSuffix(pkg, "gogo/protobuf/types") || strings.HasSuffix(pkg, "gogoproto/types")) && (name == "DurationProto" || name == "DurationFromProto"))
			if lossy {
				n++
				c.Violate("C17.CONV", funcKey(fn)+"#"+name, p.Pos(ci.Pos()), "a stored protobuf Duration is converted through Go's time.Duration ("+name+") on the way to a query response: time.Duration ends at about 292 years, while the stored message may hold up to 10000 — the response would not show what the state holds", nil)
			}
		}
	}
	return n
}

package main

// Small SSA helpers shared by the non-path engines.

import (
	"go/constant"
	"go/token"
	"go/types"
	"strings"

	"golang.org/x/tools/go/ssa"
)

// addrRoot follows FieldAddr / IndexAddr chains to the base pointer value.
func addrRoot(v ssa.Value) ssa.Value {
	for i := 0; i < 16; i++ {
		switch x := v.(type) {
		case *ssa.FieldAddr:
			v = x.X
		case *ssa.IndexAddr:
			v = x.X
		case *ssa.ChangeType:
			v = x.X
		default:
			return v
		}
	}
	return v
}

func isNilConst(v ssa.Value) bool {
	c, ok := v.(*ssa.Const)
	return ok && c.Value == nil
}

func constInt(v ssa.Value) (int64, bool) {
	c, ok := v.(*ssa.Const)
	if !ok || c.Value == nil || c.Value.Kind() != constant.Int {
		return 0, false
	}
	i, ok := constant.Int64Val(c.Value)
	return i, ok
}

func constString(v ssa.Value) (string, bool) {
	c, ok := v.(*ssa.Const)
	if !ok || c.Value == nil || c.Value.Kind() != constant.String {
		return "", false
	}
	return constant.StringVal(c.Value), true
}

// errResultIndex returns the index of the (last) error result of fn, or -1.
func errResultIndex(sig *types.Signature) int {
	for i := sig.Results().Len() - 1; i >= 0; i-- {
		if isErrorType(sig.Results().At(i).Type()) {
			return i
		}
	}
	return -1
}

// provablyNonNilErr: value is certainly a non-nil error (constructed or a package error variable).
func provablyNonNilErr(v ssa.Value) bool {
	switch x := v.(type) {
	case *ssa.MakeInterface:
		return true
	case *ssa.UnOp:
		if x.Op == token.MUL {
			if g, ok := x.X.(*ssa.Global); ok {
				_ = g
				return true // package-level error variable
			}
		}
	case *ssa.Call:
		pkg, name := calleePkgName(&x.Call)
		switch {
		case strings.HasSuffix(name, "Wrapf") || strings.HasSuffix(name, "Wrap"):
			// (*errors.Error).Wrap(f) is non-nil; errors.Wrap(err, ..) has the state of err
			if sc := x.Call.StaticCallee(); sc != nil && sc.Signature.Recv() != nil {
				return true
			}
			if len(x.Call.Args) > 0 {
				return provablyNonNilErr(x.Call.Args[0])
			}
		case pkg == "fmt" && name == "Errorf", pkg == "errors" && name == "New":
			return true
		case strings.HasSuffix(pkg, "status") && (name == "Error" || name == "Errorf"):
			return true
		}
	case *ssa.Phi:
		for _, e := range x.Edges {
			if !provablyNonNilErr(e) {
				return false
			}
		}
		return len(x.Edges) > 0
	}
	return false
}

// successReturns lists Return instructions whose error result is not provably non-nil.
func successReturns(fn *ssa.Function) []*ssa.Return {
	idx := errResultIndex(fn.Signature)
	var out []*ssa.Return
	for _, b := range fn.Blocks {
		if len(b.Instrs) == 0 {
			continue
		}
		r, ok := b.Instrs[len(b.Instrs)-1].(*ssa.Return)
		if !ok {
			continue
		}
		if idx >= 0 && idx < len(r.Results) && (provablyNonNilErr(r.Results[idx]) || nonNilAt(r.Results[idx], b)) {
			continue
		}
		out = append(out, r)
	}
	return out
}

// edgeDominates: every path to blk passes through the edge (ifBlock → succ index i).
func edgeDominates(ifb *ssa.BasicBlock, i int, blk *ssa.BasicBlock) bool {
	if i >= len(ifb.Succs) {
		return false
	}
	s := ifb.Succs[i]
	if len(s.Preds) != 1 {
		// the successor is a join; the edge dominates only if blk == s is impossible to reach otherwise
		return false
	}
	return s.Dominates(blk)
}

// ifOn finds the If instruction directly controlled by v (possibly through !).
// neg reports whether the condition is the negation of v.
func ifOn(v ssa.Value) (ifi *ssa.If, neg bool) {
	if v.Referrers() == nil {
		return nil, false
	}
	for _, r := range *v.Referrers() {
		switch x := r.(type) {
		case *ssa.If:
			return x, false
		case *ssa.UnOp:
			if x.Op == token.NOT {
				if i, n := ifOn(x); i != nil {
					return i, !n
				}
			}
		}
	}
	return nil, false
}

// allSuccessDominatedBy: all success returns of fn lie behind the branch of
// the If controlled by v taken when v == want.
func allSuccessDominatedBy(fn *ssa.Function, v ssa.Value, want bool) bool {
	ifi, neg := ifOn(v)
	if ifi == nil {
		return false
	}
	branch := 0 // true successor
	if want == neg {
		branch = 1
	}
	rets := successReturns(fn)
	if len(rets) == 0 {
		return false
	}
	for _, r := range rets {
		if !edgeDominates(ifi.Block(), branch, r.Block()) {
			return false
		}
	}
	return true
}

// callsIn lists call instructions of fn (Call, Defer, Go) in block order.
func callsIn(fn *ssa.Function) []ssa.CallInstruction {
	var out []ssa.CallInstruction
	for _, b := range fn.Blocks {
		for _, in := range b.Instrs {
			if ci, ok := in.(ssa.CallInstruction); ok {
				out = append(out, ci)
			}
		}
	}
	return out
}

// calleeFullName: "pkgpath.Name" or "pkgpath.Recv.Name".
func calleeFullName(cc *ssa.CallCommon) string {
	p, n := calleePkgName(cc)
	return p + "." + n
}

// pkgFuncs returns all source functions (incl. methods and anonymous) of an ssa package.
func pkgFuncs(prog *ssa.Program, sp *ssa.Package) []*ssa.Function {
	var out []*ssa.Function
	seen := map[*ssa.Function]bool{}
	var add func(f *ssa.Function)
	add = func(f *ssa.Function) {
		if f == nil || seen[f] {
			return
		}
		seen[f] = true
		out = append(out, f)
		for _, a := range f.AnonFuncs {
			add(a)
		}
	}
	for _, mem := range sp.Members {
		switch x := mem.(type) {
		case *ssa.Function:
			add(x)
		case *ssa.Type:
			for _, recv := range []types.Type{x.Type(), types.NewPointer(x.Type())} {
				ms := prog.MethodSets.MethodSet(recv)
				for i := 0; i < ms.Len(); i++ {
					f := prog.MethodValue(ms.At(i))
					if f != nil && f.Synthetic == "" {
						add(f)
					}
				}
			}
		}
	}
	return out
}

func namedOf(t types.Type) *types.Named {
	if t == nil {
		return nil
	}
	t = types.Unalias(t)
	if p, ok := t.(*types.Pointer); ok {
		t = types.Unalias(p.Elem())
	}
	n, _ := t.(*types.Named)
	return n
}

func typeIs(t types.Type, pkgSuffix, name string) bool {
	n := namedOf(t)
	if n == nil || n.Obj().Pkg() == nil {
		return false
	}
	return n.Obj().Name() == name && strings.HasSuffix(n.Obj().Pkg().Path(), pkgSuffix)
}

// nonNilAt: v is known non-nil in block b because b lies behind the true edge
// of `v != nil` (or the false edge of `v == nil`). errors.Wrap(v, …) inherits v.
func nonNilAt(v ssa.Value, b *ssa.BasicBlock) bool {
	if call, ok := v.(*ssa.Call); ok {
		_, name := calleePkgName(&call.Call)
		if (strings.HasSuffix(name, "Wrap") || strings.HasSuffix(name, "Wrapf")) && len(call.Call.Args) > 0 {
			if sc := call.Call.StaticCallee(); sc != nil && sc.Signature.Recv() == nil {
				return nonNilAt(call.Call.Args[0], b)
			}
		}
	}
	if v.Referrers() == nil {
		return false
	}
	for _, r := range *v.Referrers() {
		bo, ok := r.(*ssa.BinOp)
		if !ok || (bo.Op != token.NEQ && bo.Op != token.EQL) {
			continue
		}
		if !(isNilConst(bo.X) || isNilConst(bo.Y)) {
			continue
		}
		ifi, neg := ifOn(bo)
		if ifi == nil {
			continue
		}
		wantTrue := bo.Op == token.NEQ
		if neg {
			wantTrue = !wantTrue
		}
		branch := 0
		if !wantTrue {
			branch = 1
		}
		if edgeDominates(ifi.Block(), branch, b) {
			return true
		}
	}
	return false
}

// constIntOrNil: constant integer value of v; (0,false) when v is nil or not constant.
func constIntOrNil(v ssa.Value) (int64, bool) {
	if v == nil {
		return 0, false
	}
	return constInt(v)
}

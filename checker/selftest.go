package main

func selftest(ids []string) int { return 0 }

package main

// Sensitivity self-test (thorough tier): the checker is run, through go/packages overlays and in
// child processes, on
//   - the mutant catalogue   /verif/mutants/catalog.json  (exact-string edits; each must be reported),
//   - the seeded changes     /verif/seeded/<Cxx>-<n>/patch.diff (each must be reported),
//   - the benign refactorings /verif/benign/<id>/patch.diff  (each must leave the check quiet).
// Nothing is written to /repo. Entries whose text no longer matches the tree are counted as
// stale, not as failures. The outcome is recorded in the evidence file ("sensitivity"); it never
// changes the verdict on the tree itself: a missed mutant says the checker is weaker than
// hoped, not that the repository violates the property.

import (
	"encoding/json"
	"fmt"
	"os"
	"os/exec"
	"path/filepath"
	"regexp"
	"sort"
	"strings"
	"sync"
)

type mutEdit struct {
	File    string `json:"file"`
	Find    string `json:"find"`
	Replace string `json:"replace"`
}

type mutant struct {
	ID    string    `json:"id"`
	Rules []string  `json:"rules"`
	Desc  string    `json:"desc"`
	Edits []mutEdit `json:"edits"`
	Skip  string    `json:"skip,omitempty"`
}

type variantResult struct {
	ID       string   `json:"id"`
	Kind     string   `json:"kind"` // mutant | seed | benign
	Status   string   `json:"status"`
	Rules    []string `json:"rules_fired,omitempty"`
	Expected []string `json:"rules_expected,omitempty"`
	Desc     string   `json:"desc,omitempty"`
}

var firedRule = regexp.MustCompile(`\[(?:violated|undecided)\] (C[0-9]+\.[A-Za-z0-9.]+) `)

// realVerifRoot: the catalogue lives in the committed /verif even when evidence is redirected.
func catalogueRoot() string {
	if exe, err := os.Executable(); err == nil {
		if d := filepath.Dir(filepath.Dir(exe)); fileExists(filepath.Join(d, "mutants")) || fileExists(filepath.Join(d, "seeded")) {
			return d
		}
	}
	return "/verif"
}

func fileExists(p string) bool { _, err := os.Stat(p); return err == nil }

func loadMutants(root string) []mutant {
	var out []mutant
	b, err := os.ReadFile(filepath.Join(root, "mutants", "catalog.json"))
	if err != nil {
		return nil
	}
	if json.Unmarshal(b, &out) != nil {
		return nil
	}
	return out
}

// overlayForEdits materialises the edited files under dir and returns the overlay file, or "" when stale.
func overlayForEdits(dir string, edits []mutEdit) string {
	repl := map[string]string{}
	content := map[string]string{}
	for _, e := range edits {
		abs := filepath.Join(repoRoot, e.File)
		cur, ok := content[abs]
		if !ok {
			b, err := os.ReadFile(abs)
			if err != nil {
				return ""
			}
			cur = string(b)
		}
		if strings.Count(cur, e.Find) != 1 {
			return ""
		}
		content[abs] = strings.Replace(cur, e.Find, e.Replace, 1)
	}
	i := 0
	for abs, txt := range content {
		i++
		f := filepath.Join(dir, fmt.Sprintf("f%d_%s", i, filepath.Base(abs)))
		if os.WriteFile(f, []byte(txt), 0o644) != nil {
			return ""
		}
		repl[abs] = f
	}
	b, _ := json.Marshal(map[string]any{"Replace": repl})
	ov := filepath.Join(dir, "overlay.json")
	if os.WriteFile(ov, b, 0o644) != nil {
		return ""
	}
	return ov
}

// overlayForPatch uses tools/patch2overlay.py (git apply on copies of the touched files).
func overlayForPatch(root, dir, patch string) string {
	cmd := exec.Command("python3", filepath.Join(root, "tools", "patch2overlay.py"), patch, filepath.Join(dir, "ov"))
	cmd.Env = append(os.Environ(), "REPO="+repoRoot)
	if err := cmd.Run(); err != nil {
		return ""
	}
	return filepath.Join(dir, "ov", "overlay.json")
}

// runVariant runs `check <prop> quick` on an overlay in a child process with a private evidence root.
func runVariant(prop, overlay, dir string) (violations int, rules []string, ok bool) {
	exe, err := os.Executable()
	if err != nil {
		return 0, nil, false
	}
	vr := filepath.Join(dir, "verif")
	os.MkdirAll(filepath.Join(vr, "evidence"), 0o755)
	if b, err := os.ReadFile(filepath.Join(catalogueRoot(), "known_findings.json")); err == nil {
		os.WriteFile(filepath.Join(vr, "known_findings.json"), b, 0o644)
	}
	cmd := exec.Command(exe, "check", prop, "quick", "-overlay", overlay, "-repo", repoRoot)
	cmd.Env = append(os.Environ(), "LEDGERLINT_VERIF="+vr, "VERIF_TIER=quick")
	out, _ := cmd.CombinedOutput()
	seen := map[string]bool{}
	for _, l := range strings.Split(string(out), "\n") {
		if strings.HasPrefix(l, "VIOLATION property="+prop+" ") {
			violations++
		}
		if m := firedRule.FindStringSubmatch(l); m != nil && !seen[m[1]] {
			seen[m[1]] = true
			rules = append(rules, m[1])
		}
	}
	sort.Strings(rules)
	if !strings.Contains(string(out), prop+" quick:") {
		return violations, rules, false // the child did not reach its summary line
	}
	return violations, rules, true
}

// runSensitivity runs the catalogues that concern prop and returns the evidence block.
func runSensitivity(prop string) map[string]any {
	root := catalogueRoot()
	type job struct {
		res     variantResult
		overlay func(dir string) string
	}
	var jobs []*job
	for _, m := range loadMutants(root) {
		if m.Skip != "" {
			continue
		}
		own := false
		for _, r := range m.Rules {
			if strings.HasPrefix(r, prop+".") {
				own = true
			}
		}
		if !own {
			continue
		}
		m := m
		jobs = append(jobs, &job{res: variantResult{ID: m.ID, Kind: "mutant", Expected: m.Rules, Desc: m.Desc}, overlay: func(dir string) string { return overlayForEdits(dir, m.Edits) }})
	}
	for _, kind := range []string{"seeded", "benign"} {
		ents, _ := os.ReadDir(filepath.Join(root, kind))
		for _, en := range ents {
			if !en.IsDir() {
				continue
			}
			// seeds: those of this property; benign edits: every one that touches code this check loads
			if kind == "seeded" && !strings.HasPrefix(en.Name(), prop+"-") {
				continue
			}
			if kind == "benign" && !strings.HasPrefix(en.Name(), prop+"-") && !strings.HasPrefix(en.Name(), "R2-"+prop+"-") && !strings.HasPrefix(en.Name(), "R3-"+prop+"-") && !benignMetaProperty(filepath.Join(root, kind, en.Name()), prop) {
				continue
			}
			patch := filepath.Join(root, kind, en.Name(), "patch.diff")
			if !fileExists(patch) {
				continue
			}
			k := "seed"
			if kind == "benign" {
				k = "benign"
			}
			jobs = append(jobs, &job{res: variantResult{ID: en.Name(), Kind: k}, overlay: func(dir string) string { return overlayForPatch(root, dir, patch) }})
		}
	}
	tmp, err := os.MkdirTemp("", "ledgerlint-selftest-")
	if err != nil {
		return map[string]any{"error": err.Error()}
	}
	defer os.RemoveAll(tmp)
	sem := make(chan struct{}, 4)
	var wg sync.WaitGroup
	for i, j := range jobs {
		wg.Add(1)
		go func(i int, j *job) {
			defer wg.Done()
			sem <- struct{}{}
			defer func() { <-sem }()
			dir := filepath.Join(tmp, fmt.Sprintf("v%d", i))
			os.MkdirAll(dir, 0o755)
			defer os.RemoveAll(dir)
			ov := j.overlay(dir)
			if ov == "" {
				j.res.Status = "stale"
				return
			}
			n, rules, ok := runVariant(prop, ov, dir)
			j.res.Rules = rules
			switch {
			case !ok:
				j.res.Status = "error"
			case j.res.Kind == "benign" && n == 0:
				j.res.Status = "quiet"
			case j.res.Kind == "benign":
				j.res.Status = "false-alarm"
			case n > 0:
				j.res.Status = "detected"
			default:
				j.res.Status = "missed"
			}
		}(i, j)
	}
	wg.Wait()
	counts := map[string]int{}
	var results []variantResult
	var attention []string
	for _, j := range jobs {
		counts[j.res.Kind+":"+j.res.Status]++
		results = append(results, j.res)
		if j.res.Status == "missed" || j.res.Status == "false-alarm" || j.res.Status == "error" {
			attention = append(attention, j.res.Kind+" "+j.res.ID+": "+j.res.Status)
		}
	}
	sort.Slice(results, func(a, b int) bool { return results[a].Kind+results[a].ID < results[b].Kind+results[b].ID })
	return map[string]any{
		"what":      "checker re-run in child processes on source variants through go/packages overlays (nothing written to /repo): catalogue mutants and seeded changes must be reported, behaviour-preserving refactorings must stay quiet; stale = the entry's text no longer matches the tree",
		"variants":  len(jobs),
		"counts":    counts,
		"attention": attention,
		"results":   results,
	}
}

// selftest <Cxx|all>: prints the sensitivity matrix without writing evidence.
func selftest(ids []string) int {
	if len(ids) < 2 {
		fmt.Fprintln(os.Stderr, "usage: ledgerlint selftest <Cxx|all>")
		return 2
	}
	var props []string
	if ids[1] == "all" {
		for id := range checks {
			props = append(props, id)
		}
		sort.Strings(props)
	} else {
		props = strings.Split(ids[1], ",")
	}
	bad := 0
	for _, p := range props {
		s := runSensitivity(p)
		b, _ := json.Marshal(s["counts"])
		fmt.Printf("%s: %d variants %s\n", p, s["variants"], b)
		for _, a := range s["attention"].([]string) {
			fmt.Println("   ATTENTION " + a)
			bad++
		}
		if len(ids) > 2 && ids[2] == "v" {
			for _, r := range s["results"].([]variantResult) {
				fmt.Printf("   %-7s %-12s %-11s %v\n", r.Kind, r.ID, r.Status, r.Rules)
			}
		}
	}
	if bad > 0 {
		return 1
	}
	return 0
}


// benignMetaProperty: the refactoring's meta.json names this property as the one its area belongs to
// (catalogue rounds that are organised by code area rather than by property).
func benignMetaProperty(dir, prop string) bool {
	b, err := os.ReadFile(filepath.Join(dir, "meta.json"))
	if err != nil {
		return false
	}
	var m struct {
		Property string `json:"property"`
	}
	if json.Unmarshal(b, &m) != nil {
		return false
	}
	return m.Property == prop
}

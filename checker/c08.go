package main

// C08 — roles (every effect behind the role fact for the signer-derived address and the
// entity named in the request; exact field write sets) and C03 — ownership of debits.

import (
	"fmt"
	"regexp"
	"sort"
	"strconv"
	"strings"
)

func init() {
	register("C08", checkC08)
	register("C03", checkC03)
}

// isEffect: ORM write or bank mutator.
func isEffect(ev *Event) bool {
	if ev.Kind == "write" {
		return true
	}
	return ev.Kind == "bank" && isBankMutator(ev.Method)
}

// factBefore: fact f (with polarity prefix) established before the event.
func factBefore(st *State, f string, ev *Event) bool {
	for i, g := range st.facts {
		if g == f {
			return i < ev.Facts
		}
	}
	// the same comparison written from the other side: a < b for b > a
	if alt := flipCmpFact(f); alt != "" {
		for i, g := range st.facts {
			if g == alt {
				return i < ev.Facts
			}
		}
	}
	return false
}

var cmpFactShape = regexp.MustCompile(`^([+-])(Gt0|Lt0|Eq0)\((.*)\)$`)

// flipCmpFact: ±Gt0(L) ⇔ ±Lt0(−L), ±Eq0(L) ⇔ ±Eq0(−L). Empty when f is not such a fact or L is not registered.
func flipCmpFact(f string) string {
	mm := cmpFactShape.FindStringSubmatch(f)
	if mm == nil {
		return ""
	}
	l, ok := linByStr[mm[3]]
	if !ok {
		return ""
	}
	op := map[string]string{"Gt0": "Lt0", "Lt0": "Gt0", "Eq0": "Eq0"}[mm[2]]
	return mm[1] + op + "(" + regLin(l.Neg()) + ")"
}

func anyFactBefore(st *State, ev *Event, fs ...string) (string, bool) {
	for _, f := range fs {
		if factBefore(st, f, ev) {
			return f, true
		}
	}
	return "", false
}

// rowsWithOrigin: fetched rows of a table whose origin is exactly origin.
func rowsWithOrigin(st *State, table, origin string) []*Obj {
	var ids []int
	for id, o := range st.mem {
		if o.Table != nil && o.Table.Name == table && o.Kind == "row" && o.Origin == origin {
			ids = append(ids, id)
		}
	}
	sort.Ints(ids)
	var out []*Obj
	for _, id := range ids {
		out = append(out, st.mem[id])
	}
	return out
}

func addrEqFact(a, b string) string {
	x, y := sortedPair(a, b)
	return "+AddrEq(" + x + ", " + y + ")"
}

// readFoundBefore: a Get on table with the given canonical keys returned a row (err == nil) before ev.
func readFoundBefore(st *State, table, method string, keys []string, ev *Event) bool {
	for i := range st.events {
		r := &st.events[i]
		if r.Seq >= ev.Seq {
			break
		}
		if r.Kind != "read" || r.Table == nil || r.Table.Name != table || r.Method != method || len(r.Keys) != len(keys) {
			continue
		}
		same := true
		for j, k := range r.Keys {
			if st.canon(k) != keys[j] && vstr(k) != keys[j] {
				same = false
			}
		}
		if same && st.errs[r.ErrID] == 1 {
			return true
		}
	}
	return false
}

// roleSpec: what must hold before any effect of a handler.
type roleSpec struct {
	Role  string
	Check func(h *HandlerResult, o *Outcome, ev *Event) string // "" = ok, else reason
}

func signerAddr(h *HandlerResult) string { return "addr(req." + h.EP.SignerField + ")" }

func authoritySpec() roleSpec {
	return roleSpec{"governance authority", func(h *HandlerResult, o *Outcome, ev *Event) string {
		st := o.St
		x, y := sortedPair("addrstr(k.authority)", "req."+h.EP.SignerField)
		if _, ok := anyFactBefore(st, ev, "+StrEq("+x+", "+y+")", addrEqFact(signerAddr(h), "k.authority")); ok {
			return ""
		}
		return "no comparison of the keeper's authority with req." + h.EP.SignerField + " precedes the effect"
	}}
}

// entityAdminSpec: AddrEq(<row fetched by origin>.<field>, signer)
func entityAdminSpec(role, table, origin, field string, extra ...string) roleSpec {
	return roleSpec{role, func(h *HandlerResult, o *Outcome, ev *Event) string {
		st := o.St
		rows := rowsWithOrigin(st, table, origin)
		if len(rows) == 0 {
			return table + " is not fetched by " + origin
		}
		row := rows[0]
		if !factBefore(st, addrEqFact(row.Name+"."+field, signerAddr(h)), ev) {
			return fmt.Sprintf("no check %s.%s == %s (row %s) precedes the effect", table, field, signerAddr(h), origin)
		}
		for _, ex := range extra {
			if !factBefore(st, "+Bool("+row.Name+"."+ex+")", ev) {
				return fmt.Sprintf("no check %s.%s == true precedes the effect", table, ex)
			}
		}
		return ""
	}}
}

// classIssuerSpec: ClassIssuer.Has(classKey, signer) == true for the class reached from the request.
func classIssuerSpec(classOrigin func(st *State) string) roleSpec {
	return roleSpec{"class issuer", func(h *HandlerResult, o *Outcome, ev *Event) string {
		st := o.St
		ck := classOrigin(st)
		if ck == "" {
			return "class of the request not resolved"
		}
		f := "+Has:ClassIssuer.Has(" + ck + ", " + signerAddr(h) + ")"
		if factBefore(st, f, ev) {
			return ""
		}
		return "missing " + f + " before the effect"
	}}
}

func selfSpec() roleSpec {
	return roleSpec{"self (owner of what is debited: C03.OWN)", func(h *HandlerResult, o *Outcome, ev *Event) string { return "" }}
}

func roleTable() map[string]roleSpec {
	classByID := func(field string) string { return "get:GetById(req." + field + ")" }
	t := map[string]roleSpec{}
	for _, k := range []string{"base.AddCreditType", "base.SetClassCreatorAllowlist", "base.AddClassCreator", "base.RemoveClassCreator", "base.UpdateClassFee", "base.AddAllowedBridgeChain", "base.RemoveAllowedBridgeChain",
		"basket.UpdateBasketFee", "basket.UpdateDateCriteria",
		"marketplace.AddAllowedDenom", "marketplace.RemoveAllowedDenom", "marketplace.GovSetFeeParams", "marketplace.GovSendFromFeePool"} {
		t[k] = authoritySpec()
	}
	t["base.UpdateClassAdmin"] = entityAdminSpec("class admin", "Class", classByID("ClassId"), "Admin")
	t["base.UpdateClassIssuers"] = entityAdminSpec("class admin", "Class", classByID("ClassId"), "Admin")
	t["base.UpdateClassMetadata"] = entityAdminSpec("class admin", "Class", classByID("ClassId"), "Admin")
	t["base.UpdateProjectAdmin"] = entityAdminSpec("project admin", "Project", classByID("ProjectId"), "Admin")
	t["base.UpdateProjectMetadata"] = entityAdminSpec("project admin", "Project", classByID("ProjectId"), "Admin")
	t["base.SealBatch"] = entityAdminSpec("batch issuer", "Batch", "get:GetByDenom(req.BatchDenom)", "Issuer")
	t["base.UpdateBatchMetadata"] = entityAdminSpec("batch issuer of an open batch", "Batch", "get:GetByDenom(req.BatchDenom)", "Issuer", "Open")
	t["base.MintBatchCredits"] = entityAdminSpec("batch issuer of an open batch", "Batch", "get:GetByDenom(req.BatchDenom)", "Issuer", "Open")
	t["basket.UpdateCurator"] = entityAdminSpec("basket curator", "Basket", "get:GetByBasketDenom(req.Denom)", "Curator")
	t["marketplace.CancelSellOrder"] = entityAdminSpec("sell order owner", "SellOrder", "get:Get(req.SellOrderId)", "Seller")
	t["marketplace.UpdateSellOrders"] = roleSpec{"sell order owner", func(h *HandlerResult, o *Outcome, ev *Event) string {
		st := o.St
		// the order written/affected in this iteration is the one fetched by the update's id, and its seller is the signer
		var rows []*Obj
		for _, ob := range st.mem {
			if ob.Table != nil && ob.Table.Name == "SellOrder" && ob.Kind == "row" && strings.HasPrefix(ob.Origin, "get:Get(req.Updates[") && strings.HasSuffix(ob.Origin, "].SellOrderId)") && ob.Loop == ev.Loop[:min(len(ev.Loop), len(ob.Loop))] {
				rows = append(rows, ob)
			}
		}
		sort.Slice(rows, func(i, j int) bool { return rows[i].ID < rows[j].ID })
		if len(rows) == 0 {
			return "sell order is not fetched by the update's SellOrderId in this iteration"
		}
		row := rows[len(rows)-1]
		if !factBefore(st, addrEqFact(row.Name+".Seller", signerAddr(h)), ev) {
			return "no check SellOrder.Seller == " + signerAddr(h) + " for the order " + row.Origin + " precedes the effect"
		}
		return ""
	}}
	t["base.CreateProject"] = classIssuerSpec(func(st *State) string {
		if rows := rowsWithOrigin(st, "Class", classByID("ClassId")); len(rows) > 0 {
			return rows[0].Name + ".Key"
		}
		return ""
	})
	t["base.CreateBatch"] = classIssuerSpec(func(st *State) string {
		// class = Class.Get(project.ClassKey), project = GetById(req.ProjectId)
		for _, pr := range rowsWithOrigin(st, "Project", classByID("ProjectId")) {
			return pr.Name + ".ClassKey"
		}
		return ""
	})
	t["base.CreateClass"] = roleSpec{"allow-listed creator when the allowlist is on", func(h *HandlerResult, o *Outcome, ev *Event) string {
		st := o.St
		var allow *Obj
		for _, ob := range st.mem {
			if ob.Table != nil && ob.Table.Name == "ClassCreatorAllowlist" && ob.Kind == "row" {
				if allow == nil || ob.ID < allow.ID {
					allow = ob
				}
			}
		}
		if allow == nil {
			return "ClassCreatorAllowlist is not read"
		}
		en := "Bool(" + allow.Name + ".Enabled)"
		if factBefore(st, "-"+en, ev) {
			return ""
		}
		if factBefore(st, "+"+en, ev) {
			if readFoundBefore(st, "AllowedClassCreator", "Get", []string{signerAddr(h)}, ev) {
				return ""
			}
			return "allowlist enabled but no successful AllowedClassCreator.Get(" + signerAddr(h) + ") precedes the effect"
		}
		return "ClassCreatorAllowlist.Enabled is not tested before the effect"
	}}
	for _, k := range []string{"base.Send", "base.Retire", "base.Cancel", "base.Bridge", "base.BurnRegen", "basket.Create", "basket.Put", "basket.Take", "marketplace.Sell", "marketplace.BuyDirect"} {
		t[k] = selfSpec()
	}
	// BridgeReceive: issuance happens only through the nested CreateProject / CreateBatch / MintBatchCredits with the signer as issuer/admin
	t["base.BridgeReceive"] = roleSpec{"bridge issuer (nested handler role facts with the signer)", func(h *HandlerResult, o *Outcome, ev *Event) string {
		st := o.St
		s := signerAddr(h)
		// either class issuer of the class named in the request …
		for _, cl := range rowsWithOrigin(st, "Class", "get:GetById(req.ClassId)") {
			if factBefore(st, "+Has:ClassIssuer.Has("+cl.Name+".Key, "+s+")", ev) {
				return ""
			}
		}
		for _, f := range st.facts {
			if strings.HasPrefix(f, "+Has:ClassIssuer.Has(") && strings.HasSuffix(f, ", "+s+")") && factBefore(st, f, ev) {
				return ""
			}
		}
		// … or issuer of the (open) batch bound to the contract
		for _, ob := range st.mem {
			if ob.Table != nil && ob.Table.Name == "Batch" && ob.Kind == "row" {
				if factBefore(st, addrEqFact(ob.Name+".Issuer", s), ev) && factBefore(st, "+Bool("+ob.Name+".Open)", ev) {
					return ""
				}
			}
		}
		return "no class-issuer or batch-issuer fact for " + s + " precedes the effect"
	}}
	return t
}

// handlers whose role is established once per element of a repeated request field
var perIterationRole = map[string]bool{"marketplace.UpdateSellOrders": true}

func min(a, b int) int {
	if a < b {
		return a
	}
	return b
}

// expected write sets: table → allowed changed fields for updates ("*" = insert/delete of whole rows).
var writeSets = map[string]map[string]string{
	"base.CreateClass":               {"ClassSequence": "*", "Class": "*", "ClassIssuer": "*"},
	"base.CreateProject":             {"ProjectSequence": "*", "Project": "*"},
	"base.CreateBatch":               {"BatchSequence": "*", "Batch": "*", "BatchBalance": "*", "BatchSupply": "*", "OriginTxIndex": "*", "BatchContract": "*"},
	"base.MintBatchCredits":          {"OriginTxIndex": "*", "BatchBalance": "TradableAmount,RetiredAmount", "BatchSupply": "TradableAmount,RetiredAmount"},
	"base.SealBatch":                 {"Batch": "Open"},
	"base.Send":                      {"BatchBalance": "TradableAmount,RetiredAmount", "BatchSupply": "TradableAmount,RetiredAmount"},
	"base.Retire":                    {"BatchBalance": "TradableAmount,RetiredAmount", "BatchSupply": "TradableAmount,RetiredAmount"},
	"base.Cancel":                    {"BatchBalance": "TradableAmount", "BatchSupply": "TradableAmount,CancelledAmount"},
	"base.Bridge":                    {"BatchBalance": "TradableAmount", "BatchSupply": "TradableAmount,CancelledAmount"},
	"base.BridgeReceive":             {"ProjectSequence": "*", "Project": "*", "BatchSequence": "*", "Batch": "*", "BatchBalance": "*", "BatchSupply": "*", "OriginTxIndex": "*", "BatchContract": "*"},
	"base.UpdateClassAdmin":          {"Class": "Admin"},
	"base.UpdateClassIssuers":        {"ClassIssuer": "*"},
	"base.UpdateClassMetadata":       {"Class": "Metadata"},
	"base.UpdateProjectAdmin":        {"Project": "Admin"},
	"base.UpdateProjectMetadata":     {"Project": "Metadata"},
	"base.UpdateBatchMetadata":       {"Batch": "Metadata"},
	"base.AddCreditType":             {"CreditType": "*"},
	"base.SetClassCreatorAllowlist":  {"ClassCreatorAllowlist": "*"},
	"base.AddClassCreator":           {"AllowedClassCreator": "*"},
	"base.RemoveClassCreator":        {"AllowedClassCreator": "*"},
	"base.UpdateClassFee":            {"ClassFee": "*"},
	"base.AddAllowedBridgeChain":     {"AllowedBridgeChain": "*"},
	"base.RemoveAllowedBridgeChain":  {"AllowedBridgeChain": "*"},
	"base.BurnRegen":                 {},
	"basket.Create":                  {"Basket": "*", "BasketClass": "*"},
	"basket.Put":                     {"BatchBalance": "TradableAmount", "BasketBalance": "Balance"},
	"basket.Take":                    {"BasketBalance": "Balance", "BatchBalance": "TradableAmount,RetiredAmount", "BatchSupply": "TradableAmount,RetiredAmount"},
	"basket.UpdateBasketFee":         {"BasketFee": "*"},
	"basket.UpdateCurator":           {"Basket": "Curator"},
	"basket.UpdateDateCriteria":      {"Basket": "DateCriteria"},
	"marketplace.Sell":               {"Market": "*", "SellOrder": "*", "BatchBalance": "TradableAmount,EscrowedAmount"},
	"marketplace.UpdateSellOrders":   {"Market": "*", "SellOrder": "Quantity,MarketId,AskAmount,DisableAutoRetire,Expiration,Maker", "BatchBalance": "TradableAmount,EscrowedAmount"},
	"marketplace.CancelSellOrder":    {"SellOrder": "*", "BatchBalance": "TradableAmount,EscrowedAmount"},
	"marketplace.BuyDirect":          {"SellOrder": "Quantity", "BatchBalance": "TradableAmount,RetiredAmount,EscrowedAmount", "BatchSupply": "TradableAmount,RetiredAmount"},
	"marketplace.AddAllowedDenom":    {"AllowedDenom": "*"},
	"marketplace.RemoveAllowedDenom": {"AllowedDenom": "*"},
	"marketplace.GovSetFeeParams":    {"FeeParams": "*"},
	"marketplace.GovSendFromFeePool": {},
	"marketplace.PruneSellOrders":    {"SellOrder": "*", "BatchBalance": "TradableAmount,EscrowedAmount"},
}

// changedFields: columns whose stored value differs from the previous row.
func changedFields(st *State, ev *Event) ([]string, bool) {
	if ev.Old == nil || ev.Old.Row == nil || ev.Row == nil {
		return nil, false
	}
	var out []string
	for f, v := range ev.Row {
		ov, ok := ev.Old.Row[f]
		if !ok {
			continue
		}
		a, b := st.canon(v), st.canon(ov)
		if a == b {
			continue
		}
		// a decimal rendering of exactly the old parsed value is unchanged
		if ds, isDS := v.(*DecStr); isDS && len(ds.D.L.T) == 1 && ds.D.L.C.Sign() == 0 {
			if _, same := ds.D.L.T["parse("+b+")"]; same {
				continue
			}
		}
		out = append(out, f)
	}
	sort.Strings(out)
	return out, true
}

func checkC08(c *Ctx, e *Env) {
	c.Explanation = "E1 effect analysis, rule AUTH: for each of the 38 implemented ecocredit handlers (table of required roles, one row per handler; a handler without a row is undecided) every state effect (ORM write or bank mutator) on every committed path is preceded on that path by the role fact for the address derived from the field that GetSigners returns (extracted from code) and for the entity fetched by the id named in the request: authority equality, class admin, class issuer (ClassIssuer.Has), batch issuer (+ open), project admin, basket curator, sell order owner, allow-listed creator when the allowlist is enabled; BridgeReceive only through the nested handlers' role facts; " +
		"ENTITY the tables written and, for updates of existing rows, the set of columns whose value changes equal the confirmed write set per handler (e.g. UpdateClassMetadata changes Class.Metadata only); SEALED = C02.SEAL (Open only ever set to false; mint and metadata update behind Open). The x/data handlers' manager/attestor rules are C16.MGR/FIRST and are re-evaluated here."
	c.NotDecided = []string{"that the ante handler verifies the signature of GetSigners (A7)"}
	c.Assumptions = strings.Split(e1Assume+"; A7", "; ")
	m, r := e1Handlers(c, e)
	p := m.P
	noteUndecided(c, m, r, "C08.E1")
	// the handler acts on the request as sent: no in-place re-ordering / overwriting of the request's own slices
	for _, mod := range []string{"x/ecocredit", "x/data"} {
		mm := e.Model(mod)
		g := NewGraph(mm.P)
		ruleRequestNotReordered(c, mm, g, g.Closure(append(mm.ConsensusRoots(), msgValidationRoots(mm)...)), "C08.REQ")
	}
	importObligations(c, e, checkC14, "C14", "C08.ROLEKEY", "role rows#keyed-by-their-entity", "the issuer role is the existence of a ClassIssuer row under the class's key: a role row written under another entity's key grants the role there", func(o *Oblig) bool {
		return o.Rule == "C14.FK" && strings.Contains(o.Construct, "#ClassIssuer.")
	})
	// SIGNER: the account that must sign is GetSigners(); every message type decodes its signer field
	// there with the error discarded, so the role checks below speak about the real signer only if the
	// message validator has decoded that same field successfully on every accepting path
	for _, h := range r.Handlers {
		if h.EP.Kind != "msg" || h.EP.SignerField == "" || h.EP.Req == nil {
			continue
		}
		v := ValidatedFacts(m, r.X, h.EP)
		want := "+Ok(bech32(req." + h.EP.SignerField + "))"
		c.Check(v.OK && v.Exit[want], "C08.SIGNER", h.Key+"#validator-decodes-signer", m.P.Pos(h.Fn.Pos()), "every accepting path of "+h.EP.Req.Obj().Name()+".ValidateBasic carries "+want+": a signer field that passes validation but does not decode would make GetSigners return an empty address")
	}
	roles := roleTable()
	nEff := 0
	for _, h := range r.Handlers {
		if h.EP.Kind != "msg" && h.EP.Kind != "canary" {
			continue
		}
		spec, ok := roles[h.Key]
		if h.EP.Kind == "canary" {
			spec, ok = authoritySpec(), true
		}
		if !ok {
			c.Undecide("C08.AUTH", h.Key, p.Pos(h.Fn.Pos()), "handler has no row in the role table: its required role must be confirmed by hand")
			continue
		}
		if h.EP.SignerField == "" {
			c.Violate("C08.SIGNER", h.Key, p.Pos(h.Fn.Pos()), "GetSigners of the request does not decode exactly one request field", nil)
			continue
		}
		bad := ""
		n := 0
		for _, o := range h.Outs {
			for i := range o.St.events {
				ev := &o.St.events[i]
				if !isEffect(ev) || !inScope(o, ev) {
					continue
				}
				n++
				if why := spec.Check(h, o, ev); why != "" && bad == "" {
					bad = why + "; effect " + describeEvent(o.St, ev) + " at " + p.Pos(ev.Pos.Pos()) + " on path {" + outcomeLabel(h, o) + "}"
				}
			}
		}
		nEff += n
		// … and every successful return, with or without an effect on its path, carries the role fact:
		// a message whose signer lacks the role must fail, also where it would have changed nothing
		// (sealing a sealed batch). Roles established per loop iteration (one order per update) are
		// covered by the effect rule above.
		if bad == "" && h.EP.Kind == "msg" && !perIterationRole[h.Key] {
			for _, o := range h.Outs {
				if o.Kind != exitReturn {
					continue
				}
				end := &Event{Facts: len(o.St.facts), Seq: 1 << 30}
				if why := spec.Check(h, o, end); why != "" {
					bad = why + "; the handler returns success without it on path {" + outcomeLabel(h, o) + "}"
					break
				}
			}
		}
		if bad != "" {
			c.Violate("C08.AUTH", h.Key, p.Pos(h.Fn.Pos()), "role "+spec.Role+": "+bad, nil)
		} else if n == 0 {
			c.Undecide("C08.AUTH", h.Key, p.Pos(h.Fn.Pos()), "no state effect found on any committed path: handler shape changed, role rule cannot be evaluated")
		} else {
			c.Hold("C08.AUTH", h.Key, p.Pos(h.Fn.Pos()), fmt.Sprintf("role %s (signer field %s): precedes all %d effect visits", spec.Role, h.EP.SignerField, n), nil)
		}
		if h.EP.Kind != "canary" {
			ruleWriteSet(c, p, h, "C08.ENTITY")
		}
	}
	c.Count("effect_visits", nEff)
	ruleSeal(c, m, r)
	// re-label the seal obligations under this property
	for i := range c.Obligs {
		if strings.HasPrefix(c.Obligs[i].Rule, "C02.") {
			c.Obligs[i].Rule = "C08.SEALED"
		}
	}
	// data module rules
	dm := e.Model("x/data")
	ruleC16Mgr(c, dm)
	for i := range c.Obligs {
		if c.Obligs[i].Rule == "C16.MGR" {
			c.Obligs[i].Rule = "C08.AUTH.data"
		}
	}
	c.Min("handlers with a role row", 38, len(roles))
	c.Min("effect visits checked", 300, nEff)
	c.ExpectCanary("C08.AUTH")
	ruleUpdateTakesEffect(c, m, r, "C08.EFFECT", nil)
}

func describeEvent(st *State, ev *Event) string {
	if ev.Kind == "bank" {
		return "bank." + ev.Method
	}
	return ev.Table.Name + "." + ev.Method
}

// ruleWriteSet compares tables written and columns changed with the confirmed set.
func ruleWriteSet(c *Ctx, p *Program, h *HandlerResult, rule string) {
	want, ok := writeSets[h.Key]
	if !ok {
		c.Undecide(rule, h.Key+"#write-set", p.Pos(h.Fn.Pos()), "no confirmed write set for this handler")
		return
	}
	got := map[string]map[string]bool{}
	var bad []string
	for _, o := range h.Outs {
		for i := range o.St.events {
			ev := &o.St.events[i]
			if ev.Kind != "write" || !inScope(o, ev) {
				continue
			}
			t := ev.Table.Name
			if got[t] == nil {
				got[t] = map[string]bool{}
			}
			allowed, known := want[t]
			if !known {
				bad = append(bad, "writes table "+t+" ("+ev.Method+" at "+p.Pos(ev.Pos.Pos())+"), which is not in its confirmed write set")
				continue
			}
			if allowed == "*" {
				continue
			}
			if ev.OpKind == "delete" || ev.OpKind == "deleterange" {
				if t != "SellOrder" && t != "BasketBalance" {
					bad = append(bad, "deletes from "+t)
				}
				continue
			}
			if ev.OpKind == "insert" {
				continue // new rows for recipients (balances) are whole-row writes
			}
			ch, knownOld := changedFields(o.St, ev)
			if !knownOld {
				if ev.Old != nil && ev.Old.Absent {
					continue
				}
				bad = append(bad, "previous content of the "+t+" row unknown at "+p.Pos(ev.Pos.Pos()))
				continue
			}
			for _, f := range ch {
				got[t][f] = true
				if !strings.Contains(","+allowed+",", ","+f+",") {
					bad = append(bad, fmt.Sprintf("changes %s.%s (%s at %s), confirmed set is {%s}", t, f, ev.Method, p.Pos(ev.Pos.Pos()), allowed))
				}
			}
		}
	}
	bad = uniqStrings(bad)
	if len(bad) > 0 {
		c.Violate(rule, h.Key+"#write-set", p.Pos(h.Fn.Pos()), strings.Join(bad, "; "), nil)
		return
	}
	var ts []string
	for t, fs := range got {
		var l []string
		for f := range fs {
			l = append(l, f)
		}
		sort.Strings(l)
		ts = append(ts, t+"{"+strings.Join(l, ",")+"}")
	}
	sort.Strings(ts)
	c.Hold(rule, h.Key+"#write-set", p.Pos(h.Fn.Pos()), "tables written and columns changed ⊆ confirmed set: "+strings.Join(ts, " "), nil)
}

// ---- C03 -----------------------------------------------------------------------------

func checkC03(c *Ctx, e *Env) {
	c.Explanation = "E1 effect analysis: OWN.credits every write that can lower BatchBalance tradable+escrowed of an account (Δ not provably ≥ 0) is keyed by the signer-derived address (directly, through a nested message literal, or through an AddrEq fact with a stored role such as SellOrder.Seller), except (i) the seller's escrow debit in a BuyDirect fill, which must be −quantity on a path that also pays the seller from the buyer in the market's bank denom, and (ii) BeginBlock, where Δ(tradable+escrowed) = 0 and Δretired = 0 per row; " +
		"OWN.coins the paying account of every SendCoins / SendCoinsFromAccountToModule is signer-derived; every withdrawal from a module account (BurnCoins, SendCoinsFromModuleToAccount) is matched by an earlier deposit or mint of the identical coins value into the same module on the same path, except GovSendFromFeePool, which must lie behind the authority fact; FRAME the per-handler write set equals the confirmed one."
	c.NotDecided = []string{"bank-internal effects (vesting, blocked addresses): A5", "that other rows of the same table are untouched follows from key provenance plus A1"}
	c.Assumptions = strings.Split(e1Assume+"; A5", "; ")
	m, r := e1Handlers(c, e)
	p := m.P
	noteUndecided(c, m, r, "C03.E1")
	ruleAskDenom(c, m, r)
	importObligations(c, e, checkC12, "C12", "C03.EXPIRY", "fills#only-of-live-orders", "the fill exception covers the account's own LIVE sell order: the begin-block prune removes exactly the orders whose expiration is at or before the block time (range bounds from the full block time, nanoseconds included), so an expired order can never be filled", func(o *Oblig) bool { return o.Rule == "C12.RANGE" || o.Rule == "C12.CHAIN" })
	importObligations(c, e, checkC07, "C07", "C03.FILLPAY", "fills#paid-for-what-is-taken", "the one case in which an account loses credits without signing is a fill of its own sell order, and then it is paid quantity × ask for exactly the quantity taken from its escrow", func(o *Oblig) bool { return o.Rule == "C07.COINS" || o.Rule == "C07.CREDITS" })
	nDebit, nBank := 0, 0
	for _, h := range r.Handlers {
		signer := ""
		if h.EP.SignerField != "" {
			signer = signerAddr(h)
		}
		type agg struct {
			pos string
			n   int
			bad string
		}
		sites := map[string]*agg{}
		note := func(k, pos string) *agg {
			a := sites[k]
			if a == nil {
				a = &agg{pos: pos}
				sites[k] = a
			}
			a.n++
			return a
		}
		for _, o := range h.Outs {
			st := o.St
			// credits: per written BatchBalance row, Δ(T+E)
			type rowAgg struct {
				ev    *Event
				addr  string
				batch string
				te    Lin
				t, e  Lin
				r     Lin
				bad   string
			}
			rows := map[int]*rowAgg{}
			for _, d := range h.Deltas(o) {
				if d.Table != "BatchBalance" {
					continue
				}
				ra := rows[d.Ev.Seq]
				if ra == nil {
					ra = &rowAgg{ev: d.Ev, addr: d.Addr, batch: d.Batch, te: linConst(0), r: linConst(0), t: linConst(0), e: linConst(0)}
					rows[d.Ev.Seq] = ra
				}
				if d.Bad != "" {
					ra.bad = d.Bad
				}
				switch d.Col {
				case "TradableAmount":
					ra.te = ra.te.Add(d.Delta)
					ra.t = ra.t.Add(d.Delta)
				case "EscrowedAmount":
					ra.te = ra.te.Add(d.Delta)
					ra.e = ra.e.Add(d.Delta)
				case "RetiredAmount":
					ra.r = ra.r.Add(d.Delta)
				}
			}
			var seqs []int
			for s := range rows {
				seqs = append(seqs, s)
			}
			sort.Ints(seqs)
			for _, s := range seqs {
				ra := rows[s]
				k := h.Key + "→" + siteKey(ra.ev)
				a := note(k, p.Pos(ra.ev.Pos.Pos()))
				if a.bad != "" {
					continue
				}
				if ra.bad != "" {
					a.bad = "previous balance unknown (" + ra.bad + ")"
					continue
				}
				if h.EP.Kind == "beginblock" {
					if !reduce(ra.te, st.eqs).IsZero() || !reduce(ra.r, st.eqs).IsZero() {
						a.bad = fmt.Sprintf("block processing changes an account's holdings: Δ(tradable+escrowed) = %s, Δretired = %s", ra.te.String(), ra.r.String())
					} else if ok, _ := h.provablyNonNeg(st, ra.t); !ok {
						a.bad = "block processing moves credits out of an account's tradable balance: Δtradable = " + ra.t.String()
					}
					continue
				}
				okT, _ := h.provablyNonNeg(st, ra.t)
				okE, _ := h.provablyNonNeg(st, ra.e)
				if okT && okE {
					continue // neither tradable nor escrowed can decrease
				}
				nDebit++
				if st.find(ra.addr) == st.find(signer) && signer != "" {
					continue
				}
				// exception (i): paid fill
				if why := paidFill(h, o, ra.ev, ra.addr, ra.te); why == "" && okT {
					continue
				} else {
					a.bad = fmt.Sprintf("account %s loses credits (Δtradable = %s, Δescrowed = %s) but is not the signer %s; %s; path {%s}", ra.addr, ra.t.String(), ra.e.String(), signer, why, outcomeLabel(h, o))
				}
			}
			// coins
			for i := range st.events {
				ev := &st.events[i]
				if ev.Kind != "bank" || !inScope(o, ev) || !isBankMutator(ev.Method) {
					continue
				}
				nBank++
				k := h.Key + "→" + bankSiteKey(ev)
				a := note(k, p.Pos(ev.Pos.Pos()))
				if a.bad != "" {
					continue
				}
				switch ev.Method {
				case "SendCoins", "SendCoinsFromAccountToModule":
					from := st.canon(ev.Args[1])
					if signer == "" || st.find(from) != st.find(signer) {
						a.bad = "coins are taken from " + from + ", which is not the signer " + signer
					}
				case "BurnCoins", "SendCoinsFromModuleToAccount", "SendCoinsFromModuleToModule":
					mod := st.canon(ev.Args[1])
					coins := coinsString(h, st, ev.Args[len(ev.Args)-1])
					if h.Key == "marketplace.GovSendFromFeePool" {
						if why := authoritySpec().Check(h, o, ev); why != "" {
							a.bad = "fee pool withdrawal: " + why
						}
						continue
					}
					matched := false
					for j := i - 1; j >= 0; j-- {
						e2 := &st.events[j]
						if e2.Kind != "bank" {
							continue
						}
						switch e2.Method {
						case "SendCoinsFromAccountToModule":
							if st.canon(e2.Args[2]) == mod && coinsString(h, st, e2.Args[3]) == coins {
								matched = true
							}
						case "MintCoins":
							if st.canon(e2.Args[1]) == mod && coinsString(h, st, e2.Args[2]) == coins {
								matched = true
							}
						}
					}
					if !matched {
						a.bad = "module account " + mod + " is debited by " + coins + " without a preceding deposit of the same coins on this path"
					}
				case "MintCoins", "SetDenomMetaData":
				default:
					a.bad = "unclassified bank mutator " + ev.Method
				}
			}
		}
		var ks []string
		for k := range sites {
			ks = append(ks, k)
		}
		sort.Strings(ks)
		for _, k := range ks {
			a := sites[k]
			rule := "C03.OWN.credits"
			if strings.Contains(k, "#bank.") {
				rule = "C03.OWN.coins"
			}
			if a.bad != "" {
				c.Violate(rule, k, a.pos, a.bad, nil)
			} else {
				c.Hold(rule, k, a.pos, fmt.Sprintf("owner discipline holds on all %d path visits", a.n), nil)
			}
		}
		if len(sites) == 0 {
			c.Trivial("C03.OWN.credits", h.Key+"#no-holdings-effect", p.Pos(h.Fn.Pos()), "entry point touches neither balances nor coins")
		}
		if h.EP.Kind != "canary" {
			ruleWriteSet(c, p, h, "C03.FRAME")
		}
	}
	c.Count("debit_visits", nDebit)
	c.Count("bank_mutator_visits", nBank)
	c.Min("credit debit visits", 40, nDebit)
	c.Min("bank mutator visits", 20, nBank)
	c.ExpectCanary("C03.OWN.credits")
}

func coinsString(h *HandlerResult, st *State, v Val) string {
	if cs := h.X.coinsOf(st, v); cs != nil {
		var items []string
		for _, it := range cs.Items {
			items = append(items, "coin("+st.canon(it.Denom)+","+vstr(it.Amt)+")")
		}
		return "coins[" + strings.Join(items, ";") + "]"
	}
	return st.canon(v)
}

func bankSiteKey(ev *Event) string {
	n := 0
	for _, ci := range callsIn(ev.Fn) {
		if AsBankCall(ci) == ev.Method {
			n++
		}
		if ci == ev.Pos {
			break
		}
	}
	return fmt.Sprintf("%s#bank.%s@%d", funcKey(ev.Fn), ev.Method, n)
}

// paidFill: exception (i) of C03 — the seller's escrow shrinks by the purchased quantity and the seller is paid.
func paidFill(h *HandlerResult, o *Outcome, ev *Event, addr string, te Lin) string {
	if h.Key != "marketplace.BuyDirect" {
		return "no exception applies to this handler"
	}
	st := o.St
	// the debited account must be the seller of an order fetched in this iteration
	var order *Obj
	for _, ob := range st.mem {
		if ob.Table != nil && ob.Table.Name == "SellOrder" && ob.Kind == "row" && st.find(ob.Name+".Seller") == st.find(addr) {
			if order == nil || ob.ID > order.ID {
				order = ob
			}
		}
	}
	if order == nil {
		return "the account is not the seller of a fetched sell order"
	}
	// payment: SendCoins(buyer=signer → seller) in the market's denom, in scope
	market := ""
	if mv, ok := order.F[".MarketId"]; ok {
		market = marketDenom(st, mv)
	} else {
		market = marketDenom(st, &Sym{N: order.Name + ".MarketId"})
	}
	for i := range st.events {
		e2 := &st.events[i]
		if e2.Kind != "bank" || e2.Method != "SendCoins" || !inScope(o, e2) {
			continue
		}
		if st.find(st.canon(e2.Args[1])) != st.find(signerAddr(h)) || st.find(st.canon(e2.Args[2])) != st.find(addr) {
			continue
		}
		cs := h.X.coinsOf(st, e2.Args[3])
		if cs == nil || len(cs.Items) != 1 {
			continue
		}
		if market == "" || st.canon(cs.Items[0].Denom) != market {
			return "payment denom " + st.canon(cs.Items[0].Denom) + " is not the market's bank denom " + market
		}
		return ""
	}
	return "no payment SendCoins(buyer → seller) on the path"
}

// updateSpecs: the single-field update handlers and the value each must store.
var updateSpecs = []struct{ handler, table, col, reqField string }{
	{"base.UpdateClassAdmin", "Class", "Admin", "NewAdmin"},
	{"base.UpdateClassMetadata", "Class", "Metadata", "NewMetadata"},
	{"base.UpdateProjectAdmin", "Project", "Admin", "NewAdmin"},
	{"base.UpdateProjectMetadata", "Project", "Metadata", "NewMetadata"},
	{"base.UpdateBatchMetadata", "Batch", "Metadata", "NewMetadata"},
	{"basket.UpdateCurator", "Basket", "Curator", "NewCurator"},
	{"basket.UpdateDateCriteria", "Basket", "DateCriteria", "NewDateCriteria"},
}

// ruleUpdateTakesEffect: an authorised update is not only permitted, it happens — every committed path
// of a single-field update handler writes the entity with the column set to the value the request
// carries (a path that reports success without the write, e.g. an "unchanged, skip" shortcut whose
// equality test is too coarse, leaves the old value in force).
func ruleUpdateTakesEffect(c *Ctx, m *Model, r *E1, rule string, only map[string]bool) {
	p := m.P
	for _, sp := range updateSpecs {
		if only != nil && !only[sp.handler] {
			continue
		}
		h := r.byKey[sp.handler]
		if h == nil {
			c.Undecide(rule, sp.handler, "-", "handler not found")
			continue
		}
		bad := ""
		n := 0
		for _, o := range h.Outs {
			if o.Kind != exitReturn {
				continue
			}
			n++
			st := o.St
			wrote := false
			got := ""
			for i := range st.events {
				ev := &st.events[i]
				if ev.Kind != "write" || ev.Table == nil || ev.Table.Name != sp.table || ev.Row == nil {
					continue
				}
				got = st.canon(ev.Row[sp.col])
				if strings.Contains(got, "req."+sp.reqField) {
					wrote = true
				}
			}
			if !wrote && bad == "" {
				if got == "" {
					bad = "a committed path writes no " + sp.table + " row"
				} else {
					bad = "a committed path stores " + sp.table + "." + sp.col + " = " + got
				}
				bad += " (required: the value of req." + sp.reqField + ") on path {" + clip(strings.Join(st.facts, " "), 300) + "}"
			}
		}
		c.Check(bad == "" && n > 0, rule, sp.handler+"#takes-effect", p.Pos(h.Fn.Pos()), fmt.Sprintf("on all %d committed paths %s.%s is written with the value of req.%s %s", n, sp.table, sp.col, sp.reqField, bad))
	}
}

// ---- C03.ASKDENOM: an order is filed under a market of the denomination its seller signed for ------
//
// A fill pays the seller in Market(order.MarketId).BankDenom. The seller signed order.AskPrice.Denom.
// The two agree only if, wherever a handler stores a new MarketId into a SellOrder row, that id belongs
// to a Market row which is known to carry exactly the requested denomination: found through a *unique*
// index lookup keyed by the request's denom (an exact match), or inserted with it. A row taken from a
// List/iterator is matched by key *prefix* only (the last string component of an ORM index key is not
// terminated), so it needs an explicit equality test of its BankDenom before it may be used.

var marketRowID = regexp.MustCompile(`^Market#(\d+)\.Id$`)

func ruleAskDenom(c *Ctx, m *Model, r *E1) {
	p := m.P
	n := 0
	for _, h := range r.Handlers {
		if h.EP.Kind == "canary" {
			continue
		}
		type agg struct {
			pos string
			bad string
			n   int
		}
		sites := map[string]*agg{}
		for _, o := range h.Outs {
			st := o.St
			for i := range st.events {
				ev := &st.events[i]
				if ev.Kind != "write" || ev.Table == nil || ev.Table.Name != "SellOrder" || !inScope(o, ev) || ev.OpKind == "delete" || ev.Row == nil {
					continue
				}
				mv, has := ev.Row["MarketId"]
				if !has {
					continue
				}
				mid := st.canon(mv)
				if ev.Old != nil && ev.Old.Row != nil {
					if ov, ok := ev.Old.Row["MarketId"]; ok && st.canon(ov) == mid {
						continue // unchanged
					}
				}
				k := siteKey(ev)
				a := sites[k]
				if a == nil {
					a = &agg{pos: p.Pos(ev.Pos.Pos())}
					sites[k] = a
				}
				a.n++
				why := ""
				switch {
				case strings.HasPrefix(mid, "newid:Market#"):
					// the Market insert that produced the id
					var ins *Event
					for j := 0; j < i; j++ {
						if w := &st.events[j]; w.Kind == "write" && w.Table != nil && w.Table.Name == "Market" && w.OpKind == "insert" {
							ins = w
						}
					}
					if ins == nil {
						why = "the new market id does not come from a Market insert on this path"
					} else if d := st.canon(ins.Row["BankDenom"]); !strings.HasSuffix(d, "AskPrice.Denom") {
						why = "the market is created with BankDenom " + d + ", not the denomination of the request's ask price"
					}
				case marketRowID.MatchString(mid):
					id, _ := strconv.Atoi(marketRowID.FindStringSubmatch(mid)[1])
					var rd *Event
					for j := 0; j < i; j++ {
						if q := &st.events[j]; q.Kind == "read" && q.Table != nil && q.Table.Name == "Market" && q.RowObj == id {
							rd = q
						}
					}
					denomKeyed, denom := false, ""
					if rd != nil {
						for _, kv := range rd.Keys {
							if s := st.canon(kv); strings.HasSuffix(s, "AskPrice.Denom") {
								denomKeyed, denom = true, s
							}
						}
					}
					switch {
					case rd == nil:
						why = "the Market row the id is taken from is not a row read on this path"
					case rd.OpKind == "get" && denomKeyed:
						// exact match through a unique index
					default:
						// a listed / iterated row: an explicit equality of its BankDenom with the request's denom is needed
						eq := false
						for _, f := range st.facts {
							if strings.HasPrefix(f, "+StrEq(") && strings.Contains(f, fmt.Sprintf("Market#%d.BankDenom", id)) && strings.Contains(f, "AskPrice.Denom") {
								eq = true
							}
						}
						if !eq {
							if denomKeyed {
								why = "the Market row comes from " + rd.Method + " keyed by " + denom + ": a list/iterator matches index keys by prefix (the trailing string component is not terminated), so a market whose denomination merely starts with the requested one can be returned, and nothing compares the row's BankDenom with the request"
							} else {
								why = "the Market row comes from " + rd.Method + ", which is not keyed by the request's ask denomination"
							}
						}
					}
				default:
					why = "MarketId " + mid + " is neither the id of a Market row read on this path nor of one inserted on it"
				}
				if why != "" && a.bad == "" {
					a.bad = why + " on path {" + outcomeLabel(h, o) + "}"
				}
			}
		}
		var ks []string
		for k := range sites {
			ks = append(ks, k)
		}
		sort.Strings(ks)
		for _, k := range ks {
			a := sites[k]
			n++
			if a.bad != "" {
				c.Violate("C03.ASKDENOM", h.Key+"→"+k, a.pos, "a sell order can be filed under a market of another denomination than the one its seller asked for — a later fill takes the escrowed credits and pays in that other denomination: "+a.bad, nil)
			} else {
				c.Hold("C03.ASKDENOM", h.Key+"→"+k, a.pos, fmt.Sprintf("the MarketId stored here is that of a market found by a unique lookup of, or inserted with, the request's ask denomination (%d path visits)", a.n), nil)
			}
		}
	}
	c.Min("sites storing a new SellOrder.MarketId", 2, n)
}

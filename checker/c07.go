package main

// C07 — BuyDirect settles exactly: guards, credit movements, coin movements as linear
// identities over the opaque products subtotal = q×ask, buyerFee = subtotal×bf, sellerFee = subtotal×sf.

import (
	"fmt"
	"sort"
	"strings"
)

func init() { register("C07", checkC07) }

func mulAtom(a, b string) string {
	x, y := sortedPair(a, b)
	return "mul[" + x + " ; " + y + "]"
}

func checkC07(c *Ctx, e *Env) {
	c.Explanation = "E1 effect analysis of BuyDirect, one obligation class per rule over all committed iterations (every arm of the quantity comparison, auto-retire, fee-rate presence, uregen/non-uregen, max-fee present/absent): GUARDS before the first effect of a fill the path carries buyer ≠ seller, not(order disables auto-retire while the sell order does not), quantity parsed positive with the credit type precision of the order's batch, bid denom = bank denom of the market fetched by the order's MarketId, not(ask > bid), not(maxFee < trunc(buyerFee)) with maxFee = 0 when absent, not(balance(buyer, denom) < trunc(subtotal + buyerFee)); " +
		"CREDITS buyer receives +q retired iff the request does not disable auto-retire (then supply tradable −q, retired +q), else +q tradable; seller escrow −q; order quantity −q or the order deleted under quantity = q; COINS with subtotal = mul(ask, q), buyerFee = mul(subtotal, buyer rate) (0 when the rate is unset), sellerFee likewise: the only bank effects are fee pool ← buyer trunc(buyerFee + sellerFee) when that sum is positive (burned iff the denom is the literal uregen) and seller ← buyer trunc(subtotal − sellerFee), all in the market's bank denom."
	c.NotDecided = []string{"'within one base unit of the exact value' and 'never more than the exact total': mul is the 34-digit rounding Dec.Mul and trunc truncates; bounding the error needs arithmetic over values, not shape", "fee-rate domain defects are reported under C18"}
	c.Assumptions = strings.Split(e1Assume+"; A5", "; ")
	m, r := e1Handlers(c, e)
	p := m.P
	h := r.byKey["marketplace.BuyDirect"]
	if h == nil {
		c.Undecide("C07.E1", "marketplace.BuyDirect", "-", "handler not found")
		return
	}
	noteUndecided(c, m, r, "C07.E1")
	importObligations(c, e, checkC03, "C03", "C07.ASKDENOM", "sell orders#filed-under-their-ask-denomination", "BuyDirect compares the bid with the denomination of the order's market; that is the denomination the seller asked for only if Sell / UpdateSellOrders file every order under a market of exactly the requested denomination", func(o *Oblig) bool { return o.Rule == "C03.ASKDENOM" })
	ruleArith(c, e, "C07.ARITH", func(ep *EntryPoint) bool { return ep.Kind == "msg" && ep.Key() == "marketplace.BuyDirect" })
	pos := p.Pos(h.Fn.Pos())
	type agg struct {
		n   int
		bad string
	}
	rules := map[string]*agg{}
	fail := func(rule, why string, o *Outcome) {
		a := rules[rule]
		if a.bad == "" {
			a.bad = why + " on path {" + clip(strings.Join(o.St.facts, " "), 900) + "}"
		}
	}
	ruleNames := []string{"guard:self-trade", "guard:auto-retire", "guard:quantity", "guard:denom", "guard:bid>=ask", "guard:max-fee", "guard:funds", "credits:buyer", "credits:seller", "credits:order", "credits:supply", "coins:fee", "coins:seller", "coins:nothing-else"}
	for _, n := range ruleNames {
		rules[n] = &agg{}
	}
	iters := 0
	for _, o := range h.Outs {
		if o.Kind != exitLoopback {
			// the exit path of the request loop must have no effects of its own
			for i := range o.St.events {
				if isEffect(&o.St.events[i]) && o.St.events[i].Loop == "" {
					fail("coins:nothing-else", "effect outside the order loop: "+describeEvent(o.St, &o.St.events[i]), o)
				}
			}
			continue
		}
		st := o.St
		iters++
		// the order of this iteration
		var order *Obj
		for _, ob := range st.mem {
			if ob.Table != nil && ob.Table.Name == "SellOrder" && ob.Kind == "row" && strings.HasPrefix(ob.Origin, "get:Get(req.Orders[") && strings.HasSuffix(ob.Origin, "].SellOrderId)") {
				order = ob
			}
		}
		var first *Event
		for i := range st.events {
			if isEffect(&st.events[i]) && inScope(o, &st.events[i]) {
				first = &st.events[i]
				break
			}
		}
		if order == nil || first == nil {
			fail("guard:self-trade", "iteration without a fetched order or without effects", o)
			continue
		}
		for _, n := range ruleNames {
			rules[n].n++
		}
		idx := strings.TrimSuffix(strings.TrimPrefix(order.Origin, "get:Get("), ".SellOrderId)")
		buyer := signerAddr(h)
		seller := order.Name + ".Seller"
		// ---- guards
		a, b := sortedPair(seller, buyer)
		if !factBefore(st, "-AddrEq("+a+", "+b+")", first) {
			fail("guard:self-trade", "no check buyer ≠ seller before the fill", o)
		}
		reqDis, ordDis := "Bool("+idx+".DisableAutoRetire)", "Bool("+order.Name+".DisableAutoRetire)"
		if !(factBefore(st, "-"+reqDis, first) || (factBefore(st, "+"+reqDis, first) && factBefore(st, "+"+ordDis, first))) {
			fail("guard:auto-retire", "auto-retire can be disabled although the sell order requires it (or the flags are not tested)", o)
		}
		qAtom := "parse(" + idx + ".Quantity)"
		if at := st.atomAttr[qAtom]; at == nil || !at.Pos || !strings.Contains(at.Fixed, "CreditType#") {
			fail("guard:quantity", "purchase quantity is not parsed positive with a credit type precision", o)
		} else if !precisionOfBatch(st, at.Fixed, order.Name+".BatchKey") {
			fail("guard:quantity", "precision "+at.Fixed+" is not the credit type of the order's batch", o)
		}
		var market *Obj
		for _, ob := range rowsWithOrigin(st, "Market", "get:Get("+order.Name+".MarketId)") {
			market = ob
		}
		if market == nil {
			fail("guard:denom", "market is not fetched by the order's MarketId", o)
			continue
		}
		denom := market.Name + ".BankDenom"
		x1, y1 := sortedPair(denom, idx+".BidPrice.Denom")
		if !factBefore(st, "+StrEq("+x1+", "+y1+")", first) {
			fail("guard:denom", "no check bid denom == market bank denom before the fill", o)
		}
		ask := "int0(" + order.Name + ".AskAmount)"
		bid := "intfield(" + idx + ".BidPrice.Amount)"
		if !factBefore(st, "-Gt0("+regLin(linAtom(ask).Sub(linAtom(bid)))+")", first) {
			fail("guard:bid>=ask", "no check !(ask > bid) before the fill", o)
		}
		// fee forms on this path
		S := linAtom(mulAtom(ask, qAtom))
		fee := func(field string) (Lin, bool) {
			for _, ob := range st.mem {
				if ob.Table != nil && ob.Table.Name == "FeeParams" && ob.Kind == "row" {
					x2, y2 := sortedPair(`""`, ob.Name+"."+field)
					if v, ok := st.known("StrEq(" + x2 + ", " + y2 + ")"); ok && v {
						return linConst(0), true
					}
					if v, ok := st.known("Nil(" + ob.Name + ")"); ok && v {
						return linConst(0), true
					}
					return linAtom(mulAtom(S.String(), "parse("+ob.Name+"."+field+")")), true
				}
			}
			return linConst(0), false
		}
		bf, ok1 := fee("BuyerPercentageFee")
		sf, ok2 := fee("SellerPercentageFee")
		if !ok1 || !ok2 {
			fail("coins:fee", "FeeParams is not read in the iteration", o)
			continue
		}
		truncOf := func(l Lin) Lin {
			if l.IsConst() && l.C.Sign() == 0 {
				return linAtom("trunc[0]")
			}
			return linAtom("trunc[" + l.String() + "]")
		}
		// max fee
		mf := "intfield(*" + idx + ".MaxFeeAmount.Amount)"
		okMF := false
		for _, cand := range []Lin{linAtom(mf).Sub(truncOf(bf)), truncOf(bf).Neg()} {
			if factBefore(st, "-Lt0("+regLin(cand)+")", first) {
				okMF = true
			}
		}
		if nilv, known := st.known("Nil(" + idx + ".MaxFeeAmount)"); known && nilv {
			// absent ⇒ zero coin: the comparison must be against 0
			if !factBefore(st, "-Lt0("+regLin(truncOf(bf).Neg())+")", first) {
				okMF = false
			}
		}
		if !okMF {
			fail("guard:max-fee", "no check !(maxFee < trunc(buyerFee)) (zero when absent) before the fill; buyerFee = "+bf.String(), o)
		}
		bal := "bankbal(" + buyer + "," + st.find(denom) + ")"
		okF := false
		for _, d := range []string{st.find(denom), st.find(idx + ".BidPrice.Denom"), denom, idx + ".BidPrice.Denom"} {
			if factBefore(st, "-Lt0("+regLin(linAtom("bankbal("+buyer+","+d+")").Sub(truncOf(S.Add(bf))))+")", first) {
				okF = true
			}
		}
		_ = bal
		if !okF {
			fail("guard:funds", "no check !(balance(buyer, denom) < trunc(subtotal + buyerFee)) before the fill", o)
		}
		// ---- credits
		q := linAtom(qAtom)
		autoRetire := factBefore(st, "-"+reqDis, first)
		var dBuyerT, dBuyerR, dSellerE, dSellerOther, dQ, dsT, dsR, dOther Lin = linConst(0), linConst(0), linConst(0), linConst(0), linConst(0), linConst(0), linConst(0), linConst(0)
		for _, d := range h.Deltas(o) {
			switch {
			case d.Table == "BatchBalance" && st.find(d.Addr) == st.find(buyer) && d.Col == "TradableAmount":
				dBuyerT = dBuyerT.Add(d.Delta)
			case d.Table == "BatchBalance" && st.find(d.Addr) == st.find(buyer) && d.Col == "RetiredAmount":
				dBuyerR = dBuyerR.Add(d.Delta)
			case d.Table == "BatchBalance" && st.find(d.Addr) == st.find(seller) && d.Col == "EscrowedAmount":
				dSellerE = dSellerE.Add(d.Delta)
			case d.Table == "BatchBalance" && st.find(d.Addr) == st.find(seller):
				dSellerOther = dSellerOther.Add(d.Delta)
			case d.Table == "SellOrder":
				dQ = dQ.Add(d.Delta)
			case d.Table == "BatchSupply" && d.Col == "TradableAmount":
				dsT = dsT.Add(d.Delta)
			case d.Table == "BatchSupply" && d.Col == "RetiredAmount":
				dsR = dsR.Add(d.Delta)
			default:
				dOther = dOther.Add(d.Delta)
			}
		}
		z := func(l Lin) bool { return reduce(l, st.eqs).IsZero() }
		if autoRetire {
			if !z(dBuyerR.Sub(q)) || !z(dBuyerT) {
				fail("credits:buyer", fmt.Sprintf("auto-retire applies but buyer Δretired = %s, Δtradable = %s (expected +q, 0)", dBuyerR.String(), dBuyerT.String()), o)
			}
			if !z(dsT.Add(q)) || !z(dsR.Sub(q)) {
				fail("credits:supply", fmt.Sprintf("auto-retire applies but Δsupply tradable = %s, retired = %s (expected −q, +q)", dsT.String(), dsR.String()), o)
			}
		} else {
			if !z(dBuyerT.Sub(q)) || !z(dBuyerR) {
				fail("credits:buyer", fmt.Sprintf("auto-retire disabled but buyer Δtradable = %s, Δretired = %s (expected +q, 0)", dBuyerT.String(), dBuyerR.String()), o)
			}
			if !z(dsT) || !z(dsR) {
				fail("credits:supply", "supply changes although nothing is retired", o)
			}
		}
		if !z(dSellerE.Add(q)) || !z(dSellerOther) || !z(dOther) {
			fail("credits:seller", fmt.Sprintf("seller Δescrowed = %s (expected −q), other seller columns %s, other rows %s", dSellerE.String(), dSellerOther.String(), dOther.String()), o)
		}
		if !z(dQ.Add(q)) {
			fail("credits:order", "order quantity changes by "+dQ.String()+" (expected −q)", o)
		}
		// ---- coins
		tf := bf.Add(sf)
		wantFee := false
		if tf.IsConst() {
			wantFee = tf.C.Sign() > 0
		} else if v, ok := st.known("Gt0(" + tf.String() + ")"); ok {
			wantFee = v
		} else {
			fail("coins:fee", "sign of total fee "+tf.String()+" is not tested", o)
		}
		ur1, ur2 := sortedPair(`"uregen"`, st.find(denom))
		isUregen, urKnown := st.known("StrEq(" + ur1 + ", " + ur2 + ")")
		if !urKnown {
			ur1, ur2 = sortedPair(`"uregen"`, denom)
			isUregen, urKnown = st.known("StrEq(" + ur1 + ", " + ur2 + ")")
		}
		var banks []string
		for i := range st.events {
			ev := &st.events[i]
			if ev.Kind == "bank" && isBankMutator(ev.Method) && inScope(o, ev) {
				var as []string
				for _, a := range ev.Args[1:] {
					as = append(as, coinsString(h, st, a))
				}
				banks = append(banks, ev.Method+"("+strings.Join(as, ", ")+")")
			}
		}
		coin := func(l Lin) string {
			return "coins[coin(" + st.find(denom) + ",int(" + truncOf(l).String() + "))]"
		}
		var want []string
		if wantFee {
			want = append(want, "SendCoinsFromAccountToModule("+buyer+", k.feePoolName, "+coin(tf)+")")
			if urKnown && isUregen {
				want = append(want, "BurnCoins(k.feePoolName, "+coin(tf)+")")
			} else if !urKnown {
				fail("coins:fee", "the denom is not compared with uregen before deciding to burn", o)
			}
		}
		sellerPay := "SendCoins(" + buyer + ", " + st.find(seller) + ", " + coin(S.Sub(sf)) + ")"
		want = append(want, sellerPay)
		gs, ws := strings.Join(banks, " ; "), strings.Join(want, " ; ")
		if gs != ws {
			// attribute
			rule := "coins:nothing-else"
			if !strings.Contains(gs, sellerPay) {
				rule = "coins:seller"
			} else if wantFee && !strings.Contains(gs, want[0]) {
				rule = "coins:fee"
			}
			fail(rule, "bank effects are ["+gs+"], expected ["+ws+"]", o)
		}
	}
	sort.Strings(ruleNames)
	for _, n := range ruleNames {
		a := rules[n]
		rule := "C07.GUARDS"
		if strings.HasPrefix(n, "credits:") {
			rule = "C07.CREDITS"
		} else if strings.HasPrefix(n, "coins:") {
			rule = "C07.COINS"
		}
		if a.bad != "" {
			c.Violate(rule, "marketplace.BuyDirect#"+n, pos, a.bad, nil)
		} else {
			c.Check(a.n > 0, rule, "marketplace.BuyDirect#"+n, pos, fmt.Sprintf("holds on all %d committed fill iterations", a.n))
		}
	}
	c.Count("fill_iterations", iters)
	c.Min("committed fill iterations", 48, iters)
}

// precisionOfBatch: the precision term is the CreditType fetched for the class of the batch with the given key.
func precisionOfBatch(st *State, prec, batchKeyName string) bool {
	// prec = CreditType#n.Precision; row n origin get:Get(Class#m.CreditTypeAbbrev); Class#m origin get:GetById(GetClassIDFromBatchDenom(Batch#k.Denom)); Batch#k origin get:Get(<batchKey>)
	var id int
	if _, err := fmt.Sscanf(prec, "CreditType#%d.Precision", &id); err != nil {
		return false
	}
	ct := st.mem[id]
	if ct == nil {
		return false
	}
	for _, cl := range st.mem {
		if cl.Table == nil || cl.Table.Name != "Class" || ct.Origin != "get:Get("+cl.Name+".CreditTypeAbbrev)" {
			continue
		}
		for _, b := range st.mem {
			if b.Table == nil || b.Table.Name != "Batch" {
				continue
			}
			den := st.find(b.Name + ".Denom")
			if dv, ok := b.F[".Denom"]; ok {
				den = st.canon(dv)
			}
			if cl.Origin == "get:GetById(GetClassIDFromBatchDenom("+den+"))" {
				if b.Origin == "get:Get("+st.find(batchKeyName)+")" || b.Origin == "get:Get("+batchKeyName+")" {
					return true
				}
			}
		}
	}
	return false
}

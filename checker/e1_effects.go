package main

// E1 — from path events to ledger deltas (per column, per row key), grouped by
// batch identity. All arithmetic is on linear forms; nothing is evaluated.

import (
	"fmt"
	"sort"
	"strings"
)

// ledger columns (expect/ledger.json in DESIGN terms — frozen here with the reason).
var ledgerCols = map[string][]string{
	"BatchBalance":  {"TradableAmount", "RetiredAmount", "EscrowedAmount"},  // per (address, batch): T, R, E
	"BatchSupply":   {"TradableAmount", "RetiredAmount", "CancelledAmount"}, // per batch: sT, sR, sC
	"BasketBalance": {"Balance"},                                            // per (basket, batch denom): B
	"SellOrder":     {"Quantity"},                                           // per order: Q
}

type ColDelta struct {
	Table  string
	Col    string
	Batch  string // batch entity
	Addr   string // owner address (BatchBalance) / seller (SellOrder) / basket id (BasketBalance)
	RowKey string
	New    Lin
	Old    Lin
	Delta  Lin
	NewVal Val
	Ev     *Event
	Bad    string // non-empty: why the delta is not known
	Op     string
	Loop   string
}

// valLin converts a stored column value to the decimal it denotes.
func (x *Explorer) valLin(st *State, v Val) (Lin, *DecV) {
	switch s := v.(type) {
	case *DecStr:
		return s.D.L, s.D
	case *DecV:
		return s.L, s
	case nil:
		return linConst(0), &DecV{L: linConst(0), NonNeg: true, Fixed: "*"}
	}
	d := x.parseDec(st, v)
	return d.L, d
}

// batchEntities maps canonical key/denom names to a batch entity name.
func (x *Explorer) batchEntities(st *State) map[string]string {
	ent := map[string]string{}
	var ids []int
	for id, o := range st.mem {
		if o.Table != nil && o.Table.Name == "Batch" {
			ids = append(ids, id)
		}
	}
	sort.Ints(ids)
	for _, id := range ids {
		o := st.mem[id]
		keyV, ok := o.F[".Key"]
		var key, denom string
		if ok {
			key = st.canon(keyV)
		} else {
			key = st.find(o.Name + ".Key")
		}
		if dv, ok := o.F[".Denom"]; ok {
			denom = st.canon(dv)
		} else {
			denom = st.find(o.Name + ".Denom")
		}
		rep := ""
		if r, ok := ent[key]; ok {
			rep = r
		} else if r, ok := ent[denom]; ok {
			rep = r
		} else {
			rep = "batch<" + o.Origin + ">"
			if o.Kind == "lit" {
				rep = "batch<new:" + denom + ">"
			}
		}
		ent[key] = rep
		ent[denom] = rep
		// also the raw default names
		ent[st.find(o.Name+".Key")] = rep
		ent[st.find(o.Name+".Denom")] = rep
	}
	return ent
}

func (x *Explorer) entityOf(st *State, ent map[string]string, v Val) string {
	c := st.canon(v)
	if e, ok := ent[c]; ok {
		return e
	}
	return "batchkey<" + c + ">"
}

// Deltas computes the ledger deltas of every write event of an outcome.
func (x *Explorer) Deltas(o *Outcome) []ColDelta {
	st := o.St
	ent := x.batchEntities(st)
	var out []ColDelta
	for i := range st.events {
		ev := &st.events[i]
		if ev.Kind != "write" || ev.Table == nil {
			continue
		}
		cols, ok := ledgerCols[ev.Table.Name]
		if !ok {
			continue
		}
		if ev.OpKind == "deleterange" {
			out = append(out, ColDelta{Table: ev.Table.Name, Col: "*", Ev: ev, Op: ev.OpKind, Loop: ev.Loop, Bad: "range delete (checked by the dedicated prune rule)"})
			continue
		}
		row := ev.Row
		if row == nil {
			out = append(out, ColDelta{Table: ev.Table.Name, Col: "*", Ev: ev, Op: ev.OpKind, Loop: ev.Loop, Bad: "written row is not a locally known object"})
			continue
		}
		var batch, addr string
		switch ev.Table.Name {
		case "BatchBalance":
			batch, addr = x.entityOf(st, ent, row["BatchKey"]), st.canon(row["Address"])
		case "BatchSupply":
			batch = x.entityOf(st, ent, row["BatchKey"])
		case "BasketBalance":
			batch, addr = x.entityOf(st, ent, row["BatchDenom"]), "basket:"+st.canon(row["BasketId"])
		case "SellOrder":
			batch, addr = x.entityOf(st, ent, row["BatchKey"]), st.canon(row["Seller"])
		}
		for _, col := range cols {
			d := ColDelta{Table: ev.Table.Name, Col: col, Batch: batch, Addr: addr, RowKey: x.keyOf(st, ev.Table, row), Ev: ev, Op: ev.OpKind, Loop: ev.Loop}
			// new
			if ev.OpKind == "delete" {
				d.New = linConst(0)
			} else {
				d.New, _ = x.valLin(st, row[col])
				d.NewVal = row[col]
			}
			// old
			switch {
			case ev.Old == nil:
				d.Bad = "previous content unknown"
			case ev.Old.Unknown != "":
				d.Bad = ev.Old.Unknown
			case ev.Old.Stale != "":
				d.Bad = "lost update: " + ev.Old.Stale
				d.Old, _ = x.valLin(st, ev.Old.Row[col])
			case ev.Old.Absent:
				d.Old = linConst(0)
			default:
				d.Old, _ = x.valLin(st, ev.Old.Row[col])
			}
			if ev.OpKind == "delete" && ev.Old != nil && ev.Old.Row == nil && ev.Old.Unknown == "" && !ev.Old.Absent {
				d.Bad = "deleted row content unknown"
			}
			if d.Bad == "" || d.Old.C != nil {
				if d.Old.C == nil {
					d.Old = linConst(0)
				}
				d.Delta = d.New.Sub(d.Old)
			} else {
				d.Delta = linConst(0)
				d.Old = linConst(0)
			}
			out = append(out, d)
		}
	}
	return out
}

// effectSignature summarises the committed effects of an outcome (for dedupe and reporting).
func (x *Explorer) effectSignature(o *Outcome) string {
	var parts []string
	for _, d := range x.Deltas(o) {
		if d.Delta.IsZero() && d.Bad == "" {
			continue
		}
		s := fmt.Sprintf("%s[%s|%s].%s %s Δ=%s", d.Table, d.Addr, d.Batch, d.Col, d.Op, d.Delta.String())
		if d.Bad != "" {
			s += " !" + d.Bad
		}
		if d.Loop != "" {
			s = "{" + d.Loop + "} " + s
		}
		parts = append(parts, s)
	}
	st := o.St
	for i := range st.events {
		ev := &st.events[i]
		switch ev.Kind {
		case "write":
			if _, led := ledgerCols[ev.Table.Name]; led {
				continue
			}
			s := ev.Table.Name + "." + ev.Method
			if ev.Row != nil {
				var ks []string
				for k := range ev.Row {
					ks = append(ks, k)
				}
				sort.Strings(ks)
				var fs []string
				for _, k := range ks {
					fs = append(fs, k+"="+st.canon(ev.Row[k]))
				}
				s += "{" + strings.Join(fs, ", ") + "}"
			}
			if ev.Loop != "" {
				s = "{" + ev.Loop + "} " + s
			}
			parts = append(parts, s)
		case "bank":
			if ev.Method == "GetBalance" || ev.Method == "GetSupply" {
				continue
			}
			var as []string
			for _, a := range ev.Args[1:] {
				if cs := x.coinsOf(st, a); cs != nil {
					as = append(as, cs.vs())
				} else {
					as = append(as, st.canon(a))
				}
			}
			s := "bank." + ev.Method + "(" + strings.Join(as, ", ") + ")"
			if ev.Loop != "" {
				s = "{" + ev.Loop + "} " + s
			}
			parts = append(parts, s)
		}
	}
	return strings.Join(parts, "\n      ")
}

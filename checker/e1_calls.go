package main

// E1 — call handling: ORM / bank effects, intrinsic summaries (keyed by callee
// identity), inlining of repo callees that can touch tracked state.

import (
	"fmt"
	"go/token"
	"go/types"
	"os"
	"strings"

	"golang.org/x/tools/go/ssa"
)

var linByStr = map[string]Lin{}

func regLin(l Lin) string {
	s := l.String()
	if _, ok := linByStr[s]; !ok {
		linByStr[s] = l
	}
	return s
}

// call executes a call instruction. Returns true when control was transferred
// (the continuation will resume the caller), false when handled inline.
func (x *Explorer) call(fr *Frame, b *ssa.BasicBlock, idx int, ins *ssa.Call, st *State, k cont) bool {
	cc := &ins.Call
	x.curTag = x.loopTag(fr, b)
	var args []Val
	for _, a := range cc.Args {
		args = append(args, x.eval(fr, st, a))
	}
	// ---- ORM
	if oc := x.M.AsORMCall(ins); oc != nil && oc.Kind != "" {
		fr.env[ins] = x.ormCall(fr, st, oc, ins, args)
		return false
	}
	// table accessors: any call whose result is a table interface
	if t := x.M.TableOfIface(ins.Type()); t != nil {
		fr.env[ins] = &TableV{T: t}
		return false
	}
	// ---- bank
	if bm := AsBankCall(ins); bm != "" {
		fr.env[ins] = x.bankCall(fr, st, bm, ins, args)
		return false
	}
	// ---- closures and function values
	var callee *ssa.Function
	var binds []Val
	if cc.IsInvoke() {
		recv := x.eval(fr, st, cc.Value)
		// a table reached through a hand-written interface: the dynamic value says which table
		if tv, ok := recv.(*TableV); ok && ormOpKind(cc.Method.Name()) != "" {
			oc := &ORMCall{Table: tv.T, Method: cc.Method.Name(), Kind: ormOpKind(cc.Method.Name()), Call: ins}
			fr.env[ins] = x.ormCall(fr, st, oc, ins, args)
			return false
		}
		// generated getters reached through a hand-written interface (GetOpen(), GetIssuer()): field loads
		if p, ok := recv.(*Ptr); ok && len(args) == 0 && strings.HasPrefix(cc.Method.Name(), "Get") {
			if o := st.mem[p.O]; o != nil && o.Table != nil {
				fname := strings.TrimPrefix(cc.Method.Name(), "Get")
				if structHasField(o.T, fname) {
					fr.env[ins] = x.load(st, &Ptr{O: p.O, Path: p.Path + "." + fname}, ins.Type())
					return false
				}
			}
		}
		if v, ok := x.invokeIntrinsic(fr, st, ins, recv, args); ok {
			fr.env[ins] = v
			return false
		}
		// a hand-written interface of the repository with exactly one implementation in it (a narrow
		// "what I need from the keeper" interface): the call is a call of that method
		if impl := x.soleRepoImpl(cc); impl != nil && x.shouldInline(impl, nil) {
			callee = impl
			args = append([]Val{recv}, args...)
		} else {
			fr.env[ins] = x.opaqueResult(st, ins, "invoke:"+cc.Method.Name(), append([]Val{recv}, args...))
			return false
		}
	}
	if callee != nil {
		// resolved above
	} else if sc := cc.StaticCallee(); sc != nil {
		callee = sc
		if mc, ok := cc.Value.(*ssa.MakeClosure); ok {
			for _, bnd := range mc.Bindings {
				binds = append(binds, x.eval(fr, st, bnd))
			}
		}
	} else if cv, ok := x.eval(fr, st, cc.Value).(*ClosureV); ok {
		callee = cv.Fn
		binds = cv.Binds
	}
	if callee == nil {
		// function-valued package variables of cosmos-sdk/types (sdk.NewInt = sdkmath.NewInt, …)
		if ld, ok := cc.Value.(*ssa.UnOp); ok {
			if g, ok := ld.X.(*ssa.Global); ok && g.Pkg != nil && strings.HasSuffix(g.Pkg.Pkg.Path(), "cosmos-sdk/types") {
				switch g.Name() {
				case "NewInt", "NewIntFromUint64", "NewIntFromBigInt":
					fr.env[ins] = asInt(st, args[0])
					return false
				case "NewIntFromString":
					fr.env[ins] = x.intFromString(st, args[0])
					return false
				case "ZeroInt":
					fr.env[ins] = &IntV{L: linConst(0), NonNeg: true}
					return false
				case "OneInt":
					fr.env[ins] = &IntV{L: linConst(1), NonNeg: true}
					return false
				}
			}
		}
		if _, ok := cc.Value.(*ssa.Builtin); ok {
			fr.env[ins] = x.builtin(fr, st, ins, args)
			return false
		}
		fr.env[ins] = x.opaqueResult(st, ins, "dyncall", args)
		return false
	}
	// a method value of a table (k.stateStore.XTable().Insert stored in a variable / struct field and
	// called later): the bound receiver says which table
	if strings.HasSuffix(callee.Name(), "$bound") && len(binds) == 1 {
		if tv, ok := binds[0].(*TableV); ok {
			name := strings.TrimSuffix(callee.Name(), "$bound")
			if ormOpKind(name) != "" {
				oc := &ORMCall{Table: tv.T, Method: name, Kind: ormOpKind(name), Call: ins}
				fr.env[ins] = x.ormCall(fr, st, oc, ins, args)
				return false
			}
		}
	}
	if v, ok := x.intrinsic(fr, st, ins, callee, args); ok {
		fr.env[ins] = v
		return false
	}
	if (x.shouldInline(callee, binds) || x.rowArgInline(st, callee, args)) && fr.depth < x.maxDepth {
		tag := x.loopTag(fr, b)
		x.callFn(callee, args, binds, st, fr.depth+1, tag, func(st2 *State, rets []Val, kind exitKind, loop string) {
			if kind != exitReturn {
				k(st2, rets, kind, loop)
				return
			}
			fr2 := fr.clone()
			switch len(rets) {
			case 0:
			case 1:
				fr2.env[ins] = rets[0]
			default:
				fr2.env[ins] = &Tuple{Vs: rets}
			}
			x.runInstrs(fr2, b, idx+1, st2, k)
		})
		return true
	}
	if fnPkgPath(callee) == "regexp" && callee.Signature.Recv() != nil && (strings.HasPrefix(callee.Name(), "Find") || strings.HasPrefix(callee.Name(), "Match")) {
		// a regular expression applied to a value: recorded so that the identifier rules can ask whether it
		// accepts every identifier of the kind it is applied to
		st.events = append(st.events, Event{Kind: "call", Method: "regexp." + callee.Name(), Args: args, Loop: x.curTag, Pos: ins, Fn: fr.fn, Facts: len(st.facts), Seq: len(st.events)})
	}
	if strings.Contains(fnPkgPath(callee), "/ibc-go/") {
		st.events = append(st.events, Event{Kind: "ext", Method: shortFn(callee), Args: args, Loop: x.curTag, Pos: ins, Fn: fr.fn, Facts: len(st.facts), Seq: len(st.events)})
	}
	if os.Getenv("LEDGERLINT_OPAQUE") != "" && isRepoPkgPath(fnPkgPath(callee)) {
		fmt.Fprintf(os.Stderr, "OPAQUE %s\n", callee.String())
	}
	fr.env[ins] = x.opaqueResult(st, ins, shortFn(callee), args)
	return false
}

func shortFn(fn *ssa.Function) string {
	_, n := fnPkgPath(fn), fn.Name()
	if fn.Signature.Recv() != nil {
		if nt := namedOf(fn.Signature.Recv().Type()); nt != nil {
			n = nt.Obj().Name() + "." + n
		}
	}
	return n
}

func (x *Explorer) shouldInline(fn *ssa.Function, binds []Val) bool {
	if len(fn.Blocks) == 0 {
		return false
	}
	pp := fnPkgPath(fn)
	// generated nil-safe field getters of protobuf messages (`if x != nil { return x.F }; return zero`):
	// reading a column through its getter is reading the column
	if isRepoPkgPath(pp) && isNilSafeGetter(fn) {
		return true
	}
	if !isRepoPkgPath(pp) || strings.Contains(pp, "/api/v2/") || strings.HasSuffix(pp, mathPkgSuffix) {
		return false
	}
	pos := fn.Pos()
	for q := fn; !pos.IsValid() && q != nil; q = q.Parent() {
		pos = q.Pos()
	}
	if pos.IsValid() && isGeneratedFile(x.P.Fset.Position(pos).Filename) {
		return false
	}
	if x.touches[fn] || len(binds) > 0 || fn.Parent() != nil {
		return true
	}
	// helpers living beside state-touching code (extracted guards, bound/key builders, packet builders)
	if x.statePkgs[pp] {
		return true
	}
	// plain helper functions of the module's other hand-written packages (a date helper moved into
	// x/ecocredit/basket, a packet builder moved into an internal package): seen through, except the
	// named API functions the format / validator / query rules reason about as terms (termFuncs)
	if fn.Signature.Recv() == nil && fn.Parent() == nil && (x.validatorMode || !(strings.Contains(pp, "/x/") && strings.Contains(pp, "/types/v"))) {
		// (helpers of the message type packages are seen through while a validator is explored: a shared
		// "validate each element" or "parse each rate" helper is part of the validator)
		if !termFuncs[shortPkg(pp)+"."+originName(fn)] {
			return true
		}
	}
	// hand-written accessors on a request message type (GetTxMsg(), …): small, pure, and what they
	// return must be seen through; validators stay uninterpreted outside validator mode
	if fn.Signature.Recv() != nil && fn.Name() != "Validate" && fn.Name() != "ValidateBasic" && fn.Name() != "GetSigners" {
		if nt := namedOf(fn.Signature.Recv().Type()); nt != nil && x.reqTypes()[nt.Obj()] {
			return true
		}
	}
	if x.validatorMode && fn.Signature.Recv() != nil && (fn.Name() == "Validate" || fn.Name() == "ValidateBasic") {
		return true
	}
	// value helpers over decimals / coins
	sig := fn.Signature
	for i := 0; i < sig.Params().Len(); i++ {
		if isDecType(sig.Params().At(i).Type()) {
			return true
		}
	}
	for i := 0; i < sig.Results().Len(); i++ {
		if isDecType(sig.Results().At(i).Type()) {
			return true
		}
	}
	return false
}

// soleRepoImpl: the interface of an invoke is declared in a hand-written package of the repository and has
// exactly one implementation among the repository's (non-mock) types.
func (x *Explorer) soleRepoImpl(cc *ssa.CallCommon) *ssa.Function {
	nt := namedOf(cc.Value.Type())
	if nt == nil || nt.Obj().Pkg() == nil || !isRepoPkgPath(nt.Obj().Pkg().Path()) || strings.Contains(nt.Obj().Pkg().Path(), "/api/v2/") {
		return nil
	}
	if x.graph == nil {
		x.graph = NewGraph(x.P)
	}
	impls := x.graph.Impl(nt, cc.Method)
	if len(impls) != 1 || len(impls[0].Blocks) == 0 {
		return nil
	}
	return impls[0]
}

// isNilSafeGetter: Get<Field>() on a message pointer whose body is nothing but the nil test of the
// receiver, the load of one field and the return of it or of a constant.
func isNilSafeGetter(fn *ssa.Function) bool {
	if !strings.HasPrefix(fn.Name(), "Get") || fn.Signature.Recv() == nil || fn.Signature.Params().Len() != 0 || fn.Signature.Results().Len() != 1 || len(fn.Blocks) == 0 || len(fn.Blocks) > 3 || len(fn.Params) != 1 {
		return false
	}
	if _, isPtr := fn.Signature.Recv().Type().(*types.Pointer); !isPtr {
		return false
	}
	recv := fn.Params[0]
	nField := 0
	for _, b := range fn.Blocks {
		for _, in := range b.Instrs {
			switch x := in.(type) {
			case *ssa.BinOp:
				if x.X != ssa.Value(recv) {
					return false
				}
				if c, ok := x.Y.(*ssa.Const); !ok || !c.IsNil() {
					return false
				}
			case *ssa.If, *ssa.Jump, *ssa.DebugRef:
			case *ssa.FieldAddr:
				if x.X != ssa.Value(recv) {
					return false
				}
				nField++
			case *ssa.UnOp:
				if _, ok := x.X.(*ssa.FieldAddr); !ok || x.Op != token.MUL {
					return false
				}
			case *ssa.Return:
				for _, r := range x.Results {
					switch r.(type) {
					case *ssa.Const, *ssa.UnOp:
					default:
						return false
					}
				}
			default:
				return false
			}
		}
	}
	return nField == 1
}

// termFuncs: hand-written API functions that stay uninterpreted terms in the explorer because E4/E5/E7
// rules reason about them by identity (format ⊆ validator language, separator disjointness, timestamp
// and pagination converters). Everything else that is hand-written in a module package is inlined.

var termFuncs = map[string]bool{
	"x/ecocredit/v3/base.FormatClassID": true, "x/ecocredit/v3/base.FormatProjectID": true, "x/ecocredit/v3/base.FormatBatchDenom": true,
	"x/ecocredit/v3/base.ValidateClassID": true, "x/ecocredit/v3/base.ValidateProjectID": true, "x/ecocredit/v3/base.ValidateBatchDenom": true,
	"x/ecocredit/v3/base.ValidateCreditTypeAbbreviation": true, "x/ecocredit/v3/base.ValidateJurisdiction": true,
	"x/ecocredit/v3/base.GetClassIDFromBatchDenom": true, "x/ecocredit/v3/base.GetClassIDFromProjectID": true, "x/ecocredit/v3/base.GetProjectIDFromBatchDenom": true,
	"x/ecocredit/v3/base.ExponentToPrefix":    true,
	"x/ecocredit/v3/basket.FormatBasketDenom": true, "x/ecocredit/v3/basket.ValidateBasketDenom": true, "x/ecocredit/v3/basket.ValidateBasketName": true,
	"x/data/v3.ParseIRI": true, "x/data/v3.validateHash": true,
	"types/v2.ProtobufToGogoTimestamp": true, "types/v2.GogoToProtobufTimestamp": true,
	"types/v2/ormutil.PageResToCosmosTypes": true, "types/v2/ormutil.PageReqToOrmPaginate": true,
	"types/v2/eth.IsValidAddress": true, "types/v2/eth.IsValidTxHash": true,
}

// originName: the declared name of a function, also for an instance of a generic.
func originName(fn *ssa.Function) string {
	if o := fn.Origin(); o != nil {
		return o.Name()
	}
	return fn.Name()
}

func structHasField(t types.Type, name string) bool {
	if p, ok := t.(*types.Pointer); ok {
		t = p.Elem()
	}
	st, ok := t.Underlying().(*types.Struct)
	if !ok {
		return false
	}
	for i := 0; i < st.NumFields(); i++ {
		if st.Field(i).Name() == name {
			return true
		}
	}
	return false
}

func (x *Explorer) reqTypes() map[*types.TypeName]bool {
	if x.reqTypeSet == nil {
		x.reqTypeSet = map[*types.TypeName]bool{}
		for _, ep := range x.M.Entries {
			if ep.Req != nil {
				x.reqTypeSet[ep.Req.Obj()] = true
			}
		}
	}
	return x.reqTypeSet
}

// rowArgInline: repo helpers that receive a tracked row (guards such as assertCanMintBatch) are inlined.
func (x *Explorer) rowArgInline(st *State, fn *ssa.Function, args []Val) bool {
	if len(fn.Blocks) == 0 {
		return false
	}
	pp := fnPkgPath(fn)
	if !isRepoPkgPath(pp) || strings.Contains(pp, "/api/v2/") || strings.HasSuffix(pp, mathPkgSuffix) || !pos0(x.P, fn) {
		return false
	}
	for _, a := range args {
		if p, ok := a.(*Ptr); ok {
			if o := st.mem[p.O]; o != nil && o.Table != nil {
				return true
			}
		}
	}
	return false
}

// opaqueResult models an uninterpreted call: a canonical symbol per result.
func (x *Explorer) opaqueResult(st *State, ins *ssa.Call, name string, args []Val) Val {
	var as []string
	for _, a := range args {
		as = append(as, st.canon(a))
	}
	term := name + "(" + strings.Join(as, ", ") + ")"
	// calls through interfaces of other modules (ICA controller, capability keeper, hashers …) are
	// recorded so rules can reason about their arguments and the facts they lie behind
	if strings.HasPrefix(name, "invoke:") {
		st.events = append(st.events, Event{Kind: "ext", Method: strings.TrimPrefix(name, "invoke:"), Args: args, Loop: x.curTag, Pos: ins, Fn: ins.Parent(), Facts: len(st.facts), Seq: len(st.events)})
	}
	// a tracked row escaping into unknown code can be modified there
	for _, a := range args {
		if p, ok := a.(*Ptr); ok {
			if o := st.mem[p.O]; o != nil && (o.Kind == "row" || o.Kind == "lit") && o.Table != nil && ledgerTables[o.Table.Name] && !benignCallee(name) {
				st.note("ledger row " + o.Name + " escapes into uninterpreted call " + name)
			}
		}
	}
	res := ins.Call.Signature().Results()
	mk := func(i int, t types.Type) Val {
		n := term
		if res.Len() > 1 {
			n = fmt.Sprintf("%s#%d", term, i)
		}
		if isErrorType(t) {
			return &ErrV{ID: st.newID(), Origin: n}
		}
		return x.typed(st, &Sym{N: n, T: t})
	}
	switch res.Len() {
	case 0:
		return nil
	case 1:
		return mk(0, res.At(0).Type())
	}
	tp := &Tuple{}
	for i := 0; i < res.Len(); i++ {
		tp.Vs = append(tp.Vs, mk(i, res.At(i).Type()))
	}
	return tp
}

func benignCallee(name string) bool {
	return strings.Contains(name, "EmitTypedEvent") || strings.Contains(name, "Sprintf") || strings.Contains(name, "Wrapf") || strings.Contains(name, "String")
}

var ledgerTables = map[string]bool{"BatchBalance": true, "BatchSupply": true, "BasketBalance": true, "SellOrder": true}

func (x *Explorer) builtin(fr *Frame, st *State, ins *ssa.Call, args []Val) Val {
	name := ins.Call.Value.(*ssa.Builtin).Name()
	switch name {
	case "len":
		if k, ok := args[0].(*KConst); ok && strings.HasPrefix(k.S, `"`) {
			return &KConst{S: fmt.Sprint(len(k.S) - 2)}
		}
		if isK(args[0], "nil") {
			return &KConst{S: "0"}
		}
		// a slice of a local array literal / a known sequence has a known length
		if p, ok := args[0].(*Ptr); ok && p.Path == "" {
			if o := st.mem[p.O]; o != nil && o.Kind == "array" {
				if at, isArr := o.T.Underlying().(*types.Array); isArr {
					return &KConst{S: fmt.Sprint(at.Len())}
				}
				if o.Origin == "seq" || o.Origin == "make:0" {
					if els, ok := x.sliceElems(st, p); ok {
						return &KConst{S: fmt.Sprint(len(els))}
					}
				}
			}
		}
		return &Sym{N: "len(" + st.canon(args[0]) + ")", T: ins.Type()}
	case "append":
		var as []string
		for _, a := range args {
			as = append(as, vstr(a))
		}
		st.events = append(st.events, Event{Kind: "call", Method: "append", Args: args, Loop: x.loopTag(fr, ins.Block()), Pos: ins, Fn: fr.fn, Seq: len(st.events)})
		// appending single values to a sequence whose elements are all known (nil, make(_, 0, _),
		// or an earlier such append) yields a sequence whose elements are all known
		// (go/ssa lowers append(s, a, b) to append(s, <[2]T literal>[:]))
		if len(args) == 2 {
			known := isK(args[0], "nil")
			var els []Val
			if p, ok := args[0].(*Ptr); ok && p.Path == "" {
				if o := st.mem[p.O]; o != nil && o.Kind == "array" && (o.Origin == "make:0" || o.Origin == "seq") {
					if e, ok := x.sliceElems(st, p); ok {
						known, els = true, e
					}
				}
			}
			var add []Val
			if p, ok := args[1].(*Ptr); ok && p.Path == "" && known {
				known = false
				if o := st.mem[p.O]; o != nil && o.Kind == "array" {
					if at, isArr := o.T.Underlying().(*types.Array); isArr {
						if e, ok := x.sliceElems(st, p); ok && int64(len(e)) == at.Len() {
							known, add = true, e
						}
					}
				}
			} else {
				known = false
			}
			if known {
				o := st.newObj("array", ins.Type())
				o.Origin = "seq"
				for i, v := range append(append([]Val{}, els...), add...) {
					o.F[fmt.Sprintf("[%d]", i)] = v
				}
				return &Ptr{O: o.ID}
			}
		}
		return &Sym{N: "append(" + strings.Join(as, ", ") + ")", T: ins.Type()}
	case "copy", "delete", "print", "println":
		return &KConst{S: "0"}
	}
	return x.opaqueResult(st, ins, "builtin:"+name, args)
}

// ---- ORM --------------------------------------------------------------------------

func (x *Explorer) ormCall(fr *Frame, st *State, oc *ORMCall, ins *ssa.Call, args []Val) Val {
	t := oc.Table
	tag := x.loopTag(fr, ins.Block())
	ev := Event{Table: t, Method: oc.Method, OpKind: oc.Kind, Loop: tag, Pos: ins, Fn: fr.fn, Facts: len(st.facts), Seq: len(st.events)}
	keyArgs := args
	if len(keyArgs) > 0 {
		keyArgs = keyArgs[1:] // drop ctx
	}
	switch oc.Kind {
	case "get":
		row := st.newObj("row", t.Row)
		row.Table = t
		row.Name = fmt.Sprintf("%s#%d", t.Name, row.ID)
		row.Loop = tag
		var ks []string
		for _, a := range keyArgs {
			ks = append(ks, st.canon(a))
		}
		row.Origin = "get:" + oc.Method + "(" + strings.Join(ks, ", ") + ")"
		// the key columns of the fetched row are the arguments
		names := t.PK
		if oc.Method != "Get" {
			names = t.Unique[oc.Method]
		}
		row.Preset = map[string]Val{}
		for i, n := range names {
			if i < len(keyArgs) {
				row.F["."+snakeToCamel(n)] = keyArgs[i]
				row.Preset[snakeToCamel(n)] = keyArgs[i]
			}
		}
		e := &ErrV{ID: st.newID(), Origin: "orm:" + t.Name + "." + oc.Method}
		row.ErrID = e.ID
		row.ReadAt = len(st.events)
		ev.Kind, ev.Keys, ev.RowObj, ev.ErrID = "read", keyArgs, row.ID, e.ID
		st.events = append(st.events, ev)
		return &Tuple{Vs: []Val{&Ptr{O: row.ID}, e}}
	case "has":
		var ks []string
		for _, a := range keyArgs {
			ks = append(ks, st.canon(a))
		}
		e := &ErrV{ID: st.newID(), Origin: "orm:" + t.Name + "." + oc.Method}
		ev.Kind, ev.Keys, ev.ErrID = "read", keyArgs, e.ID
		st.events = append(st.events, ev)
		return &Tuple{Vs: []Val{&BoolV{F: "Has:" + t.Name + "." + oc.Method + "(" + strings.Join(ks, ", ") + ")"}, e}}
	case "list":
		// split off the variadic options: the scan is identified by its index key(s)
		var opts []Val
		nk := 1
		if oc.Method == "ListRange" {
			nk = 2
		}
		if len(keyArgs) > nk {
			if els, ok := x.sliceElems(st, keyArgs[nk]); ok {
				opts = els
			} else if !isK(keyArgs[nk], "nil") {
				opts = []Val{keyArgs[nk]}
			}
			keyArgs = keyArgs[:nk]
		}
		ev.Args = opts
		it := &IterV{ID: st.newID(), T: t, Kind: oc.Method, Keys: keyArgs}
		e := &ErrV{ID: st.newID(), Origin: "orm:" + t.Name + "." + oc.Method}
		ev.Kind, ev.Keys, ev.ErrID, ev.RowObj = "read", keyArgs, e.ID, it.ID
		st.events = append(st.events, ev)
		return &Tuple{Vs: []Val{it, e}}
	case "deleterange":
		e := &ErrV{ID: st.newID(), Origin: "orm:" + t.Name + "." + oc.Method}
		ev.Kind, ev.Keys, ev.ErrID = "write", keyArgs, e.ID
		st.events = append(st.events, ev)
		return e
	}
	// insert / update / save / delete
	e := &ErrV{ID: st.newID(), Origin: "orm:" + t.Name + "." + oc.Method}
	ev.Kind, ev.ErrID = "write", e.ID
	if len(keyArgs) >= 1 {
		if p, ok := keyArgs[0].(*Ptr); ok {
			if o := st.mem[p.O]; o != nil {
				ev.RowObj = o.ID
				ev.Row = x.snapshotRow(st, o, t)
				ev.Old = x.resolveOld(st, o, t, oc.Kind, ev.Row, len(st.events))
				// between the basis read and this write no row of the same ledger table with a possibly
				// equal key may have been written (the basis would be stale when the keys coincide, e.g. a
				// transfer to one's own account spelled differently)
				if old := ev.Old; old != nil && old.From > 0 && old.Stale == "" && ledgerTables[t.Name] {
					if src := &st.events[old.From-1]; src.Kind == "read" {
						key := x.keyOf(st, t, ev.Row)
						for j := old.From; j < len(st.events); j++ {
							w := &st.events[j]
							if w.Kind != "write" || w.Table != t || w.Row == nil || w.OpKind == "deleterange" {
								continue
							}
							if k2 := x.keyOf(st, t, w.Row); k2 != key && !keysDistinct(st, key, k2) {
								old.Stale = "a row of " + t.Name + " with a possibly equal key (" + k2 + " vs " + key + ") was written after the basis read of this row: when the two keys coincide the write overwrites that row's new content with stale data"
								break
							}
						}
					}
				}
				// a row written inside a loop must have been read (or written) in the same iteration: the
				// explorer analyses one symbolic iteration, and from the second iteration on a basis taken
				// before the loop is the content an earlier iteration already replaced
				if old := ev.Old; old != nil && old.From > 0 && old.Stale == "" && tag != "" && t.Name != "" {
					if src := st.events[old.From-1]; !strings.HasPrefix(src.Loop, tag) {
						where := "before the loop"
						if src.Loop != "" {
							where = "in the enclosing loop " + src.Loop
						}
						old.Stale = "the row written in loop " + tag + " is based on content obtained " + where + ": from the second iteration on it overwrites what an earlier iteration stored under the same key (lost update), unless the key differs in every iteration"
					}
				}
			}
		} else {
			ev.Old = &OldRow{Unknown: "row argument is not a locally known object: " + vstr(keyArgs[0])}
			st.note("write of unknown row to " + t.Name)
		}
	}
	st.events = append(st.events, ev)
	if oc.Method == "InsertReturningID" {
		idv := &Sym{N: fmt.Sprintf("newid:%s#%d", t.Name, e.ID), T: types.Typ[types.Uint64]}
		// the ORM writes the new id into the row
		if ev.RowObj != 0 && len(t.PK) == 1 {
			st.mem[ev.RowObj].F["."+snakeToCamel(t.PK[0])] = idv
		}
		return &Tuple{Vs: []Val{idv, e}}
	}
	return e
}

// rowColumns lists exported columns of a row struct.
func rowColumns(t *Table) []*types.Var {
	var out []*types.Var
	s := t.Row.Underlying().(*types.Struct)
	for i := 0; i < s.NumFields(); i++ {
		if s.Field(i).Exported() {
			out = append(out, s.Field(i))
		}
	}
	return out
}

func (x *Explorer) snapshotRow(st *State, o *Obj, t *Table) map[string]Val {
	snap := map[string]Val{}
	for _, f := range rowColumns(t) {
		snap[f.Name()] = x.load(st, &Ptr{O: o.ID, Path: "." + f.Name()}, f.Type())
	}
	return snap
}

func (x *Explorer) keyOf(st *State, t *Table, row map[string]Val) string {
	var ks []string
	for _, k := range t.PK {
		ks = append(ks, st.canon(row[snakeToCamel(k)]))
	}
	return strings.Join(ks, "|")
}

// keysDistinct: two primary keys (components joined by "|") provably denote different rows.
func keysDistinct(st *State, k1, k2 string) bool {
	a, b := strings.Split(k1, "|"), strings.Split(k2, "|")
	if len(a) != len(b) {
		return true
	}
	isConst := func(s string) bool {
		if s == "" {
			return false
		}
		return s[0] == '"' || (s[0] >= '0' && s[0] <= '9')
	}
	for i := range a {
		if a[i] == b[i] {
			continue
		}
		if isConst(a[i]) && isConst(b[i]) {
			return true
		}
		if strings.HasPrefix(a[i], "newid:") || strings.HasPrefix(b[i], "newid:") {
			return true
		}
		p, q := sortedPair(a[i], b[i])
		for _, f := range []string{"AddrEq(" + p + ", " + q + ")", "Eq(" + p + ", " + q + ")", "BytesEq(" + p + ", " + q + ")"} {
			if v, ok := st.known(f); ok && !v {
				return true
			}
		}
	}
	return false
}

// resolveOld determines what the store held under the written key, at write time.
func (x *Explorer) resolveOld(st *State, o *Obj, t *Table, kind string, row map[string]Val, now int) *OldRow {
	if kind == "insert" {
		return &OldRow{Absent: true}
	}
	if t.Singleton {
		// singleton rows: previous content irrelevant for the ledger rules
		return &OldRow{Unknown: "singleton"}
	}
	key := x.keyOf(st, t, row)
	// the latest event touching this key (read or write) decides
	for i := now - 1; i >= 0; i-- {
		ev := &st.events[i]
		if ev.Table != t {
			continue
		}
		switch ev.Kind {
		case "write":
			if ev.OpKind == "deleterange" {
				continue
			}
			if ev.Row != nil && x.keyOf(st, t, ev.Row) == key {
				// a previous write of the same key on this path
				if o.Kind == "row" && ev.RowObj != o.ID && o.ReadAt < i {
					return &OldRow{Row: ev.Row, Stale: "row object was read before an intervening write of the same key"}
				}
				if o.Kind == "lit" {
					// literal built from a read that precedes the last write?
					if base := x.basisRead(st, t, key, now); base >= 0 && base < i {
						return &OldRow{Row: ev.Row, Stale: "row literal is based on a read that precedes a later write of the same key"}
					}
				}
				if ev.OpKind == "delete" {
					return &OldRow{Absent: true, From: i + 1}
				}
				return &OldRow{Row: ev.Row, From: i + 1}
			}
			// a write to a possibly equal key of the same table between the read and now
		case "read":
			if ev.OpKind != "get" || ev.Method != "Get" {
				if ev.OpKind == "get" {
					// unique-index get: matches when the row object is the one written, or when the
					// literal's primary key is the key column of the fetched row
					if ev.RowObj == o.ID {
						return x.oldFromRead(st, ev, t)
					}
					if fo := st.mem[ev.RowObj]; fo != nil {
						var ks []string
						for _, k := range t.PK {
							f := snakeToCamel(k)
							if v, ok := fo.F["."+f]; ok && fo.Preset[f] != nil {
								ks = append(ks, st.canon(v))
							} else {
								ks = append(ks, st.find(fo.Name+"."+f))
							}
						}
						if strings.Join(ks, "|") == key {
							return x.oldFromRead(st, ev, t)
						}
					}
				}
				if ev.OpKind == "itervalue" {
					if fo := st.mem[ev.RowObj]; fo != nil {
						var ks []string
						for _, k := range t.PK {
							f := snakeToCamel(k)
							if v, ok := fo.Preset[f]; ok {
								ks = append(ks, st.canon(v))
							} else {
								ks = append(ks, st.find(fo.Name+"."+f))
							}
						}
						if strings.Join(ks, "|") == key {
							return x.oldFromRead(st, ev, t)
						}
					}
				}
				continue
			}
			var ks []string
			for _, a := range ev.Keys {
				ks = append(ks, st.canon(a))
			}
			if strings.Join(ks, "|") == key {
				return x.oldFromRead(st, ev, t)
			}
		}
	}
	// iterator rows carry their own previous content
	if o.Kind == "row" && strings.HasPrefix(o.Origin, "iter:") {
		return &OldRow{Row: x.pristineRow(st, o, t)}
	}
	return &OldRow{Unknown: "no read of this key precedes the write (blind write)"}
}

func (x *Explorer) basisRead(st *State, t *Table, key string, now int) int {
	for i := now - 1; i >= 0; i-- {
		ev := &st.events[i]
		if ev.Table == t && ev.Kind == "read" && ev.OpKind == "get" && ev.Method == "Get" {
			var ks []string
			for _, a := range ev.Keys {
				ks = append(ks, st.canon(a))
			}
			if strings.Join(ks, "|") == key {
				return i
			}
		}
	}
	return -1
}

func (x *Explorer) oldFromRead(st *State, ev *Event, t *Table) *OldRow {
	from := 0
	for i := range st.events {
		if &st.events[i] == ev {
			from = i + 1
		}
	}
	switch st.errs[ev.ErrID] {
	case 2:
		// a failed read means "no such row" only when the error was classified as NotFound on this path
		// (err == ormerrors.NotFound, ormerrors.IsNotFound, NotFound.Is); any other failure — a backend or
		// decode error — says nothing about the row, and a write that takes it for absence overwrites
		// whatever is stored
		if !st.factSet[fmt.Sprintf("+ErrIs(%d,NotFound)", ev.ErrID)] {
			return &OldRow{Unknown: "the read of this key failed with an error that was not classified as NotFound on this path: a storage or decode failure is not absence, the row may exist"}
		}
		return &OldRow{Absent: true, From: from}
	case 1:
		if o := st.mem[ev.RowObj]; o != nil {
			return &OldRow{Row: x.pristineRow(st, o, t), From: from}
		}
	}
	return &OldRow{Unknown: "the read of this key has an undetermined result on this path"}
}

// pristineRow: the columns of a fetched row as they were read (symbols named after the row).
func (x *Explorer) pristineRow(st *State, o *Obj, t *Table) map[string]Val {
	snap := map[string]Val{}
	for _, f := range rowColumns(t) {
		snap[f.Name()] = x.typed(st, &Sym{N: o.Name + "." + f.Name(), T: f.Type()})
	}
	// key columns are the lookup arguments
	for k, v := range o.Preset {
		snap[k] = v
	}
	return snap
}

// ---- bank ---------------------------------------------------------------------------

func (x *Explorer) bankCall(fr *Frame, st *State, method string, ins *ssa.Call, args []Val) Val {
	ev := Event{Kind: "bank", Method: method, Args: args, Loop: x.loopTag(fr, ins.Block()), Pos: ins, Fn: fr.fn, Facts: len(st.facts), Seq: len(st.events)}
	switch method {
	case "GetBalance":
		st.events = append(st.events, ev)
		a, d := st.canon(args[1]), st.canon(args[2])
		return &CoinV{Denom: args[2], Amt: &IntV{L: linAtom("bankbal(" + a + "," + d + ")"), NonNeg: true}}
	case "GetSupply", "HasBalance", "SpendableCoins", "GetAllBalances":
		st.events = append(st.events, ev)
		return x.opaqueResult(st, ins, "bank."+method, args)
	}
	e := &ErrV{ID: st.newID(), Origin: "bank." + method}
	ev.ErrID = e.ID
	st.events = append(st.events, ev)
	if ins.Call.Signature().Results().Len() == 0 {
		return nil
	}
	return e
}

// ---- invoke intrinsics ---------------------------------------------------------------

func (x *Explorer) invokeIntrinsic(fr *Frame, st *State, ins *ssa.Call, recv Val, args []Val) (Val, bool) {
	name := ins.Call.Method.Name()
	if it, ok := recv.(*IterV); ok {
		switch name {
		case "Next":
			it.Calls++
			return &BoolV{F: fmt.Sprintf("IterNext(%d,%d)", it.ID, st.newID())}, true
		case "Close":
			return nil, true
		case "PageResponse":
			return &Sym{N: fmt.Sprintf("iter%d.PageResponse()", it.ID), T: ins.Type()}, true
		}
	}
	switch name {
	case "Error":
		if e, ok := recv.(*ErrV); ok {
			return &Sym{N: fmt.Sprintf("errtext(%d)", e.ID), T: ins.Type()}, true
		}
	case "EmitTypedEvent", "EmitTypedEvents":
		return x.emitEvent(fr, st, ins, args), true
	case "ConsumeGas":
		return nil, true
	}
	return nil, false
}

// emitEvent records a typed event emission with the fields of the event literal.
func (x *Explorer) emitEvent(fr *Frame, st *State, ins *ssa.Call, args []Val) Val {
	ev := Event{Kind: "emit", Method: "EmitTypedEvent", Args: args, Loop: x.loopTag(fr, ins.Block()), Pos: ins, Fn: fr.fn, Facts: len(st.facts), Seq: len(st.events)}
	if len(args) >= 1 {
		if p, ok := args[len(args)-1].(*Ptr); ok {
			if o := st.mem[p.O]; o != nil {
				ev.Row = map[string]Val{}
				for k, v := range o.F {
					ev.Row[strings.TrimPrefix(k, ".")] = v
				}
				if n := namedOf(o.T); n != nil {
					ev.Method = n.Obj().Name()
				}
			}
		}
	}
	st.events = append(st.events, ev)
	return &ErrV{ID: st.newID(), Origin: "emit"}
}

func (x *Explorer) iterValue(fr *Frame, st *State, ins *ssa.Call, it *IterV) Val {
	t := it.T
	row := st.newObj("row", t.Row)
	row.Table = t
	row.Name = fmt.Sprintf("%s#%d", t.Name, row.ID)
	row.Origin = fmt.Sprintf("iter:%d", it.ID)
	// a prefix scan fixes the key columns named by the index key
	if it.Kind == "List" && len(it.Keys) == 1 {
		if ik, ok := it.Keys[0].(*IndexKeyV); ok {
			row.Preset = map[string]Val{}
			for i, f := range ik.Fields {
				if i == ik.PrefixOnly {
					// matched by byte prefix only: the row's own column, not the requested value
					continue
				}
				row.F["."+f] = ik.Vals[i]
				row.Preset[f] = ik.Vals[i]
			}
		}
	}
	row.Loop = x.loopTag(fr, ins.Block())
	e := &ErrV{ID: st.newID(), Origin: "iter.Value"}
	row.ErrID = e.ID
	row.ReadAt = len(st.events)
	st.events = append(st.events, Event{Kind: "read", Table: t, Method: "Value", OpKind: "itervalue", RowObj: row.ID, ErrID: e.ID, Keys: []Val{it}, Loop: row.Loop, Pos: ins, Fn: fr.fn, Facts: len(st.facts), Seq: len(st.events)})
	return &Tuple{Vs: []Val{&Ptr{O: row.ID}, e}}
}

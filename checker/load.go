package main

// Loader: one go/packages load per repo module directory, full syntax + types,
// optional SSA. Nothing is cached between runs; /repo's working tree is read on
// every invocation (optionally through an overlay, used for canaries/mutants).

import (
	"fmt"
	"go/ast"
	"go/token"
	"go/types"
	"os"
	"path/filepath"
	"sort"
	"strings"

	"golang.org/x/tools/go/packages"
	"golang.org/x/tools/go/ssa"
	"golang.org/x/tools/go/ssa/ssautil"
)

const repoPrefix = "github.com/regen-network/regen-ledger/"

var repoRoot = "/repo"

// Program is one loaded repo module (plus all its dependencies).
type Program struct {
	ModDir   string // e.g. x/ecocredit
	Fset     *token.FileSet
	All      []*packages.Package          // every package, deps included
	Repo     map[string]*packages.Package // repo packages by import path
	RepoList []*packages.Package          // sorted
	SSA      *ssa.Program
	ssaPkgs  map[*types.Package]*ssa.Package
	fileOf   map[*ast.File]*packages.Package
}

func goEnv() []string {
	env := os.Environ()
	out := env[:0:0]
	for _, e := range env {
		k := e
		if i := strings.IndexByte(e, '='); i >= 0 {
			k = e[:i]
		}
		switch k {
		case "GOFLAGS", "GOPROXY", "GOSUMDB", "GOTOOLCHAIN", "GOWORK":
			continue
		}
		out = append(out, e)
	}
	return append(out, "GOFLAGS=-mod=mod", "GOPROXY=off", "GOSUMDB=off", "GOTOOLCHAIN=local", "GOWORK=off")
}

// LoadModule loads ./... of repoRoot/modDir. overlay maps absolute file names to
// replacement contents. If wantSSA the SSA form of the whole program is built.
func LoadModule(modDir string, overlay map[string][]byte, wantSSA bool) (*Program, error) {
	dir := filepath.Join(repoRoot, modDir)
	// never let the go command rewrite /repo's go.mod/go.sum (-mod=mod may): work on private copies
	tmp, err := os.MkdirTemp("", "ledgerlint-mod")
	if err != nil {
		return nil, err
	}
	defer os.RemoveAll(tmp)
	for _, f := range []string{"go.mod", "go.sum"} {
		b, err := os.ReadFile(filepath.Join(dir, f))
		if err != nil {
			return nil, fmt.Errorf("load %s: %w", modDir, err)
		}
		if err := os.WriteFile(filepath.Join(tmp, f), b, 0o644); err != nil {
			return nil, err
		}
	}
	cfg := &packages.Config{
		Mode:       packages.LoadAllSyntax,
		Dir:        dir,
		Env:        goEnv(),
		Tests:      false,
		Overlay:    overlay,
		BuildFlags: []string{"-modfile=" + filepath.Join(tmp, "go.mod")},
	}
	pkgs, err := packages.Load(cfg, "./...")
	if err != nil {
		return nil, fmt.Errorf("load %s: %w", modDir, err)
	}
	if len(pkgs) == 0 {
		return nil, fmt.Errorf("load %s: zero packages", modDir)
	}
	p := &Program{ModDir: modDir, Repo: map[string]*packages.Package{}, fileOf: map[*ast.File]*packages.Package{}}
	var errs []string
	packages.Visit(pkgs, nil, func(pk *packages.Package) {
		p.All = append(p.All, pk)
		if p.Fset == nil {
			p.Fset = pk.Fset
		}
		if strings.HasPrefix(pk.PkgPath, repoPrefix) {
			p.Repo[pk.PkgPath] = pk
			for _, e := range pk.Errors {
				errs = append(errs, e.Error())
			}
			for _, f := range pk.Syntax {
				p.fileOf[f] = pk
			}
		}
	})
	if len(errs) > 0 {
		sort.Strings(errs)
		if len(errs) > 8 {
			errs = errs[:8]
		}
		return nil, fmt.Errorf("load %s: type/parse errors in repo packages: %s", modDir, strings.Join(errs, "; "))
	}
	if len(p.Repo) == 0 {
		return nil, fmt.Errorf("load %s: zero repo packages", modDir)
	}
	for _, pk := range p.Repo {
		p.RepoList = append(p.RepoList, pk)
	}
	sort.Slice(p.RepoList, func(i, j int) bool { return p.RepoList[i].PkgPath < p.RepoList[j].PkgPath })
	if wantSSA {
		prog, _ := ssautil.AllPackages(pkgs, ssa.InstantiateGenerics)
		prog.Build()
		p.SSA = prog
		p.ssaPkgs = map[*types.Package]*ssa.Package{}
		for _, sp := range prog.AllPackages() {
			p.ssaPkgs[sp.Pkg] = sp
		}
	}
	return p, nil
}

// Pkg returns the repo package whose path ends with suffix (after the module
// version element is ignored), e.g. "x/ecocredit/v3/base/keeper".
func (p *Program) Pkg(suffix string) *packages.Package {
	return p.Repo[repoPrefix+suffix]
}

func (p *Program) SSAPkg(suffix string) *ssa.Package {
	pk := p.Pkg(suffix)
	if pk == nil || p.SSA == nil {
		return nil
	}
	return p.ssaPkgs[pk.Types]
}

// Pos renders a position relative to the repo root.
func (p *Program) Pos(pos token.Pos) string {
	if !pos.IsValid() {
		return "-"
	}
	ps := p.Fset.Position(pos)
	f := ps.Filename
	if rel, err := filepath.Rel(repoRoot, f); err == nil && !strings.HasPrefix(rel, "..") {
		f = rel
	}
	return fmt.Sprintf("%s:%d", f, ps.Line)
}

func (p *Program) File(pos token.Pos) string {
	if !pos.IsValid() {
		return ""
	}
	f := p.Fset.Position(pos).Filename
	if rel, err := filepath.Rel(repoRoot, f); err == nil && !strings.HasPrefix(rel, "..") {
		f = rel
	}
	return f
}

func isGeneratedFile(name string) bool {
	return strings.HasSuffix(name, ".pb.go") || strings.HasSuffix(name, ".pulsar.go") ||
		strings.HasSuffix(name, ".cosmos_orm.go") || strings.HasSuffix(name, ".pb.gw.go") ||
		strings.HasSuffix(name, "_grpc.pb.go")
}

func isRepoPkgPath(path string) bool { return strings.HasPrefix(path, repoPrefix) }

// shortPkg strips the repo prefix.
func shortPkg(path string) string { return strings.TrimPrefix(path, repoPrefix) }

// funcKey gives a stable, line-independent name for a function.
func funcKey(fn *ssa.Function) string {
	if fn == nil {
		return "<nil>"
	}
	s := fn.String()
	s = strings.ReplaceAll(s, repoPrefix, "")
	return s
}

func objKey(o types.Object) string {
	if o == nil {
		return "<nil>"
	}
	if f, ok := o.(*types.Func); ok {
		return strings.ReplaceAll(f.FullName(), repoPrefix, "")
	}
	if o.Pkg() != nil {
		return shortPkg(o.Pkg().Path()) + "." + o.Name()
	}
	return o.Name()
}

package main

// Canonical provenance terms for SSA values inside one function. A term is a
// string such as `NewControllerPortID(msg.Owner)#0`; equality of terms means the
// two values are computed by the same expression over the same inputs. Used by the
// provenance rules (C20, queries, codec) — never evaluated.

import (
	"fmt"
	"go/token"
	"go/types"
	"strings"

	"golang.org/x/tools/go/ssa"
)

type Termer struct {
	fn   *ssa.Function
	memo map[ssa.Value]string
	busy map[ssa.Value]bool
}

func NewTermer(fn *ssa.Function) *Termer {
	return &Termer{fn: fn, memo: map[ssa.Value]string{}, busy: map[ssa.Value]bool{}}
}

func shortCallee(cc *ssa.CallCommon) string {
	if cc.IsInvoke() {
		return cc.Method.Name()
	}
	if sc := cc.StaticCallee(); sc != nil {
		_, n := calleePkgName(cc)
		return n
	}
	if b, ok := cc.Value.(*ssa.Builtin); ok {
		return b.Name()
	}
	return "dyn"
}

func (t *Termer) T(v ssa.Value) string {
	if v == nil {
		return "<nil>"
	}
	if s, ok := t.memo[v]; ok {
		return s
	}
	if t.busy[v] {
		return "…"
	}
	t.busy[v] = true
	s := t.term(v)
	delete(t.busy, v)
	t.memo[v] = s
	return s
}

func (t *Termer) term(v ssa.Value) string {
	switch x := v.(type) {
	case *ssa.Parameter:
		return x.Name()
	case *ssa.FreeVar:
		return "^" + x.Name()
	case *ssa.Const:
		if x.Value == nil {
			return "nil"
		}
		return x.Value.ExactString()
	case *ssa.Global:
		return x.Pkg.Pkg.Name() + "." + x.Name()
	case *ssa.Function:
		return "func:" + x.Name()
	case *ssa.Builtin:
		return x.Name()
	case *ssa.FieldAddr:
		return "&" + t.base(x.X) + "." + fieldName(x.X.Type(), x.Field)
	case *ssa.Field:
		return t.T(x.X) + "." + fieldName(x.X.Type(), x.Field)
	case *ssa.IndexAddr:
		return "&" + t.base(x.X) + "[" + t.T(x.Index) + "]"
	case *ssa.Index:
		return t.T(x.X) + "[" + t.T(x.Index) + "]"
	case *ssa.Lookup:
		return t.T(x.X) + "[" + t.T(x.Index) + "]"
	case *ssa.UnOp:
		switch x.Op {
		case token.MUL:
			inner := t.T(x.X)
			if strings.HasPrefix(inner, "&") {
				return inner[1:]
			}
			// load of a local variable: resolve through its unique store
			if a, ok := x.X.(*ssa.Alloc); ok {
				if sv := uniqueStore(a); sv != nil {
					return t.T(sv)
				}
				return "var:" + a.Comment
			}
			return "*" + inner
		case token.NOT:
			return "!" + t.T(x.X)
		case token.SUB:
			return "-" + t.T(x.X)
		}
		return x.Op.String() + t.T(x.X)
	case *ssa.BinOp:
		return "(" + t.T(x.X) + " " + x.Op.String() + " " + t.T(x.Y) + ")"
	case *ssa.Call:
		var args []string
		for _, a := range x.Call.Args {
			args = append(args, t.T(a))
		}
		recv := ""
		if x.Call.IsInvoke() {
			recv = t.T(x.Call.Value) + "."
		}
		return recv + shortCallee(&x.Call) + "(" + strings.Join(args, ", ") + ")"
	case *ssa.Extract:
		return t.T(x.Tuple) + fmt.Sprintf("#%d", x.Index)
	case *ssa.Convert:
		return types.TypeString(x.Type(), func(p *types.Package) string { return p.Name() }) + "(" + t.T(x.X) + ")"
	case *ssa.ChangeType:
		return t.T(x.X)
	case *ssa.ChangeInterface:
		return t.T(x.X)
	case *ssa.MakeInterface:
		return t.T(x.X)
	case *ssa.TypeAssert:
		return t.T(x.X) + ".(" + types.TypeString(x.AssertedType, func(p *types.Package) string { return p.Name() }) + ")"
	case *ssa.Slice:
		s := t.T(x.X)
		if x.Low != nil || x.High != nil {
			s += "[" + t.opt(x.Low) + ":" + t.opt(x.High) + "]"
		}
		return s
	case *ssa.Alloc:
		return "&" + t.allocName(x)
	case *ssa.Phi:
		var es []string
		for _, e := range x.Edges {
			es = append(es, t.T(e))
		}
		return "phi(" + strings.Join(es, " | ") + ")"
	case *ssa.MakeClosure:
		return "closure:" + x.Fn.Name()
	case *ssa.MakeSlice:
		return "make[]"
	case *ssa.MakeMap:
		return "makemap"
	case *ssa.Next:
		return "next(" + t.T(x.Iter) + ")"
	case *ssa.Range:
		return "range(" + t.T(x.X) + ")"
	}
	return fmt.Sprintf("?%T", v)
}

func (t *Termer) opt(v ssa.Value) string {
	if v == nil {
		return ""
	}
	return t.T(v)
}

// base renders the base of an address expression (pointer value).
func (t *Termer) base(v ssa.Value) string {
	s := t.T(v)
	return strings.TrimPrefix(s, "&")
}

func (t *Termer) allocName(a *ssa.Alloc) string {
	if a.Comment != "" {
		return "local:" + a.Comment
	}
	return "local:" + a.Name()
}

// uniqueStore returns the single value stored (whole) into a, if exactly one.
func uniqueStore(a *ssa.Alloc) ssa.Value {
	var val ssa.Value
	n := 0
	for _, r := range *a.Referrers() {
		if st, ok := r.(*ssa.Store); ok && st.Addr == a {
			n++
			val = st.Val
		}
	}
	if n == 1 {
		return val
	}
	return nil
}

// fieldStores returns, for a local struct alloc, field name → stored values.
func fieldStores(a *ssa.Alloc) map[string][]ssa.Value {
	out := map[string][]ssa.Value{}
	for _, r := range *a.Referrers() {
		fa, ok := r.(*ssa.FieldAddr)
		if !ok {
			continue
		}
		name := fieldName(fa.X.Type(), fa.Field)
		for _, r2 := range *fa.Referrers() {
			if st, ok := r2.(*ssa.Store); ok && st.Addr == fa {
				out[name] = append(out[name], st.Val)
			}
		}
	}
	return out
}

// elemStores returns, for a local array alloc, index → stored values.
func elemStores(a *ssa.Alloc) map[int64][]ssa.Value {
	out := map[int64][]ssa.Value{}
	for _, r := range *a.Referrers() {
		ia, ok := r.(*ssa.IndexAddr)
		if !ok {
			continue
		}
		idx, ok := constInt(ia.Index)
		if !ok {
			idx = -1
		}
		for _, r2 := range *ia.Referrers() {
			if st, ok := r2.(*ssa.Store); ok && st.Addr == ia {
				out[idx] = append(out[idx], st.Val)
			}
		}
	}
	return out
}

package main

// E1 — abstract values of the path-sensitive effect analysis.
// Nothing here evaluates arithmetic: decimals and integers are linear forms over
// opaque atoms (stored columns, parsed request strings, loop symbols, products).

import (
	"fmt"
	"go/types"
	"math/big"
	"sort"
	"strings"

	"golang.org/x/tools/go/ssa"
)

// ---- linear forms -------------------------------------------------------------

type Lin struct {
	C *big.Rat
	T map[string]*big.Rat
}

func linConst(n int64) Lin { return Lin{C: big.NewRat(n, 1), T: map[string]*big.Rat{}} }
func linAtom(a string) Lin {
	return Lin{C: new(big.Rat), T: map[string]*big.Rat{a: big.NewRat(1, 1)}}
}

func (a Lin) clone() Lin {
	if a.C == nil {
		a.C = new(big.Rat)
	}
	r := Lin{C: new(big.Rat).Set(a.C), T: map[string]*big.Rat{}}
	for k, v := range a.T {
		r.T[k] = new(big.Rat).Set(v)
	}
	return r
}

func (a Lin) Add(b Lin) Lin {
	r := a.clone()
	r.C.Add(r.C, b.C)
	for k, v := range b.T {
		if x, ok := r.T[k]; ok {
			x.Add(x, v)
			if x.Sign() == 0 {
				delete(r.T, k)
			}
		} else {
			r.T[k] = new(big.Rat).Set(v)
		}
	}
	return r
}

func (a Lin) Neg() Lin {
	r := a.clone()
	r.C.Neg(r.C)
	for _, v := range r.T {
		v.Neg(v)
	}
	return r
}

func (a Lin) Sub(b Lin) Lin { return a.Add(b.Neg()) }

func (a Lin) IsZero() bool { return (a.C == nil || a.C.Sign() == 0) && len(a.T) == 0 }

func (a Lin) IsConst() bool { return len(a.T) == 0 }

func (a Lin) Atoms() []string {
	var ks []string
	for k := range a.T {
		ks = append(ks, k)
	}
	sort.Strings(ks)
	return ks
}

// MapAtoms rewrites every atom (used for scaling by 10^p).
func (a Lin) MapAtoms(f func(string) string) Lin {
	r := Lin{C: new(big.Rat).Set(a.C), T: map[string]*big.Rat{}}
	for k, v := range a.T {
		nk := f(k)
		if x, ok := r.T[nk]; ok {
			x.Add(x, v)
		} else {
			r.T[nk] = new(big.Rat).Set(v)
		}
	}
	for k, v := range r.T {
		if v.Sign() == 0 {
			delete(r.T, k)
		}
	}
	return r
}

// Subst replaces atom by a linear form.
func (a Lin) Subst(atom string, by Lin) Lin {
	c, ok := a.T[atom]
	if !ok {
		return a
	}
	r := a.clone()
	delete(r.T, atom)
	sc := by.clone()
	sc.C.Mul(sc.C, c)
	for _, v := range sc.T {
		v.Mul(v, c)
	}
	return r.Add(sc)
}

func (a Lin) String() string {
	if a.C == nil {
		a.C = new(big.Rat)
	}
	var parts []string
	for _, k := range a.Atoms() {
		c := a.T[k]
		switch {
		case c.Cmp(big.NewRat(1, 1)) == 0:
			parts = append(parts, "+"+k)
		case c.Cmp(big.NewRat(-1, 1)) == 0:
			parts = append(parts, "-"+k)
		default:
			s := c.RatString()
			if c.Sign() > 0 {
				s = "+" + s
			}
			parts = append(parts, s+"*"+k)
		}
	}
	if a.C.Sign() != 0 || len(parts) == 0 {
		s := a.C.RatString()
		if a.C.Sign() >= 0 {
			s = "+" + s
		}
		parts = append(parts, s)
	}
	out := strings.Join(parts, " ")
	return strings.TrimPrefix(out, "+")
}

// scale tags: ⟨p⟩·atom means atom × 10^p (p is a canonical precision term).
func scaleAtom(atom, p string, inverse bool) string {
	tag, inv := "⟨"+p+"⟩·", "⟨-"+p+"⟩·"
	if inverse {
		tag, inv = inv, tag
	}
	if strings.HasPrefix(atom, inv) {
		return strings.TrimPrefix(atom, inv)
	}
	return tag + atom
}

// ---- values -------------------------------------------------------------------

type Val interface{ vs() string }

// Sym: opaque value with a canonical name.
type Sym struct {
	N string
	T types.Type
}

func (s *Sym) vs() string { return s.N }

// KConst: compile-time constant (V == nil: nil).
type KConst struct{ S string }

func (k *KConst) vs() string { return k.S }

var kNil = &KConst{"nil"}
var kTrue = &KConst{"true"}
var kFalse = &KConst{"false"}

// Ptr: pointer into an abstract object (path "" = the object itself).
type Ptr struct {
	O    int // object id
	Path string
}

func (p *Ptr) vs() string { return fmt.Sprintf("&obj%d%s", p.O, p.Path) }

// SymPtr: pointer whose target is symbolic memory (request fields, nested row messages).
type SymPtr struct {
	Base string
	T    types.Type // pointee type
}

func (p *SymPtr) vs() string { return "&" + p.Base }

// DecV: math.Dec value.
type DecV struct {
	L       Lin
	NonNeg  bool   // proven ≥ 0 on this path (constructor, SafeSub success, sum of such)
	Pos     bool   // proven > 0
	Fixed   string // canonical precision term p with NumDecimalPlaces ≤ p proven ("" = none, "*" = exact integer/constant)
	Pow10   string // non-empty: this value is exactly 10^Pow10 (NewDecFinite(1, p))
	Inexact bool   // passed through a rounding operation
}

func (d *DecV) vs() string { return "dec(" + d.L.String() + ")" }

// DecStr: the decimal rendering x.String() of a Dec (or Int) value.
type DecStr struct{ D *DecV }

func (d *DecStr) vs() string { return "str(" + d.D.L.String() + ")" }

// IntV: sdk.Int / *big.Int value as a linear form.
type IntV struct {
	L       Lin
	NonNeg  bool
	Inexact bool // derived from a decimal that passed through a rounding operation
}

func (i *IntV) vs() string { return "int(" + i.L.String() + ")" }

type CoinV struct {
	Denom Val
	Amt   Val
}

func (c *CoinV) vs() string { return "coin(" + vstr(c.Denom) + "," + vstr(c.Amt) + ")" }

type CoinsV struct {
	Items     []*CoinV
	Sanitised bool // built by sdk.NewCoins: zero-amount coins are dropped (the literal sdk.Coins{…} keeps them)
}

func (c *CoinsV) vs() string {
	var s []string
	for _, i := range c.Items {
		s = append(s, i.vs())
	}
	return "coins[" + strings.Join(s, ";") + "]"
}

// BoolV: a boolean that is true exactly when fact F holds (Neg flips).
type BoolV struct {
	F   string
	Neg bool
	Aux string // for error tests: the origin (call term) of the error value
}

func (b *BoolV) vs() string {
	if b.Neg {
		return "!" + b.F
	}
	return b.F
}

// ErrV: an error value with per-path nil/non-nil state kept in State.errs.
type ErrV struct {
	ID     int
	Origin string
	At     int // number of path facts when the error value was made
}

func (e *ErrV) vs() string { return fmt.Sprintf("err%d<%s>", e.ID, e.Origin) }

// CmpV: the int result of a.Cmp(b).
type CmpV struct{ A, B Lin }

func (c *CmpV) vs() string { return "cmp(" + c.A.String() + " ? " + c.B.String() + ")" }

// TCmpV: the int result of a.Compare(b) on time values.
type TCmpV struct{ A, B string }

func (c *TCmpV) vs() string { return "tcmp(" + c.A + " ? " + c.B + ")" }

type Tuple struct{ Vs []Val }

func (t *Tuple) vs() string {
	var s []string
	for _, v := range t.Vs {
		s = append(s, vstr(v))
	}
	return "(" + strings.Join(s, ", ") + ")"
}

type StructV struct {
	T types.Type
	F map[string]Val
}

func (s *StructV) vs() string {
	var ks []string
	for k := range s.F {
		ks = append(ks, k)
	}
	sort.Strings(ks)
	var out []string
	for _, k := range ks {
		out = append(out, k+":"+vstr(s.F[k]))
	}
	return "{" + strings.Join(out, ",") + "}"
}

type ClosureV struct {
	Fn    *ssa.Function
	Binds []Val
}

func (c *ClosureV) vs() string { return "closure:" + c.Fn.Name() }

type TableV struct{ T *Table }

func (t *TableV) vs() string { return "table:" + t.T.Name }

type IterV struct {
	ID    int
	T     *Table
	Kind  string // list | range
	Keys  []Val
	Calls int
}

func (i *IterV) vs() string { return fmt.Sprintf("iter%d:%s", i.ID, i.T.Name) }

// IndexKeyV: a generated ORM index key built with With<Fields>(values…).
type IndexKeyV struct {
	Type   string
	Fields []string // Go field names of the row fixed by this key
	Vals   []Val
	Name   string
	// PrefixOnly: index (in Fields) of a trailing string / bytes component that a List over this key
	// matches by byte prefix only — the last component of a complete primary or unique key is encoded
	// without a terminator, so List(key("uusd")) also yields the row of "uusdc". -1: none.
	PrefixOnly int
}

func (k *IndexKeyV) vs() string { return k.Name }

func vstr(v Val) string {
	if v == nil {
		return "<undef>"
	}
	return v.vs()
}

// ---- abstract memory ----------------------------------------------------------

type Obj struct {
	ID     int
	Kind   string // row | lit | struct | array | cell | map
	Table  *Table // rows and row literals
	Name   string // canonical name (rows: Table#n)
	Origin string // how it was obtained, for rules: get:<method>(keys) | iter:<iter> | literal
	T      types.Type
	F      map[string]Val // fields by path (".A", ".A.B", "[0]", "" for cells)
	Preset map[string]Val // rows: columns fixed by the lookup key
	ErrID  int            // rows: the error result of the Get that produced it (0 = none)
	ReadAt int            // event index of the read that produced it
	Loop   string         // loop tag at creation
}

func (o *Obj) clone() *Obj {
	n := *o
	if o.Preset != nil {
		n.Preset = make(map[string]Val, len(o.Preset))
		for k, v := range o.Preset {
			n.Preset[k] = v
		}
	}
	n.F = make(map[string]Val, len(o.F))
	for k, v := range o.F {
		n.F[k] = v
	}
	return &n
}

// ---- events -------------------------------------------------------------------

type Event struct {
	Kind   string // read | write | bank | emit | call | loopenter
	Table  *Table
	Method string
	OpKind string         // insert|update|save|delete|deleterange|get|has|list
	Keys   []Val          // key arguments (reads, deleterange)
	RowObj int            // object id of the row read/written
	Row    map[string]Val // snapshot of the row's columns at write time
	Old    *OldRow
	ErrID  int
	Args   []Val // bank / emit / call arguments
	Loop   string
	Pos    ssa.Instruction
	Fn     *ssa.Function
	Facts  int // number of facts established before this event
	Seq    int
}

// OldRow: what the store held under this key before the write.
type OldRow struct {
	Absent  bool
	Unknown string         // non-empty: why the previous content is not known
	Row     map[string]Val // previous columns
	Stale   string         // non-empty: the basis read precedes a later write to the same key
	From    int            // index+1 of the event (read or write) the previous content was taken from; 0 = none
}

package main

// Path-sensitive guards with predicate expansion.
//
// Question decided: on every acyclic path of fn that ends in a success return, is the predicate
// P(subject) known to have the wanted truth value? "Known" is evaluated on the branch decisions
// of the path (three-valued), and P is compared by meaning, not by spelling: a predicate defined
// in the analysed package (Dec.IsNegative = dec.Negative && !dec.IsZero()) is expanded into the
// atoms its own body tests, so a call to the predicate, its inlined body, a helper that performs
// the test on a value handed to it, and `return z, helper(...)` are all recognised, while a test
// on a different value (x instead of the result) is not.

import (
	"fmt"
	"go/token"
	"go/types"
	"sort"
	"strings"

	"golang.org/x/tools/go/ssa"
)

type pgLiteral struct {
	term string
	val  bool
}

type pgPath struct {
	lits map[string]bool
	// helper calls whose error result is known nil on this path
	okCalls []*ssa.Call
	ret     *ssa.Return
	// value returned (last block's view), with phis resolved along the path
	phis map[*ssa.Phi]ssa.Value
}

type pgNamer struct {
	fn    *ssa.Function
	roots map[ssa.Value]string // subject root(s) → "S"
	ids   map[ssa.Value]string
	phis  map[*ssa.Phi]ssa.Value
}

func (n *pgNamer) rootName(v ssa.Value) string {
	if s, ok := n.roots[v]; ok {
		return s
	}
	if s, ok := n.ids[v]; ok {
		return s
	}
	if g, ok := v.(*ssa.Global); ok {
		return "global:" + g.Name() // stable across namers
	}
	// stable across namers of the same function: the SSA register name, qualified by its function
	s := "%" + v.Name()
	if in, isIn := v.(ssa.Instruction); isIn && in.Parent() != nil {
		s = "%" + in.Parent().Name() + ":" + v.Name()
	}
	if p, ok := v.(*ssa.Parameter); ok {
		for i, q := range n.fn.Params {
			if q == p {
				s = fmt.Sprintf("p%d", i)
			}
		}
	}
	n.ids[v] = s
	return s
}

// addr: canonical term of an address expression.
func (n *pgNamer) addr(v ssa.Value, depth int) string {
	if depth > 8 {
		return "?"
	}
	switch x := v.(type) {
	case *ssa.FieldAddr:
		return n.addr(x.X, depth+1) + "." + fieldName(x.X.Type(), x.Field)
	case *ssa.Alloc:
		// a spilled parameter is the parameter
		if sv := uniqueStore(x); sv != nil {
			if _, isP := sv.(*ssa.Parameter); isP {
				return n.rootName(sv)
			}
			if _, isE := sv.(*ssa.Extract); isE {
				return n.rootName(sv)
			}
		}
		return n.rootName(x)
	case *ssa.Parameter:
		return n.rootName(x)
	case *ssa.UnOp:
		if x.Op == token.MUL {
			return n.addr(x.X, depth+1)
		}
	case *ssa.Phi:
		if e, ok := n.phis[x]; ok {
			return n.addr(e, depth+1)
		}
	}
	return n.rootName(v)
}

// term: canonical term of a value (bool atoms, their operands).
func (n *pgNamer) term(v ssa.Value, depth int) string {
	if depth > 8 {
		return "?"
	}
	switch x := v.(type) {
	case *ssa.Const:
		if x.Value == nil {
			return "nil"
		}
		return x.Value.ExactString()
	case *ssa.UnOp:
		switch x.Op {
		case token.MUL:
			return n.addr(x.X, depth+1)
		case token.NOT:
			return "!" + n.term(x.X, depth+1)
		}
	case *ssa.Field:
		return n.term(x.X, depth+1) + "." + fieldName(x.X.Type(), x.Field)
	case *ssa.FieldAddr, *ssa.Alloc:
		return "&" + n.addr(v, depth+1)
	case *ssa.Parameter:
		return n.rootName(x)
	case *ssa.Extract:
		if s, ok := n.roots[x]; ok {
			return s
		}
		return n.term(x.Tuple, depth+1) + fmt.Sprintf("#%d", x.Index)
	case *ssa.Call:
		if s, ok := n.roots[x]; ok {
			return s
		}
		_, name := calleePkgName(&x.Call)
		if name == "" {
			name = "dyn"
		}
		var as []string
		if x.Call.IsInvoke() {
			as = append(as, n.term(x.Call.Value, depth+1))
		}
		for _, a := range x.Call.Args {
			as = append(as, n.term(a, depth+1))
		}
		return name + "(" + strings.Join(as, ",") + ")"
	case *ssa.Phi:
		if e, ok := n.phis[x]; ok {
			return n.term(e, depth+1)
		}
	case *ssa.Convert:
		return n.term(x.X, depth+1)
	case *ssa.ChangeType:
		return n.term(x.X, depth+1)
	case *ssa.BinOp:
		a, b := n.term(x.X, depth+1), n.term(x.Y, depth+1)
		if x.Op == token.EQL || x.Op == token.NEQ {
			if b < a {
				a, b = b, a
			}
		}
		return "(" + a + " " + x.Op.String() + " " + b + ")"
	}
	return n.rootName(v)
}

// literalOf decomposes a branch condition into (atom term, polarity for "condition is true").
func (n *pgNamer) literalOf(v ssa.Value) (string, bool) {
	pol := true
	for i := 0; i < 6; i++ {
		switch x := v.(type) {
		case *ssa.UnOp:
			if x.Op == token.NOT {
				v, pol = x.X, !pol
				continue
			}
		case *ssa.Phi:
			if e, ok := n.phis[x]; ok {
				v = e
				continue
			}
		case *ssa.BinOp:
			if x.Op == token.NEQ || x.Op == token.EQL {
				// x != nil / x == false etc.: normalise NEQ into negated EQL
				a, b := n.term(x.X, 0), n.term(x.Y, 0)
				if b < a {
					a, b = b, a
				}
				if x.Op == token.NEQ {
					pol = !pol
				}
				return "(" + a + " == " + b + ")", pol
			}
		}
		break
	}
	return n.term(v, 0), pol
}

// enumPaths lists the acyclic paths from the entry to Return instructions (cap-bounded).
func enumPaths(fn *ssa.Function, cap int) (paths [][]*ssa.BasicBlock, complete bool) {
	complete = true
	var cur []*ssa.BasicBlock
	on := map[*ssa.BasicBlock]bool{}
	var walk func(b *ssa.BasicBlock)
	walk = func(b *ssa.BasicBlock) {
		if len(paths) >= cap {
			complete = false
			return
		}
		if on[b] {
			return // back edge: loops are not unrolled; the path is dropped (see caller)
		}
		on[b] = true
		cur = append(cur, b)
		if len(b.Instrs) > 0 {
			if _, isRet := b.Instrs[len(b.Instrs)-1].(*ssa.Return); isRet {
				paths = append(paths, append([]*ssa.BasicBlock{}, cur...))
			}
		}
		for _, s := range b.Succs {
			walk(s)
		}
		cur = cur[:len(cur)-1]
		on[b] = false
	}
	if len(fn.Blocks) > 0 {
		walk(fn.Blocks[0])
	}
	return paths, complete
}

func hasLoop(fn *ssa.Function) bool {
	for _, b := range fn.Blocks {
		for _, s := range b.Succs {
			if s.Dominates(b) {
				return true
			}
		}
	}
	return false
}

// pathFacts evaluates one block path: phi resolution, branch literals, helper calls known to have succeeded.
func pathFacts(fn *ssa.Function, blocks []*ssa.BasicBlock, roots map[ssa.Value]string) *pgPath {
	n := &pgNamer{fn: fn, roots: roots, ids: map[ssa.Value]string{}, phis: map[*ssa.Phi]ssa.Value{}}
	p := &pgPath{lits: map[string]bool{}, phis: n.phis}
	for i, b := range blocks {
		if i > 0 {
			prev := blocks[i-1]
			for pi, pb := range b.Preds {
				if pb != prev {
					continue
				}
				for _, in := range b.Instrs {
					ph, ok := in.(*ssa.Phi)
					if !ok {
						break
					}
					n.phis[ph] = ph.Edges[pi]
				}
				break
			}
		}
		last := b.Instrs[len(b.Instrs)-1]
		if ifi, ok := last.(*ssa.If); ok && i+1 < len(blocks) {
			taken := blocks[i+1] == b.Succs[0]
			if b.Succs[0] == b.Succs[1] {
				continue
			}
			t, pol := n.literalOf(ifi.Cond)
			val := taken == pol
			if old, seen := p.lits[t]; seen && old != val {
				return nil // infeasible: contradictory decisions on one atom
			}
			p.lits[t] = val
		}
		if r, ok := last.(*ssa.Return); ok {
			p.ret = r
		}
	}
	return p
}

// predDNF: the conjunctions of literals under which the same-package predicate fn returns true,
// with its receiver named "S". nil when the body is not a loop-free boolean function.
func predDNF(pred *ssa.Function) []map[string]bool {
	if pred == nil || len(pred.Blocks) == 0 || len(pred.Params) == 0 || hasLoop(pred) {
		return nil
	}
	paths, complete := enumPaths(pred, 64)
	if !complete {
		return nil
	}
	roots := map[ssa.Value]string{pred.Params[0]: "S"}
	var out []map[string]bool
	for _, bp := range paths {
		pf := pathFacts(pred, bp, roots)
		if pf == nil || pf.ret == nil || len(pf.ret.Results) != 1 {
			continue
		}
		n := &pgNamer{fn: pred, roots: roots, ids: map[ssa.Value]string{}, phis: pf.phis}
		rv := pf.ret.Results[0]
		if ph, ok := rv.(*ssa.Phi); ok {
			if e, ok := pf.phis[ph]; ok {
				rv = e
			}
		}
		if c, ok := rv.(*ssa.Const); ok {
			if c.Value != nil && c.Value.ExactString() == "true" {
				out = append(out, pf.lits)
			}
			continue
		}
		t, pol := n.literalOf(rv)
		conj := map[string]bool{}
		for k, v := range pf.lits {
			conj[k] = v
		}
		if old, seen := conj[t]; seen && old != pol {
			continue
		}
		conj[t] = pol
		out = append(out, conj)
	}
	return out
}

// evalPred: three-valued value of pred(S) under the path literals: +1 true, -1 false, 0 unknown.
func evalPred(callTerm string, dnf []map[string]bool, lits map[string]bool) int {
	if v, ok := lits[callTerm]; ok {
		if v {
			return 1
		}
		return -1
	}
	if dnf == nil {
		return 0
	}
	allFalse := true
	for _, conj := range dnf {
		sat, contra := true, false
		for t, v := range conj {
			if lv, ok := lits[t]; !ok {
				sat = false
			} else if lv != v {
				contra = true
				sat = false
			}
		}
		if sat {
			return 1
		}
		if !contra {
			allFalse = false
		}
	}
	if allFalse {
		return -1
	}
	return 0
}

type guardQuery struct {
	pred    string        // "Dec.IsNegative", "Condition.Rounded"
	predFn  *ssa.Function // body for expansion (nil: external)
	dnf     []map[string]bool
	want    bool
	memo    map[string]bool
	visited map[string]bool
	// function-valued parameters of the function under evaluation, as bound by the call site the
	// evaluation came from (a predicate handed to a shared "parse and check" helper)
	binds map[*ssa.Parameter]*ssa.Function
}

func newGuardQuery(prog *ssa.Program, pkg *ssa.Package, pred string, want bool) *guardQuery {
	q := &guardQuery{pred: pred, want: want, memo: map[string]bool{}, visited: map[string]bool{}}
	if pkg != nil {
		for _, f := range pkgFuncs(prog, pkg) {
			if mathFnName(f) == pred && f.Synthetic == "" {
				q.predFn = f
				q.dnf = predDNF(f)
			}
		}
	}
	return q
}

// subjectRoots: the SSA values that denote the subject on a path to return r.
func subjectRoots(fn *ssa.Function, subj guardSubject, r *ssa.Return, phis map[*ssa.Phi]ssa.Value) map[ssa.Value]string {
	roots := map[ssa.Value]string{}
	switch subj.kind {
	case "param":
		if subj.param < len(fn.Params) {
			roots[fn.Params[subj.param]] = "S"
		}
	case "result":
		if r != nil && len(r.Results) > 0 {
			v := r.Results[0]
			if ph, ok := v.(*ssa.Phi); ok {
				if e, ok := phis[ph]; ok {
					v = e
				}
			}
			rt := valRoot(v)
			roots[rt] = "S"
		}
	case "op":
		for _, ci := range callsIn(fn) {
			call, ok := ci.(*ssa.Call)
			if !ok {
				continue
			}
			pkg, name := calleePkgName(&call.Call)
			if strings.Contains(pkg, "cockroachdb/apd") && strings.HasPrefix(name, "Context.") {
				if ex := extractOf(call, 0); ex != nil {
					roots[ex] = "S"
				}
				continue
			}
			// a method value of a context (or an operation received as a function value) called here
			if _, what := mutatedArg(&call.Call); strings.HasPrefix(what, "apd.Context.") {
				if ex := extractOf(call, 0); ex != nil {
					roots[ex] = "S"
				}
				continue
			}
			// a hand-written helper that performs the operation and hands its condition flags back
			if sc := call.Call.StaticCallee(); sc != nil && sc.Pkg == fn.Pkg {
				if i := condPassThrough(sc, 0); i >= 0 {
					if ex := extractOf(call, i); ex != nil {
						roots[ex] = "S"
					}
				}
			}
		}
	}
	return roots
}

// condPassThrough: h returns, at result index i, exactly the apd.Condition of a context operation it
// performs (on every return that is not provably an error return); -1 otherwise.
func condPassThrough(h *ssa.Function, depth int) int {
	if depth > 2 || len(h.Blocks) == 0 {
		return -1
	}
	res := h.Signature.Results()
	idx := -1
	for i := 0; i < res.Len(); i++ {
		if typeIs(res.At(i).Type(), "", "Condition") {
			idx = i
		}
	}
	if idx < 0 {
		return -1
	}
	isOpCond := func(v ssa.Value) bool {
		ex, ok := v.(*ssa.Extract)
		if !ok || ex.Index != 0 {
			if ok {
				if c2, isC := ex.Tuple.(*ssa.Call); isC {
					if sc := c2.Call.StaticCallee(); sc != nil && sc.Pkg == h.Pkg && condPassThrough(sc, depth+1) == ex.Index {
						return true
					}
				}
			}
			return false
		}
		call, ok := ex.Tuple.(*ssa.Call)
		if !ok {
			return false
		}
		pkg, name := calleePkgName(&call.Call)
		if strings.Contains(pkg, "cockroachdb/apd") && strings.HasPrefix(name, "Context.") {
			return true
		}
		// the operation handed in as a function-typed parameter whose first parameter is the context
		if prm, isP := call.Call.Value.(*ssa.Parameter); isP && !call.Call.IsInvoke() {
			if sig, okS := prm.Type().Underlying().(*types.Signature); okS && sig.Params().Len() > 0 {
				t := sig.Params().At(0).Type().String()
				if strings.Contains(t, "apd") && strings.HasSuffix(t, "Context") {
					return true
				}
			}
		}
		_, what := mutatedArg(&call.Call)
		return strings.HasPrefix(what, "apd.Context.")
	}
	n := 0
	for _, b := range h.Blocks {
		ret, isR := b.Instrs[len(b.Instrs)-1].(*ssa.Return)
		if !isR || idx >= len(ret.Results) {
			continue
		}
		n++
		if !isOpCond(ret.Results[idx]) {
			return -1
		}
	}
	if n == 0 {
		return -1
	}
	return idx
}

// guarded: every success return of fn lies behind pred(subject) == want.
func (q *guardQuery) guarded(fn *ssa.Function, subj guardSubject, depth int) (bool, string) {
	key := fmt.Sprintf("%s|%s|%d", fn.String(), subj.kind, subj.param)
	for _, prm := range fn.Params {
		if f := q.binds[prm]; f != nil {
			key += "|" + prm.Name() + "=" + f.String()
		}
	}
	if v, ok := q.memo[key]; ok {
		return v, ""
	}
	if q.visited[key] || depth < 0 {
		return false, "recursion"
	}
	q.visited[key] = true
	defer delete(q.visited, key)
	ok, why := q.guardedUncached(fn, subj, depth)
	q.memo[key] = ok
	return ok, why
}

func (q *guardQuery) guardedUncached(fn *ssa.Function, subj guardSubject, depth int) (bool, string) {
	if len(fn.Blocks) == 0 {
		return false, "no body"
	}
	paths, complete := enumPaths(fn, 4000)
	if !complete {
		return false, "too many paths"
	}
	idx := errResultIndex(fn.Signature)
	nSucc := 0
	for _, bp := range paths {
		last := bp[len(bp)-1]
		r := last.Instrs[len(last.Instrs)-1].(*ssa.Return)
		// first pass to resolve phis, then name the subject for this return
		pf0 := pathFacts(fn, bp, nil)
		if pf0 == nil {
			continue // infeasible
		}
		// is this a success return on this path?
		if idx >= 0 && idx < len(r.Results) {
			ev := r.Results[idx]
			if ph, ok := ev.(*ssa.Phi); ok {
				if e, ok := pf0.phis[ph]; ok {
					ev = e
				}
			}
			if provablyNonNilErr(ev) {
				continue
			}
			// err known non-nil by a decision on this path
			nn := &pgNamer{fn: fn, ids: map[ssa.Value]string{}, phis: pf0.phis}
			if v, seen := pf0.lits["("+orderPair(nn.term(ev, 0), "nil")+")"]; seen && !v {
				continue
			}
			if w, isWrap := wrapArg(ev); isWrap {
				if v, seen := pf0.lits["("+orderPair(nn.term(w, 0), "nil")+")"]; seen && !v {
					continue
				}
			}
		}
		nSucc++
		roots := subjectRoots(fn, subj, r, pf0.phis)
		if len(roots) == 0 {
			return false, "subject not identifiable at " + fmt.Sprint(r.Pos())
		}
		pf := pathFacts(fn, bp, roots)
		if pf == nil {
			continue
		}
		n := &pgNamer{fn: fn, roots: roots, ids: map[ssa.Value]string{}, phis: pf.phis}
		q.expandBoundPredicates(fn, bp, pf, n)
		callTerm := q.pred + "(S)"
		val := evalPred(callTerm, q.dnf, pf.lits)
		if (val == 1 && q.want) || (val == -1 && !q.want) {
			continue
		}
		// helpers: a same-package call whose error is known nil on this path (or is the returned error)
		okByHelper := false
		for _, b := range bp {
			for _, in := range b.Instrs {
				call, isCall := in.(*ssa.Call)
				if !isCall {
					continue
				}
				h := call.Call.StaticCallee()
				if h == nil || h == fn || len(h.Blocks) == 0 || fnPkgPath(h) != fnPkgPath(fn) {
					continue
				}
				ev := errValueOf(call)
				if ev == nil {
					continue
				}
				succeeded := false
				if v, seen := pf.lits["("+orderPair(n.term(ev, 0), "nil")+")"]; seen && v {
					succeeded = true
				}
				if idx >= 0 && idx < len(r.Results) {
					rv := r.Results[idx]
					if ph, ok := rv.(*ssa.Phi); ok {
						if e, ok := pf.phis[ph]; ok {
							rv = e
						}
					}
					if rv == ev {
						succeeded = true
					}
					if w, isWrap := wrapArg(rv); isWrap && w == ev {
						succeeded = true
					}
				}
				if !succeeded {
					continue
				}
				// function values handed to the helper (predicates, checks) are bound for its evaluation
				saved := q.binds
				q.binds = map[*ssa.Parameter]*ssa.Function{}
				for j, a := range call.Call.Args {
					if j < len(h.Params) {
						if f := funcValueOf(a, saved); f != nil {
							q.binds[h.Params[j]] = f
						}
					}
				}
				// (a) the helper receives the subject
				for j, a := range call.Call.Args {
					if n.term(a, 0) == "S" || n.term(a, 0) == "&S" {
						if ok, _ := q.guarded(h, guardSubject{kind: "param", param: j}, depth-1); ok {
							okByHelper = true
						}
					}
				}
				// (b) the subject IS the helper's result
				if ex := extractOf(call, 0); ex != nil && roots[ex] == "S" {
					if ok, _ := q.guarded(h, guardSubject{kind: "result"}, depth-1); ok {
						okByHelper = true
					}
				}
				if call.Call.Signature().Results().Len() == 1 {
					// helper returning only an error cannot be the result
				} else if roots[call] == "S" {
					if ok, _ := q.guarded(h, guardSubject{kind: "result"}, depth-1); ok {
						okByHelper = true
					}
				}
				// (c) the helper performs the operation and tests its flags itself
				if subj.kind == "op" {
					if ok, _ := q.guarded(h, subj, depth-1); ok {
						okByHelper = true
					}
				}
				q.binds = saved
			}
		}
		if okByHelper {
			continue
		}
		var ls []string
		for t, v := range pf.lits {
			ls = append(ls, fmt.Sprintf("%s=%v", t, v))
		}
		sort.Strings(ls)
		return false, fmt.Sprintf("a path to the success return at line %d decides only {%s}", posLine(fn, r), strings.Join(ls, "; "))
	}
	if nSucc == 0 {
		return false, "no success return"
	}
	return true, ""
}

func posLine(fn *ssa.Function, r *ssa.Return) int {
	if fn.Prog == nil {
		return 0
	}
	return fn.Prog.Fset.Position(r.Pos()).Line
}

func orderPair(a, b string) string {
	if b < a {
		a, b = b, a
	}
	return a + " == " + b
}

// wrapArg: errors.Wrap(err, …) has the nil-ness of err.
func wrapArg(v ssa.Value) (ssa.Value, bool) {
	call, ok := v.(*ssa.Call)
	if !ok || len(call.Call.Args) == 0 {
		return nil, false
	}
	_, name := calleePkgName(&call.Call)
	if (name == "Wrap" || name == "Wrapf") && call.Call.StaticCallee() != nil && call.Call.StaticCallee().Signature.Recv() == nil {
		return call.Call.Args[0], true
	}
	return nil, false
}

var _ = types.Typ

// expandBoundPredicates: a branch on `check(S)` where check is a function-valued parameter bound by the
// caller to a same-package predicate (or closure) is a branch on what that predicate tests: its atoms,
// with the predicate's own parameter standing for the subject, are added to the path literals.
func (q *guardQuery) expandBoundPredicates(fn *ssa.Function, bp []*ssa.BasicBlock, pf *pgPath, n *pgNamer) {
	if len(q.binds) == 0 {
		return
	}
	for i, b := range bp {
		ifi, ok := b.Instrs[len(b.Instrs)-1].(*ssa.If)
		if !ok || i+1 >= len(bp) {
			continue
		}
		cond, neg := ifi.Cond, false
		for k := 0; k < 4; k++ {
			if u, isU := cond.(*ssa.UnOp); isU && u.Op == token.NOT {
				cond, neg = u.X, !neg
				continue
			}
			break
		}
		call, isCall := cond.(*ssa.Call)
		if !isCall || call.Call.IsInvoke() || call.Call.StaticCallee() != nil || len(call.Call.Args) != 1 {
			continue
		}
		prm, isP := call.Call.Value.(*ssa.Parameter)
		if !isP || q.binds[prm] == nil {
			continue
		}
		if t := n.term(call.Call.Args[0], 0); t != "S" && t != "&S" {
			continue
		}
		val := (bp[i+1] == b.Succs[0]) != neg // value of check(S) on this path
		dnf := predDNF(q.binds[prm])
		if val && len(dnf) == 1 {
			for t, v := range dnf[0] {
				if _, seen := pf.lits[t]; !seen {
					pf.lits[t] = v
				}
			}
		}
		if !val && len(dnf) == 1 && len(dnf[0]) == 1 {
			for t, v := range dnf[0] {
				if _, seen := pf.lits[t]; !seen {
					pf.lits[t] = !v
				}
			}
		}
	}
}

package main

import (
	"encoding/json"
	"fmt"
	"os"
	"path/filepath"
	"sort"
	"strings"
	"time"
)

var verifRoot = "/verif"

// Status of one rule instance.
const (
	Holds     = "holds"
	Violated  = "violated"
	Undecided = "undecided"
	Info      = "info"
)

// Oblig is one evaluated rule instance. Keyed by Rule+Construct (never a line).
type Oblig struct {
	Rule       string `json:"rule"`
	Construct  string `json:"construct"`
	Status     string `json:"status"`
	Pos        string `json:"pos,omitempty"`
	Detail     string `json:"detail,omitempty"`
	Nontrivial bool   `json:"nontrivial"`
	Sample     any    `json:"sample,omitempty"`
}

type Minimum struct {
	Name     string `json:"name"`
	Expected int    `json:"expected_min"`
	Measured int    `json:"measured"`
	OK       bool   `json:"ok"`
}

type Canary struct {
	Rule  string `json:"rule"`
	Fired bool   `json:"fired"`
	Note  string `json:"note,omitempty"`
}

// Ctx collects everything one property check produces.
type Ctx struct {
	Prop        string
	Tier        string
	Start       time.Time
	Obligs      []Oblig
	Minimums    []Minimum
	Canaries    []Canary
	Analysed    map[string]int
	Explanation string
	Assumptions []string
	NotDecided  []string
	Extra       map[string]any
	seen        map[string]bool
	canaryHits  map[string]int
}

// ExpectCanary declares that rule must have fired on the canary package.
func (c *Ctx) ExpectCanary(rules ...string) {
	for _, r := range rules {
		c.Canaries = append(c.Canaries, Canary{Rule: r, Fired: c.canaryHits[r] > 0, Note: fmt.Sprintf("%d hits on the overlay canary package", c.canaryHits[r])})
	}
}

func NewCtx(prop, tier string) *Ctx {
	return &Ctx{Prop: prop, Tier: tier, Start: time.Now(), Analysed: map[string]int{}, Extra: map[string]any{}, seen: map[string]bool{}, canaryHits: map[string]int{}}
}

func (c *Ctx) add(o Oblig) {
	if strings.Contains(o.Construct, canaryPkgName) || strings.Contains(o.Pos, canaryPkgName) {
		// findings on the canary package prove the rule can fire; they are never violations of the tree
		if o.Status == Violated || o.Status == Undecided {
			c.canaryHits[o.Rule]++
		}
		return
	}
	k := o.Rule + "|" + o.Construct
	if c.seen[k] {
		// same construct evaluated twice (e.g. via two entry points): keep the worse.
		for i := range c.Obligs {
			if c.Obligs[i].Rule == o.Rule && c.Obligs[i].Construct == o.Construct {
				if rank(o.Status) > rank(c.Obligs[i].Status) {
					c.Obligs[i] = o
				}
				return
			}
		}
	}
	c.seen[k] = true
	c.Obligs = append(c.Obligs, o)
}

func rank(s string) int {
	switch s {
	case Violated:
		return 3
	case Undecided:
		return 2
	case Holds:
		return 1
	}
	return 0
}

func (c *Ctx) Hold(rule, construct, pos, detail string, sample any) {
	c.add(Oblig{Rule: rule, Construct: construct, Status: Holds, Pos: pos, Detail: detail, Nontrivial: true, Sample: sample})
}
func (c *Ctx) Trivial(rule, construct, pos, detail string) {
	c.add(Oblig{Rule: rule, Construct: construct, Status: Holds, Pos: pos, Detail: detail, Nontrivial: false})
}
func (c *Ctx) Violate(rule, construct, pos, detail string, sample any) {
	c.add(Oblig{Rule: rule, Construct: construct, Status: Violated, Pos: pos, Detail: detail, Nontrivial: true, Sample: sample})
}
func (c *Ctx) Undecide(rule, construct, pos, detail string) {
	c.add(Oblig{Rule: rule, Construct: construct, Status: Undecided, Pos: pos, Detail: detail, Nontrivial: true})
}
func (c *Ctx) Note(rule, construct, pos, detail string) {
	c.add(Oblig{Rule: rule, Construct: construct, Status: Info, Pos: pos, Detail: detail})
}

// Check records ok ? Hold : Violate.
func (c *Ctx) Check(ok bool, rule, construct, pos, detail string) {
	if ok {
		c.Hold(rule, construct, pos, detail, nil)
	} else {
		c.Violate(rule, construct, pos, detail, nil)
	}
}

func (c *Ctx) Min(name string, expected, measured int) {
	c.Minimums = append(c.Minimums, Minimum{name, expected, measured, measured >= expected})
}

func (c *Ctx) CanaryResult(rule string, fired bool, note string) {
	c.Canaries = append(c.Canaries, Canary{rule, fired, note})
}

func (c *Ctx) Count(what string, n int) { c.Analysed[what] += n }

// ---- known findings --------------------------------------------------------

type KnownFinding struct {
	Property  string `json:"property"`
	Rule      string `json:"rule"`
	Construct string `json:"construct"`
	What      string `json:"what"`
	Status    string `json:"status"` // open | fixed
	Commit    string `json:"commit,omitempty"`
	ID        string `json:"id,omitempty"`
}

func loadKnown() []KnownFinding {
	b, err := os.ReadFile(filepath.Join(verifRoot, "known_findings.json"))
	if err != nil {
		return nil
	}
	var f struct {
		Findings []KnownFinding `json:"findings"`
	}
	if json.Unmarshal(b, &f) != nil {
		return nil
	}
	return f.Findings
}

// ---- finishing -------------------------------------------------------------

type replayFile struct {
	Property  string `json:"property"`
	Rule      string `json:"rule"`
	Construct string `json:"construct"`
	Kind      string `json:"kind"`
	Pos       string `json:"pos"`
	Detail    string `json:"detail"`
	Sample    any    `json:"sample,omitempty"`
}

// Finish prints the report, writes evidence, returns the exit code.
func (c *Ctx) Finish() int {
	known := loadKnown()
	sort.SliceStable(c.Obligs, func(i, j int) bool {
		if c.Obligs[i].Rule != c.Obligs[j].Rule {
			return c.Obligs[i].Rule < c.Obligs[j].Rule
		}
		return c.Obligs[i].Construct < c.Obligs[j].Construct
	})
	// vacuity: minimums and canaries become obligations
	for _, m := range c.Minimums {
		if !m.OK {
			c.Obligs = append(c.Obligs, Oblig{Rule: c.Prop + ".MIN", Construct: m.Name, Status: Undecided, Nontrivial: true,
				Detail: fmt.Sprintf("instance count %d below hand-confirmed minimum %d: the rule no longer sees what it was confirmed on", m.Measured, m.Expected)})
		}
	}
	for _, cn := range c.Canaries {
		if !cn.Fired {
			c.Obligs = append(c.Obligs, Oblig{Rule: c.Prop + ".CANARY", Construct: cn.Rule, Status: Undecided, Nontrivial: true,
				Detail: "positive example did not trigger the rule: " + cn.Note})
		}
	}
	if os.Getenv("LEDGERLINT_VERBOSE") != "" {
		for _, o := range c.Obligs {
			fmt.Printf("  %s: [%s] %s %s: %s\n", o.Pos, o.Status, o.Rule, o.Construct, o.Detail)
		}
	}
	replayDir := filepath.Join(verifRoot, "evidence", "replays")
	os.MkdirAll(replayDir, 0o755)
	// remove stale replay files of this property
	if old, _ := filepath.Glob(filepath.Join(replayDir, c.Prop+"-*.json")); old != nil {
		for _, f := range old {
			os.Remove(f)
		}
	}
	var nViol, nKnown, nHold, nNontriv, nInfo int
	var knownSeen []string
	distinct := map[string]bool{}
	n := 0
	for _, o := range c.Obligs {
		switch o.Status {
		case Holds:
			nHold++
		case Info:
			nInfo++
			continue
		}
		if o.Nontrivial {
			distinct[o.Rule+"|"+o.Construct] = true
		}
		if o.Status != Violated && o.Status != Undecided {
			continue
		}
		// known?
		matched := false
		if o.Status == Violated {
			for _, k := range known {
				if k.Status == "open" && k.Property == c.Prop && k.Rule == o.Rule && k.Construct == o.Construct {
					matched = true
					fmt.Printf("KNOWN-FINDING: property=%s rule=%s construct=%s at %s — %s\n", c.Prop, o.Rule, o.Construct, o.Pos, k.What)
					knownSeen = append(knownSeen, o.Rule+" "+o.Construct)
					break
				}
			}
		}
		if matched {
			nKnown++
			continue
		}
		nViol++
		n++
		rp := filepath.Join(replayDir, fmt.Sprintf("%s-%d.json", c.Prop, n))
		b, _ := json.MarshalIndent(replayFile{c.Prop, o.Rule, o.Construct, o.Status, o.Pos, o.Detail, o.Sample}, "", " ")
		os.WriteFile(rp, b, 0o644)
		fmt.Printf("%s: [%s] %s %s: %s\n", o.Pos, o.Status, o.Rule, o.Construct, o.Detail)
		fmt.Printf("VIOLATION property=%s replay=%s\n", c.Prop, rp)
	}
	nNontriv = len(distinct)
	total := 0
	for _, o := range c.Obligs {
		if o.Status != Info {
			total++
		}
	}
	// samples: a spread of real obligations (first of each rule, up to 12), plus all non-holding
	var samples []any
	perRule := map[string]int{}
	for _, o := range c.Obligs {
		if o.Status == Info {
			continue
		}
		if o.Status == Holds && (perRule[o.Rule] >= 2 || !o.Nontrivial) {
			continue
		}
		perRule[o.Rule]++
		if len(samples) < 40 {
			samples = append(samples, o)
		}
	}
	if len(samples) == 0 {
		for _, o := range c.Obligs {
			samples = append(samples, o)
			if len(samples) >= 3 {
				break
			}
		}
	}
	rules := map[string]map[string]int{}
	for _, o := range c.Obligs {
		if rules[o.Rule] == nil {
			rules[o.Rule] = map[string]int{}
		}
		rules[o.Rule][o.Status]++
	}
	var infos []Oblig
	for _, o := range c.Obligs {
		if o.Status == Info {
			infos = append(infos, o)
		}
	}
	cov := map[string]any{
		"explanation":         c.Explanation,
		"obligations":         total,
		"discharged":          nHold,
		"evaluations":         total,
		"distinct_nontrivial": nNontriv,
		"rule":                "obligations are enumerated exhaustively from /repo's type-checked program (one per rule instance, keyed rule+construct); non-trivial = the instance inspects at least one effect, fact, call site or constraint (instances that only state 'this function touches nothing relevant' are trivial)",
		"samples":             samples,
		"per_rule":            rules,
		"analysed":            c.Analysed,
		"minimums":            c.Minimums,
		"canaries":            c.Canaries,
		"known_findings_seen": knownSeen,
		"not_decided":         c.NotDecided,
		"notes":               infos,
		"exhaustive":          true,
		"checker_cmd":         "./run check " + c.Prop + " " + c.Tier,
		"trusted_base":        []string{"go/types, go/ssa (x/tools v0.29.0)", "this checker", "summaries of ORM/bank/apd behaviour listed under assumptions"},
	}
	for k, v := range c.Extra {
		cov[k] = v
	}
	seed := 0
	fmt.Sscanf(os.Getenv("VERIF_SEED"), "%d", &seed)
	ev := map[string]any{
		"property_id": c.Prop,
		"tier":        c.Tier,
		"seed":        seed,
		"level":       "other",
		"coverage":    cov,
		"assumptions": c.Assumptions,
		"wall_s":      time.Since(c.Start).Seconds(),
		"violations":  nViol,
	}
	b, _ := json.MarshalIndent(ev, "", " ")
	os.MkdirAll(filepath.Join(verifRoot, "evidence"), 0o755)
	if err := os.WriteFile(filepath.Join(verifRoot, "evidence", c.Prop+".json"), b, 0o644); err != nil {
		fmt.Println("cannot write evidence:", err)
		return 2
	}
	var rl []string
	for r, m := range rules {
		rl = append(rl, fmt.Sprintf("%s[%s]", r, statusSummary(m)))
	}
	sort.Strings(rl)
	fmt.Printf("%s %s: %d obligations, %d hold, %d known findings, %d violations/undecided; %s; %.1fs\n",
		c.Prop, c.Tier, total, nHold, nKnown, nViol, strings.Join(rl, " "), time.Since(c.Start).Seconds())
	if nViol > 0 {
		return 1
	}
	return 0
}

func statusSummary(m map[string]int) string {
	var ks []string
	for k := range m {
		ks = append(ks, k)
	}
	sort.Strings(ks)
	var out []string
	for _, k := range ks {
		out = append(out, fmt.Sprintf("%s=%d", k, m[k]))
	}
	return strings.Join(out, ",")
}

// importObligations runs another property's check into a scratch context and re-reports, under newRule,
// the obligations accepted by keep that are violated or undecided there. It is how a property states
// that it *relies* on a structural fact another check establishes (BeginBlock cannot fail only while
// escrow covers the open orders; a query by IRI finds a record only if the parser accepts what the
// encoder writes): the same defect then shows under every property it breaks. When nothing is
// violated one "holds" obligation records how many obligations were relied upon.
func importObligations(c *Ctx, e *Env, run func(*Ctx, *Env), fromProp, newRule, construct, what string, keep func(o *Oblig) bool) {
	if e.importDepth > 0 {
		return // imports do not nest: the imported check is run for its own rules only
	}
	e.importDepth++
	tmp := NewCtx(fromProp, c.Tier)
	run(tmp, e)
	e.importDepth--
	n, bad := 0, 0
	for i := range tmp.Obligs {
		o := &tmp.Obligs[i]
		if !keep(o) {
			continue
		}
		n++
		switch o.Status {
		case Violated:
			bad++
			c.Violate(newRule, o.Rule+":"+o.Construct, o.Pos, o.Detail+" ("+what+")", nil)
		case Undecided:
			bad++
			c.Undecide(newRule, o.Rule+":"+o.Construct, o.Pos, o.Detail+" ("+what+")")
		}
	}
	if bad == 0 {
		c.Check(n > 0, newRule, construct, "-", fmt.Sprintf("%d obligations of %s hold: %s", n, fromProp, what))
	}
}

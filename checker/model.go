package main

// Program model shared by all engines: ORM schema (from go/types of the api
// packages), entry points (generated MsgServer/QueryServer interfaces and the
// concrete types implementing them), message → signer field.

import (
	"go/types"
	"sort"
	"strings"

	"golang.org/x/tools/go/packages"
	"golang.org/x/tools/go/ssa"
)

// Table is one ORM table or singleton.
type Table struct {
	Name      string       // e.g. BatchBalance
	APIPkg    string       // short api package path
	Iface     *types.Named // <Name>Table interface
	Row       *types.Named // row struct
	Methods   map[string]*types.Func
	PK        []string            // primary key parameter names of Get (snake→as generated)
	Unique    map[string][]string // GetByX → param names
	AutoInc   bool
	Singleton bool
}

// ORM op classification by method name.
func ormOpKind(name string) string {
	switch {
	case name == "Insert" || name == "InsertReturningID":
		return "insert"
	case name == "Update":
		return "update"
	case name == "Save":
		return "save"
	case name == "Delete":
		return "delete"
	case name == "DeleteBy" || name == "DeleteRange":
		return "deleterange"
	case name == "Get" || strings.HasPrefix(name, "GetBy"):
		return "get"
	case name == "Has" || strings.HasPrefix(name, "HasBy"):
		return "has"
	case name == "List" || name == "ListRange":
		return "list"
	}
	return ""
}

func isWriteOp(kind string) bool {
	switch kind {
	case "insert", "update", "save", "delete", "deleterange":
		return true
	}
	return false
}

type EntryPoint struct {
	Kind        string // msg | query | beginblock | genesis | invariant
	Service     string // base | basket | marketplace | data | intertx
	Name        string // method name
	Fn          *ssa.Function
	Req         *types.Named // request message struct (msg/query)
	SignerField string       // msg only
	Implemented bool
}

func (e *EntryPoint) Key() string { return e.Service + "." + e.Name }

type Model struct {
	P       *Program
	Tables  map[string]*Table          // by Name
	byIface map[*types.TypeName]*Table // interface type name → table
	byRow   map[*types.TypeName]*Table
	Entries []*EntryPoint
}

func (m *Model) TableOfIface(t types.Type) *Table {
	n, ok := types.Unalias(t).(*types.Named)
	if !ok {
		return nil
	}
	return m.byIface[n.Obj()]
}

func (m *Model) TableOfRow(t types.Type) *Table {
	if p, ok := t.(*types.Pointer); ok {
		t = p.Elem()
	}
	n, ok := types.Unalias(t).(*types.Named)
	if !ok {
		return nil
	}
	return m.byRow[n.Obj()]
}

func paramNames(sig *types.Signature, skip int) []string {
	var out []string
	for i := skip; i < sig.Params().Len(); i++ {
		out = append(out, sig.Params().At(i).Name())
	}
	return out
}

// snakeToCamel converts class_key → ClassKey (generated Go field names).
func snakeToCamel(s string) string {
	parts := strings.Split(s, "_")
	for i, p := range parts {
		if p == "" {
			continue
		}
		parts[i] = strings.ToUpper(p[:1]) + p[1:]
	}
	return strings.Join(parts, "")
}

func serviceOfPkg(path string) string {
	sp := shortPkg(path)
	switch {
	case strings.Contains(sp, "x/ecocredit") && strings.Contains(sp, "/basket"):
		return "basket"
	case strings.Contains(sp, "x/ecocredit") && strings.Contains(sp, "/marketplace"):
		return "marketplace"
	case strings.Contains(sp, "x/ecocredit"):
		return "base"
	case strings.Contains(sp, "x/data"):
		return "data"
	case strings.Contains(sp, "x/intertx"):
		return "intertx"
	}
	return sp
}

func BuildModel(p *Program) *Model {
	m := &Model{P: p, Tables: map[string]*Table{}, byIface: map[*types.TypeName]*Table{}, byRow: map[*types.TypeName]*Table{}}
	// --- schema from api packages
	for _, pk := range p.RepoList {
		if !strings.Contains(pk.PkgPath, "/api/v2/") {
			continue
		}
		sc := pk.Types.Scope()
		for _, name := range sc.Names() {
			if !strings.HasSuffix(name, "Table") {
				continue
			}
			tn, ok := sc.Lookup(name).(*types.TypeName)
			if !ok {
				continue
			}
			nt, ok := tn.Type().(*types.Named)
			if !ok {
				continue
			}
			it, ok := nt.Underlying().(*types.Interface)
			if !ok {
				continue
			}
			t := &Table{Name: strings.TrimSuffix(name, "Table"), APIPkg: shortPkg(pk.PkgPath), Iface: nt, Methods: map[string]*types.Func{}, Unique: map[string][]string{}}
			for i := 0; i < it.NumMethods(); i++ {
				f := it.Method(i)
				t.Methods[f.Name()] = f
				sig := f.Type().(*types.Signature)
				switch {
				case f.Name() == "Save" || f.Name() == "Insert":
					if sig.Params().Len() == 2 {
						if pt, ok := sig.Params().At(1).Type().(*types.Pointer); ok {
							if rn, ok := types.Unalias(pt.Elem()).(*types.Named); ok {
								t.Row = rn
							}
						}
					}
				case f.Name() == "InsertReturningID":
					t.AutoInc = true
				case f.Name() == "Get":
					t.PK = paramNames(sig, 1)
					if sig.Params().Len() == 1 {
						t.Singleton = true
					}
				case strings.HasPrefix(f.Name(), "GetBy"):
					t.Unique[f.Name()] = paramNames(sig, 1)
				}
			}
			if t.Row == nil {
				continue
			}
			m.Tables[t.Name] = t
			m.byIface[tn] = t
			m.byRow[t.Row.Obj()] = t
		}
	}
	m.findEntries()
	return m
}

// findEntries locates generated MsgServer/QueryServer interfaces in repo
// packages and the concrete (non-generated, non-mock) types implementing them.
func (m *Model) findEntries() {
	p := m.P
	type ifaceInfo struct {
		kind string
		it   *types.Interface
		pk   *packages.Package
	}
	var ifaces []ifaceInfo
	for _, pk := range p.RepoList {
		if strings.Contains(pk.PkgPath, "/api/v2/") {
			continue
		}
		for _, nm := range []string{"MsgServer", "QueryServer"} {
			tn, ok := pk.Types.Scope().Lookup(nm).(*types.TypeName)
			if !ok {
				continue
			}
			it, ok := tn.Type().Underlying().(*types.Interface)
			if !ok {
				continue
			}
			kind := "msg"
			if nm == "QueryServer" {
				kind = "query"
			}
			ifaces = append(ifaces, ifaceInfo{kind, it, pk})
		}
	}
	for _, ii := range ifaces {
		// skip legacy v1alpha1 etc. interfaces that have no implementation
		for _, pk := range p.RepoList {
			sp := shortPkg(pk.PkgPath)
			if strings.Contains(sp, "/mocks") || strings.Contains(sp, "/api/v2/") {
				continue
			}
			sc := pk.Types.Scope()
			for _, name := range sc.Names() {
				tn, ok := sc.Lookup(name).(*types.TypeName)
				if !ok || tn.IsAlias() {
					continue
				}
				if _, ok := tn.Type().Underlying().(*types.Struct); !ok {
					continue
				}
				if isGeneratedFile(p.Fset.Position(tn.Pos()).Filename) {
					continue
				}
				var recv types.Type = tn.Type()
				if !types.Implements(recv, ii.it) {
					recv = types.NewPointer(tn.Type())
					if !types.Implements(recv, ii.it) {
						continue
					}
				}
				// value receiver preferred when it implements
				ms := types.NewMethodSet(recv)
				for i := 0; i < ii.it.NumMethods(); i++ {
					im := ii.it.Method(i)
					sel := ms.Lookup(im.Pkg(), im.Name())
					if sel == nil {
						continue
					}
					fobj := sel.Obj().(*types.Func)
					impl := !isGeneratedFile(p.Fset.Position(fobj.Pos()).Filename)
					ep := &EntryPoint{Kind: ii.kind, Service: serviceOfPkg(pk.PkgPath), Name: im.Name(), Implemented: impl}
					if p.SSA != nil {
						ep.Fn = p.SSA.MethodValue(sel)
					}
					sig := im.Type().(*types.Signature)
					if sig.Params().Len() == 2 {
						if pt, ok := sig.Params().At(1).Type().(*types.Pointer); ok {
							if rn, ok := types.Unalias(pt.Elem()).(*types.Named); ok {
								ep.Req = rn
							}
						}
					}
					// the data and ecocredit servers wrap keepers; keep only the
					// implementation that is declared directly on this type.
					if impl && len(sel.Index()) > 1 {
						// promoted from an embedded non-generated type: attribute to that type instead
						continue
					}
					if !impl && len(sel.Index()) == 1 {
						continue
					}
					m.Entries = append(m.Entries, ep)
				}
			}
		}
	}
	// dedupe (same fn)
	seen := map[string]bool{}
	var out []*EntryPoint
	for _, e := range m.Entries {
		k := e.Kind + "|" + e.Key()
		if e.Fn != nil {
			k += "|" + e.Fn.String()
		}
		if seen[k] {
			continue
		}
		seen[k] = true
		out = append(out, e)
	}
	sort.Slice(out, func(i, j int) bool {
		if out[i].Kind != out[j].Kind {
			return out[i].Kind < out[j].Kind
		}
		return out[i].Key() < out[j].Key()
	})
	m.Entries = out
	for _, e := range m.Entries {
		if e.Kind == "msg" && e.Req != nil {
			e.SignerField = m.signerField(e.Req)
		}
	}
}

// signerField extracts from the SSA of (*Req).GetSigners / (Req).GetSigners the
// single request field whose bech32 decoding is returned.
func (m *Model) signerField(req *types.Named) string {
	if m.P.SSA == nil {
		return ""
	}
	var fn *ssa.Function
	for _, recv := range []types.Type{req, types.NewPointer(req)} {
		ms := m.P.SSA.MethodSets.MethodSet(recv)
		if sel := ms.Lookup(req.Obj().Pkg(), "GetSigners"); sel != nil {
			fn = m.P.SSA.MethodValue(sel)
			if fn != nil && fn.Synthetic == "" {
				break
			}
		}
	}
	if fn == nil {
		return ""
	}
	// unwrap synthetic wrapper (*T).GetSigners → T.GetSigners
	if fn.Synthetic != "" {
		for _, b := range fn.Blocks {
			for _, in := range b.Instrs {
				if c, ok := in.(*ssa.Call); ok {
					if sc := c.Call.StaticCallee(); sc != nil && sc.Name() == "GetSigners" {
						fn = sc
					}
				}
			}
		}
	}
	fields := map[string]bool{}
	for _, b := range fn.Blocks {
		for _, in := range b.Instrs {
			c, ok := in.(*ssa.Call)
			if !ok {
				continue
			}
			sc := c.Call.StaticCallee()
			if sc == nil || (sc.Name() != "AccAddressFromBech32" && sc.Name() != "MustAccAddressFromBech32") {
				continue
			}
			if len(c.Call.Args) != 1 {
				continue
			}
			if f := fieldOfReceiverLoad(c.Call.Args[0], fn); f != "" {
				fields[f] = true
			}
		}
	}
	if len(fields) != 1 {
		return ""
	}
	for f := range fields {
		return f
	}
	return ""
}

// fieldOfReceiverLoad recognises `*(&recv.F)` or `recv.F` and returns F.
func fieldOfReceiverLoad(v ssa.Value, fn *ssa.Function) string {
	switch x := v.(type) {
	case *ssa.UnOp:
		if fa, ok := x.X.(*ssa.FieldAddr); ok {
			if isReceiver(fa.X, fn) {
				return fieldName(fa.X.Type(), fa.Field)
			}
		}
	case *ssa.Field:
		if isReceiver(x.X, fn) {
			return fieldName(x.X.Type(), x.Field)
		}
	}
	return ""
}

func isReceiver(v ssa.Value, fn *ssa.Function) bool {
	if len(fn.Params) == 0 {
		return false
	}
	if v == fn.Params[0] {
		return true
	}
	// value receiver spilled to a local
	if a, ok := v.(*ssa.Alloc); ok {
		for _, r := range *a.Referrers() {
			if st, ok := r.(*ssa.Store); ok && st.Addr == a && st.Val == fn.Params[0] {
				return true
			}
		}
	}
	if u, ok := v.(*ssa.UnOp); ok {
		return isReceiver(u.X, fn)
	}
	return false
}

func fieldName(t types.Type, idx int) string {
	if p, ok := t.Underlying().(*types.Pointer); ok {
		t = p.Elem()
	}
	if s, ok := t.Underlying().(*types.Struct); ok && idx < s.NumFields() {
		return s.Field(idx).Name()
	}
	return "?"
}

// ORMCall describes an invoke on a table interface.
type ORMCall struct {
	Table  *Table
	Method string
	Kind   string
	Call   ssa.CallInstruction
}

// AsORMCall recognises invoke-mode calls on <T>Table interfaces by type identity.
func (m *Model) AsORMCall(ci ssa.CallInstruction) *ORMCall {
	cc := ci.Common()
	if !cc.IsInvoke() {
		return nil
	}
	t := m.TableOfIface(cc.Value.Type())
	if t == nil {
		t = m.tableBehindLocalIface(cc)
	}
	if t == nil {
		return nil
	}
	k := ormOpKind(cc.Method.Name())
	return &ORMCall{Table: t, Method: cc.Method.Name(), Kind: k, Call: ci}
}

// tableBehindLocalIface: a call through a hand-written interface that a generated table interface
// satisfies (type resolverInserter interface{ InsertReturningID(ctx, *api.Resolver) (uint64, error) })
// is a call on that table. The table is identified by the row type in the method's signature when
// several tables satisfy the interface; a read whose table stays ambiguous (Has(ctx, string)) is
// left to the path explorer, which knows the dynamic table value.
func (m *Model) tableBehindLocalIface(cc *ssa.CallCommon) *Table {
	it, ok := cc.Value.Type().Underlying().(*types.Interface)
	if !ok || it.NumMethods() == 0 || it.NumMethods() > 6 {
		return nil
	}
	if ormOpKind(cc.Method.Name()) == "" {
		return nil
	}
	var cands []*Table
	for _, t := range m.Tables {
		if t.Iface != nil && types.Implements(t.Iface, it) {
			cands = append(cands, t)
		}
	}
	if len(cands) == 0 {
		return nil
	}
	if len(cands) == 1 {
		return cands[0]
	}
	sig, _ := cc.Method.Type().(*types.Signature)
	if sig != nil {
		for i := 0; i < sig.Params().Len(); i++ {
			if t := m.TableOfRow(sig.Params().At(i).Type()); t != nil {
				return t
			}
		}
		for i := 0; i < sig.Results().Len(); i++ {
			if t := m.TableOfRow(sig.Results().At(i).Type()); t != nil {
				return t
			}
		}
	}
	return nil
}

// BankCall recognises invoke-mode calls on an interface named BankKeeper
// declared in a repo package.
func AsBankCall(ci ssa.CallInstruction) string {
	cc := ci.Common()
	if !cc.IsInvoke() {
		return ""
	}
	if n, ok := types.Unalias(cc.Value.Type()).(*types.Named); ok && n.Obj().Pkg() != nil && isRepoPkgPath(n.Obj().Pkg().Path()) && n.Obj().Name() == "BankKeeper" {
		return cc.Method.Name()
	}
	// a hand-written narrow interface over the bank keeper (type coinSettler interface{ SendCoins(…); BurnCoins(…) }):
	// recognised by method name plus the sdk coin types in the signature
	if _, isIface := cc.Value.Type().Underlying().(*types.Interface); !isIface {
		return ""
	}
	name := cc.Method.Name()
	switch name {
	case "MintCoins", "BurnCoins", "SendCoins", "SendCoinsFromModuleToAccount", "SendCoinsFromAccountToModule", "SendCoinsFromModuleToModule", "GetBalance", "GetSupply", "HasBalance", "SpendableCoins", "GetAllBalances", "SetDenomMetaData":
	default:
		return ""
	}
	sig, _ := cc.Method.Type().(*types.Signature)
	if sig == nil {
		return ""
	}
	hasCoin := false
	chk := func(t types.Type) {
		if n := namedOf(t); n != nil && n.Obj().Pkg() != nil && strings.HasSuffix(n.Obj().Pkg().Path(), "cosmos-sdk/types") && (n.Obj().Name() == "Coins" || n.Obj().Name() == "Coin") {
			hasCoin = true
		}
		if n := namedOf(t); n != nil && n.Obj().Name() == "Metadata" {
			hasCoin = true
		}
	}
	for i := 0; i < sig.Params().Len(); i++ {
		chk(sig.Params().At(i).Type())
	}
	for i := 0; i < sig.Results().Len(); i++ {
		chk(sig.Results().At(i).Type())
	}
	if !hasCoin {
		return ""
	}
	return name
}

func isBankMutator(name string) bool {
	switch name {
	case "MintCoins", "BurnCoins", "SendCoins", "SendCoinsFromModuleToAccount", "SendCoinsFromAccountToModule", "SendCoinsFromModuleToModule", "SetDenomMetaData", "DelegateCoins", "UndelegateCoins":
		return true
	}
	return false
}

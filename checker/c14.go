package main

// C14 — identifiers: format ⊆ validator languages (E5), separator disjointness, sequence
// discipline, unique indexes, foreign-key provenance and no delete of referenced tables.

import (
	"fmt"
	"go/ast"
	"go/token"
	"go/types"
	"regexp"
	"sort"
	"strconv"
	"strings"

	"golang.org/x/tools/go/packages"
	"golang.org/x/tools/go/ssa"
)

func init() { register("C14", checkC14) }

const basePkg = "x/ecocredit/v3/base"
const basketPkg = "x/ecocredit/v3/basket"

type fmtSpec struct {
	pkg, fn, regexVar string
	roles             map[int]string // parameter index → language source (regex string variable in pkg or basePkg)
}

func varString(p *Program, pkgSuffix, name string) (string, bool) {
	pk := p.Pkg(pkgSuffix)
	if pk == nil {
		return "", false
	}
	all := map[string]*packages.Package{}
	for _, q := range p.RepoList {
		all[q.PkgPath] = q
	}
	for _, f := range pk.Syntax {
		for _, d := range f.Decls {
			gd, ok := d.(*ast.GenDecl)
			if !ok || (gd.Tok != token.VAR && gd.Tok != token.CONST) {
				continue
			}
			for _, sp := range gd.Specs {
				vs := sp.(*ast.ValueSpec)
				for i, n := range vs.Names {
					if n.Name == name && i < len(vs.Values) {
						return evalString(pk, all, vs.Values[i], 0)
					}
				}
			}
		}
	}
	return "", false
}

// mapStringValues: the string values of a package-level map composite literal.
func mapStringValues(p *Program, pkgSuffix, name string) ([]string, bool) {
	pk := p.Pkg(pkgSuffix)
	if pk == nil {
		return nil, false
	}
	for _, f := range pk.Syntax {
		for _, d := range f.Decls {
			gd, ok := d.(*ast.GenDecl)
			if !ok || gd.Tok != token.VAR {
				continue
			}
			for _, sp := range gd.Specs {
				vs := sp.(*ast.ValueSpec)
				for i, n := range vs.Names {
					if n.Name != name || i >= len(vs.Values) {
						continue
					}
					cl, ok := vs.Values[i].(*ast.CompositeLit)
					if !ok {
						return nil, false
					}
					var out []string
					for _, el := range cl.Elts {
						kv, ok := el.(*ast.KeyValueExpr)
						if !ok {
							return nil, false
						}
						lit, ok := kv.Value.(*ast.BasicLit)
						if !ok {
							return nil, false
						}
						s, err := strconv.Unquote(lit.Value)
						if err != nil {
							return nil, false
						}
						out = append(out, s)
					}
					return out, true
				}
			}
		}
	}
	return nil, false
}

// formatLanguage derives a regex for the strings a Format* function can return.
func formatLanguage(p *Program, m *Model, spec fmtSpec) (string, string, error) {
	fn := findFn(m, spec.pkg, spec.fn)
	if fn == nil {
		return "", "-", fmt.Errorf("function %s not found", spec.fn)
	}
	pos := p.Pos(fn.Pos())
	t := NewTermer(fn)
	// the Sprintf whose result is the first returned value
	var sp *ssa.Call
	for _, b := range fn.Blocks {
		r, ok := b.Instrs[len(b.Instrs)-1].(*ssa.Return)
		if !ok || len(r.Results) == 0 {
			continue
		}
		if call, ok := r.Results[0].(*ssa.Call); ok && calleeFullName(&call.Call) == "fmt.Sprintf" {
			if sp != nil && sp != call {
				return "", pos, fmt.Errorf("several formatting calls return the identifier")
			}
			sp = call
		} else if _, isConst := r.Results[0].(*ssa.Const); !isConst {
			return "", pos, fmt.Errorf("the identifier is not the direct result of fmt.Sprintf: %s", t.T(r.Results[0]))
		}
	}
	if sp == nil {
		return "", pos, fmt.Errorf("no fmt.Sprintf result is returned")
	}
	format, ok := constString(sp.Call.Args[0])
	if !ok {
		return "", pos, fmt.Errorf("format string is not constant")
	}
	var args []ssa.Value
	if sl, ok := sp.Call.Args[1].(*ssa.Slice); ok {
		if arr, ok := sl.X.(*ssa.Alloc); ok {
			es := elemStores(arr)
			for i := int64(0); i < int64(len(es)); i++ {
				if len(es[i]) != 1 {
					return "", pos, fmt.Errorf("vararg %d not a single value", i)
				}
				v := es[i][0]
				if mi, ok := v.(*ssa.MakeInterface); ok {
					v = mi.X
				}
				args = append(args, v)
			}
		}
	}
	var out strings.Builder
	ai := 0
	for i := 0; i < len(format); i++ {
		if format[i] != '%' {
			out.WriteString(regexp.QuoteMeta(string(format[i])))
			continue
		}
		j := i + 1
		for j < len(format) && strings.ContainsRune("0123456789", rune(format[j])) {
			j++
		}
		if j >= len(format) {
			return "", pos, fmt.Errorf("dangling verb")
		}
		flags, verb := format[i+1:j], format[j]
		i = j
		if verb == '%' {
			out.WriteString("%")
			continue
		}
		if ai >= len(args) {
			return "", pos, fmt.Errorf("missing argument for verb %d", ai)
		}
		arg := args[ai]
		ai++
		term := t.T(arg)
		switch verb {
		case 's':
			if flags != "" {
				return "", pos, fmt.Errorf("padded %%s not supported")
			}
			lang := ""
			if prm, ok := arg.(*ssa.Parameter); ok {
				for idx, q := range fn.Params {
					if q == prm {
						if src, ok := spec.roles[idx]; ok {
							pkg := spec.pkg
							if _, found := varString(p, pkg, src); !found {
								pkg = basePkg
							}
							s, found := varString(p, pkg, src)
							if !found {
								return "", pos, fmt.Errorf("language %s of parameter %s not evaluable", src, prm.Name())
							}
							lang = s
						}
					}
				}
				if lang == "" {
					return "", pos, fmt.Errorf("string parameter %s has no confirmed language", prm.Name())
				}
			} else if s, ok := constString(arg); ok {
				lang = regexp.QuoteMeta(s)
			} else if strings.HasPrefix(term, "Time.Format(") && strings.HasSuffix(term, `, "20060102")`) {
				lang = "[0-9]{8}" // years 0000–9999 (gogoproto std-time range)
			} else if strings.HasPrefix(term, "ExponentToPrefix(") {
				vals, ok := mapStringValues(p, basePkg, "exponentPrefixMap")
				if !ok {
					return "", pos, fmt.Errorf("exponentPrefixMap not evaluable")
				}
				var alts []string
				for _, v := range vals {
					alts = append(alts, regexp.QuoteMeta(v))
				}
				sort.Strings(alts)
				lang = strings.Join(alts, "|")
			} else {
				return "", pos, fmt.Errorf("string argument %s has no known language", term)
			}
			out.WriteString("(?:" + lang + ")")
		case 'd':
			max := 20
			if bt := arg.Type().Underlying().String(); bt == "uint32" || bt == "int32" {
				max = 10
			}
			signed := strings.Contains(arg.Type().Underlying().String(), "int") && !strings.HasPrefix(arg.Type().Underlying().String(), "uint")
			min := 1
			if flags != "" {
				if !strings.HasPrefix(flags, "0") {
					return "", pos, fmt.Errorf("space-padded integer in an identifier")
				}
				min, _ = strconv.Atoi(flags)
			}
			if signed {
				out.WriteString(fmt.Sprintf("-?[0-9]{%d,19}", min))
			} else {
				out.WriteString(fmt.Sprintf("[0-9]{%d,%d}", min, max))
			}
		default:
			return "", pos, fmt.Errorf("unsupported verb %%%c", verb)
		}
	}
	return out.String(), pos, nil
}

func checkC14(c *Ctx, e *Env) {
	c.Explanation = "LANG (E5, exhaustive over all strings): the language of each Format* function — derived from its fmt.Sprintf format string and argument shapes, with stored-id parameters ranging over the validator language of the id they embed, %0Nd of a uint64 as [0-9]{N,20}, time.Format(\"20060102\") as [0-9]{8} — is included in the language of the regex that validates it (regex sources evaluated from the initialisers); SEP class ids contain no '-', project ids exactly one, abbreviations no digit, so the parsers' 'text before the first/second dash' and 'leading non-digits' recover the embedded ids; the parser loops test exactly that separator and ordinal; " +
		"SEQ (E1) on every successful creation path the sequence row for the parent scope is read, the id is formatted from s = stored NextSequence (or 1 when absent) and the same path saves NextSequence = s + 1 under the same scope; nothing else writes the sequence tables; UNIQ unique indexes on Class.id, Project.id, Batch.denom, Basket.basket_denom, Basket.name exist and those rows are inserted, never saved; " +
		"FK (E1 + inventory) every stored reference column is taken from a row fetched or inserted on the same path (or, for ids given as strings, a successful lookup of that id precedes the insert), updates never change a reference column to an unfetched value, and the referenced tables have no delete site."
	c.NotDecided = []string{"runtime equality of formatted and stored strings beyond provenance", "sequence numbers ≥ 10^20 do not exist (uint64)", "failed messages consume no numbers: A3"}
	c.Assumptions = strings.Split(e1Assume, "; ")
	m, r := e1Handlers(c, e)
	p := m.P
	noteUndecided(c, m, r, "C14.E1")
	ruleIdentifierRegexps(c, m, r)
	importObligations(c, e, checkC09, "C09", "C14.GENVALID", "genesis rows#validated-by-their-own-type", "identifiers and references that enter the state through genesis are held to the same formats as those the handlers create: genesis validation hands every row of every table to the Validate method of that row's own type (a fresh message per row, no case missing)", func(o *Oblig) bool { return o.Rule == "C09.EXH" })
	// ---------------- LANG
	specs := []fmtSpec{
		{basePkg, "FormatClassID", "regexClassID", map[int]string{0: "RegexCreditTypeAbbrev"}},
		{basePkg, "FormatProjectID", "regexProjectID", map[int]string{0: "RegexClassID"}},
		{basePkg, "FormatBatchDenom", "regexBatchDenom", map[int]string{0: "RegexProjectID"}},
		{basketPkg, "FormatBasketDenom", "regexBasketDenom", map[int]string{0: "RegexBasketName", 1: "RegexCreditTypeAbbrev"}},
	}
	states := 0
	for _, sp := range specs {
		lang, pos, err := formatLanguage(p, m, sp)
		key := sp.fn + "⊆" + sp.regexVar
		if err != nil {
			c.Undecide("C14.LANG", key, pos, "format language cannot be derived: "+err.Error())
			continue
		}
		re, rpos, ok := regexSourceOf(p, sp.pkg, sp.regexVar)
		if !ok {
			c.Undecide("C14.LANG", key, rpos, "validator regex "+sp.regexVar+" is not statically evaluable")
			continue
		}
		inc, cex, n, err := langIncluded(lang, strings.TrimSuffix(strings.TrimPrefix(re, "^"), "$"))
		states += n
		if err != nil {
			c.Undecide("C14.LANG", key, pos, "inclusion not decidable: "+err.Error())
			continue
		}
		if inc {
			c.Hold("C14.LANG", key, pos, fmt.Sprintf("L(%s) ⊆ L(%s): every string /%s/ matches /%s/ (%d product states explored)", sp.fn, sp.regexVar, lang, re, n), nil)
		} else {
			c.Violate("C14.LANG", key, pos, fmt.Sprintf("%s can produce %q, which its validator /%s/ rejects (format language /%s/)", sp.fn, cex, re, lang), nil)
		}
	}
	// ---------------- VALID: each id validator accepts exactly what its regex accepts
	// (the LANG/SEP arguments range over "strings the validator accepts"; they are sound only if
	// acceptance really is a match of the anchored regex — a hand-written replacement that counts
	// bytes or uses unicode classes accepts more, e.g. a non-ASCII upper-case abbreviation)
	for _, v := range []struct{ pkg, fn, declared string }{
		{basePkg, "ValidateCreditTypeAbbreviation", "RegexCreditTypeAbbrev"},
		{basePkg, "ValidateClassID", "RegexClassID"},
		{basePkg, "ValidateProjectID", "RegexProjectID"},
		{basePkg, "ValidateBatchDenom", "RegexBatchDenom"},
		{basketPkg, "ValidateBasketName", "RegexBasketName"},
		{basketPkg, "ValidateBasketDenom", "RegexBasketDenom"},
	} {
		fn := findFn(m, v.pkg, v.fn)
		key := v.fn + "=match(" + v.declared + ")"
		if fn == nil {
			c.Undecide("C14.VALID", key, "-", "validator function not found")
			continue
		}
		declared, okD := varString(p, v.pkg, v.declared)
		if !okD {
			c.Undecide("C14.VALID", key, p.Pos(fn.Pos()), "declared regex source "+v.declared+" is not statically evaluable")
			continue
		}
		ok, why, srcs := false, "the validator has no parameter", []string(nil)
		if len(fn.Params) > 0 {
			ok, why, srcs = acceptsOnlyMatches(p, fn, fn.Params[0], nil, declared, 0)
		}
		if ok {
			c.Hold("C14.VALID", key, p.Pos(fn.Pos()), fmt.Sprintf("every success return lies behind a positive match of the argument against /%s/ ⊆ ^%s$", strings.Join(uniqStrings(srcs), " | "), declared), nil)
		} else {
			c.Violate("C14.VALID", key, p.Pos(fn.Pos()), v.fn+" does not accept exactly the strings of its regex ("+why+"): identifiers outside the declared format can be stored and then fail the validators and parsers that assume it", nil)
		}
	}
	// ---------------- GENFK: the induction base of "every stored reference resolves"
	// Genesis validation is what admits the initial state. What it resolves with a lookup that can fail
	// — batch → project → class through a store lookup of the class, class → credit type through a
	// tested map lookup — must stay resolved that way (a plain map index yields zero and checks nothing).
	{
		root := findFn(m, "x/ecocredit/v3/genesis", "ValidateGenesis")
		if root == nil {
			c.Undecide("C14.GENFK", "ValidateGenesis", "-", "genesis validation entry not found")
		} else {
			d := newDimAnalyzer(m)
			g := NewGraph(p)
			got := map[string]string{}
			for f := range g.Closure([]*ssa.Function{root}) {
				if !g.isSubjectFn(f) || fnPkgPath(f) != fnPkgPath(root) {
					continue
				}
				for k, how := range d.checkedLookups(f) {
					got[k] = how
				}
			}
			for _, want := range []struct{ dim, what string }{
				{"Class.Key", "batch → project → class"},
				{"CreditType.Abbreviation", "class → credit type"},
				{"src:BatchBalance.BatchKey", "balance → batch (every BatchBalance row's batch key)"},
			} {
				how, ok := got[want.dim]
				if ok {
					c.Hold("C14.GENFK", want.dim, p.Pos(root.Pos()), "genesis validation resolves "+want.what+" with a lookup that fails on a dangling reference ("+how+")", nil)
				} else {
					c.Violate("C14.GENFK", want.dim, p.Pos(root.Pos()), "genesis validation no longer resolves "+want.what+" with a lookup that can fail (no store lookup and no tested map lookup keyed by a "+want.dim+" value): a genesis with a dangling reference would be accepted and imported", nil)
				}
			}
		}
	}
	// ---------------- SEP
	type sepRule struct {
		key, a, b string
		inc       bool
		why       string
	}
	abbrev, _ := varString(p, basePkg, "RegexCreditTypeAbbrev")
	classRe, _ := varString(p, basePkg, "RegexClassID")
	projRe, _ := varString(p, basePkg, "RegexProjectID")
	batchRe, _ := varString(p, basePkg, "RegexBatchDenom")
	seps := []sepRule{
		{"classID-has-no-dash", classRe, `[^-]*`, true, "GetClassIDFromBatchDenom/ProjectID take the text before the first '-'"},
		{"projectID-has-one-dash", projRe, `[^-]*-[^-]*`, true, "GetProjectIDFromBatchDenom takes the text before the second '-'"},
		{"abbrev-has-no-digit", abbrev, `[^0-9]*`, true, "GetCreditTypeAbbrevFromClassID takes the leading non-digits"},
		{"classID=abbrev+digits", classRe, `(?:` + abbrev + `)[0-9]+`, true, "a class id is an abbreviation followed only by digits"},
		{"projectID=classID-digits", projRe, `(?:` + classRe + `)-[0-9]+`, true, "a project id is a class id, '-', digits"},
		{"batchDenom=projectID-rest", batchRe, `(?:` + projRe + `)-[0-9]+-[0-9]+-[0-9]+`, true, "a batch denom is a project id followed by three dash-separated digit groups"},
	}
	for _, s := range seps {
		if s.a == "" {
			c.Undecide("C14.SEP", s.key, "-", "regex source not evaluable")
			continue
		}
		ok, cex, n, err := langIncluded(s.a, s.b)
		states += n
		if err != nil {
			c.Undecide("C14.SEP", s.key, "-", err.Error())
			continue
		}
		if ok {
			c.Hold("C14.SEP", s.key, "-", fmt.Sprintf("/%s/ ⊆ /%s/ (%s)", s.a, s.b, s.why), nil)
		} else {
			c.Violate("C14.SEP", s.key, "-", fmt.Sprintf("the validator admits %q, which breaks: %s", cex, s.why), nil)
		}
	}
	c.Count("automata_product_states", states)
	// parser loops: separator constant and ordinal
	for fnName, want := range map[string][]int64{"GetClassIDFromProjectID": {'-'}, "GetClassIDFromBatchDenom": {'-'}, "GetProjectIDFromBatchDenom": {'-', 2}} {
		fn := findFn(m, basePkg, fnName)
		if fn == nil {
			c.Undecide("C14.SEP", "parser:"+fnName, "-", "parser not found")
			continue
		}
		// constants the parser (with the hand-written helpers it calls and the stop predicates / closures it
		// hands to them) compares runes with, and the integer ordinals it compares counters with
		var runeConsts, intConsts []int64
		seenFn := map[*ssa.Function]bool{}
		var scan func(f *ssa.Function, depth int)
		scan = func(f *ssa.Function, depth int) {
			if f == nil || seenFn[f] || depth > 3 || len(f.Blocks) == 0 || !isRepoPkgPath(fnPkgPath(f)) {
				return
			}
			seenFn[f] = true
			for _, b := range f.Blocks {
				for _, in := range b.Instrs {
					switch y := in.(type) {
					case *ssa.BinOp:
						if y.Op != token.EQL && y.Op != token.NEQ {
							continue
						}
						v, isC := constInt(y.Y)
						other := y.X
						if !isC {
							v, isC = constInt(y.X)
							other = y.Y
						}
						if !isC {
							continue
						}
						if bt, isB := other.Type().Underlying().(*types.Basic); isB {
							switch bt.Kind() {
							case types.Int32, types.Uint8:
								runeConsts = append(runeConsts, v)
							case types.Int, types.Int64, types.Uint, types.Uint64:
								intConsts = append(intConsts, v)
							}
						}
					case *ssa.MakeClosure:
						if cf, isF := y.Fn.(*ssa.Function); isF {
							scan(cf, depth+1)
						}
					case ssa.CallInstruction:
						cc := y.Common()
						scan(cc.StaticCallee(), depth+1)
						for _, a := range cc.Args {
							switch fv := a.(type) {
							case *ssa.Function:
								scan(fv, depth+1)
							case *ssa.MakeClosure:
								if cf, isF := fv.Fn.(*ssa.Function); isF {
									scan(cf, depth+1)
								}
							}
						}
					}
				}
			}
		}
		scan(fn, 0)
		ok := len(runeConsts) > 0
		for _, v := range runeConsts {
			if v != '-' {
				ok = false
			}
		}
		if len(want) > 1 { // the second dash
			found := false
			for _, v := range intConsts {
				if v == want[1] {
					found = true
				}
			}
			ok = ok && found
		}
		consts := append(append([]int64{}, runeConsts...), intConsts...)
		c.Check(ok, "C14.SEP", "parser:"+fnName, p.Pos(fn.Pos()), fmt.Sprintf("parser compares runes with '-' (and the dash ordinal 2 for project ids): constants %v", consts))
	}
	nDim := ruleKeyDims(c, m, "C14.KEYDIM", func(pkg string) bool { return strings.Contains(pkg, "/keeper") })
	nDim += ruleMapArgDims(c, m, "C14.KEYDIM", func(*ssa.Function) bool { return true })
	c.Count("key_dimension_sites", nDim)
	c.Min("key-dimension sites in keepers", 40, nDim)
	ruleSequences(c, p, r)
	ruleUniqueAndFK(c, m, r)
	c.Min("automata product states explored", 100, states)
}

type seqSpec struct {
	handler, seqTable, scopeField, entTable, idField, format string
}

func ruleSequences(c *Ctx, p *Program, r *E1) {
	specs := []seqSpec{
		{"base.CreateClass", "ClassSequence", "CreditTypeAbbrev", "Class", "Id", "FormatClassID("},
		{"base.CreateProject", "ProjectSequence", "ClassKey", "Project", "Id", "FormatProjectID("},
		{"base.CreateBatch", "BatchSequence", "ProjectKey", "Batch", "Denom", "FormatBatchDenom("},
	}
	for _, sp := range specs {
		h := r.byKey[sp.handler]
		if h == nil {
			c.Undecide("C14.SEQ", sp.handler, "-", "handler not found")
			continue
		}
		bad := ""
		n := 0
		for _, o := range h.Outs {
			if o.Kind != exitReturn {
				continue
			}
			st := o.St
			var saves, inserts, gets []*Event
			for i := range st.events {
				ev := &st.events[i]
				if ev.Table == nil {
					continue
				}
				if ev.Kind == "write" && ev.Table.Name == sp.seqTable {
					saves = append(saves, ev)
				}
				if ev.Kind == "write" && ev.Table.Name == sp.entTable && ev.OpKind == "insert" {
					inserts = append(inserts, ev)
				}
				if ev.Kind == "read" && ev.Table.Name == sp.seqTable && ev.OpKind == "get" {
					gets = append(gets, ev)
				}
			}
			if len(inserts) == 0 {
				continue
			}
			n++
			fail := func(why string) {
				if bad == "" {
					bad = why + " on path {" + clip(strings.Join(st.facts, " "), 400) + "}"
				}
			}
			if len(inserts) != 1 || len(saves) != 1 || len(gets) != 1 {
				fail(fmt.Sprintf("%d inserts, %d sequence saves, %d sequence reads (required 1/1/1)", len(inserts), len(saves), len(gets)))
				continue
			}
			get, save, ins := gets[0], saves[0], inserts[0]
			scope := st.canon(get.Keys[0])
			s := "1"
			if st.errs[get.ErrID] == 1 {
				s = st.mem[get.RowObj].Name + ".NextSequence"
			} else if st.errs[get.ErrID] != 2 {
				fail("sequence read has an undetermined result")
			}
			if st.canon(save.Row[sp.scopeField]) != scope {
				fail("sequence saved under scope " + st.canon(save.Row[sp.scopeField]) + " but read under " + scope)
			}
			if got := st.canon(save.Row["NextSequence"]); got != "("+s+" + 1)" && !(s == "1" && got == "2") {
				fail("saved NextSequence is " + st.canon(save.Row["NextSequence"]) + ", required (" + s + " + 1)")
			}
			if save.OpKind != "save" && save.OpKind != "update" && save.OpKind != "insert" {
				fail("sequence row written with " + save.Method)
			}
			id := st.canon(ins.Row[sp.idField])
			if !strings.HasPrefix(id, sp.format) || !(strings.Contains(id, ", "+s+")") || strings.Contains(id, ", "+s+", ")) {
				fail("inserted " + sp.idField + " is " + id + ", not " + sp.format + "…, " + s + ")")
			}
			// the scope is the parent of the entity created
			switch sp.entTable {
			case "Class":
				if st.canon(ins.Row["CreditTypeAbbrev"]) != scope {
					fail("class credit type " + st.canon(ins.Row["CreditTypeAbbrev"]) + " differs from the sequence scope " + scope)
				}
			case "Project":
				if st.canon(ins.Row["ClassKey"]) != scope {
					fail("project class key differs from the sequence scope")
				}
			case "Batch":
				if st.canon(ins.Row["ProjectKey"]) != scope {
					fail("batch project key differs from the sequence scope")
				}
			}
		}
		if bad != "" {
			c.Violate("C14.SEQ", sp.handler, p.Pos(h.Fn.Pos()), bad, nil)
		} else {
			c.Check(n > 0, "C14.SEQ", sp.handler, p.Pos(h.Fn.Pos()), fmt.Sprintf("on all %d successful creation paths: id formatted from s, NextSequence = s + 1 saved under the parent scope", n))
		}
	}
}

// fkSpec: table.field must reference refTable.refField.
type fkSpec struct{ table, field, refTable, refField string }

var fkSpecs = []fkSpec{
	{"Project", "ClassKey", "Class", "Key"},
	{"Batch", "ProjectKey", "Project", "Key"},
	{"ClassIssuer", "ClassKey", "Class", "Key"},
	{"Class", "CreditTypeAbbrev", "CreditType", "Abbreviation"},
	{"BatchBalance", "BatchKey", "Batch", "Key"},
	{"BatchSupply", "BatchKey", "Batch", "Key"},
	{"BatchContract", "BatchKey", "Batch", "Key"},
	{"SellOrder", "BatchKey", "Batch", "Key"},
	{"SellOrder", "MarketId", "Market", "Id"},
	{"Market", "CreditTypeAbbrev", "CreditType", "Abbreviation"},
	{"BasketBalance", "BatchDenom", "Batch", "Denom"},
	{"BasketBalance", "BasketId", "Basket", "Id"},
	{"BasketClass", "BasketId", "Basket", "Id"},
	{"BasketClass", "ClassId", "Class", "Id"},
	{"Basket", "CreditTypeAbbrev", "CreditType", "Abbreviation"},
}

// refResolved: value equals refField of a row of refTable that exists on this path (fetched successfully or inserted).
func refResolved(st *State, v Val, refTable, refField string) bool {
	want := st.canon(v)
	for _, o := range st.mem {
		if o.Table == nil || o.Table.Name != refTable {
			continue
		}
		if o.Kind == "row" && o.ErrID != 0 && st.errs[o.ErrID] == 2 {
			continue // failed read
		}
		if o.Kind == "lit" {
			// only rows actually inserted count
			inserted := false
			for i := range st.events {
				if st.events[i].Kind == "write" && st.events[i].RowObj == o.ID && st.events[i].OpKind == "insert" {
					inserted = true
				}
			}
			if !inserted {
				continue
			}
		}
		got := st.find(o.Name + "." + refField)
		if fv, ok := o.F["."+refField]; ok {
			got = st.canon(fv)
		}
		if got == want {
			return true
		}
	}
	return false
}

func ruleUniqueAndFK(c *Ctx, m *Model, r *E1) {
	p := m.P
	// UNIQ
	for _, u := range [][2]string{{"Class", "GetById"}, {"Project", "GetById"}, {"Batch", "GetByDenom"}, {"Basket", "GetByBasketDenom"}, {"Basket", "GetByName"}} {
		t := m.Tables[u[0]]
		_, ok := t.Unique[u[1]]
		c.Check(t != nil && ok, "C14.UNIQ", u[0]+"."+u[1], "-", "schema has the unique index behind "+u[1])
	}
	inv := BuildInventory(m, false)
	deleted := map[string]bool{}
	for _, s := range inv.AllWrites() {
		if isCanaryFn(s.Fn) {
			continue
		}
		switch s.Table.Name {
		case "Class", "Project", "Batch", "Basket":
			if s.Kind == "save" {
				c.Violate("C14.UNIQ", funcKey(s.Fn)+"#"+s.Table.Name+".Save", p.Pos(s.At()), "identified entity written with Save: an id collision would overwrite instead of failing", nil)
			}
		case "ClassSequence", "ProjectSequence", "BatchSequence":
			fk := funcKey(s.Fn)
			gate := map[string]string{"ClassSequence": "base.CreateClass", "ProjectSequence": "base.CreateProject", "BatchSequence": "base.CreateBatch"}[s.Table.Name]
			only, chain := m.reachedOnlyThrough(s.Fn, m.entryFns(gate))
			why := ""
			if !only {
				why = ": reached without passing through it by " + chain
			}
			c.Check(only, "C14.SEQ", fk+"#"+s.Table.Name+"."+s.Method, p.Pos(s.At()), s.Table.Name+" is written only on call chains through the "+gate+" handler (whose read-use-save+1 discipline is checked above)"+why)
		}
		if s.Kind == "delete" || s.Kind == "deleterange" {
			deleted[s.Table.Name] = true
			switch s.Table.Name {
			case "CreditType", "Class", "Project", "Batch", "Market", "Basket":
				c.Violate("C14.FK", funcKey(s.Fn)+"#"+s.Table.Name+"."+s.Method, p.Pos(s.At()), "delete of a referenced table: stored references to "+s.Table.Name+" rows would dangle", nil)
			}
		}
	}
	var dl []string
	for t := range deleted {
		dl = append(dl, t)
	}
	sort.Strings(dl)
	c.Hold("C14.FK", "delete-set", "-", fmt.Sprintf("tables with delete sites: %v — none of CreditType, Class, Project, Batch, Market, Basket", dl), nil)
	// FK provenance on E1 write events
	type agg struct {
		n   int
		bad string
		pos string
	}
	res := map[string]*agg{}
	for _, h := range r.Handlers {
		if h.EP.Kind == "canary" {
			continue
		}
		for _, o := range h.Outs {
			st := o.St
			for i := range st.events {
				ev := &st.events[i]
				if ev.Kind != "write" || ev.Row == nil || !inScope(o, ev) || ev.OpKind == "delete" {
					continue
				}
				for _, fk := range fkSpecs {
					if fk.table != ev.Table.Name {
						continue
					}
					k := h.Key + "→" + siteKey(ev) + "#" + fk.field
					a := res[k]
					if a == nil {
						a = &agg{pos: p.Pos(ev.Pos.Pos())}
						res[k] = a
					}
					a.n++
					if a.bad != "" {
						continue
					}
					v := ev.Row[fk.field]
					// unchanged on update
					if ev.Old != nil && ev.Old.Row != nil && st.canon(v) == st.canon(ev.Old.Row[fk.field]) {
						continue
					}
					if refResolved(st, v, fk.refTable, fk.refField) {
						continue
					}
					a.bad = fmt.Sprintf("%s.%s = %s is not the %s of a %s row fetched or inserted on the path {%s}", fk.table, fk.field, st.canon(v), fk.refField, fk.refTable, clip(strings.Join(st.facts, " "), 300))
				}
			}
		}
	}
	var ks []string
	for k := range res {
		ks = append(ks, k)
	}
	sort.Strings(ks)
	for _, k := range ks {
		a := res[k]
		if a.bad != "" {
			c.Violate("C14.FK", k, a.pos, a.bad, nil)
		} else {
			c.Hold("C14.FK", k, a.pos, fmt.Sprintf("reference resolves on all %d path visits", a.n), nil)
		}
	}
	c.Min("reference-column write sites", 30, len(ks))
}

// globRef: a value that is (a field path into) a package-level variable.
type globRef struct {
	g      *ssa.Global
	fields []int
}

// resolveGlobRef follows loads, field selections, value-receiver spills and — through env — the
// parameters of a helper back to a package-level variable.
func resolveGlobRef(v ssa.Value, env map[*ssa.Parameter]globRef, depth int) (globRef, bool) {
	if depth > 8 {
		return globRef{}, false
	}
	switch y := v.(type) {
	case *ssa.Global:
		return globRef{g: y}, true
	case *ssa.Parameter:
		r, ok := env[y]
		return r, ok
	case *ssa.UnOp:
		if y.Op == token.MUL {
			return resolveGlobRef(y.X, env, depth+1)
		}
	case *ssa.Field:
		if r, ok := resolveGlobRef(y.X, env, depth+1); ok {
			return globRef{g: r.g, fields: append(append([]int(nil), r.fields...), y.Field)}, true
		}
	case *ssa.FieldAddr:
		if r, ok := resolveGlobRef(y.X, env, depth+1); ok {
			return globRef{g: r.g, fields: append(append([]int(nil), r.fields...), y.Field)}, true
		}
	case *ssa.Alloc:
		// a spilled parameter: exactly one store, of a value that resolves
		var st *ssa.Store
		for _, r := range *y.Referrers() {
			if s, isS := r.(*ssa.Store); isS && s.Addr == y {
				if st != nil {
					return globRef{}, false
				}
				st = s
			}
		}
		if st != nil {
			return resolveGlobRef(st.Val, env, depth+1)
		}
	case *ssa.ChangeType:
		return resolveGlobRef(y.X, env, depth+1)
	}
	return globRef{}, false
}

// globalFieldInit: the value stored into field path fs of package-level variable g by its package
// initialiser (a composite literal is lowered to stores into the variable's fields), resolved again.
func globalFieldInit(r globRef, depth int) (globRef, bool) {
	if len(r.fields) == 0 {
		return r, true
	}
	if r.g.Pkg == nil || depth > 4 {
		return globRef{}, false
	}
	init := r.g.Pkg.Func("init")
	if init == nil {
		return globRef{}, false
	}
	var found *ssa.Store
	n := 0
	for _, b := range init.Blocks {
		for _, in := range b.Instrs {
			st, isS := in.(*ssa.Store)
			if !isS {
				continue
			}
			if a, ok := resolveGlobRef(st.Addr, nil, 0); ok && a.g == r.g && len(a.fields) > 0 && len(a.fields) <= len(r.fields) {
				same := true
				for i := range a.fields {
					if a.fields[i] != r.fields[i] {
						same = false
					}
				}
				if same {
					found = st
					n++
				}
			}
		}
	}
	if n != 1 {
		return globRef{}, false
	}
	a, _ := resolveGlobRef(found.Addr, nil, 0)
	v, ok := resolveGlobRef(found.Val, nil, 0)
	if !ok {
		return globRef{}, false
	}
	v.fields = append(append([]int(nil), v.fields...), r.fields[len(a.fields):]...)
	return globalFieldInit(v, depth+1)
}

// acceptsOnlyMatches: every return of fn that can carry a nil error lies behind a positive match of
// parameter prm against an anchored package-level regex whose language is within `declared` — directly,
// or because the nil error is that of a helper (function, method of a package-level format value, …)
// for which the same holds. env binds the parameters of a helper to the package-level variables its
// caller passed (a format table entry, a compiled regex).
func acceptsOnlyMatches(p *Program, fn *ssa.Function, prm *ssa.Parameter, env map[*ssa.Parameter]globRef, declared string, depth int) (bool, string, []string) {
	if depth > 4 || len(fn.Blocks) == 0 {
		return false, "delegation too deep or no body", nil
	}
	goodCall := map[*ssa.Call]bool{}   // regex matches of prm
	goodHelper := map[*ssa.Call]bool{} // helper calls whose nil error implies such a match
	var srcs []string
	whyNot := ""
	for _, ci := range callsIn(fn) {
		call, isCall := ci.(*ssa.Call)
		if !isCall {
			continue
		}
		pkg, name := calleePkgName(&call.Call)
		if pkg == "regexp" && len(call.Call.Args) >= 2 && (strings.HasPrefix(name, "Regexp.Match") || strings.HasPrefix(name, "Regexp.Find")) {
			if call.Call.Args[1] != ssa.Value(prm) {
				continue
			}
			r, ok := resolveGlobRef(call.Call.Args[0], env, 0)
			if ok {
				r, ok = globalFieldInit(r, 0)
			}
			if !ok || r.g.Pkg == nil || len(r.fields) != 0 {
				continue
			}
			src, _, okS := regexSourceOf(p, shortPkg(r.g.Pkg.Pkg.Path()), r.g.Name())
			if !okS || !strings.HasPrefix(src, "^") || !strings.HasSuffix(src, "$") {
				continue
			}
			inc, _, _, err := langIncluded(strings.TrimSuffix(strings.TrimPrefix(src, "^"), "$"), declared)
			if err == nil && inc {
				goodCall[call] = true
				srcs = append(srcs, src)
			}
			continue
		}
		// a hand-written helper that receives the parameter
		sc := call.Call.StaticCallee()
		if sc == nil || len(sc.Blocks) == 0 || !isRepoPkgPath(fnPkgPath(sc)) || errResultIndex(sc.Signature) < 0 {
			continue
		}
		var sub *ssa.Parameter
		env2 := map[*ssa.Parameter]globRef{}
		for i, a := range call.Call.Args {
			if i >= len(sc.Params) {
				break
			}
			if a == ssa.Value(prm) {
				sub = sc.Params[i]
				continue
			}
			if r, ok := resolveGlobRef(a, env, 0); ok {
				env2[sc.Params[i]] = r
			}
		}
		if sub == nil {
			continue
		}
		if ok, w, s2 := acceptsOnlyMatches(p, sc, sub, env2, declared, depth+1); ok {
			goodHelper[call] = true
			srcs = append(srcs, s2...)
		} else {
			whyNot = sc.Name() + ": " + w
		}
	}
	if len(goodCall)+len(goodHelper) == 0 {
		w := "no match of the parameter against a package-level anchored regex whose language is within the declared one"
		if whyNot != "" {
			w += " (" + whyNot + ")"
		}
		return false, w, nil
	}
	paths, complete := enumPaths(fn, 2000)
	if !complete {
		return false, "too many paths", nil
	}
	idx := errResultIndex(fn.Signature)
	for _, bp := range paths {
		last := bp[len(bp)-1]
		ret, isRet := last.Instrs[len(last.Instrs)-1].(*ssa.Return)
		if !isRet {
			continue
		}
		pf := pathFacts(fn, bp, nil)
		if pf == nil {
			continue
		}
		var ev ssa.Value
		if idx >= 0 && idx < len(ret.Results) {
			ev = ret.Results[idx]
			if ph, isPhi := ev.(*ssa.Phi); isPhi {
				if e2, has := pf.phis[ph]; has {
					ev = e2
				}
			}
			if provablyNonNilErr(ev) {
				continue
			}
		}
		matched := false
		n := &pgNamer{fn: fn, ids: map[ssa.Value]string{}, phis: pf.phis}
		for call := range goodCall {
			t := n.term(call, 0)
			if v, seen := pf.lits[t]; seen && v { // MatchString(...) == true
				matched = true
			}
			if v, seen := pf.lits["("+orderPair(t, "nil")+")"]; seen && !v { // Find…(...) != nil
				matched = true
			}
			if v, seen := pf.lits["("+orderPair(t, "\"\"")+")"]; seen && !v { // FindString(...) != ""
				matched = true
			}
		}
		for call := range goodHelper {
			// the helper's error: the call itself or the Extract of its error result
			var errVal ssa.Value = call
			if call.Call.Signature().Results().Len() > 1 {
				errVal = nil
				ei := errResultIndex(call.Call.Signature())
				for _, r := range *call.Referrers() {
					if ex, isEx := r.(*ssa.Extract); isEx && ex.Index == ei {
						errVal = ex
					}
				}
			}
			if errVal == nil {
				continue
			}
			if ev == errVal && onPath(bp, call.Block()) { // return helper(x): nil exactly when the helper accepts
				matched = true
			}
			t := n.term(errVal, 0)
			if v, seen := pf.lits["("+orderPair(t, "nil")+")"]; seen && v { // helper(...) == nil on this path
				matched = true
			}
		}
		if !matched {
			return false, fmt.Sprintf("the success return of %s at line %d is reachable without a positive match", fn.Name(), posLine(fn, ret)), nil
		}
	}
	return true, "", srcs
}

func onPath(bp []*ssa.BasicBlock, b *ssa.BasicBlock) bool {
	for _, q := range bp {
		if q == b {
			return true
		}
	}
	return false
}

// ---- REGEX: a regular expression applied to an identifier accepts every identifier of that kind -------
//
// Handlers sometimes take identifiers apart (class id out of a batch denom). The sanctioned extractors are
// covered by SEP; a regular expression written for the purpose must at least match every identifier the
// validator of that kind accepts — `[0-9]{2}` where the format says `[0-9]{2,}` works until the hundredth
// class. Decided by language inclusion (all strings), on every regexp call the explorer meets whose
// subject is a stored or requested identifier.

var idSubjectKinds = []struct {
	re        *regexp.Regexp
	pkg, decl string
}{
	{regexp.MustCompile(`(^Batch#\d+\.Denom$|\.BatchDenom$)`), "x/ecocredit/v3/base", "RegexBatchDenom"},
	{regexp.MustCompile(`(^Class#\d+\.Id$|\.ClassId$)`), "x/ecocredit/v3/base", "RegexClassID"},
	{regexp.MustCompile(`(^Project#\d+\.Id$|\.ProjectId$)`), "x/ecocredit/v3/base", "RegexProjectID"},
	{regexp.MustCompile(`(^Basket#\d+\.BasketDenom$|\.BasketDenom$)`), "x/ecocredit/v3/basket", "RegexBasketDenom"},
}

func ruleIdentifierRegexps(c *Ctx, m *Model, r *E1) {
	p := m.P
	seen := map[string]bool{}
	n := 0
	for _, h := range r.Handlers {
		for _, o := range h.Outs {
			st := o.St
			for i := range st.events {
				ev := &st.events[i]
				if ev.Kind != "call" || !strings.HasPrefix(ev.Method, "regexp.") || len(ev.Args) < 2 || ev.Pos == nil {
					continue
				}
				call, isCall := ev.Pos.(*ssa.Call)
				if !isCall || len(call.Call.Args) < 2 {
					continue
				}
				subject := st.canon(ev.Args[1])
				var kind *struct {
					re        *regexp.Regexp
					pkg, decl string
				}
				for k := range idSubjectKinds {
					if idSubjectKinds[k].re.MatchString(subject) {
						kk := idSubjectKinds[k]
						kind = &struct {
							re        *regexp.Regexp
							pkg, decl string
						}{kk.re, kk.pkg, kk.decl}
						break
					}
				}
				if kind == nil {
					continue
				}
				key := funcKey(ev.Fn) + "#" + ev.Method + "(" + kind.decl + ")"
				if seen[key] {
					continue
				}
				seen[key] = true
				n++
				pos := p.Pos(call.Pos())
				gr, ok := resolveGlobRef(call.Call.Args[0], nil, 0)
				if ok {
					gr, ok = globalFieldInit(gr, 0)
				}
				if !ok || gr.g.Pkg == nil || len(gr.fields) != 0 {
					c.Undecide("C14.REGEX", key, pos, "a regular expression that is not a package-level variable is applied to "+subject)
					continue
				}
				src, _, okS := regexSourceOf(p, shortPkg(gr.g.Pkg.Pkg.Path()), gr.g.Name())
				declared, okD := varString(p, kind.pkg, kind.decl)
				if !okS || !okD {
					c.Undecide("C14.REGEX", key, pos, "regular expression source of "+gr.g.Name()+" or "+kind.decl+" is not statically evaluable")
					continue
				}
				open := src
				if strings.HasPrefix(open, "^") {
					open = open[1:]
				} else {
					open = "(?s:.*)" + open
				}
				if strings.HasSuffix(open, "$") && !strings.HasSuffix(open, "\\$") {
					open = open[:len(open)-1]
				} else {
					open = open + "(?s:.*)"
				}
				inc, cex, _, err := langIncluded(declared, open)
				switch {
				case err != nil:
					c.Undecide("C14.REGEX", key, pos, "language inclusion not decided: "+err.Error())
				case inc:
					c.Hold("C14.REGEX", key, pos, fmt.Sprintf("/%s/ (%s) matches every string of %s", src, gr.g.Name(), kind.decl), nil)
				default:
					c.Violate("C14.REGEX", key, pos, fmt.Sprintf("/%s/ (%s) is applied to %s but does not match the valid identifier %q (%s): handlers that take identifiers apart with it fail for identifiers the chain itself generates and accepts", src, gr.g.Name(), subject, cex, kind.decl), nil)
				}
			}
		}
	}
	c.Count("identifier_regexp_sites", n)
	c.ExpectCanary("C14.REGEX")
}

package main

// C11 — basket admission (class, credit type, date criterion), oldest-first release, auto-retire.

import (
	"fmt"
	"regexp"
	"strings"
)

func init() { register("C11", checkC11) }

var reStartCmp = regexp.MustCompile(`^([+-])TimeLt\((.*), (.*)\)$`)

func checkC11(c *Ctx, e *Env) {
	c.Explanation = "E1 effect analysis of basket Put and Take: ADMIT before the first effect of every committed Put iteration the path carries BasketClass.Has(basket.Id, classOf(batch.Denom)) = true, class.CreditTypeAbbrev == basket.CreditTypeAbbrev for class = GetById(classOf(batch.Denom)), and — unless basket.DateCriteria is nil — the relation not(batch.StartDate < minStartDate), where minStartDate is exactly one of MinStartDate.AsTime(), blockTime − StartDateWindow, time.Date(blockTime.Year() − YearsInThePast, 1, 1, …) and the comparison is extracted as a relation (so Before/After/Compare spellings with the same reject set are equivalent and a flipped boundary is not); basket and batch are the rows fetched by req.BasketDenom / credit.BatchDenom; " +
		"ORDER every BasketBalance row read in Take's loop is the first element of a fresh List on the (basket_id, batch_start_date) index restricted to the basket's id (re-listed after each deletion), a fully consumed row is deleted before the next read, the next row is read only after the current one was drained; RETIRE every effect of Take lies behind not(!basket.DisableAutoRetire ∧ !req.RetireOnTake) and credits go to retired (with supply tradable→retired) exactly when req.RetireOnTake holds."
	c.NotDecided = []string{"liveness ('does succeed when these hold')", "the ORM's ordering of timestamps in the index (A1)", "classOf (GetClassIDFromBatchDenom) on well-formed denoms is C14"}
	c.Assumptions = strings.Split(e1Assume, "; ")
	m, r := e1Handlers(c, e)
	p := m.P
	noteUndecided(c, m, r, "C11.E1")
	ruleUpdateTakesEffect(c, m, r, "C11.CRITERIA", map[string]bool{"basket.UpdateDateCriteria": true})
	importObligations(c, e, checkC17, "C17", "C11.CONV", "date criteria#stored-as-given", "the criteria a curator sets reach the Basket row through the gogo → protobuf converters: they copy Seconds and Nanos (a converter that goes through Go's time types would store a different window than the one asked for)", func(o *Oblig) bool {
		return o.Rule == "C17.CONV" && (o.Construct == "GogoToProtobufTimestamp" || o.Construct == "GogoToProtobufDuration")
	})
	put, take := r.byKey["basket.Put"], r.byKey["basket.Take"]
	if put == nil || take == nil {
		c.Undecide("C11.E1", "basket.Put/Take", "-", "handlers not found")
		return
	}
	// ---------------- ADMIT
	type agg struct {
		n   int
		bad string
	}
	rules := map[string]*agg{"class": {}, "credit-type": {}, "date": {}, "rows": {}}
	variants := map[string]int{}
	for _, o := range put.Outs {
		if o.Kind != exitLoopback {
			continue
		}
		st := o.St
		var first *Event
		for i := range st.events {
			if isEffect(&st.events[i]) && inScope(o, &st.events[i]) {
				first = &st.events[i]
				break
			}
		}
		if first == nil {
			continue
		}
		for _, a := range rules {
			a.n++
		}
		fail := func(rule, why string) {
			if rules[rule].bad == "" {
				rules[rule].bad = why + " on path {" + clip(strings.Join(st.facts, " "), 700) + "}"
			}
		}
		baskets := rowsWithOrigin(st, "Basket", "get:GetByBasketDenom(req.BasketDenom)")
		var batch *Obj
		for _, ob := range st.mem {
			if ob.Table != nil && ob.Table.Name == "Batch" && ob.Kind == "row" && strings.HasPrefix(ob.Origin, "get:GetByDenom(req.Credits[") && strings.HasSuffix(ob.Origin, "].BatchDenom)") {
				batch = ob
			}
		}
		if len(baskets) == 0 || batch == nil {
			fail("rows", "basket is not fetched by req.BasketDenom or batch not by the credit's BatchDenom")
			continue
		}
		basket := baskets[0]
		denom := strings.TrimSuffix(strings.TrimPrefix(batch.Origin, "get:GetByDenom("), ")")
		classID := "GetClassIDFromBatchDenom(" + denom + ")"
		// the deposited balance must belong to that basket and batch
		for _, d := range put.Deltas(o) {
			if d.Table == "BasketBalance" && d.Addr != "basket:"+basket.Name+".Id" {
				fail("rows", "basket balance of "+d.Addr+" is written, not of the basket named in the request")
			}
		}
		if !factBefore(st, "+Has:BasketClass.Has("+basket.Name+".Id, "+classID+")", first) {
			fail("class", "no BasketClass.Has(basket.Id, classOf(batch.Denom)) = true before the deposit")
		}
		okType := false
		for _, cl := range rowsWithOrigin(st, "Class", "get:GetById("+classID+")") {
			x, y := sortedPair(basket.Name+".CreditTypeAbbrev", cl.Name+".CreditTypeAbbrev")
			if factBefore(st, "+StrEq("+x+", "+y+")", first) {
				okType = true
			}
		}
		if !okType {
			fail("credit-type", "no check class.CreditTypeAbbrev == basket.CreditTypeAbbrev for the class of the batch before the deposit")
		}
		// date criterion
		if v, ok := st.known("Nil(" + basket.Name + ".DateCriteria)"); ok && v {
			variants["no-criteria"]++
			continue
		} else if !ok {
			fail("date", "basket.DateCriteria is not tested")
			continue
		}
		start := "time(" + batch.Name + ".StartDate)"
		dc := basket.Name + ".DateCriteria"
		found := false
		for i, f := range st.facts {
			if i >= first.Facts || len(f) < 9 || f[1:8] != "TimeLt(" {
				continue
			}
			args := splitArgs(f[8 : len(f)-1])
			if len(args) != 2 {
				continue
			}
			pol, a, b := f[:1], args[0], args[1]
			if a != start && b != start {
				continue
			}
			found = true
			// accepted relation: not(start < min)
			if !(pol == "-" && a == start) {
				fail("date", "the start date comparison accepts the wrong relation: "+f+" (required: not(start < minStartDate))")
				continue
			}
			minv := b
			nilMin, _ := st.known("Nil(" + dc + ".MinStartDate)")
			nilWin, _ := st.known("Nil(" + dc + ".StartDateWindow)")
			switch {
			case minv == "time("+dc+".MinStartDate)":
				variants["min-start-date"]++
				if nilMin {
					fail("date", "MinStartDate used although nil")
				}
			case strings.Contains(minv, "blocktime") && strings.Contains(minv, dc+".StartDateWindow") && strings.Contains(minv, "Time.Add("):
				variants["window"]++
				if !nilMin {
					fail("date", "window used although a fixed minimum date is set")
				}
				if !strings.Contains(minv, "-") {
					fail("date", "window is not subtracted from the block time: "+minv)
				}
			case strings.HasPrefix(minv, "Date(") && strings.Contains(minv, "Time.Year(blocktime)") && strings.Contains(minv, dc+".YearsInThePast"):
				variants["years-in-the-past"]++
				if !nilMin || !nilWin {
					fail("date", "years-in-the-past used although another criterion is set")
				}
				if v, known := st.known("Eq(0, " + dc + ".YearsInThePast)"); !known || v {
					fail("date", "the years-in-the-past bound is applied on a path where YearsInThePast != 0 has not been established: a basket whose criteria message is present but empty (no criterion at all) would refuse every batch that starts before 1 January of the block year")
				}
				want := "Date((Time.Year(blocktime) - " + dc + ".YearsInThePast), 1, 1, 0, 0, 0, 0, global:time.UTC)"
				if minv != want {
					fail("date", "minimum date is not 1 January 00:00 of (block year − N): "+minv)
				}
			case nilMin && nilWin && knownTrue(st, "Eq(0, "+dc+".YearsInThePast)"):
				// criteria message present but empty: the zero time is compared (admits every date)
				variants["empty-criteria"]++
			default:
				fail("date", "minimum start date "+minv+" is none of MinStartDate, blockTime − window, 1 Jan of (block year − N)")
			}
		}
		if !found {
			fail("date", "date criterion present but batch.StartDate is not compared before the deposit")
		}
	}
	pos := p.Pos(put.Fn.Pos())
	for _, n := range []string{"rows", "class", "credit-type", "date"} {
		a := rules[n]
		if a.bad != "" {
			c.Violate("C11.ADMIT", "basket.Put#"+n, pos, a.bad, nil)
		} else {
			c.Check(a.n > 0, "C11.ADMIT", "basket.Put#"+n, pos, fmt.Sprintf("holds on all %d committed deposit iterations (date variants seen: %v)", a.n, variants))
		}
	}
	for _, v := range []string{"no-criteria", "min-start-date", "window", "years-in-the-past"} {
		c.Min("Put date variant "+v, 1, variants[v])
	}
	ruleTakeOrder(c, p, take)
}

func ruleTakeOrder(c *Ctx, p *Program, h *HandlerResult) {
	pos := p.Pos(h.Fn.Pos())
	type agg struct {
		n   int
		bad string
	}
	rules := map[string]*agg{"index": {}, "first-element": {}, "drain-before-next": {}, "retire-guard": {}, "retire-flag": {}, "index-columns": {}}
	for _, o := range h.Outs {
		st := o.St
		fail := func(rule, why string) {
			if rules[rule].bad == "" {
				rules[rule].bad = why + " on path {" + clip(strings.Join(st.facts, " "), 600) + "}"
			}
		}
		baskets := rowsWithOrigin(st, "Basket", "get:GetByBasketDenom(req.BasketDenom)")
		if len(baskets) == 0 {
			continue
		}
		basket := baskets[0]
		var effects []*Event
		for i := range st.events {
			if isEffect(&st.events[i]) && inScope(o, &st.events[i]) {
				effects = append(effects, &st.events[i])
			}
		}
		if len(effects) == 0 {
			continue
		}
		for _, a := range rules {
			a.n++
		}
		// retire guard before the first effect of the message
		var firstAny *Event
		for i := range st.events {
			if isEffect(&st.events[i]) {
				firstAny = &st.events[i]
				break
			}
		}
		dis, rot := "Bool("+basket.Name+".DisableAutoRetire)", "Bool(req.RetireOnTake)"
		if !(factBefore(st, "+"+dis, firstAny) || factBefore(st, "+"+rot, firstAny)) {
			fail("retire-guard", "effects are reachable with auto-retire enabled and RetireOnTake false")
		}
		// credits delivered retired iff RetireOnTake
		retire, known := st.known(rot)
		var dT, dR Lin = linConst(0), linConst(0)
		for _, d := range h.Deltas(o) {
			if d.Table == "BatchBalance" && d.Col == "TradableAmount" {
				dT = dT.Add(d.Delta)
			}
			if d.Table == "BatchBalance" && d.Col == "RetiredAmount" {
				dR = dR.Add(d.Delta)
			}
		}
		if known {
			if retire && !dT.IsZero() {
				fail("retire-flag", "RetireOnTake is true but credits are delivered tradable: Δtradable = "+dT.String())
			}
			if !retire && !dR.IsZero() {
				fail("retire-flag", "RetireOnTake is false but credits are delivered retired: Δretired = "+dR.String())
			}
		} else if !dT.IsZero() || !dR.IsZero() {
			fail("retire-flag", "credits are delivered without testing req.RetireOnTake")
		}
		// index and first element: every BasketBalance row in scope comes from List(<start-date index>.WithBasketId(basket.Id)), first Next() of that iterator
		wantKey := "BasketBalanceBasketIdBatchStartDateIndexKey.WithBasketId(" + basket.Name + ".Id)"
		for i := range st.events {
			ev := &st.events[i]
			if ev.Kind != "read" || ev.Table == nil || ev.Table.Name != "BasketBalance" || !inScope(o, ev) {
				continue
			}
			switch ev.OpKind {
			case "list":
				if ev.Method != "List" || len(ev.Keys) != 1 || st.canon(ev.Keys[0]) != wantKey {
					ks := ""
					if len(ev.Keys) > 0 {
						ks = st.canon(ev.Keys[0])
					}
					fail("index", "basket balances are scanned with "+ev.Method+"("+ks+"), required List("+wantKey+") (index basket_id, batch_start_date)")
				}
			case "itervalue":
				it := ev.Keys[0].(*IterV)
				if it.Calls != 1 {
					fail("first-element", fmt.Sprintf("the row read is element #%d of its iterator, not the first", it.Calls))
				}
				// a fresh List must follow the last write to BasketBalance
				lastWrite, listAt := -1, -1
				for j := 0; j < i; j++ {
					e2 := &st.events[j]
					if e2.Table != nil && e2.Table.Name == "BasketBalance" {
						if e2.Kind == "write" {
							lastWrite = j
						}
						if e2.Kind == "read" && e2.OpKind == "list" && e2.RowObj == it.ID {
							listAt = j
						}
					}
				}
				if listAt < lastWrite {
					fail("first-element", "row read from an iterator opened before the last basket balance write")
				}
			case "get":
				fail("index", "a basket balance is fetched by key inside Take: release order no longer follows the start-date index")
			}
		}
		// the index columns of a basket balance row never change (they define the release order)
		for i := range st.events {
			ev := &st.events[i]
			if ev.Kind != "write" || ev.Table.Name != "BasketBalance" || !inScope(o, ev) || ev.OpKind == "delete" {
				continue
			}
			ch, known := changedFields(st, ev)
			if !known {
				fail("index-columns", "a basket balance row is written without its previous content being known")
				continue
			}
			for _, f := range ch {
				if f != "Balance" {
					fail("index-columns", "Take rewrites BasketBalance."+f+" (from "+st.canon(ev.Old.Row[f])+" to "+st.canon(ev.Row[f])+"): the (basket_id, batch_start_date) index position of the remainder changes")
				}
			}
		}
		// iteration (loopback): the row read must have been deleted (fully drained) before looping
		if o.Kind == exitLoopback {
			deleted := false
			for _, d := range h.Deltas(o) {
				if d.Table == "BasketBalance" && d.Op == "delete" {
					deleted = true
				}
			}
			if !deleted {
				fail("drain-before-next", "the loop continues to the next batch without deleting the current (oldest) basket balance row")
			}
		}
	}
	for _, n := range []string{"index", "first-element", "drain-before-next", "index-columns"} {
		a := rules[n]
		if a.bad != "" {
			c.Violate("C11.ORDER", "basket.Take#"+n, pos, a.bad, nil)
		} else {
			c.Check(a.n > 0, "C11.ORDER", "basket.Take#"+n, pos, fmt.Sprintf("holds on all %d committed paths with effects", a.n))
		}
	}
	for _, n := range []string{"retire-guard", "retire-flag"} {
		a := rules[n]
		if a.bad != "" {
			c.Violate("C11.RETIRE", "basket.Take#"+n, pos, a.bad, nil)
		} else {
			c.Check(a.n > 0, "C11.RETIRE", "basket.Take#"+n, pos, fmt.Sprintf("holds on all %d committed paths with effects", a.n))
		}
	}
}

func knownTrue(st *State, f string) bool {
	v, ok := st.known(f)
	return ok && v
}

package main

// C15 — IRI ⇄ content hash: narrowing conversions bounded, encoder and decoder
// agree on the byte layout, version and extension handling.

import (
	"fmt"
	"go/constant"
	"go/token"
	"go/types"
	"os"
	"regexp"
	"sort"
	"strings"

	"golang.org/x/tools/go/ssa"
)

func init() { register("C15", checkC15) }

func checkC15(c *Ctx, e *Env) {
	c.Explanation = "x/data IRI codec, from SSA: NARROW every integer-narrowing conversion of a message field in the ToIRI encoders is dominated by a successful Validate() that (transitively) proves an upper bound fitting the target type; " +
		"CODEC for each content-hash kind the byte layout written by ToIRI (constant-index stores + copy of Hash into a make([]byte, len(Hash)+n) buffer) and the cursor positions read by the matching ParseIRI arm are the same field sequence, under the same type-prefix constant, the same base58check version constant (rejected on mismatch by the parser), with the extension written after '.' and read back into the same field (raw) or compared with the same literal (graph); the '.' separator cannot occur in a validated extension; " +
		"WHERE the IRI stored in DataID always originates from ToIRI(); LOOKUP (E1 over all x/data messages and queries) a DataID row found by its collision-prone compact id is never used without a test of its Iri against the IRI in question."
	c.NotDecided = []string{"base58check being a bijection (dependency)", "full round-trip equality for all inputs is a value property; the structural necessary conditions above are what is decided"}
	c.Assumptions = []string{"A6", "base58.CheckEncode/CheckDecode are mutually inverse"}
	m := e.Model("x/data")
	p := m.P
	importObligations(c, e, checkC17, "C17", "C15.REPORT", "queries#report-the-record's-own-iri", "what the x/data queries report for a content hash — its IRI, its anchor, its attestors, its resolvers — is read from the record of that hash in each listed element: an IRI taken from another row would present one content hash's data under another's", func(o *Oblig) bool {
		return o.Rule == "C17.SHAPE" && strings.HasPrefix(o.Construct, "data.")
	})
	importObligations(c, e, checkC16, "C16", "C15.STATE", "data ids#from-the-store-only", "which content hash a data id stands for is read from the store on every use: an id remembered in the server object outlives discarded transactions and, once the compact ids of two IRIs collide, hands one content hash the other's records", func(o *Oblig) bool { return o.Rule == "C16.STATE" || o.Rule == "C16.E1" })
	fns := m.subjectFns(false)
	var encoders []*ssa.Function
	var parser *ssa.Function
	// encoder = a method of a message type that reaches base58.CheckEncode through its own body,
	// closures or plain helper functions (not through other methods: a dispatcher such as
	// ContentHash.ToIRI only forwards); parser = the exported function reaching CheckDecode likewise.
	reaches := func(fn *ssa.Function, what string) bool {
		seen := map[*ssa.Function]bool{fn: true}
		work := []*ssa.Function{fn}
		for len(work) > 0 {
			f := work[0]
			work = work[1:]
			for _, af := range f.AnonFuncs {
				if !seen[af] {
					seen[af] = true
					work = append(work, af)
				}
			}
			for _, ci := range callsIn(f) {
				pkg, name := calleePkgName(ci.Common())
				if strings.HasSuffix(pkg, "base58") && name == what {
					return true
				}
				if sc := ci.Common().StaticCallee(); sc != nil && !seen[sc] && sc.Signature.Recv() == nil && isRepoPkgPath(fnPkgPath(sc)) && len(sc.Blocks) > 0 {
					seen[sc] = true
					work = append(work, sc)
				}
			}
		}
		return false
	}
	for _, fn := range fns {
		if isCanaryFn(fn) || fn.Parent() != nil {
			continue
		}
		if fn.Signature.Recv() != nil && reaches(fn, "CheckEncode") {
			encoders = append(encoders, fn)
		}
		if fn.Signature.Recv() == nil && fn.Object() != nil && fn.Object().Exported() && reaches(fn, "CheckDecode") {
			parser = fn
		}
	}
	c.Count("encoders", len(encoders))
	c.Min("base58check encoders found", 2, len(encoders))
	if parser == nil {
		c.Undecide("C15.CODEC", "parser", "-", "no function calling base58.CheckDecode found")
		return
	}
	dec := decoderSummary(c, p, parser)
	// the parser bounds no part of its textual input by a length: that no encoder output exceeds such a
	// bound is a numeric fact about base58 expansion and extension lengths which the byte-layout comparison
	// does not decide (a bound applied to the wrong part rejects the IRIs of the longest valid hashes)
	{
		g := NewGraph(p)
		nLen := 0
		for _, f := range sortedFns(g.Closure([]*ssa.Function{parser})) {
			if fnPkgPath(f) != fnPkgPath(parser) || isCanaryFn(f) {
				continue
			}
			for _, b := range f.Blocks {
				for _, in := range b.Instrs {
					bo, ok := in.(*ssa.BinOp)
					if !ok {
						continue
					}
					switch bo.Op {
					case token.GTR, token.GEQ, token.LSS, token.LEQ:
					default:
						continue
					}
					for _, pair := range [][2]ssa.Value{{bo.X, bo.Y}, {bo.Y, bo.X}} {
						call, isCall := pair[0].(*ssa.Call)
						if !isCall {
							continue
						}
						bi, isB := call.Call.Value.(*ssa.Builtin)
						if !isB || bi.Name() != "len" || len(call.Call.Args) != 1 {
							continue
						}
						if bt, isBasic := call.Call.Args[0].Type().Underlying().(*types.Basic); !isBasic || bt.Info()&types.IsString == 0 {
							continue
						}
						if cv, isC := constInt(pair[1]); !isC || cv < 8 {
							continue
						}
						nLen++
						c.Undecide("C15.CODEC", "parser#length-bound:"+funcKey(f), p.Pos(bo.Pos()), "the IRI parser compares the length of a part of its input with a constant: whether every IRI the encoders produce stays within it (base58 expansion of up to 73 bytes, plus separator and extension) is not decided by the layout comparison")
					}
				}
			}
		}
		if nLen == 0 {
			c.Hold("C15.CODEC", "parser#no-length-bound", p.Pos(parser.Pos()), "the parser rejects no input by the length of a textual part (only by prefix, separator, checksum, version and field contents)", nil)
		}
	}
	encByPrefix := map[int64]*encLayout{}
	for _, fn := range encoders {
		lay := encoderSummary(c, p, fn)
		if lay == nil {
			continue
		}
		encByPrefix[lay.prefix] = lay
		ruleNarrow(c, m, fn)
	}
	// compare
	var prefixes []int64
	for k := range encByPrefix {
		prefixes = append(prefixes, k)
	}
	sort.Slice(prefixes, func(i, j int) bool { return prefixes[i] < prefixes[j] })
	for _, pf := range prefixes {
		enc := encByPrefix[pf]
		key := fmt.Sprintf("prefix=%d(%s)", pf, enc.fn.Signature.Recv().Type().String()[strings.LastIndex(enc.fn.Signature.Recv().Type().String(), ".")+1:])
		d, ok := dec.arms[pf]
		if !ok {
			c.Violate("C15.CODEC", key+"#arm", p.Pos(enc.fn.Pos()), "encoder writes type prefix with no matching ParseIRI arm", nil)
			continue
		}
		same := len(enc.header) == len(d.header)
		for i := 0; same && i < len(enc.header); i++ {
			if enc.header[i] != d.header[i] {
				same = false
			}
		}
		c.Check(same, "C15.CODEC", key+"#header", p.Pos(enc.fn.Pos()), fmt.Sprintf("header bytes after the prefix: encoder writes %v, parser reads %v", enc.header, d.header))
		c.Check(enc.tail == d.tail && enc.tailOff == int64(len(enc.header))+1 && enc.bufExtra == enc.tailOff, "C15.CODEC", key+"#hash", p.Pos(enc.fn.Pos()),
			fmt.Sprintf("encoder copies %s at offset %d into a buffer of len(%s)+%d; parser reads the remaining bytes into %s", enc.tail, enc.tailOff, enc.tail, enc.bufExtra, d.tail))
		c.Check(enc.version == dec.versionConst && dec.versionChecked[pf], "C15.CODEC", key+"#version", p.Pos(enc.fn.Pos()),
			fmt.Sprintf("encoder version constant %d, parser rejects version != %d on this arm: %v", enc.version, dec.versionConst, dec.versionChecked[pf]))
		// extension
		switch {
		case enc.extField != "":
			c.Check(d.extField == enc.extField, "C15.CODEC", key+"#extension", p.Pos(enc.fn.Pos()), "encoder appends ."+enc.extField+"; parser stores the part after '.' into "+d.extField)
		default:
			c.Check(d.extLiteral == enc.extLiteral && enc.extLiteral != "", "C15.CODEC", key+"#extension", p.Pos(enc.fn.Pos()), fmt.Sprintf("encoder appends literal .%s; parser requires extension %q", enc.extLiteral, d.extLiteral))
		}
		c.Check(enc.scheme == dec.scheme && enc.scheme != "", "C15.CODEC", key+"#scheme", p.Pos(enc.fn.Pos()), fmt.Sprintf("encoder scheme prefix %q, parser requires %q", enc.scheme, dec.scheme))
	}
	for pf := range dec.arms {
		if _, ok := encByPrefix[pf]; !ok {
			c.Violate("C15.CODEC", fmt.Sprintf("prefix=%d#arm", pf), p.Pos(parser.Pos()), "ParseIRI arm without a matching encoder", nil)
		}
	}
	c.Check(dec.twoParts, "C15.CODEC", "parser#single-separator", p.Pos(parser.Pos()), "parser requires exactly one '.' separator (len(strings.Split(rest, \".\")) == 2)")
	ruleExtAlphabet(c, m)
	// WHERE
	var writer *ssa.Function
	for _, f := range fns {
		if len(ormCallsIn(m, f, "DataID", "Insert")) > 0 && !isCanaryFn(f) {
			writer = f
		}
	}
	if writer == nil {
		c.Undecide("C15.WHERE", "DataID-writer", "-", "no DataID insert found")
	} else {
		ruleIriProvenance(c, m, writer, "C15.WHERE")
	}
	ruleCompactIDLookups(c, m)
	ruleHashIdentity(c, m)
}

// ruleCompactIDLookups (C15.LOOKUP): the compact id is a short hash of the IRI and can collide, so a
// DataID row fetched by its primary key says nothing about WHICH IRI it belongs to. On every
// successful path of every x/data entry point (messages and queries, helpers inlined) on which such
// a lookup found a row, the path must also have compared that row's Iri with the IRI in question
// (equal: the row is the right one; unequal: the row is rejected, as in the probe loop). A lookup
// through the unique IRI index needs no such test.
func ruleCompactIDLookups(c *Ctx, m *Model) {
	p := m.P
	x := NewExplorer(m)
	nLook := 0
	for _, ep := range m.Entries {
		if !ep.Implemented || ep.Fn == nil || (ep.Kind != "msg" && ep.Kind != "query") {
			continue
		}
		outs := x.Explore(ep.Fn, entryParams(ep.Fn))
		if x.cut {
			c.Undecide("C15.LOOKUP", ep.Key(), p.Pos(ep.Fn.Pos()), "path exploration was cut short")
			continue
		}
		bad := ""
		n := 0
		for _, o := range outs {
			if !(o.Kind == exitLoopback || (o.Kind == exitReturn && o.Commit)) {
				continue
			}
			st := o.St
			for _, ph := range prefixHits(st, o) {
				if ph.table == "DataID" {
					n++
					if bad == "" {
						bad = "a DataID row is taken from " + ph.desc + " at " + p.Pos(ph.pos.Pos()) + " and used without its " + ph.field + " having been found equal to the one wanted (a List over a complete key that ends in a string matches by byte prefix — the entry of \"regen:….txt\" answers for \"regen:….tx\" — and an unkeyed walk yields whatever entry comes next), on path {" + clip(strings.Join(st.facts, " "), 260) + "}"
					}
				}
			}
			// a DataID row carried by a loop (the probe loop; a merge join against another table): a path
			// that has left that loop and uses the row must have found its Id or Iri *equal* to the one wanted
			for _, l := range st.loops {
				if o.Kind == exitLoopback && strings.HasPrefix(l.Tag, o.Loop) && l.Tag == o.Loop {
					continue // the loop's own iteration: its header decides at the next entry
				}
				for _, ph := range l.Phis {
					if os.Getenv("E1DEBUG") == "lookup" {
						fmt.Printf("DBG %s loop %s phi %s havoc=%s (%T)\n", ep.Key(), l.Tag, ph.Name, vstr(ph.Havoc), ph.Havoc)
					}
					var ht types.Type
					switch hv := ph.Havoc.(type) {
					case *SymPtr:
						ht = hv.T
					case *Sym:
						ht = hv.T
					}
					if ht == nil {
						continue
					}
					if nt := namedOf(ht); nt == nil || nt.Obj().Name() != "DataID" {
						continue
					}
					h := st.canon(ph.Havoc)
					h = strings.TrimPrefix(h, "&")
					used := false
					for _, ob := range st.mem {
						for _, fv := range ob.F {
							if fv != nil && strings.Contains(st.canon(fv), h+".") {
								used = true
							}
						}
					}
					for j := range st.events {
						for _, v := range st.events[j].Row {
							if strings.Contains(st.canon(v), h+".") {
								used = true
							}
						}
					}
					if !used {
						continue
					}
					n++
					eq := false
					for _, f := range st.facts {
						if strings.HasPrefix(f, "+") && strings.Contains(f, "Eq(") && (strings.Contains(f, h+".Id") || strings.Contains(f, h+".Iri")) {
							eq = true
						}
					}
					if !eq && bad == "" {
						bad = "the DataID row " + h + " carried out of loop " + l.Tag + " is used without its Id or Iri having been found equal to the one wanted, on path {" + clip(strings.Join(st.facts, " "), 260) + "}"
					}
				}
			}
			for i := range st.events {
				ev := &st.events[i]
				if ev.Kind != "read" || ev.Table == nil || ev.Table.Name != "DataID" || ev.Method != "Get" || st.errs[ev.ErrID] != 1 {
					continue
				}
				row := st.mem[ev.RowObj]
				if row == nil {
					continue
				}
				// an id taken from a stored row (the Id column of an attestation, anchor or resolver entry)
				// names exactly one existing data id: no collision question arises
				if len(ev.Keys) == 1 && storedCol.MatchString(st.canon(ev.Keys[0])) {
					continue
				}
				// a lookup inside the loop whose iteration this outcome is: the row goes back to the loop
				// header, which decides its fate at the start of the next iteration (the probe loop; its
				// exit condition is C16.PROBE)
				if o.Kind == exitLoopback && strings.HasPrefix(ev.Loop, o.Loop) {
					continue
				}
				n++
				tested := false
				for fi := ev.Facts; fi < len(st.facts); fi++ {
					f := st.facts[fi]
					if (strings.HasPrefix(f, "+StrEq(") || strings.HasPrefix(f, "-StrEq(")) && strings.Contains(f, ".Iri") {
						tested = true
					}
				}
				if !tested && bad == "" {
					bad = "a DataID row found by its compact id at " + p.Pos(ev.Pos.Pos()) + " is used without comparing its Iri with the IRI looked up, on path {" + clip(strings.Join(st.facts, " "), 300) + "}"
				}
			}
		}
		nLook += n
		if n == 0 {
			continue
		}
		if bad != "" {
			c.Violate("C15.LOOKUP", ep.Kind+":"+ep.Key(), p.Pos(ep.Fn.Pos()), bad+": two IRIs whose compact ids collide would answer for each other", nil)
		} else {
			c.Hold("C15.LOOKUP", ep.Kind+":"+ep.Key(), p.Pos(ep.Fn.Pos()), fmt.Sprintf("%d primary-key lookups of DataID on successful paths, each followed by a test of the row's Iri", n), nil)
		}
	}
	c.Count("compact_id_lookups_checked", nLook)
}

type encLayout struct {
	fn         *ssa.Function
	prefix     int64
	header     []string // field names at index 1..n
	tail       string   // field copied after the header
	tailOff    int64
	bufExtra   int64
	version    int64
	extField   string
	extLiteral string
	scheme     string
}

func recvFieldOf(t *Termer, fn *ssa.Function, v ssa.Value) string {
	tm := t.T(v)
	// strip conversions like uint8(x)
	for {
		i := strings.Index(tm, "(")
		if i > 0 && strings.HasSuffix(tm, ")") && !strings.Contains(tm[:i], ".") && !strings.Contains(tm[:i], " ") {
			tm = tm[i+1 : len(tm)-1]
			continue
		}
		break
	}
	recv := ""
	if len(fn.Params) > 0 {
		recv = fn.Params[0].Name()
	}
	if strings.HasPrefix(tm, recv+".") {
		return strings.TrimPrefix(tm, recv+".")
	}
	if strings.HasPrefix(tm, "local:"+recv+".") {
		return strings.TrimPrefix(tm, "local:"+recv+".")
	}
	return "?" + tm
}

func extractEncoder(c *Ctx, p *Program, fn *ssa.Function) *encLayout {
	t := NewTermer(fn)
	key := funcKey(fn)
	var enc *ssa.Call
	for _, ci := range callsIn(fn) {
		if _, name := calleePkgName(ci.Common()); name == "CheckEncode" {
			enc, _ = ci.(*ssa.Call)
		}
	}
	if enc == nil || fn.Signature.Recv() == nil {
		c.Undecide("C15.CODEC", key+"#shape", p.Pos(fn.Pos()), "encoder is not a method building its buffer locally: layout cannot be extracted")
		return nil
	}
	lay := &encLayout{fn: fn, prefix: -1, tailOff: -1, bufExtra: -1, version: -1}
	if v, ok := constInt(enc.Call.Args[1]); ok {
		lay.version = v
	}
	buf, ok := enc.Call.Args[0].(*ssa.MakeSlice)
	if !ok {
		c.Undecide("C15.CODEC", key+"#shape", p.Pos(enc.Pos()), "encoded buffer is not a make([]byte, …) in the encoder: "+t.T(enc.Call.Args[0]))
		return nil
	}
	// len = len(recv.Hash) + n
	if bo, ok := buf.Len.(*ssa.BinOp); ok && bo.Op == token.ADD {
		if n, isC := constInt(bo.Y); isC {
			lay.bufExtra = n
			if call, isCall := bo.X.(*ssa.Call); isCall && shortCallee(&call.Call) == "len" {
				lay.tail = recvFieldOf(t, fn, call.Call.Args[0])
			}
		}
	}
	idx := map[int64]string{}
	for _, r := range *buf.Referrers() {
		switch x := r.(type) {
		case *ssa.IndexAddr:
			i, isC := constInt(x.Index)
			if !isC {
				c.Undecide("C15.CODEC", key+"#shape", p.Pos(x.Pos()), "non-constant index into the encoded buffer")
				return nil
			}
			for _, r2 := range *x.Referrers() {
				if st, ok := r2.(*ssa.Store); ok {
					if i == 0 {
						if v, isC := constInt(st.Val); isC {
							lay.prefix = v
						}
					} else {
						idx[i] = recvFieldOf(t, fn, st.Val)
					}
				}
			}
		case *ssa.Slice:
			// copy(bz[k:], recv.Hash)
			off, _ := constInt(x.Low)
			for _, r2 := range *x.Referrers() {
				if call, ok := r2.(*ssa.Call); ok && shortCallee(&call.Call) == "copy" {
					lay.tailOff = off
					f := recvFieldOf(t, fn, call.Call.Args[1])
					if f != lay.tail {
						lay.tail = lay.tail + "≠" + f
					}
				}
			}
		}
	}
	for i := int64(1); i <= int64(len(idx)); i++ {
		f, ok := idx[i]
		if !ok {
			c.Violate("C15.CODEC", key+"#contiguous", p.Pos(fn.Pos()), fmt.Sprintf("header byte %d is never written", i), nil)
			f = "?"
		}
		lay.header = append(lay.header, f)
	}
	// Sprintf("regen:%s.%s", hashStr, ext)
	for _, ci := range callsIn(fn) {
		call, ok := ci.(*ssa.Call)
		if !ok {
			continue
		}
		if pkg, name := calleePkgName(&call.Call); pkg == "fmt" && name == "Sprintf" {
			format, _ := constString(call.Call.Args[0])
			if i := strings.Index(format, ":"); i >= 0 {
				lay.scheme = format[:i+1]
			}
			rest := format[strings.Index(format, ":")+1:]
			switch {
			case rest == "%s.%s":
				// second vararg is the extension
				if sl, ok := call.Call.Args[1].(*ssa.Slice); ok {
					if arr, ok := sl.X.(*ssa.Alloc); ok {
						es := elemStores(arr)
						if len(es[1]) == 1 {
							lay.extField = recvFieldOf(t, fn, es[1][0])
						}
					}
				}
			case strings.HasPrefix(rest, "%s."):
				lay.extLiteral = strings.TrimPrefix(rest, "%s.")
			}
		}
	}
	return lay
}

type decArm struct {
	header     []string
	tail       string
	extField   string
	extLiteral string
}

type decLayout struct {
	arms           map[int64]*decArm
	versionConst   int64
	versionChecked map[int64]bool
	scheme         string
	twoParts       bool
}

// extractDecoder models the parser's byte cursor: ReadByte = next position,
// Next(k)[i] = position+i, Bytes() = the rest. Field assignments of the returned
// struct literal are mapped to positions.
func extractDecoder(c *Ctx, p *Program, fn *ssa.Function) *decLayout {
	d := &decLayout{arms: map[int64]*decArm{}, versionChecked: map[int64]bool{}, versionConst: -1}
	t := NewTermer(fn)
	// cursor positions: order ReadByte/Next calls along the dominator tree per return
	type rd struct {
		call *ssa.Call
		kind string
		n    int64
	}
	var reads []rd
	for _, ci := range callsIn(fn) {
		call, ok := ci.(*ssa.Call)
		if !ok {
			continue
		}
		_, name := calleePkgName(&call.Call)
		switch name {
		case "Buffer.ReadByte", "Reader.ReadByte":
			reads = append(reads, rd{call, "byte", 1})
		case "Buffer.Next":
			n, _ := constInt(call.Call.Args[1])
			reads = append(reads, rd{call, "next", n})
		case "Buffer.Bytes":
			reads = append(reads, rd{call, "rest", 0})
		case "HasPrefix":
			if s, ok := constString(call.Call.Args[1]); ok {
				d.scheme = s
			}
		}
	}
	// two parts
	for _, b := range fn.Blocks {
		for _, in := range b.Instrs {
			if bo, ok := in.(*ssa.BinOp); ok && (bo.Op == token.NEQ || bo.Op == token.EQL) {
				if v, isC := constInt(bo.Y); isC && v == 2 && strings.HasPrefix(t.T(bo.X), "len(Split(") {
					d.twoParts = true
				}
			}
		}
	}
	// the type prefix is the first ReadByte; arms are equality tests against it
	if len(reads) == 0 || reads[0].kind != "byte" {
		c.Undecide("C15.CODEC", "parser#shape", p.Pos(fn.Pos()), "parser does not start by reading the type prefix byte")
		return d
	}
	typ := extractOf(reads[0].call, 0)
	if typ == nil {
		c.Undecide("C15.CODEC", "parser#shape", p.Pos(fn.Pos()), "type prefix byte unused")
		return d
	}
	armEntry := map[int64]*ssa.BasicBlock{}
	for _, r := range *typ.Referrers() {
		bo, ok := r.(*ssa.BinOp)
		if !ok || bo.Op != token.EQL {
			continue
		}
		k, isC := constInt(bo.Y)
		if !isC {
			continue
		}
		if ifi, br := branchOf(bo, true); ifi != nil {
			armEntry[k] = ifi.Block().Succs[br]
		}
	}
	for k, entry := range armEntry {
		arm := &decArm{}
		d.arms[k] = arm
		// positions of reads inside this arm, in dominance order
		pos := map[ssa.Value]string{} // value → "p<i>" or "rest"
		cursor := int64(0)
		for _, r := range reads[1:] {
			if !entry.Dominates(r.call.Block()) {
				continue
			}
			switch r.kind {
			case "byte":
				if ex := extractOf(r.call, 0); ex != nil {
					pos[ex] = fmt.Sprintf("p%d", cursor)
				}
				cursor++
			case "next":
				for _, u := range *r.call.Referrers() {
					if ia, ok := u.(*ssa.IndexAddr); ok {
						if i, isC := constInt(ia.Index); isC {
							for _, u2 := range *ia.Referrers() {
								if ld, ok := u2.(*ssa.UnOp); ok {
									pos[ld] = fmt.Sprintf("p%d", cursor+i)
								}
							}
						}
					}
				}
				cursor += r.n
			case "rest":
				pos[r.call] = "rest"
			}
		}
		// the struct literal returned in this arm
		header := map[int64]string{}
		for _, b := range fn.Blocks {
			if !entry.Dominates(b) {
				continue
			}
			for _, in := range b.Instrs {
				st, ok := in.(*ssa.Store)
				if !ok {
					continue
				}
				fa, ok := st.Addr.(*ssa.FieldAddr)
				if !ok {
					continue
				}
				fname := fieldName(fa.X.Type(), fa.Field)
				v := st.Val
				if cv, ok := v.(*ssa.Convert); ok {
					v = cv.X
				}
				if ps, ok := pos[v]; ok {
					if ps == "rest" {
						arm.tail = fname
					} else {
						var i int64
						fmt.Sscanf(ps, "p%d", &i)
						header[i] = fname
					}
					continue
				}
				tm := t.T(st.Val)
				if strings.HasPrefix(tm, "Split(") && strings.HasSuffix(tm, "[1]") {
					arm.extField = fname
				}
			}
			// version check and literal extension check inside the arm
			for _, in := range b.Instrs {
				bo, ok := in.(*ssa.BinOp)
				if !ok || (bo.Op != token.NEQ && bo.Op != token.EQL) {
					continue
				}
				x, y := t.T(bo.X), t.T(bo.Y)
				if strings.HasPrefix(x, "CheckDecode(") && strings.HasSuffix(x, "#1") {
					if v, isC := constInt(bo.Y); isC {
						d.versionConst = v
						// mismatch must lead to an error: all success returns in the arm behind version == const
						if ifi, br := branchOf(bo, bo.Op == token.EQL); ifi != nil {
							okAll := true
							for _, r := range successReturns(fn) {
								if entry.Dominates(r.Block()) && !edgeDominates(ifi.Block(), br, r.Block()) {
									okAll = false
								}
							}
							if okAll {
								d.versionChecked[k] = true
							}
						}
					}
				}
				if strings.HasPrefix(x, "Split(") && strings.HasSuffix(x, "[1]") {
					if s, isS := constString(bo.Y); isS {
						if ifi, br := branchOf(bo, bo.Op == token.EQL); ifi != nil {
							okAll := true
							for _, r := range successReturns(fn) {
								if entry.Dominates(r.Block()) && !edgeDominates(ifi.Block(), br, r.Block()) {
									okAll = false
								}
							}
							if okAll {
								arm.extLiteral = s
							}
						}
					}
				}
				_ = y
			}
		}
		for i := int64(0); i < int64(len(header)); i++ {
			f, ok := header[i]
			if !ok {
				f = "?"
			}
			arm.header = append(arm.header, f)
		}
	}
	return d
}

// ruleNarrow: narrowing conversions of receiver fields in an encoder need a proven bound.
func ruleNarrow(c *Ctx, m *Model, fn *ssa.Function) {
	p := m.P
	t := NewTermer(fn)
	// which fields does the Validate() called first bound?
	bounded := map[string]int64{}
	var validated *ssa.Call
	for _, ci := range callsIn(fn) {
		call, ok := ci.(*ssa.Call)
		if !ok {
			continue
		}
		sc := call.Call.StaticCallee()
		if sc == nil || sc.Name() != "Validate" || len(call.Call.Args) == 0 {
			continue
		}
		validated = call
		for f, b := range fieldBounds(sc, 0, 0) {
			bounded[f] = b
		}
		// … and what the explored validator proves on every accepting path (tables of cases unrolled,
		// helpers seen through): not (N < field)
		for f, b := range exploredFieldBounds(m, sc) {
			if old, has := bounded[f]; !has || b < old {
				bounded[f] = b
			}
		}
	}
	n := 0
	for _, b := range fn.Blocks {
		for _, in := range b.Instrs {
			cv, ok := in.(*ssa.Convert)
			if !ok {
				continue
			}
			from, ok1 := cv.X.Type().Underlying().(*types.Basic)
			to, ok2 := cv.Type().Underlying().(*types.Basic)
			if !ok1 || !ok2 || from.Info()&types.IsInteger == 0 || to.Info()&types.IsInteger == 0 {
				continue
			}
			sizes := types.SizesFor("gc", "amd64")
			if sizes.Sizeof(to) >= sizes.Sizeof(from) {
				continue
			}
			if _, isC := cv.X.(*ssa.Const); isC {
				continue
			}
			f := recvFieldOf(t, fn, cv.X)
			n++
			key := funcKey(fn) + "#" + to.Name() + "(" + f + ")"
			max := int64(1)<<(8*uint(sizes.Sizeof(to))) - 1
			if to.Info()&types.IsUnsigned == 0 {
				max = int64(1)<<(8*uint(sizes.Sizeof(to))-1) - 1
			}
			bnd, has := bounded[f]
			// the validation must dominate the conversion through its error-nil edge
			domOK := false
			if validated != nil && has {
				for _, r := range *validated.Referrers() {
					if bo, ok := r.(*ssa.BinOp); ok && (bo.Op == token.NEQ || bo.Op == token.EQL) && (isNilConst(bo.X) || isNilConst(bo.Y)) {
						if ifi, br := branchOf(bo, bo.Op == token.EQL); ifi != nil && edgeDominates(ifi.Block(), br, cv.Block()) {
							domOK = true
						}
					}
				}
			}
			if has && bnd <= max && domOK {
				c.Hold("C15.NARROW", key, p.Pos(cv.Pos()), fmt.Sprintf("%s(%s) is preceded by a Validate() proving %s <= %d", to.Name(), f, f, bnd), nil)
			} else {
				c.Violate("C15.NARROW", key, p.Pos(cv.Pos()), fmt.Sprintf("%s field %s is truncated to %s without a proven upper bound (validators only reject 0): values v and v+%d encode to the same IRI and %d decodes as 0", from.Name(), f, to.Name(), max+1, max+1), nil)
			}
		}
	}
	c.Count("narrowing_conversions", n)
}

// fieldBounds: receiver fields (or, for a plain function, parameters mapped by the
// caller) for which every success return of fn lies behind `field <= C`.
// recvIdx is the parameter holding the struct; returns field → C.
func fieldBounds(fn *ssa.Function, recvIdx int, depth int) map[string]int64 {
	out := map[string]int64{}
	if depth > 3 || len(fn.Blocks) == 0 {
		return out
	}
	t := NewTermer(fn)
	for _, b := range fn.Blocks {
		for _, in := range b.Instrs {
			switch x := in.(type) {
			case *ssa.BinOp:
				f, cst, op, ok := cmpFieldConst(t, fn, x)
				if !ok {
					continue
				}
				var bound int64
				var wantTrue bool
				switch op {
				case token.GTR: // f > C rejects ⇒ success behind false, bound C
					bound, wantTrue = cst, false
				case token.GEQ:
					bound, wantTrue = cst-1, false
				case token.LEQ:
					bound, wantTrue = cst, true
				case token.LSS:
					bound, wantTrue = cst-1, true
				default:
					continue
				}
				if allSuccessDominatedBy(fn, x, wantTrue) {
					out[f] = bound
				}
			case *ssa.Call:
				sc := x.Call.StaticCallee()
				if sc == nil || len(sc.Blocks) == 0 || !isRepoPkgPath(fnPkgPath(sc)) {
					continue
				}
				// the callee's error must gate success: `if err != nil { return err }`
				gates := false
				for _, r := range *x.Referrers() {
					if bo, ok := r.(*ssa.BinOp); ok && (bo.Op == token.NEQ || bo.Op == token.EQL) && (isNilConst(bo.X) || isNilConst(bo.Y)) {
						if allSuccessDominatedBy(fn, bo, bo.Op == token.EQL) {
							gates = true
						}
					}
				}
				if !gates {
					continue
				}
				for i, a := range x.Call.Args {
					f := recvFieldOf(t, fn, a)
					if strings.HasPrefix(f, "?") {
						continue
					}
					for pf, bnd := range paramBounds(sc, depth+1) {
						if pf == i {
							out[f] = bnd
						}
					}
				}
			}
		}
	}
	return out
}

// paramBounds: parameter index → proven upper bound on success.
func paramBounds(fn *ssa.Function, depth int) map[int]int64 {
	out := map[int]int64{}
	if depth > 3 {
		return out
	}
	for _, b := range fn.Blocks {
		for _, in := range b.Instrs {
			bo, ok := in.(*ssa.BinOp)
			if !ok {
				continue
			}
			var prm *ssa.Parameter
			var cst int64
			op := bo.Op
			if q, isP := bo.X.(*ssa.Parameter); isP {
				if v, isC := constInt(bo.Y); isC {
					prm, cst = q, v
				}
			} else if q, isP := bo.Y.(*ssa.Parameter); isP {
				if v, isC := constInt(bo.X); isC {
					prm, cst = q, v
					op = flipCmp(op)
				}
			}
			if prm == nil {
				continue
			}
			idx := -1
			for i, q := range fn.Params {
				if q == prm {
					idx = i
				}
			}
			var bound int64
			var wantTrue bool
			switch op {
			case token.GTR:
				bound, wantTrue = cst, false
			case token.GEQ:
				bound, wantTrue = cst-1, false
			case token.LEQ:
				bound, wantTrue = cst, true
			case token.LSS:
				bound, wantTrue = cst-1, true
			default:
				continue
			}
			if allSuccessDominatedBy(fn, bo, wantTrue) {
				out[idx] = bound
			}
		}
	}
	// a helper the parameter is handed on to, whose error gates success here: tested (`if err != nil
	// { return err }`) or returned as it is by every success return (`return helper(…)`)
	for _, ci := range callsIn(fn) {
		call, isCall := ci.(*ssa.Call)
		if !isCall {
			continue
		}
		sc := call.Call.StaticCallee()
		if sc == nil || sc == fn || len(sc.Blocks) == 0 || !isRepoPkgPath(fnPkgPath(sc)) || errResultIndex(sc.Signature) < 0 {
			continue
		}
		gates := false
		for _, r := range *call.Referrers() {
			if bo, ok := r.(*ssa.BinOp); ok && (bo.Op == token.NEQ || bo.Op == token.EQL) && (isNilConst(bo.X) || isNilConst(bo.Y)) {
				if allSuccessDominatedBy(fn, bo, bo.Op == token.EQL) {
					gates = true
				}
			}
		}
		if !gates {
			tail := true
			nRet := 0
			for _, r := range successReturns(fn) {
				nRet++
				ei := errResultIndex(fn.Signature)
				if ei < 0 || ei >= len(r.Results) || r.Results[ei] != ssa.Value(call) {
					tail = false
				}
			}
			gates = tail && nRet > 0
		}
		if !gates {
			continue
		}
		sub := paramBounds(sc, depth+1)
		for i, a := range call.Call.Args {
			q, isP := a.(*ssa.Parameter)
			if !isP {
				continue
			}
			if bnd, has := sub[i]; has {
				for j, fp := range fn.Params {
					if fp == q {
						if old, hasOld := out[j]; !hasOld || bnd < old {
							out[j] = bnd
						}
					}
				}
			}
		}
	}
	return out
}

var notLessFact = regexp.MustCompile(`^-Lt\((\d+), req\.([A-Za-z0-9_]+)\)$`)

// exploredFieldBounds: upper bounds on the receiver's integer fields that hold on EVERY accepting path of a
// Validate method, read off the explored path facts (-Lt(N, req.F): not N < F).
func exploredFieldBounds(m *Model, fn *ssa.Function) map[string]int64 {
	out := map[string]int64{}
	if fn == nil || len(fn.Blocks) == 0 || len(fn.Params) == 0 || m.P.SSA == nil {
		return out
	}
	x := NewExplorer(m)
	var recv Val
	if pt, isPtr := fn.Params[0].Type().(*types.Pointer); isPtr {
		recv = &SymPtr{Base: "req", T: pt.Elem()}
	} else {
		recv = &Sym{N: "req", T: fn.Params[0].Type()}
	}
	params := []Val{recv}
	for _, q := range fn.Params[1:] {
		params = append(params, &Sym{N: q.Name(), T: q.Type()})
	}
	x.validatorMode = true
	outs := x.Explore(fn, params)
	x.validatorMode = false
	first := true
	for _, o := range outs {
		if o.Kind != exitReturn || !o.Commit {
			if o.Kind == exitCut {
				return map[string]int64{}
			}
			continue
		}
		cur := map[string]int64{}
		for _, f := range o.St.facts {
			if mm := notLessFact.FindStringSubmatch(f); mm != nil {
				var n int64
				fmt.Sscanf(mm[1], "%d", &n)
				if old, has := cur[mm[2]]; !has || n < old {
					cur[mm[2]] = n
				}
			}
		}
		if first {
			out, first = cur, false
			continue
		}
		for f, b := range out {
			if c2, has := cur[f]; !has {
				delete(out, f)
			} else if c2 > b {
				out[f] = c2
			}
		}
	}
	return out
}

func cmpFieldConst(t *Termer, fn *ssa.Function, bo *ssa.BinOp) (field string, cst int64, op token.Token, ok bool) {
	op = bo.Op
	if v, isC := constInt(bo.Y); isC {
		f := recvFieldOf(t, fn, bo.X)
		if !strings.HasPrefix(f, "?") {
			return f, v, op, true
		}
	}
	if v, isC := constInt(bo.X); isC {
		f := recvFieldOf(t, fn, bo.Y)
		if !strings.HasPrefix(f, "?") {
			return f, v, flipCmp(op), true
		}
	}
	return "", 0, op, false
}

// ruleExtAlphabet: the validated raw extension cannot contain '.', so the single-separator split is unambiguous.
func ruleExtAlphabet(c *Ctx, m *Model) {
	p := m.P
	var root *ssa.Function
	for _, f := range m.subjectFns(false) {
		if f.Name() == "Validate" && f.Signature.Recv() != nil && strings.HasSuffix(f.Signature.Recv().Type().String(), "ContentHash_Raw") {
			root = f
		}
	}
	if root == nil {
		c.Undecide("C15.CODEC", "extension#alphabet", "-", "ContentHash_Raw.Validate not found")
		return
	}
	// Per-character acceptance, decided by evaluating the loop body at the separator: in every
	// loop over the characters of the extension (in Validate or a same-package helper the
	// extension is handed to), is there a path from the start of the body to the next iteration
	// that is consistent with c == '.'? Comparisons of the character with constants are evaluated
	// concretely; every other condition may go either way. Such a path means a validated extension
	// can contain the separator the parser splits at.
	const sep = int64('.')
	type loopAt struct {
		fn    *ssa.Function
		hdr   *ssa.BasicBlock
		ch    ssa.Value
		binds map[*ssa.Parameter]*ssa.Function // function-valued parameters of fn as bound by the caller
	}
	var loops []loopAt
	seen := map[*ssa.Function]bool{}
	var visit func(fn *ssa.Function, extParams map[int]bool, fnParams map[int]*ssa.Function, depth int)
	visit = func(fn *ssa.Function, extParams map[int]bool, fnParams map[int]*ssa.Function, depth int) {
		if seen[fn] || depth > 3 {
			return
		}
		seen[fn] = true
		t := NewTermer(fn)
		binds := map[*ssa.Parameter]*ssa.Function{}
		for i, q := range fn.Params {
			if f := fnParams[i]; f != nil {
				binds[q] = f
			}
		}
		isExt := func(v ssa.Value) bool {
			for i := 0; i < 3; i++ { // []rune(ext), []byte(ext)
				if cv, ok := v.(*ssa.Convert); ok {
					v = cv.X
					continue
				}
				break
			}
			if prm, ok := v.(*ssa.Parameter); ok {
				for i, q := range fn.Params {
					if q == prm && extParams[i] {
						return true
					}
				}
			}
			return strings.Contains(t.T(v), "FileExtension")
		}
		for _, b := range fn.Blocks {
			for _, in := range b.Instrs {
				switch x := in.(type) {
				case *ssa.Range:
					if !isExt(x.X) {
						continue
					}
					for _, r := range *x.Referrers() {
						nx, ok := r.(*ssa.Next)
						if !ok {
							continue
						}
						for _, r2 := range *nx.Referrers() {
							if ex, ok := r2.(*ssa.Extract); ok && ex.Index == 2 {
								loops = append(loops, loopAt{fn, nx.Block(), ex, binds})
							}
						}
					}
				case *ssa.Call:
					if sc := x.Call.StaticCallee(); sc != nil && isRepoPkgPath(fnPkgPath(sc)) && len(sc.Blocks) > 0 {
						ep := map[int]bool{}
						fp := map[int]*ssa.Function{}
						for i, a := range x.Call.Args {
							if isExt(a) {
								ep[i] = true
							}
							if f := funcValueOf(a, binds); f != nil {
								fp[i] = f
							}
						}
						if len(ep) > 0 {
							visit(sc, ep, fp, depth+1)
						}
					}
				}
			}
		}
		// index loops: ext[i] compared — a byte-wise loop; the character value is the Index/Lookup of the extension
		for _, b := range fn.Blocks {
			for _, in := range b.Instrs {
				if ix, ok := in.(*ssa.Index); ok && isExt(ix.X) {
					if h := loopHeaderOf(fn, b); h != nil {
						loops = append(loops, loopAt{fn, h, ix, binds})
					}
				}
				// element of []rune(ext) / []byte(ext): load of &xs[i]
				if ld, ok := in.(*ssa.UnOp); ok && ld.Op == token.MUL {
					if ia, isIA := ld.X.(*ssa.IndexAddr); isIA && isExt(ia.X) {
						if h := loopHeaderOf(fn, b); h != nil {
							loops = append(loops, loopAt{fn, h, ld, binds})
						}
					}
				}
			}
		}
	}
	visit(root, nil, nil, 0)
	if len(loops) == 0 {
		c.Violate("C15.CODEC", "extension#alphabet", p.Pos(root.Pos()), "no loop over the characters of the file extension found in ContentHash_Raw.Validate or the helpers it hands the extension to: nothing keeps the separator '.' out of a validated extension", nil)
		return
	}
	bad := ""
	for _, lp := range loops {
		// value of "the character" and its widenings
		isCh := func(v ssa.Value) bool {
			for i := 0; i < 4; i++ {
				if v == lp.ch {
					return true
				}
				if cv, ok := v.(*ssa.Convert); ok {
					v = cv.X
					continue
				}
				break
			}
			return false
		}
		evalCond := func(v ssa.Value) (val, known bool) {
			neg := false
			for {
				if u, ok := v.(*ssa.UnOp); ok && u.Op == token.NOT {
					v, neg = u.X, !neg
					continue
				}
				break
			}
			if call, isCall := v.(*ssa.Call); isCall && !call.Call.IsInvoke() {
				// a predicate applied to the character (named function, or a function value the caller
				// bound): evaluated concretely at the separator
				callee := call.Call.StaticCallee()
				if callee == nil {
					callee = funcValueOf(call.Call.Value, lp.binds)
				}
				if callee != nil && len(callee.Blocks) > 0 && len(callee.Params) == len(call.Call.Args) {
					args := map[ssa.Value]int64{}
					for i, a := range call.Call.Args {
						if isCh(a) {
							args[callee.Params[i]] = sep
						}
					}
					if len(args) > 0 {
						if ct, cf := concreteBool(callee, args, 0); ct != cf {
							return ct != neg, true
						}
					}
				}
				return false, false
			}
			bo, ok := v.(*ssa.BinOp)
			if !ok {
				return false, false
			}
			var k int64
			op := bo.Op
			switch {
			case isCh(bo.X):
				n, isC := constInt(bo.Y)
				if !isC {
					return false, false
				}
				k = n
			case isCh(bo.Y):
				n, isC := constInt(bo.X)
				if !isC {
					return false, false
				}
				k, op = n, flipCmp(bo.Op)
			default:
				return false, false
			}
			var r bool
			switch op {
			case token.LSS:
				r = sep < k
			case token.GTR:
				r = sep > k
			case token.LEQ:
				r = sep <= k
			case token.GEQ:
				r = sep >= k
			case token.EQL:
				r = sep == k
			case token.NEQ:
				r = sep != k
			default:
				return false, false
			}
			return r != neg, true
		}
		// DFS from the block that defines the character to the loop header (= next iteration)
		start := lp.ch.(ssa.Instruction).Block()
		accept := false
		on := map[*ssa.BasicBlock]bool{}
		var walk func(b *ssa.BasicBlock, first bool)
		walk = func(b *ssa.BasicBlock, first bool) {
			if accept {
				return
			}
			if b == lp.hdr && !first {
				accept = true
				return
			}
			if on[b] {
				return
			}
			on[b] = true
			defer func() { on[b] = false }()
			last := b.Instrs[len(b.Instrs)-1]
			switch x := last.(type) {
			case *ssa.If:
				if v, known := evalCond(x.Cond); known {
					if v {
						walk(b.Succs[0], false)
					} else {
						walk(b.Succs[1], false)
					}
					return
				}
				// the loop's own continuation test (ok of Next) and unrelated conditions: both ways
				walk(b.Succs[0], false)
				walk(b.Succs[1], false)
			case *ssa.Jump:
				walk(b.Succs[0], false)
			}
		}
		walk(start, start == lp.hdr)
		if accept && bad == "" {
			bad = "in " + funcKey(lp.fn) + " a path through the character loop reaches the next iteration with c == '.' (at " + p.Pos(lp.ch.Pos()) + ")"
		}
	}
	if bad != "" {
		c.Violate("C15.CODEC", "extension#alphabet", p.Pos(root.Pos()), "a validated file extension can contain the separator '.': "+bad+"; ToIRI writes the extension after a '.', and ParseIRI requires exactly one '.', so the chain would reject the IRI it produced", nil)
	} else {
		c.Hold("C15.CODEC", "extension#alphabet", p.Pos(root.Pos()), fmt.Sprintf("%d character loop(s) over the file extension: no path accepts the separator '.' (0x2e)", len(loops)), nil)
	}
}

// funcValueOf: the function a function-typed value denotes — a named function, a closure without
// captured variables, or a parameter the caller bound to one.
func funcValueOf(v ssa.Value, binds map[*ssa.Parameter]*ssa.Function) *ssa.Function {
	for i := 0; i < 4; i++ {
		switch y := v.(type) {
		case *ssa.Function:
			return y
		case *ssa.MakeClosure:
			if f, ok := y.Fn.(*ssa.Function); ok && len(y.Bindings) == 0 {
				return f
			}
			return nil
		case *ssa.ChangeType:
			v = y.X
		case *ssa.Parameter:
			return binds[y]
		default:
			return nil
		}
	}
	return nil
}

// concreteBool evaluates a small pure function returning bool with some integer parameters fixed:
// integer comparisons and boolean connectives over known values are computed, every condition that is
// not known goes both ways. Returns whether the function can return true / can return false.
func concreteBool(fn *ssa.Function, known map[ssa.Value]int64, depth int) (canTrue, canFalse bool) {
	if depth > 3 || len(fn.Blocks) == 0 {
		return true, true
	}
	steps := 0
	type cv struct {
		i     int64
		b     bool
		isB   bool
		known bool
	}
	var run func(b, prev *ssa.BasicBlock, env map[ssa.Value]cv)
	eval := func(v ssa.Value, env map[ssa.Value]cv) cv {
		if c, ok := v.(*ssa.Const); ok && c.Value != nil {
			switch c.Value.Kind() {
			case constant.Bool:
				return cv{b: constant.BoolVal(c.Value), isB: true, known: true}
			case constant.Int:
				if n, exact := constant.Int64Val(c.Value); exact {
					return cv{i: n, known: true}
				}
			}
			return cv{}
		}
		return env[v]
	}
	run = func(b, prev *ssa.BasicBlock, env map[ssa.Value]cv) {
		steps++
		if steps > 4000 || (canTrue && canFalse) {
			canTrue, canFalse = true, true
			return
		}
		for _, in := range b.Instrs {
			switch y := in.(type) {
			case *ssa.Phi:
				for i, p := range b.Preds {
					if p == prev {
						env[y] = eval(y.Edges[i], env)
					}
				}
			case *ssa.Convert:
				env[y] = eval(y.X, env)
			case *ssa.ChangeType:
				env[y] = eval(y.X, env)
			case *ssa.UnOp:
				if x := eval(y.X, env); y.Op == token.NOT && x.known && x.isB {
					env[y] = cv{b: !x.b, isB: true, known: true}
				}
			case *ssa.BinOp:
				l, r := eval(y.X, env), eval(y.Y, env)
				if !l.known || !r.known || l.isB != r.isB {
					continue
				}
				if l.isB {
					switch y.Op {
					case token.EQL:
						env[y] = cv{b: l.b == r.b, isB: true, known: true}
					case token.NEQ:
						env[y] = cv{b: l.b != r.b, isB: true, known: true}
					}
					continue
				}
				var res bool
				ok := true
				switch y.Op {
				case token.LSS:
					res = l.i < r.i
				case token.GTR:
					res = l.i > r.i
				case token.LEQ:
					res = l.i <= r.i
				case token.GEQ:
					res = l.i >= r.i
				case token.EQL:
					res = l.i == r.i
				case token.NEQ:
					res = l.i != r.i
				case token.ADD:
					env[y], ok = cv{i: l.i + r.i, known: true}, false
				case token.SUB:
					env[y], ok = cv{i: l.i - r.i, known: true}, false
				default:
					ok = false
				}
				if ok {
					env[y] = cv{b: res, isB: true, known: true}
				}
			case *ssa.Call:
				sc := y.Call.StaticCallee()
				if sc == nil || len(sc.Blocks) == 0 || len(sc.Params) != len(y.Call.Args) || sc.Signature.Results().Len() != 1 {
					continue
				}
				if bt, isBasic := sc.Signature.Results().At(0).Type().Underlying().(*types.Basic); !isBasic || bt.Kind() != types.Bool {
					continue
				}
				sub := map[ssa.Value]int64{}
				for i, a := range y.Call.Args {
					if x := eval(a, env); x.known && !x.isB {
						sub[sc.Params[i]] = x.i
					}
				}
				if len(sub) == len(sc.Params) && len(sub) > 0 {
					if ct, cf := concreteBool(sc, sub, depth+1); ct != cf {
						env[y] = cv{b: ct, isB: true, known: true}
					}
				}
			case *ssa.If:
				c := eval(y.Cond, env)
				if c.known && c.isB {
					if c.b {
						run(b.Succs[0], b, env)
					} else {
						run(b.Succs[1], b, env)
					}
					return
				}
				e2 := map[ssa.Value]cv{}
				for k, v := range env {
					e2[k] = v
				}
				run(b.Succs[0], b, env)
				run(b.Succs[1], b, e2)
				return
			case *ssa.Jump:
				run(b.Succs[0], b, env)
				return
			case *ssa.Return:
				if len(y.Results) == 1 {
					if r := eval(y.Results[0], env); r.known && r.isB {
						if r.b {
							canTrue = true
						} else {
							canFalse = true
						}
						return
					}
				}
				canTrue, canFalse = true, true
				return
			case *ssa.Panic:
				return
			}
		}
	}
	env := map[ssa.Value]cv{}
	for k, v := range known {
		env[k] = cv{i: v, known: true}
	}
	run(fn.Blocks[0], nil, env)
	if !canTrue && !canFalse {
		return true, true
	}
	return canTrue, canFalse
}

// loopHeaderOf: the innermost natural-loop header whose body contains b (nil when b is in no loop).
func loopHeaderOf(fn *ssa.Function, b *ssa.BasicBlock) *ssa.BasicBlock {
	var best *ssa.BasicBlock
	for _, h := range fn.Blocks {
		for _, pr := range h.Preds {
			if !h.Dominates(pr) {
				continue
			}
			// body of the loop with back edge pr→h
			body := map[*ssa.BasicBlock]bool{h: true}
			var back func(q *ssa.BasicBlock)
			back = func(q *ssa.BasicBlock) {
				if body[q] {
					return
				}
				body[q] = true
				for _, r := range q.Preds {
					back(r)
				}
			}
			back(pr)
			if body[b] && (best == nil || best.Dominates(h)) {
				best = h
			}
		}
	}
	return best
}

// ---- IDENT: content hashes are told apart by their IRI ----------------------------------------------
//
// "Two different content hashes are never confused" also covers what a handler does *before* it reaches
// the store: a de-duplication set, a cache or an equality test keyed by something computed from the
// fields of a content hash. The IRI is the injective encoding the codec rules vouch for. A hand-made key
// that concatenates two variable-length fields of one hash type (hash bytes + file extension) is not
// injective; the checker does not try to prove hand-made keys injective: a map keyed by a value that
// derives from two or more variable-length fields of a content hash, not through ToIRI, is undecided.
func ruleHashIdentity(c *Ctx, m *Model) {
	p := m.P
	n := 0
	for _, fn := range m.subjectFns(true) {
		if len(fn.Blocks) == 0 || !strings.Contains(fnPkgPath(fn), "/x/data/") {
			continue
		}
		for _, b := range fn.Blocks {
			for _, in := range b.Instrs {
				var key ssa.Value
				switch y := in.(type) {
				case *ssa.MapUpdate:
					key = y.Key
				case *ssa.Lookup:
					if _, isMap := y.X.Type().Underlying().(*types.Map); isMap {
						key = y.Index
					}
				}
				if key == nil {
					continue
				}
				fields := map[string]bool{}
				hashKeyComponents(key, fields, map[ssa.Value]bool{}, 0)
				if len(fields) == 0 {
					continue
				}
				if !isCanaryFn(fn) {
					n++
				}
				perType := map[string][]string{}
				for f := range fields {
					t := f[:strings.Index(f, ".")]
					perType[t] = append(perType[t], f)
				}
				bad := ""
				for t, fs := range perType {
					if len(fs) >= 2 {
						sort.Strings(fs)
						bad = "of " + t + ": " + strings.Join(fs, ", ")
					}
				}
				k := funcKey(fn) + "#mapkey"
				if bad != "" {
					c.Undecide("C15.IDENT", k, p.Pos(in.Pos()), "a Go map is keyed by a value built from two or more variable-length fields "+bad+" without going through ToIRI: a plain concatenation of such fields is not injective (hash X‖\"jp\" + ext \"eg\" = hash X + ext \"jpeg\"), so two different content hashes can be taken for one")
				} else {
					c.Hold("C15.IDENT", k, p.Pos(in.Pos()), "map key derives from at most one variable-length field per content-hash type", nil)
				}
			}
		}
	}
	if n == 0 {
		c.Hold("C15.IDENT", "x/data#no-hand-made-hash-keys", "-", "no Go map in x/data is keyed by a value computed from content-hash fields other than through ToIRI", nil)
	}
	c.ExpectCanary("C15.IDENT")
}

// hashKeyComponents collects the variable-length (string / []byte) fields of content-hash structs that a
// value is computed from, following operands, local memory, and the results of hand-written callees; a
// ToIRI call is where the slice stops (the IRI is injective).
func hashKeyComponents(v ssa.Value, out map[string]bool, seen map[ssa.Value]bool, depth int) {
	if v == nil || seen[v] || depth > 60 {
		return
	}
	seen[v] = true
	field := func(x ssa.Value, idx int) {
		nt := namedOf(x.Type())
		if nt == nil || !strings.HasPrefix(nt.Obj().Name(), "ContentHash") {
			return
		}
		st, ok := nt.Underlying().(*types.Struct)
		if !ok || idx >= st.NumFields() {
			return
		}
		ft := st.Field(idx).Type().Underlying()
		varLen := false
		if bt, isB := ft.(*types.Basic); isB && bt.Kind() == types.String {
			varLen = true
		}
		if _, isS := ft.(*types.Slice); isS {
			varLen = true
		}
		if varLen {
			out[nt.Obj().Name()+"."+st.Field(idx).Name()] = true
		}
	}
	switch y := v.(type) {
	case *ssa.Const, *ssa.Global, *ssa.Function, *ssa.Builtin, *ssa.Parameter, *ssa.FreeVar:
		return
	case *ssa.Field:
		field(y.X, y.Field)
		hashKeyComponents(y.X, out, seen, depth+1)
		return
	case *ssa.FieldAddr:
		field(y.X, y.Field)
		hashKeyComponents(y.X, out, seen, depth+1)
		return
	case *ssa.Alloc:
		if y.Referrers() != nil {
			for _, r := range *y.Referrers() {
				if st, isS := r.(*ssa.Store); isS && st.Addr == y {
					hashKeyComponents(st.Val, out, seen, depth+1)
				}
			}
		}
		return
	case *ssa.Call:
		if sc := y.Call.StaticCallee(); sc != nil {
			if sc.Name() == "ToIRI" {
				return
			}
			if isRepoPkgPath(fnPkgPath(sc)) && len(sc.Blocks) > 0 && depth < 40 {
				// a hand-written helper: what it returns
				for _, b := range sc.Blocks {
					if ret, isR := b.Instrs[len(b.Instrs)-1].(*ssa.Return); isR {
						for _, rv := range ret.Results {
							hashKeyComponents(rv, out, seen, depth+20)
						}
					}
				}
				return
			}
		}
		if y.Call.IsInvoke() && y.Call.Method.Name() == "ToIRI" {
			return
		}
	}
	if in, ok := v.(ssa.Instruction); ok {
		var ops []*ssa.Value
		for _, o := range in.Operands(ops) {
			if *o != nil {
				hashKeyComponents(*o, out, seen, depth+1)
			}
		}
	}
}

// prefixHit: a row obtained from an iterator over List(key) where key binds all components of a primary
// or unique key and ends in a string / bytes component — a byte-prefix scan — that is used on a
// committed path without its own column having been compared with the value looked up.
type prefixHit struct {
	table, field, desc string
	pos                ssa.Instruction
}

func prefixHits(st *State, o *Outcome) []prefixHit {
	var out []prefixHit
	for i := range st.events {
		ev := &st.events[i]
		if ev.Kind != "read" || ev.OpKind != "itervalue" || ev.Table == nil || len(ev.Keys) != 1 || !inScope(o, ev) {
			continue
		}
		it, ok := ev.Keys[0].(*IterV)
		if !ok {
			continue
		}
		var ik *IndexKeyV
		if len(it.Keys) == 1 {
			ik, _ = it.Keys[0].(*IndexKeyV)
		}
		row := st.mem[ev.RowObj]
		if row == nil {
			continue
		}
		field, desc := "", ""
		switch {
		case ik != nil && it.Kind == "List" && ik.PrefixOnly >= 0 && ik.PrefixOnly < len(ik.Fields):
			field, desc = ik.Fields[ik.PrefixOnly], "List("+ik.Name+")"
		case ev.Table.Name == "DataID" && row.Preset["Id"] == nil && row.Preset["Iri"] == nil:
			// the id ⇄ IRI dictionary walked without a key (a merge join, "the next entry"): which entry
			// the row is must be established by comparing its Id or Iri with the one wanted
			field, desc = "Id", "an iteration over the DataID table that fixes neither Id nor Iri"
		default:
			continue
		}
		col := row.Name + "." + field
		compared := false
		for fi := ev.Facts; fi < len(st.facts); fi++ {
			f := st.facts[fi]
			if strings.Contains(f[1:], "Eq(") && (strings.Contains(f, col) || (ev.Table.Name == "DataID" && strings.Contains(f, row.Name+".Iri"))) && (strings.HasPrefix(f, "+") || field != "Id") {
				compared = true
			}
		}
		if compared {
			continue
		}
		// used at all? (a row that is only counted or discarded is harmless)
		used := false
		for j := i + 1; j < len(st.events) && !used; j++ {
			e2 := &st.events[j]
			for _, v := range e2.Row {
				if strings.Contains(st.canon(v), row.Name+".") {
					used = true
				}
			}
			for _, v := range append(append([]Val{}, e2.Keys...), e2.Args...) {
				if strings.Contains(st.canon(v), row.Name+".") {
					used = true
				}
			}
		}
		for _, rv := range o.Rets {
			if rv != nil && strings.Contains(st.canon(rv), row.Name) {
				used = true
			}
		}
		// copied into a response element / another object
		for _, ob := range st.mem {
			if used || ob == row {
				continue
			}
			for _, fv := range ob.F {
				if fv != nil && strings.Contains(st.canon(fv), row.Name+".") {
					used = true
					break
				}
			}
		}
		if !used {
			continue
		}
		out = append(out, prefixHit{table: ev.Table.Name, field: field, desc: desc, pos: ev.Pos})
	}
	return out
}

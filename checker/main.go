package main

import (
	"encoding/json"
	"fmt"
	"go/types"
	"os"
	"regexp"
	"runtime/debug"
	"sort"
	"strings"
)

// Env lazily loads repo modules for one check run.
type Env struct {
	overlay     map[string][]byte
	progs       map[string]*Program
	models      map[string]*Model
	Tier        string
	importDepth int
}

func (e *Env) Prog(mod string) *Program {
	if p, ok := e.progs[mod]; ok {
		return p
	}
	p, err := LoadModule(mod, withCanary(mod, e.overlay), true)
	if err != nil {
		panic(loadError{err})
	}
	e.progs[mod] = p
	return p
}

// Preload loads several modules concurrently.
func (e *Env) Preload(mods ...string) {
	type res struct {
		mod string
		p   *Program
		err error
	}
	ch := make(chan res, len(mods))
	n := 0
	for _, m := range mods {
		if _, ok := e.progs[m]; ok {
			continue
		}
		n++
		go func(m string) {
			p, err := LoadModule(m, withCanary(m, e.overlay), true)
			ch <- res{m, p, err}
		}(m)
	}
	var firstErr error
	for i := 0; i < n; i++ {
		r := <-ch
		if r.err != nil {
			if firstErr == nil {
				firstErr = r.err
			}
			continue
		}
		e.progs[r.mod] = r.p
	}
	if firstErr != nil {
		panic(loadError{firstErr})
	}
}

func (e *Env) Model(mod string) *Model {
	if m, ok := e.models[mod]; ok {
		return m
	}
	m := BuildModel(e.Prog(mod))
	e.models[mod] = m
	resolveSignersByExploration(m)
	return m
}

var signerTerm = regexp.MustCompile(`^addr\(req\.([A-Za-z][A-Za-z0-9]*)\)$`)

// resolveSignersByExploration: where GetSigners is not the plain "decode one field" shape (it calls a
// shared helper, possibly in another package), the signer field is read off its explored result: every
// returning path yields exactly one element addr(req.F) for the same F.
func resolveSignersByExploration(m *Model) {
	var x *Explorer
	for _, ep := range m.Entries {
		if ep.Kind != "msg" || ep.Req == nil || ep.SignerField != "" || m.P.SSA == nil {
			continue
		}
		if x == nil {
			x = NewExplorer(m)
		}
		for _, recv := range []types.Type{ep.Req, types.NewPointer(ep.Req)} {
			sel := m.P.SSA.MethodSets.MethodSet(recv).Lookup(ep.Req.Obj().Pkg(), "GetSigners")
			if sel == nil {
				continue
			}
			fn := m.P.SSA.MethodValue(sel)
			if fn == nil || fn.Synthetic != "" || len(fn.Params) != 1 {
				continue
			}
			var recvVal Val = &Sym{N: "req", T: fn.Params[0].Type()}
			if _, isPtr := fn.Params[0].Type().(*types.Pointer); isPtr {
				recvVal = &SymPtr{Base: "req", T: fn.Params[0].Type()}
			}
			field, ok := "", true
			for _, o := range x.Explore(fn, []Val{recvVal}) {
				if o.Kind != exitReturn || len(o.Rets) != 1 {
					continue
				}
				els, known := x.sliceElems(o.St, o.Rets[0])
				if !known || len(els) != 1 {
					ok = false
					break
				}
				mm := signerTerm.FindStringSubmatch(o.St.canon(els[0]))
				if mm == nil || (field != "" && field != mm[1]) {
					ok = false
					break
				}
				field = mm[1]
			}
			if ok && field != "" {
				ep.SignerField = field
			}
			break
		}
	}
}

type loadError struct{ err error }

type checkFn func(c *Ctx, e *Env)

var checks = map[string]checkFn{}

func register(id string, f checkFn) { checks[id] = f }

var cliOverlay map[string][]byte

// thoroughTier raises the explorer bounds and extends inventories to the excluded packages.
var thoroughTier bool

func usage() {
	fmt.Fprintln(os.Stderr, "usage: ledgerlint check <Cxx> [quick|thorough] [-overlay file.json] [-repo dir] | replay <file> | selftest [ids] | list")
	os.Exit(2)
}

func readOverlay(path string) map[string][]byte {
	b, err := os.ReadFile(path)
	if err != nil {
		fmt.Fprintln(os.Stderr, "overlay:", err)
		os.Exit(2)
	}
	var o struct {
		Replace map[string]string `json:"Replace"`
	}
	if err := json.Unmarshal(b, &o); err != nil {
		fmt.Fprintln(os.Stderr, "overlay:", err)
		os.Exit(2)
	}
	out := map[string][]byte{}
	for k, v := range o.Replace {
		c, err := os.ReadFile(v)
		if err != nil {
			fmt.Fprintln(os.Stderr, "overlay:", err)
			os.Exit(2)
		}
		out[k] = c
	}
	return out
}

func runCheck(id, tier string, overlay map[string][]byte) (code int) {
	return runCheckEnv(id, tier, &Env{overlay: overlay, progs: map[string]*Program{}, models: map[string]*Model{}, Tier: tier})
}

// runCheckEnv runs one check in a (possibly shared) environment: checkall loads each repo module once.
func runCheckEnv(id, tier string, e *Env) (code int) {
	thoroughTier = tier == "thorough"
	f, ok := checks[id]
	if !ok {
		fmt.Fprintf(os.Stderr, "no check registered for %s\n", id)
		return 2
	}
	c := NewCtx(id, tier)
	func() {
		defer func() {
			if r := recover(); r != nil {
				if le, ok := r.(loadError); ok {
					c.Undecide(id+".LOAD", "load", "-", "cannot load/type-check the repository: "+le.err.Error())
					return
				}
				st := string(debug.Stack())
				if len(st) > 3000 {
					st = st[:3000]
				}
				c.Undecide(id+".PANIC", "analyser", "-", fmt.Sprintf("analyser panic: %v\n%s", r, st))
			}
		}()
		f(c, e)
	}()
	if tier == "thorough" {
		thoroughInventory(c, e)
		c.Extra["sensitivity"] = runSensitivity(id)
	}
	return c.Finish()
}

func main() {
	if len(os.Args) < 2 {
		usage()
	}
	args := os.Args[1:]
	var pos []string
	var overlay map[string][]byte
	for i := 0; i < len(args); i++ {
		switch args[i] {
		case "-overlay", "--overlay":
			i++
			overlay = readOverlay(args[i])
			cliOverlay = overlay
		case "-repo", "--repo":
			i++
			repoRoot = args[i]
		case "-verif", "--verif":
			i++
			verifRoot = args[i]
		default:
			pos = append(pos, args[i])
		}
	}
	if v := os.Getenv("LEDGERLINT_VERIF"); v != "" {
		verifRoot = v
	}
	switch pos[0] {
	case "list":
		var ids []string
		for id := range checks {
			ids = append(ids, id)
		}
		sort.Strings(ids)
		fmt.Println(strings.Join(ids, " "))
	case "check":
		if len(pos) < 2 {
			usage()
		}
		tier := os.Getenv("VERIF_TIER")
		if len(pos) >= 3 {
			tier = pos[2]
		}
		if tier != "thorough" {
			tier = "quick"
		}
		os.Exit(runCheck(pos[1], tier, overlay))
	case "checkall":
		// checkall <id,id,…|all> [tier]: several checks in one process, one load per repo module
		if len(pos) < 2 {
			usage()
		}
		tier := "quick"
		if len(pos) >= 3 && pos[2] == "thorough" {
			tier = "thorough"
		}
		var ids []string
		if pos[1] == "all" {
			for id := range checks {
				ids = append(ids, id)
			}
		} else {
			ids = strings.Split(pos[1], ",")
		}
		sort.Strings(ids)
		e := &Env{overlay: overlay, progs: map[string]*Program{}, models: map[string]*Model{}, Tier: tier}
		worst := 0
		for _, id := range ids {
			if rc := runCheckEnv(id, tier, e); rc > worst {
				worst = rc
			}
		}
		os.Exit(worst)
	case "replay":
		if len(pos) < 2 {
			usage()
		}
		os.Exit(replay(pos[1]))
	case "inventory":
		inventory(pos[1])
	case "e1dump":
		e1dump(pos[1], pos[2], len(pos) > 3)
	case "e1fn":
		e1fn(pos[1], pos[2], pos[3])
	case "e1aborts":
		e1aborts(pos[1], pos[2])
	case "e1loops":
		e1loops(pos[1], pos[2])
	case "e1paramaborts":
		e1paramaborts(pos[1])
	case "e1unchecked":
		e1unchecked(pos[1])
	case "e1events":
		e1events(pos[1], pos[2])
	case "callees":
		calleeInventory(pos[1])
	case "mutgen":
		// mutgen <out.json> <seed> <per-operator sample size>: candidate edits only (tools/mutsweep.py runs them)
		var seed int64 = 1
		per := 0
		if len(pos) > 2 {
			fmt.Sscanf(pos[2], "%d", &seed)
		}
		if len(pos) > 3 {
			fmt.Sscanf(pos[3], "%d", &per)
		}
		mutgen(pos[1], seed, per)
	case "selftest":
		os.Exit(selftest(pos))
	default:
		usage()
	}
}

// replay re-evaluates the property of a replay file and reports whether the
// same rule+construct still fails on the current tree.
func replay(path string) int {
	b, err := os.ReadFile(path)
	if err != nil {
		fmt.Fprintln(os.Stderr, err)
		return 2
	}
	var r replayFile
	if err := json.Unmarshal(b, &r); err != nil {
		fmt.Fprintln(os.Stderr, err)
		return 2
	}
	f, ok := checks[r.Property]
	if !ok {
		return 2
	}
	c := NewCtx(r.Property, "quick")
	e := &Env{progs: map[string]*Program{}, models: map[string]*Model{}, Tier: "quick"}
	func() {
		defer func() {
			if x := recover(); x != nil {
				c.Undecide(r.Property+".PANIC", "analyser", "-", fmt.Sprint(x))
			}
		}()
		f(c, e)
	}()
	for _, o := range c.Obligs {
		if o.Rule == r.Rule && o.Construct == r.Construct {
			fmt.Printf("%s: [%s] %s %s: %s\n", o.Pos, o.Status, o.Rule, o.Construct, o.Detail)
			if o.Status == Violated || o.Status == Undecided {
				return 1
			}
			return 0
		}
	}
	fmt.Printf("obligation %s %s no longer exists on the current tree\n", r.Rule, r.Construct)
	return 0
}

package main

// reqalias — "the handler acts on the request as it was sent".
//
// The path explorer reads a request's repeated fields as symbolic sequences; it does not model the backing
// arrays of Go slices. A handler (or validator) that re-orders or overwrites the elements of a slice that
// may share its backing array with a repeated field of the request changes what the rest of the handler —
// and every rule that reads `req.X[i]` — sees: `issuers := append(req.RemoveIssuers, req.AddIssuers...)`
// followed by `sort.Strings(issuers)` permutes req.RemoveIssuers in place whenever the decoder left spare
// capacity (round-7 seed C08-13: the issuers the admin named are not the ones removed, the message succeeds).
//
// Rule (flow-insensitive forward taint over the SSA of the consensus closure, interprocedural through static
// calls): a value MAY ALIAS a request slice if it is a load of a slice-typed field reached from a message
// parameter, a re-slice of such a value, the result of append with such a value as its FIRST argument (append
// writes into spare capacity), a φ / conversion / interface boxing of such a value, or a parameter that receives
// one. In-place writers of such a value — sort.Strings/Ints/Float64s/Slice/SliceStable/Sort/Stable,
// slices.Sort/SortFunc/SortStableFunc/Reverse, and stores to its elements — are violations. A copy made with
// append on a nil/empty/fresh slice, make+copy or slices.Clone is not tainted.

import (
	"fmt"
	"go/types"
	"sort"
	"strings"

	"golang.org/x/tools/go/ssa"
)

var inPlaceWriters = map[string]bool{
	"sort.Strings": true, "sort.Ints": true, "sort.Float64s": true, "sort.Slice": true, "sort.SliceStable": true, "sort.Sort": true, "sort.Stable": true,
	"slices.Sort": true, "slices.SortFunc": true, "slices.SortStableFunc": true, "slices.Reverse": true,
}

func isMsgStructPtr(t types.Type) bool {
	pt, ok := t.Underlying().(*types.Pointer)
	if !ok {
		return false
	}
	n, ok := pt.Elem().(*types.Named)
	if !ok || n.Obj().Pkg() == nil {
		return false
	}
	return strings.HasPrefix(n.Obj().Name(), "Msg") && isRepoPkgPath(n.Obj().Pkg().Path())
}

// ruleRequestNotReordered reports under `rule`; fns is the set of functions to scan (a consensus closure).
func ruleRequestNotReordered(c *Ctx, m *Model, g *Graph, fns map[*ssa.Function]bool, rule string) {
	p := m.P
	// reqPtr: values that point into the request (the message parameter, its element messages)
	reqPtr := map[ssa.Value]bool{}
	alias := map[ssa.Value]bool{}
	var subj []*ssa.Function
	for _, fn := range sortedFns(fns) {
		if g.isSubjectFn(fn) && excludedPkg(fnPkgPath(fn)) == "" {
			subj = append(subj, fn)
		}
	}
	for _, fn := range subj {
		for _, prm := range fn.Params {
			if isMsgStructPtr(prm.Type()) {
				reqPtr[prm] = true
			}
		}
	}
	isSliceT := func(t types.Type) bool { _, ok := t.Underlying().(*types.Slice); return ok }
	isPtrT := func(t types.Type) bool { _, ok := t.Underlying().(*types.Pointer); return ok }
	changed := true
	mark := func(set map[ssa.Value]bool, v ssa.Value) {
		if !set[v] {
			set[v] = true
			changed = true
		}
	}
	for iter := 0; changed && iter < 12; iter++ {
		changed = false
		for _, fn := range subj {
			for _, b := range fn.Blocks {
				for _, in := range b.Instrs {
					switch x := in.(type) {
					case *ssa.UnOp:
						if x.Op.String() != "*" {
							continue
						}
						// load of a field / element reached from the request
						switch a := x.X.(type) {
						case *ssa.FieldAddr:
							if reqPtr[a.X] {
								if isSliceT(x.Type()) {
									mark(alias, x)
								} else if isPtrT(x.Type()) {
									mark(reqPtr, x)
								}
							}
						case *ssa.IndexAddr:
							if alias[a.X] && isPtrT(x.Type()) {
								mark(reqPtr, x) // req.Credits[i]
							}
						}
					case *ssa.Slice:
						if alias[x.X] {
							mark(alias, x)
						}
					case *ssa.Phi:
						for _, e := range x.Edges {
							if alias[e] {
								mark(alias, x)
							}
							if reqPtr[e] {
								mark(reqPtr, x)
							}
						}
					case *ssa.ChangeType:
						if alias[x.X] {
							mark(alias, x)
						}
					case *ssa.Convert:
						if alias[x.X] {
							mark(alias, x)
						}
					case *ssa.MakeInterface:
						if alias[x.X] {
							mark(alias, x)
						}
					case *ssa.Range:
						// for _, e := range req.Xs: the element pointers come out of Next/Extract; handled below
					case *ssa.Extract:
						// element of a range over a request slice of message pointers
						if nx, ok := x.Tuple.(*ssa.Next); ok && x.Index == 2 {
							if rg, ok := nx.Iter.(*ssa.Range); ok && alias[rg.X] && isPtrT(x.Type()) {
								mark(reqPtr, x)
							}
						}
					case *ssa.Call:
						cc := &x.Call
						if b, ok := cc.Value.(*ssa.Builtin); ok && b.Name() == "append" && len(cc.Args) > 0 && alias[cc.Args[0]] {
							mark(alias, x)
						}
						if sc := cc.StaticCallee(); sc != nil && fns[sc] {
							for i, a := range cc.Args {
								if i < len(sc.Params) {
									if alias[a] {
										mark(alias, sc.Params[i])
									}
									if reqPtr[a] {
										mark(reqPtr, sc.Params[i])
									}
								}
							}
						}
					}
				}
			}
		}
	}
	nSites, nBad := 0, 0
	var bads []string
	for _, fn := range subj {
		if isCanaryFn(fn) {
			continue
		}
		for _, b := range fn.Blocks {
			for _, in := range b.Instrs {
				switch x := in.(type) {
				case ssa.CallInstruction:
					pkg, name := calleePkgName(x.Common())
					if !inPlaceWriters[pkg+"."+name] || len(x.Common().Args) == 0 {
						continue
					}
					nSites++
					if alias[x.Common().Args[0]] {
						nBad++
						k := funcKey(fn) + "#" + pkg + "." + name
						bads = append(bads, k)
						c.Violate(rule, k, p.Pos(in.Pos()), pkg+"."+name+" re-orders, in place, a slice that may share its backing array with a repeated field of the request (a field load, a re-slice, or append onto the request's own slice): what the handler reads from the request afterwards is no longer what was sent and signed", nil)
					}
				case *ssa.Store:
					if ia, ok := x.Addr.(*ssa.IndexAddr); ok && alias[ia.X] {
						nSites++
						nBad++
						k := funcKey(fn) + "#element-store"
						bads = append(bads, k)
						c.Violate(rule, k, p.Pos(in.Pos()), "an element of a slice that may share its backing array with a repeated field of the request is overwritten", nil)
					}
				}
			}
		}
	}
	sort.Strings(bads)
	if nBad == 0 {
		c.Check(len(subj) > 0, rule, shortPkg(m.P.ModDir)+"#request-order", "-", fmt.Sprintf("%d functions of the consensus closure, %d values that may alias a repeated request field, %d in-place sort / reverse call sites: none re-orders or overwrites the request's own slices", len(subj), len(alias), nSites))
	}
}

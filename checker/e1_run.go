package main

// E1 driver: explores every entry point once per check run and offers the
// shared algebra (reduction modulo path equations, sign proofs, loop summaries).

import (
	"fmt"
	"go/types"
	"math/big"
	"regexp"
	"sort"
	"strings"

	"golang.org/x/tools/go/ssa"
)

type HandlerResult struct {
	EP           *EntryPoint
	Key          string
	Fn           *ssa.Function
	Outs         []*Outcome // committed outcomes: successful returns and loop iterations
	Aborts       int
	Cut          bool
	Panics       int
	X            *Explorer
	AbortOrigins map[string]int // error origins of the aborting paths
	AbortOuts    []*Outcome     // the aborting outcomes themselves (facts, returned error)
	deltas       map[*Outcome][]ColDelta
	nonneg       map[string]bool // loop atoms proven non-negative by induction
}

type E1 struct {
	M        *Model
	X        *Explorer
	Handlers []*HandlerResult
	byKey    map[string]*HandlerResult
}

var e1Cache = map[*Model]*E1{}

// blockEntries: functions run at block boundaries, explored like handlers. The begin-block entry is read
// off the call graph: Module.BeginBlock and the glue of the module package call into the server / keeper
// packages (through the module's Keeper interface); the first function outside the module package on that
// way from which the SellOrder table is written is the entry — so that what the hook passes down (the
// context, the block time) is part of what is explored. Falls back to the keeper method by name.
func blockEntries(m *Model) []*EntryPoint {
	var out []*EntryPoint
	if fn := beginBlockEntry(m); fn != nil {
		return append(out, &EntryPoint{Kind: "beginblock", Service: "marketplace", Name: "PruneSellOrders", Fn: fn, Implemented: true})
	}
	for _, fn := range m.subjectFns(false) {
		if fn.Name() == "PruneSellOrders" && fn.Signature.Recv() != nil && strings.HasSuffix(fnPkgPath(fn), "marketplace/keeper") {
			out = append(out, &EntryPoint{Kind: "beginblock", Service: "marketplace", Name: "PruneSellOrders", Fn: fn, Implemented: true})
		}
	}
	return out
}

func moduleBeginBlock(m *Model) *ssa.Function {
	for _, pk := range m.P.RepoList {
		if !strings.HasSuffix(pk.PkgPath, "x/ecocredit/v3/module") {
			continue
		}
		if tn, ok := pk.Types.Scope().Lookup("Module").(*types.TypeName); ok {
			if sel := m.P.SSA.MethodSets.MethodSet(tn.Type()).Lookup(pk.Types, "BeginBlock"); sel != nil {
				return m.P.SSA.MethodValue(sel)
			}
		}
	}
	return nil
}

func beginBlockEntry(m *Model) *ssa.Function {
	begin := moduleBeginBlock(m)
	if begin == nil {
		return nil
	}
	g := NewGraph(m.P)
	modPkg := fnPkgPath(begin)
	writesSellOrders := func(fn *ssa.Function) bool {
		for f := range g.Closure([]*ssa.Function{fn}) {
			for _, ci := range callsIn(f) {
				if call, ok := ci.(*ssa.Call); ok {
					if oc := m.AsORMCall(call); oc != nil && oc.Table.Name == "SellOrder" && isWriteOp(oc.Kind) {
						return true
					}
				}
			}
		}
		return false
	}
	seen := map[*ssa.Function]bool{begin: true}
	work := []*ssa.Function{begin}
	var cands []*ssa.Function
	for len(work) > 0 {
		f := work[0]
		work = work[1:]
		for _, cal := range g.Callees(f) {
			if seen[cal] || len(cal.Blocks) == 0 {
				continue
			}
			seen[cal] = true
			if fnPkgPath(cal) == modPkg {
				work = append(work, cal)
				continue
			}
			if g.isSubjectFn(cal) && cal.Signature.Recv() != nil && writesSellOrders(cal) {
				cands = append(cands, cal)
			}
		}
	}
	if len(cands) != 1 {
		return nil
	}
	return cands[0]
}

func RunE1(m *Model) *E1 {
	if r, ok := e1Cache[m]; ok {
		return r
	}
	x := NewExplorer(m)
	res := &E1{M: m, X: x, byKey: map[string]*HandlerResult{}}
	var eps []*EntryPoint
	for _, ep := range m.Entries {
		if ep.Kind == "msg" && ep.Implemented && ep.Fn != nil {
			eps = append(eps, ep)
		}
	}
	eps = append(eps, blockEntries(m)...)
	for _, fn := range canaryFns(m) {
		if strings.HasPrefix(fn.Name(), "E1") {
			eps = append(eps, &EntryPoint{Kind: "canary", Service: canaryPkgName, Name: fn.Name(), Fn: fn, Implemented: true, SignerField: "Owner"})
		}
	}
	for _, ep := range eps {
		fn := ep.Fn
		// unwrap pointer-receiver wrappers
		x.Stats.Paths = 0
		outs := x.Explore(fn, entryParams(fn))
		h := &HandlerResult{EP: ep, Key: ep.Key(), Fn: fn, X: x, Cut: x.cut, deltas: map[*Outcome][]ColDelta{}, AbortOrigins: map[string]int{}}
		for _, o := range outs {
			switch {
			case o.Kind == exitCut:
				h.Cut = true
			case o.Kind == exitPanic:
				h.Panics++
			case o.Kind == exitLoopback, o.Kind == exitReturn && o.Commit:
				h.Outs = append(h.Outs, o)
			default:
				h.Aborts++
				h.AbortOuts = append(h.AbortOuts, o)
				if idx := errResultIndex(fn.Signature); idx >= 0 && idx < len(o.Rets) {
					if ev, ok := o.Rets[idx].(*ErrV); ok {
						h.AbortOrigins[ev.Origin]++
					}
				}
			}
		}
		res.Handlers = append(res.Handlers, h)
		res.byKey[h.Key] = h
	}
	e1Cache[m] = res
	return res
}

func (h *HandlerResult) Deltas(o *Outcome) []ColDelta {
	if d, ok := h.deltas[o]; ok {
		return d
	}
	d := h.X.Deltas(o)
	// iteration outcomes only own the effects of their loop
	if o.Kind == exitLoopback {
		var f []ColDelta
		for _, c := range d {
			if strings.HasPrefix(c.Loop, o.Loop) {
				f = append(f, c)
			}
		}
		d = f
	}
	h.deltas[o] = d
	return d
}

// inScope: does an event belong to this outcome's own effects?
func inScope(o *Outcome, ev *Event) bool {
	if o.Kind == exitLoopback {
		return strings.HasPrefix(ev.Loop, o.Loop)
	}
	return true
}

// ---- algebra ----------------------------------------------------------------------

// reduce rewrites l modulo the path equations (each eq = 0) by Gaussian elimination.
func reduce(l Lin, eqs []Lin) Lin {
	if len(eqs) == 0 || l.IsZero() {
		return l
	}
	// equations also hold scaled by any power of ten that occurs in l
	tagSets := map[string][]string{}
	for a := range l.T {
		if tags, _ := stripTags(a); len(tags) > 0 {
			tagSets[strings.Join(tags, "")] = tags
		}
	}
	if len(tagSets) > 0 {
		ext := append([]Lin(nil), eqs...)
		for _, tags := range tagSets {
			for _, e := range eqs {
				if e.C.Sign() == 0 {
					ext = append(ext, applyTags(e, tags))
				}
			}
		}
		eqs = ext
	}
	// triangularise
	var piv []string
	var rows []Lin
	for _, e := range eqs {
		r := e.clone()
		for i, p := range piv {
			if c, ok := r.T[p]; ok {
				r = r.Sub(scaleLin(rows[i], c))
			}
		}
		as := r.Atoms()
		if len(as) == 0 {
			continue
		}
		// eliminate ordinary atoms first: loop symbols must stay visible for the accumulator rule
		p := as[0]
		for _, a := range as {
			if _, base := stripTags(a); !isLoopAtom(base) {
				p = a
				break
			}
		}
		// normalise pivot to 1
		inv := new(big.Rat).Inv(r.T[p])
		r = scaleLin(r, inv)
		// back-substitute into earlier rows
		for i := range rows {
			if c, ok := rows[i].T[p]; ok {
				rows[i] = rows[i].Sub(scaleLin(r, c))
			}
		}
		piv = append(piv, p)
		rows = append(rows, r)
	}
	out := l.clone()
	for i, p := range piv {
		if c, ok := out.T[p]; ok {
			out = out.Sub(scaleLin(rows[i], c))
		}
	}
	return out
}

func scaleLin(l Lin, c *big.Rat) Lin {
	r := l.clone()
	r.C.Mul(r.C, c)
	for k, v := range r.T {
		v.Mul(v, c)
		if v.Sign() == 0 {
			delete(r.T, k)
		}
	}
	return r
}

// provablyNonNeg: every term of l is a non-negative multiple of an atom proven ≥ 0
// on this path (constructor, loop induction), or a fact states the sign of l.
func (h *HandlerResult) provablyNonNeg(st *State, l Lin) (bool, string) {
	if l.IsZero() {
		return true, "zero"
	}
	l = reduce(l, st.eqs)
	if l.IsZero() {
		return true, "zero modulo path equations"
	}
	if l.C.Sign() >= 0 {
		ok := true
		for a, c := range l.T {
			if c.Sign() < 0 || !h.atomNonNeg(st, a) {
				ok = false
				break
			}
		}
		if ok {
			return true, "non-negative combination of non-negative atoms"
		}
	}
	s := l.String()
	if v, ok := st.known("Gt0(" + s + ")"); ok && v {
		return true, "path fact " + s + " > 0"
	}
	if v, ok := st.known("Lt0(" + s + ")"); ok && !v {
		return true, "path fact !(" + s + " < 0)"
	}
	if v, ok := st.known("Eq0(" + s + ")"); ok && v {
		return true, "path fact " + s + " = 0"
	}
	n := l.Neg().String()
	if v, ok := st.known("Lt0(" + n + ")"); ok && v {
		return true, "path fact " + n + " < 0"
	}
	if v, ok := st.known("Gt0(" + n + ")"); ok && !v {
		return true, "path fact !(" + n + " > 0)"
	}
	return false, "sign of " + s + " not provable"
}

var storedLedgerAtom = regexp.MustCompile(`^parse\((BatchBalance|BatchSupply|BasketBalance|SellOrder)#\d+\.(TradableAmount|RetiredAmount|EscrowedAmount|CancelledAmount|Balance|Quantity)\)$`)

func (h *HandlerResult) atomNonNeg(st *State, a string) bool {
	// stored ledger amounts are non-negative by the induction hypothesis (C01.SIGN holds in the pre-state)
	if storedLedgerAtom.MatchString(a) {
		return true
	}
	if at := st.atomAttr[a]; at != nil && at.NonNeg {
		return true
	}
	if h.nonneg[a] {
		return true
	}
	// scaling by a power of ten preserves sign
	if strings.HasPrefix(a, "⟨") {
		if i := strings.Index(a, "⟩·"); i > 0 {
			return h.atomNonNeg(st, a[i+len("⟩·"):])
		}
	}
	if strings.HasPrefix(a, "pow10(") {
		return true
	}
	return false
}

// inferLoopSigns proves loop symbols non-negative by induction: init ≥ 0 and every
// back-edge value ≥ 0 under the hypothesis.
func (h *HandlerResult) inferLoopSigns() {
	h.nonneg = map[string]bool{}
	type cand struct {
		atom string
	}
	cands := map[string]bool{}
	for _, o := range h.Outs {
		for _, l := range o.St.loops {
			for _, ph := range l.Phis {
				switch hv := ph.Havoc.(type) {
				case *DecV:
					for a := range hv.L.T {
						cands[a] = true
					}
				case *IntV:
					for a := range hv.L.T {
						cands[a] = true
					}
				}
			}
		}
	}
	// optimistic assumption, then refute
	for a := range cands {
		h.nonneg[a] = true
	}
	for changed := true; changed; {
		changed = false
		for _, o := range h.Outs {
			for _, l := range o.St.loops {
				for _, ph := range l.Phis {
					var atom string
					var init, back *Lin
					switch hv := ph.Havoc.(type) {
					case *DecV:
						for a := range hv.L.T {
							atom = a
						}
						if d, ok := ph.Init.(*DecV); ok {
							init = &d.L
						}
						if d, ok := ph.Back.(*DecV); ok {
							back = &d.L
						}
					case *IntV:
						for a := range hv.L.T {
							atom = a
						}
						if d, ok := ph.Init.(*IntV); ok {
							init = &d.L
						}
						if d, ok := ph.Back.(*IntV); ok {
							back = &d.L
						}
					default:
						continue
					}
					if !h.nonneg[atom] {
						continue
					}
					bad := false
					if init == nil {
						bad = true
					} else if ok, _ := h.provablyNonNeg(o.St, *init); !ok {
						bad = true
					}
					if o.Kind == exitLoopback && o.Loop == l.Tag {
						if back == nil {
							bad = true
						} else if ok, _ := h.provablyNonNeg(o.St, *back); !ok {
							bad = true
						}
					}
					if bad {
						delete(h.nonneg, atom)
						changed = true
					}
				}
			}
		}
	}
}

// loopDelta returns Back − Havoc of a numeric loop variable in an iteration outcome.
func loopDeltas(o *Outcome) map[string]Lin {
	out := map[string]Lin{}
	for _, l := range o.St.loops {
		if l.Tag != o.Loop {
			continue
		}
		for _, ph := range l.Phis {
			var hv, bk *Lin
			switch v := ph.Havoc.(type) {
			case *DecV:
				hv = &v.L
				if b, ok := ph.Back.(*DecV); ok {
					bk = &b.L
				}
			case *IntV:
				hv = &v.L
				if b, ok := ph.Back.(*IntV); ok {
					bk = &b.L
				}
			}
			if hv == nil || bk == nil {
				continue
			}
			for a := range hv.T {
				out[a] = bk.Sub(*hv)
			}
		}
	}
	return out
}

// loopInits returns loop atom → initial value, for all loops entered on this path.
func loopInits(o *Outcome) map[string]Lin {
	out := map[string]Lin{}
	for _, l := range o.St.loops {
		for _, ph := range l.Phis {
			var hv, in *Lin
			switch v := ph.Havoc.(type) {
			case *DecV:
				hv = &v.L
				if b, ok := ph.Init.(*DecV); ok {
					in = &b.L
				}
			case *IntV:
				hv = &v.L
				if b, ok := ph.Init.(*IntV); ok {
					in = &b.L
				}
			}
			if hv == nil || in == nil {
				continue
			}
			for a := range hv.T {
				out[a] = *in
			}
		}
	}
	return out
}

func isLoopAtom(a string) bool { return strings.HasPrefix(a, "loop:") }

// loopOfAtom extracts the loop tag of a loop atom ("loop:<tag><name>").
func loopOfAtom(a string) string {
	s := strings.TrimPrefix(a, "loop:")
	if i := strings.LastIndex(s, "/"); i >= 0 {
		return s[:i+1]
	}
	return ""
}

// outcomeLabel: a short stable description of a path for reports.
func outcomeLabel(h *HandlerResult, o *Outcome) string {
	kind := "return"
	if o.Kind == exitLoopback {
		kind = "iteration of " + o.Loop
	}
	var fs []string
	for _, f := range o.St.facts {
		if strings.Contains(f, "ErrNil") || strings.Contains(f, "Lt((") {
			continue
		}
		fs = append(fs, f)
	}
	if len(fs) > 8 {
		fs = fs[len(fs)-8:]
	}
	return fmt.Sprintf("%s [%s] %s", h.Key, kind, strings.Join(fs, " "))
}

func sortedOutcomes(h *HandlerResult) []*Outcome { return h.Outs }

func uniqStrings(in []string) []string {
	sort.Strings(in)
	var out []string
	for i, s := range in {
		if i == 0 || s != in[i-1] {
			out = append(out, s)
		}
	}
	return out
}

// methodOf finds the SSA function of a (possibly pointer-receiver) method of a named type.
func methodOf(m *Model, t *types.Named, name string) *ssa.Function {
	for _, recv := range []types.Type{t, types.NewPointer(t)} {
		sel := m.P.SSA.MethodSets.MethodSet(recv).Lookup(t.Obj().Pkg(), name)
		if sel == nil {
			continue
		}
		fn := m.P.SSA.MethodValue(sel)
		if fn == nil {
			continue
		}
		if fn.Synthetic != "" {
			for _, ci := range callsIn(fn) {
				if sc := ci.Common().StaticCallee(); sc != nil && sc.Name() == name {
					return sc
				}
			}
		}
		return fn
	}
	return nil
}

#!/usr/bin/env python3
"""gen_design_tables.py: regenerates the generated blocks of DESIGN.md (between BEGIN/END markers)
from tools/regress.out, mutants/catalog.json, mutants/observed.json, seeded/*/meta.json, evidence/*.json."""
import json, os, re, glob
V='/verif'
def block_matrix():
    out=[]
    out.append('#### Seeded changes (sub-agents) — rules that report each\n')
    out.append('| seed | what the change does (author\'s summary, shortened) | needs to manifest | rules of its own property that fire | other properties that also report |')
    out.append('|---|---|---|---|---|')
    reg={}
    for l in open(f'{V}/tools/regress.out'):
        p=l.split()
        if len(p)<3: continue
        rules=l.split('rules:')[1].split() if 'rules:' in l else []
        reg[(p[0],p[1])]=(p[2],rules)
    for d in sorted(os.listdir(f'{V}/seeded')):
        m=json.load(open(f'{V}/seeded/{d}/meta.json'))
        st,rules=reg.get(('seeded',d),('?',[]))
        prop=d.split('-')[0]
        own=sorted(set(r.split('×')[0] for r in rules if r.startswith(prop+'.')))
        oth=sorted(set(r.split('.')[0] for r in rules if not r.startswith(prop+'.')))
        summ=re.sub(r'\s+',' ',m.get('summary',''))[:230].replace('|','/')
        need=re.sub(r'\s+',' ',m.get('needs_to_manifest',''))[:170].replace('|','/')
        out.append(f'| {d} | {summ}… | {need}… | {", ".join(own) or st} | {", ".join(oth) or "—"} |')
    nb=sum(1 for k,v in reg.items() if k[0]=='benign'); nq=sum(1 for k,v in reg.items() if k[0]=='benign' and v[0]=='QUIET')
    out.append(f'\nBenign refactorings in the same run: {nq} of {nb} quiet on all 20 checks.\n')
    out.append('#### Catalogue mutants — rules that report each (all 20 checks run on each)\n')
    out.append('| mutant | edit | rules that fire |')
    out.append('|---|---|---|')
    cat=json.load(open(f'{V}/mutants/catalog.json'))
    obs=json.load(open(f'{V}/mutants/observed.json')) if os.path.exists(f'{V}/mutants/observed.json') else {}
    for m in cat:
        desc=re.sub(r'\s+',' ',m.get('desc',''))[:200].replace('|','/')
        if m.get('skip'):
            out.append(f'| {m["id"]} | {desc} | *retired:* {m["skip"][:160]} |'); continue
        o=obs.get(m['id'],{})
        fired=o.get('rules') or m.get('rules',[])
        st=o.get('status','')
        out.append(f'| {m["id"]} | {desc} | {", ".join(fired)}{"" if st!="missed" else " **MISSED**"} |')
    return '\n'.join(out)+'\n'
def block_rules():
    out=['| property | rule | holds | violated (known findings) | info | minimum counts (expected ≤ measured) | canaries fired |','|---|---|---|---|---|---|---|']
    for f in sorted(glob.glob(f'{V}/evidence/C*.json')):
        e=json.load(open(f)); c=e['coverage']; pid=e['property_id']
        mins='; '.join(f'{m["name"]}: {m["expected_min"]} ≤ {m["measured"]}' for m in (c.get('minimums') or []))
        can=', '.join(x['rule'] for x in (c.get('canaries') or []) if x.get('fired'))
        first=True
        for r,v in sorted(c.get('per_rule',{}).items()):
            out.append(f'| {pid if first else ""} | {r} | {v.get("holds",0)} | {v.get("violated",0)} | {v.get("info",0)} | {mins if first else ""} | {can if first else ""} |')
            first=False
    return '\n'.join(out)+'\n'
s=open(f'{V}/DESIGN.md').read()
for name,fn in (('matrix',block_matrix),('rules',block_rules)):
    a=f'<!-- BEGIN:{name} -->'; b=f'<!-- END:{name} -->'
    if a in s and b in s:
        s=s[:s.index(a)+len(a)]+'\n'+fn()+s[s.index(b):]
open(f'{V}/DESIGN.md','w').write(s)

#!/bin/bash
# benigncheck.sh <dir-with-patch.diff> : runs ALL checks on a (supposedly behaviour-preserving) patch via overlay.
# Prints violations; exit 0 when every check stays quiet. Never writes to /repo or /verif/evidence.
D=$(cd "$1" && pwd)
T=$(mktemp -d /tmp/benchk.XXXXXX)
python3 /verif/tools/patch2overlay.py "$D/patch.diff" "$T/ov" >/dev/null || { echo "overlay failed for $D"; rm -rf "$T"; exit 2; }
mkdir -p "$T/verif/evidence"; cp /verif/known_findings.json "$T/verif/"
OUT=$(LEDGERLINT_VERIF="$T/verif" /verif/bin/ledgerlint checkall ${2:-all} quick -overlay "$T/ov/overlay.json" 2>&1)
RC=$?
N=$(echo "$OUT" | grep -c '^VIOLATION')
echo "== $D: rc=$RC violations=$N"
if [ "$N" != 0 ] || [ $RC != 0 ]; then
  echo "$OUT" | grep -v '^KNOWN' | grep '\[violated\]\|\[undecided\]\|^VIOLATION' | cut -c1-600 | head -${3:-12}
fi
rm -rf "$T"
[ "$N" = 0 ] && [ $RC = 0 ]

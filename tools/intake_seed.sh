#!/bin/bash
# intake_seed.sh <Cxx> <srcdir> <round>: copies the deliveries <srcdir>/<Cxx>/{1,2} into seeded/<Cxx>-<next>,
# stamps the round, confirms each in a scratch worktree (verify_seed.sh) and runs all checks on it (overlay).
P=$1; SRC=$2; R=$3
cd /verif
for k in 1 2; do
  S=$SRC/$P/$k
  [ -f $S/patch.diff ] && [ -f $S/meta.json ] || { echo "$P/$k: no delivery"; continue; }
  n=1; while [ -d seeded/$P-$n ]; do n=$((n+1)); done
  D=seeded/$P-$n; mkdir -p $D
  cp $S/patch.diff $D/; cp $S/meta.json $D/; cp $S/*_test.go $D/zz_seed_demo_test.go 2>/dev/null
  python3 - $D $R <<'PY'
import json,sys
d,r=sys.argv[1],int(sys.argv[2])
m=json.load(open(d+'/meta.json')); m['round']=r; json.dump(m,open(d+'/meta.json','w'),indent=1,ensure_ascii=False)
PY
  tools/verify_seed.sh $D > $D/.verify.log 2>&1
  python3 -c "import json; v=json.load(open('$D/verify.json')); print('$D verify:', {k:v[k] for k in v if k not in ('suite_log','modules')})"
  T=$(mktemp -d /tmp/seedchk.XXXXXX)
  python3 tools/patch2overlay.py $D/patch.diff $T/ov >/dev/null || { echo "$D overlay failed"; continue; }
  mkdir -p $T/verif/evidence; cp known_findings.json $T/verif/
  OUT=$(LEDGERLINT_VERIF=$T/verif bin/ledgerlint checkall all quick -overlay $T/ov/overlay.json 2>&1)
  own=$(echo "$OUT" | grep -c "^VIOLATION property=$P ")
  tot=$(echo "$OUT" | grep -c "^VIOLATION")
  rules=$(echo "$OUT" | grep '\[violated\]\|\[undecided\]' | sed -E 's/^[^[]*\[(violated|undecided)\] (C[0-9]+\.[A-Za-z0-9.]+) .*/\2/' | sort | uniq -c | awk '{printf "%s×%s ", $2, $1}')
  echo "$D check: own=$own total=$tot rules: $rules"
  echo "$OUT" | grep '\[violated\]\|\[undecided\]' | cut -c1-500 > $D/.firstrun.txt
  echo "own=$own total=$tot rules: $rules" >> $D/.firstrun.txt
  rm -rf $T
done

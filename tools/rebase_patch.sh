#!/bin/bash
# rebase_patch.sh <dir>: re-creates <dir>/patch.diff against /repo's current HEAD (3-way apply in a scratch worktree)
# after a fix: commit in /repo moved the context of a catalogued patch. The old patch is kept as patch.diff.orig.
D=$(cd "$1" && pwd)
W=$(mktemp -d /tmp/rebase.XXXXXX); rmdir $W
git -C /repo worktree add -q --detach $W HEAD || exit 2
trap 'git -C /repo worktree remove --force $W >/dev/null 2>&1; rm -rf $W' EXIT
if git -C $W apply -3 "$D/patch.diff" 2>/tmp/rebase.err; then
  if git -C $W diff --name-only --diff-filter=U | grep -q .; then echo "$D: CONFLICT"; git -C $W diff --name-only --diff-filter=U; exit 1; fi
  git -C $W reset -q; git -C $W add -N . ; git -C $W diff > $D/patch.diff.new
  [ -s $D/patch.diff.new ] || { echo "$D: empty result"; exit 1; }
  [ -f $D/patch.diff.orig ] || cp $D/patch.diff $D/patch.diff.orig
  mv $D/patch.diff.new $D/patch.diff; echo "$D: rebased"
else
  echo "$D: 3-way apply failed: $(head -3 /tmp/rebase.err)"; exit 1
fi

#!/usr/bin/env python3
"""mutants_run.py [jobs]: runs ALL checks on every catalogue mutant (overlay, /repo untouched) and
writes mutants/observed.json: id -> {status, rules fired}. Used to fill in / confirm the `rules`
column of mutants/catalog.json; the thorough tier re-runs each property's own mutants itself."""
import json, os, subprocess, sys, tempfile, shutil, re
from concurrent.futures import ThreadPoolExecutor
V='/verif'; REPO=os.environ.get('REPO','/repo')
cat=json.load(open(f'{V}/mutants/catalog.json'))
# MUT_ONLY=id,id,… restricts the run; results are merged into mutants/observed.json
ONLY=set(filter(None,os.environ.get('MUT_ONLY','').split(',')))
if ONLY: cat=[m for m in cat if m['id'] in ONLY]
def run(m):
    if m.get('skip'): return m['id'],{'status':'skipped'}
    d=tempfile.mkdtemp(prefix='mut.')
    try:
        content={}
        for e in m['edits']:
            p=os.path.join(REPO,e['file'])
            cur=content.get(p) or open(p).read()
            if cur.count(e['find'])!=1: return m['id'],{'status':'stale','file':e['file']}
            content[p]=cur.replace(e['find'],e['replace'],1)
        repl={}
        for i,(p,t) in enumerate(content.items()):
            f=os.path.join(d,f'f{i}_{os.path.basename(p)}'); open(f,'w').write(t); repl[p]=f
        json.dump({'Replace':repl},open(d+'/ov.json','w'))
        os.makedirs(d+'/verif/evidence'); shutil.copy(f'{V}/known_findings.json',d+'/verif/')
        env=dict(os.environ,LEDGERLINT_VERIF=d+'/verif')
        out=subprocess.run([f'{V}/bin/ledgerlint','checkall','all','quick','-overlay',d+'/ov.json'],capture_output=True,text=True,env=env).stdout
        rules=sorted(set(re.findall(r'\[(?:violated|undecided)\] (C[0-9]+\.[A-Za-z0-9.]+) ',out)))
        props=sorted(set(re.findall(r'^VIOLATION property=(C\d+)',out,flags=re.M)))
        return m['id'],{'status':'detected' if props else 'missed','props':props,'rules':rules}
    finally:
        shutil.rmtree(d,ignore_errors=True)
jobs=int(sys.argv[1]) if len(sys.argv)>1 else 5
with ThreadPoolExecutor(jobs) as ex:
    res=dict(ex.map(run,cat))
if ONLY and os.path.exists(f'{V}/mutants/observed.json'):
    old=json.load(open(f'{V}/mutants/observed.json')); old.update(res); json.dump(old,open(f'{V}/mutants/observed.json','w'),indent=1)
else:
    json.dump(res,open(f'{V}/mutants/observed.json','w'),indent=1)
for m in cat:
    r=res[m['id']]
    exp=[x for x in m.get('rules',[])]
    hit=[x for x in exp if x in r.get('rules',[])]
    print(m['id'],r['status'],'expected',exp,'fired',r.get('rules'),'' if (not exp or hit) else '  <<< expected rule did not fire')

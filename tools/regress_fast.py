#!/usr/bin/env python3
"""regress_fast.py <mode> <list-file> [jobs]: runs catalogue entries through overlays and MERGES the result lines into
tools/regress.out. mode=full: all 20 checks (a benign entry must leave all of them quiet); mode=own: only the check of
the seed's own property (status DETECTED/MISSED refreshed, the rule list of an earlier full run is kept)."""
import json, os, re, subprocess, sys, tempfile, shutil
from concurrent.futures import ThreadPoolExecutor
V='/verif'; mode=sys.argv[1]; entries=[l.strip() for l in open(sys.argv[2]) if l.strip()]; jobs=int(sys.argv[3]) if len(sys.argv)>3 else 8
def one(d):
    kind=os.path.basename(os.path.dirname(d)); eid=os.path.basename(d)
    prop=re.sub(r'^R\d-','',eid).split('-')[0]
    T=tempfile.mkdtemp(prefix='rf.')
    try:
        r=subprocess.run(['python3',f'{V}/tools/patch2overlay.py',f'{V}/{d}/patch.diff',T+'/ov'],capture_output=True,text=True)
        if r.returncode!=0: return (kind,eid,f'{kind} {eid} STALE (patch no longer applies)\n')
        os.makedirs(T+'/verif/evidence'); shutil.copy(f'{V}/known_findings.json',T+'/verif/')
        env=dict(os.environ,LEDGERLINT_VERIF=T+'/verif')
        what='all' if mode=='full' else prop
        need=20 if mode=='full' else 1
        for attempt in range(2):
            o=subprocess.run([f'{V}/bin/ledgerlint','checkall',what,'quick','-overlay',T+'/ov/overlay.json'],capture_output=True,text=True,env=env)
            out=o.stdout+o.stderr
            if out.count(' quick: ')==need: break
        else:
            return (kind,eid,f'{kind} {eid} ERROR (checker did not complete: {out[-100:].strip()!r})\n')
        rules={}
        for m in re.finditer(r'\[(?:violated|undecided)\] (C[0-9]+\.[A-Za-z0-9.]+) ',out):
            rules[m.group(1)]=rules.get(m.group(1),0)+1
        rs=' '.join(f'{k}×{v}' for k,v in sorted(rules.items()))
        own=len(re.findall(rf'^VIOLATION property={prop} ',out,flags=re.M)); tot=len(re.findall(r'^VIOLATION',out,flags=re.M))
        if kind=='seeded': v='DETECTED' if own>0 else 'MISSED'
        else:
            v='QUIET' if tot==0 else 'FALSE-ALARM'
            if v=='FALSE-ALARM' and '"open_false_alarm": true' in open(f'{V}/{d}/meta.json').read(): v='OPEN-FALSE-ALARM'
        return (kind,eid,f'{kind} {eid} {v} own={own} total={tot} rules: {rs} \n',mode)
    finally:
        shutil.rmtree(T,ignore_errors=True)
with ThreadPoolExecutor(jobs) as ex: res=list(ex.map(one,entries))
old={}
for l in open(f'{V}/tools/regress.out'):
    p=l.split()
    if len(p)>=2: old[(p[0],p[1])]=l
for r in res:
    k=(r[0],r[1]); line=r[2]
    if mode=='own' and k in old and ' DETECTED ' in line and ' DETECTED ' in old[k]:
        continue  # keep the fuller rule list of the earlier full run
    if mode=='own': line=line.rstrip('\n').rstrip()+' (own property only)\n'
    old[k]=line
open(f'{V}/tools/regress.out','w').writelines(sorted(old.values()))
bad=[r[2] for r in res if any(w in r[2] for w in (' MISSED',' FALSE-ALARM',' STALE',' ERROR'))]
print(f'{len(res)} entries run ({mode}); problems: {len(bad)}'); print(''.join(bad))

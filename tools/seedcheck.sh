#!/bin/bash
# seedcheck.sh <seed-dir> [prop ...] : runs checks against a seeded patch through an overlay (no write to /repo).
# Uses a private verif root so evidence of the real tree is not overwritten.
D=$(cd "$1" && pwd); shift
PROPS="$@"
[ -z "$PROPS" ] && PROPS=$(python3 -c "import json; print(json.load(open('$D/meta.json'))['property'])")
T=$(mktemp -d /tmp/seedchk.XXXXXX)
python3 /verif/tools/patch2overlay.py "$D/patch.diff" "$T/ov" >/dev/null || exit 2
mkdir -p "$T/verif/evidence"; cp /verif/known_findings.json "$T/verif/"
for P in $PROPS; do
  OUT=$(LEDGERLINT_VERIF="$T/verif" /verif/bin/ledgerlint check $P quick -overlay "$T/ov/overlay.json" 2>&1)
  N=$(echo "$OUT" | grep -c '^VIOLATION')
  echo "== $(basename $(dirname $D))/$(basename $D) vs $P: $N violation lines"
  echo "$OUT" | grep -v '^VIOLATION\|^KNOWN' | grep 'violated\|undecided' | cut -c1-400 | head -6
done
rm -rf "$T"

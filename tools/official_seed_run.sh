#!/bin/bash
# official_seed_run.sh <seeded/Cxx-n> : the run the brief prescribes — apply to /repo, run the property's check, revert.
D=$(cd "$1" && pwd); P=$(basename $D); P=${P%%-*}
[ -n "$(git -C /repo status --porcelain)" ] && { echo "/repo not clean"; exit 2; }
trap 'git -C /repo checkout -- . ; git -C /repo clean -fdq -- x types api 2>/dev/null' EXIT
git -C /repo apply "$D/patch.diff" || exit 2
T=$(mktemp -d /tmp/offrun.XXXXXX); mkdir -p $T/evidence; cp /verif/known_findings.json $T/
OUT=$(LEDGERLINT_VERIF=$T /verif/run check $P quick 2>&1); RC=$?
echo "$P on $(basename $D): exit=$RC $(echo "$OUT" | grep -c '^VIOLATION') VIOLATION lines"
rm -rf $T

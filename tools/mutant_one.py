#!/usr/bin/env python3
"""mutant_one.py <id> [props] [binary]: runs the checks (default: all) on ONE catalogue mutant through an overlay
and prints the violated/undecided lines. /repo is not touched."""
import json, os, subprocess, sys, tempfile, shutil
V='/verif'; REPO='/repo'
cat={m['id']:m for m in json.load(open(f'{V}/mutants/catalog.json'))}
m=cat[sys.argv[1]]; props=sys.argv[2] if len(sys.argv)>2 else 'all'; binary=sys.argv[3] if len(sys.argv)>3 else f'{V}/bin/ledgerlint'
d=tempfile.mkdtemp(prefix='mut1.')
try:
    content={}
    for e in m['edits']:
        p=os.path.join(REPO,e['file']); cur=content.get(p) or open(p).read()
        assert cur.count(e['find'])==1, ('stale', e['file'], cur.count(e['find']))
        content[p]=cur.replace(e['find'],e['replace'],1)
    repl={}
    for i,(p,t) in enumerate(content.items()):
        f=os.path.join(d,f'f{i}_{os.path.basename(p)}'); open(f,'w').write(t); repl[p]=f
    json.dump({'Replace':repl},open(d+'/ov.json','w'))
    os.makedirs(d+'/verif/evidence'); shutil.copy(f'{V}/known_findings.json',d+'/verif/')
    env=dict(os.environ,LEDGERLINT_VERIF=d+'/verif')
    cmd=[binary,'checkall' if props=='all' or ',' in props else 'check',props,'quick','-overlay',d+'/ov.json']
    out=subprocess.run(cmd,capture_output=True,text=True,env=env)
    for l in (out.stdout+out.stderr).splitlines():
        if l.startswith('KNOWN'): continue
        if '[violated]' in l or '[undecided]' in l or ' quick: ' in l or l.startswith('VIOLATION'): print(l[:700])
finally:
    shutil.rmtree(d,ignore_errors=True)

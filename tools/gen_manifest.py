#!/usr/bin/env python3
"""Regenerates /verif/MANIFEST.json from the table below (kept next to the code so
the manifest never drifts from what the checker registers)."""
import json, os, subprocess, sys

HERE = os.path.dirname(os.path.dirname(os.path.abspath(__file__)))

ASSUME = ("Trusted base: go/types + go/ssa (x/tools v0.29.0), this checker, and the standing assumptions of DESIGN.md §2.6 "
          "(A1 ORM table semantics, A2 apd/big arithmetic, A3 per-message cache-wrap rollback in baseapp, A4 valid genesis, "
          "A5 bank keeper methods do what their names say, A7 ValidateBasic runs before top-level handlers, A8 no in-place migration inside a history).")

# id -> (technique, decided text, not-decided text, design ref)
CLAIMS = {}

PENDING_REASON = "rule set for this property is designed (DESIGN.md §4) but not yet armed in the checker at this commit; not claimed until it is"

def load_claims():
    p = os.path.join(HERE, "tools", "claims.json")
    if os.path.exists(p):
        return json.load(open(p))
    return {}

def main():
    claims = load_claims()
    props = [json.loads(l) for l in open(os.path.join(HERE, "properties.jsonl"))]
    checks, na = [], []
    for p in props:
        pid = p["id"]
        c = claims.get(pid)
        if not c or c.get("not_applicable"):
            na.append({"property_id": pid, "reason": (c or {}).get("not_applicable", PENDING_REASON)})
            continue
        checks.append({
            "property_id": pid,
            "quick_cmd": f"./run check {pid} quick",
            "thorough_cmd": f"./run check {pid} thorough",
            "evidence_file": f"/verif/evidence/{pid}.json",
            "replay_cmd_template": "./run replay {path}",
            "engine": "ledgerlint",
            "level_claimed": {
                "category": "other",
                "text": "Static analysis of /repo's type-checked program and SSA form. DECIDED: " + c["decided"] + " NOT DECIDED (stated, not claimed): " + c["not_decided"],
                "design_ref": c.get("design_ref", "DESIGN.md §4 " + pid),
            },
            "level_note": ASSUME + (" " + c["note"] if c.get("note") else ""),
            "technique": c["technique"],
        })
    m = {
        "version": 1,
        "setup_cmd": "cd /verif/checker && GOFLAGS=-mod=mod GOPROXY=off GOSUMDB=off GOTOOLCHAIN=local GOWORK=off go build -o /verif/bin/ledgerlint .",
        "hooks": {
            "guard": "verif",
            "enable": "no hooks: the checker is a static analyser reading /repo's source; nothing in /repo is instrumented",
            "baseline_off_cmd": "for m in . api types x/data x/ecocredit x/intertx; do (cd /repo/$m && GOFLAGS=-mod=mod go test -vet=off -count=1 ./...) ; done",
            "source_commits": [],
            "add_only": True,
        },
        "engines": [{
            "name": "ledgerlint",
            "path": "/verif/checker",
            "serves_properties": [c["property_id"] for c in checks],
            "kind_free_text": "repository-specific static analyser (go/packages + go/types + go/ssa + call graph): path-sensitive affine effect analysis over handler SSA, must-pass-through guard rules, who-may-write inventories, validator/producer domain agreement, regex/format automata inclusion, determinism lints, query-shape rules, Dec API shape rules",
        }],
        "checks": checks,
        "not_applicable": na,
        "notes": "All verdicts are static (no regen-ledger code is executed). Each claimed property is claimed at level 'other': the structural clauses named in level_claimed.text are decided exhaustively over the code; the runtime-value clauses named there are not. Known genuine defects: /verif/known_findings.json.",
    }
    json.dump(m, open(os.path.join(HERE, "MANIFEST.json"), "w"), indent=1)
    print(f"MANIFEST.json: {len(checks)} claimed, {len(na)} not claimed")

if __name__ == "__main__":
    main()

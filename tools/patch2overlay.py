#!/usr/bin/env python3
"""patch2overlay.py <patch.diff> <outdir>: materialises the patched versions of the files a
patch touches (without touching /repo) and writes <outdir>/overlay.json for `ledgerlint -overlay`."""
import sys, os, shutil, subprocess, json
patch, out = os.path.abspath(sys.argv[1]), os.path.abspath(sys.argv[2])
repo = os.environ.get("REPO", "/repo")
shutil.rmtree(out, ignore_errors=True); os.makedirs(out)
files = []
for l in open(patch):
    if l.startswith('+++ b/'): files.append(l[6:].strip())
    elif l.startswith('--- a/'):
        f = l[6:].strip()
        if f not in files: files.append(f)
files = sorted(set(f for f in files if f != '/dev/null'))
for f in files:
    src = os.path.join(repo, f)
    dst = os.path.join(out, 'tree', f)
    os.makedirs(os.path.dirname(dst), exist_ok=True)
    if os.path.exists(src): shutil.copy(src, dst)
r = subprocess.run(['git', 'apply', '--unsafe-paths', patch], cwd=os.path.join(out, 'tree'), capture_output=True, text=True)
if r.returncode != 0:
    print("apply failed:", r.stderr, file=sys.stderr); sys.exit(1)
ov = {"Replace": {os.path.join(repo, f): os.path.join(out, 'tree', f) for f in files if os.path.exists(os.path.join(out, 'tree', f))}}
json.dump(ov, open(os.path.join(out, 'overlay.json'), 'w'), indent=1)
print(os.path.join(out, 'overlay.json'))

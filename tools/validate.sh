#!/bin/sh
# validates MANIFEST.json and every evidence file against the schemas
python3-vt - <<'PY'
import json,glob,jsonschema,sys
ok=True
try:
    jsonschema.validate(json.load(open('/verif/MANIFEST.json')), json.load(open('/root/.vp/MANIFEST.schema.json'))); print('MANIFEST valid')
except Exception as e:
    ok=False; print('MANIFEST INVALID', str(e)[:300])
sch=json.load(open('/root/.vp/EVIDENCE.schema.json'))
for f in sorted(glob.glob('/verif/evidence/C*.json')):
    try:
        jsonschema.validate(json.load(open(f)), sch)
    except Exception as e:
        ok=False; print(f,'INVALID',str(e)[:300])
print('evidence files checked:',len(glob.glob('/verif/evidence/C*.json')))
sys.exit(0 if ok else 1)
PY

#!/bin/bash
# regress_subset.sh <list-file> [jobs] [binary]: as regress.sh, for the catalogue entries named in <list-file>
# (one directory per line, relative to /verif); results are MERGED into tools/regress.out (entries re-run replace
# their old lines). Used after a change of the checker that can only affect part of the catalogue.
L=$1; J=${2:-6}; export LL_BIN=${3:-bin/ledgerlint}
cd /verif
one() {
  d=$1; kind=$(basename $(dirname $d)); id=$(basename $d); prop=${id#R2-}; prop=${prop#R3-}; prop=${prop%%-*}
  T=$(mktemp -d /tmp/regr.XXXXXX)
  if ! python3 tools/patch2overlay.py $d/patch.diff $T/ov >/dev/null 2>&1; then echo "$kind $id STALE (patch no longer applies)"; rm -rf $T; return; fi
  mkdir -p $T/verif/evidence; cp known_findings.json $T/verif/
  OUT=$(LEDGERLINT_VERIF=$T/verif $LL_BIN checkall all quick -overlay $T/ov/overlay.json 2>&1)
  # a run that did not reach all 20 summary lines (killed, out of memory on a loaded machine) is retried once
  if [ "$(echo "$OUT" | grep -c ' quick: ')" != 20 ]; then
    OUT=$(LEDGERLINT_VERIF=$T/verif $LL_BIN checkall all quick -overlay $T/ov/overlay.json 2>&1)
  fi
  if [ "$(echo "$OUT" | grep -c ' quick: ')" != 20 ]; then echo "$kind $id ERROR (checker did not complete: $(echo "$OUT" | tail -1 | cut -c1-120))"; rm -rf $T; return; fi
  rules=$(echo "$OUT" | grep '\[violated\]\|\[undecided\]' | sed -E 's/^[^[]*\[(violated|undecided)\] (C[0-9]+\.[A-Za-z0-9.]+) .*/\2/' | sort | uniq -c | awk '{printf "%s×%s ", $2, $1}')
  own=$(echo "$OUT" | grep -c "^VIOLATION property=$prop ")
  tot=$(echo "$OUT" | grep -c "^VIOLATION")
  if [ $kind = seeded ]; then
    [ $own -gt 0 ] && v=DETECTED || v=MISSED
  else
    [ $tot -eq 0 ] && v=QUIET || v=FALSE-ALARM
    # false alarms of the checker that are known and recorded as open (DESIGN §6.3) are listed as such
    if [ $v = FALSE-ALARM ] && grep -q '"open_false_alarm": true' $d/meta.json 2>/dev/null; then v=OPEN-FALSE-ALARM; fi
  fi
  echo "$kind $id $v own=$own total=$tot rules: $rules"
  rm -rf $T
}
export -f one
cat $L | xargs -P $J -I{} bash -c 'one {}' | sort > /tmp/regress_subset.out
python3 - <<'PY'
import re
new={}
for l in open('/tmp/regress_subset.out'):
    p=l.split()
    if len(p)>=2: new[(p[0],p[1])]=l
old=[]
try:
    for l in open('/verif/tools/regress.out'):
        p=l.split()
        if len(p)>=2 and (p[0],p[1]) in new: continue
        old.append(l)
except FileNotFoundError: pass
open('/verif/tools/regress.out','w').writelines(sorted(old+list(new.values())))
PY
grep -c DETECTED tools/regress.out | sed 's/^/seeds detected: /'
grep -c QUIET tools/regress.out | sed 's/^/benign quiet: /'
grep 'MISSED\|FALSE-ALARM\|STALE\|ERROR' tools/regress.out
true

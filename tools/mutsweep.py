#!/usr/bin/env python3
"""mutsweep.py <automut.json> <out.json> [jobs] [binary]
Runs ALL 20 checks (quick) on every automatically generated mutant (ledgerlint mutgen) through an overlay;
/repo is never written. Classifies each mutant:
  invalid   the mutated program does not type-check (discarded)
  reported  at least one check prints VIOLATION (rules listed)
  quiet     every check stays quiet — to be triaged by hand: equivalent / outside the twenty properties / a gap
A measurement of the checker (DESIGN §6.5); it never takes part in a verdict."""
import json, os, subprocess, sys, tempfile, shutil, re
from concurrent.futures import ThreadPoolExecutor
V = os.environ.get('VERIF_ROOT', '/verif'); REPO = '/repo'
muts = json.load(open(sys.argv[1])); out = sys.argv[2]
jobs = int(sys.argv[3]) if len(sys.argv) > 3 else 3
binary = sys.argv[4] if len(sys.argv) > 4 else f'{V}/bin/ledgerlint'
done = {}
if os.path.exists(out):
    done = {r['id']: r for r in json.load(open(out))}

def run(m):
    if m['id'] in done:
        return done[m['id']]
    d = tempfile.mkdtemp(prefix='amut.')
    try:
        p = os.path.join(REPO, m['file'])
        src = open(p, 'rb').read()
        if src[m['start']:m['end']].decode() != m['old']:
            return dict(m, status='stale')
        new = src[:m['start']] + m['new'].encode() + src[m['end']:]
        f = os.path.join(d, os.path.basename(p)); open(f, 'wb').write(new)
        json.dump({'Replace': {p: f}}, open(d + '/ov.json', 'w'))
        os.makedirs(d + '/verif/evidence'); shutil.copy(f'{V}/known_findings.json', d + '/verif/')
        env = dict(os.environ, LEDGERLINT_VERIF=d + '/verif')
        r = subprocess.run([binary, 'checkall', 'all', 'quick', '-overlay', d + '/ov.json'], capture_output=True, text=True, env=env)
        o = r.stdout + r.stderr
        if 'cannot load/type-check the repository' in o:
            return dict(m, status='invalid')
        if o.count(' quick: ') != 20:
            return dict(m, status='error', tail=o[-300:])
        rules = sorted(set(re.findall(r'\[(?:violated|undecided)\] (C[0-9]+\.[A-Za-z0-9.]+) ', o)))
        props = sorted(set(re.findall(r'^VIOLATION property=(C\d+)', o, flags=re.M)))
        return dict(m, status='reported' if props else 'quiet', props=props, rules=rules)
    finally:
        shutil.rmtree(d, ignore_errors=True)

res = []
with ThreadPoolExecutor(jobs) as ex:
    for r in ex.map(run, muts):
        res.append(r)
        json.dump(res, open(out, 'w'), indent=1)
        print(r['id'], r['status'], r['file'] + ':' + str(r['line']), r.get('func'), '|', r['old'][:40].replace('\n', ' '), '→', r['new'][:40].replace('\n', ' '), '|', ' '.join(r.get('rules', []))[:150], flush=True)
cnt = {}
for r in res:
    cnt[r['status']] = cnt.get(r['status'], 0) + 1
print('SUMMARY', cnt)

#!/bin/bash
# verify_seed.sh <seed-dir>   (dir containing patch.diff, meta.json, zz_seed_demo_test.go)
# Confirms, in a scratch worktree of /repo: demo passes unchanged, patch applies and builds,
# demo fails with the patch, full suites of the affected modules pass with the patch.
# Writes <seed-dir>/verify.json. Never touches /repo's working tree.
set -u
D=$(cd "$1" && pwd)
export GOFLAGS=-mod=mod GOPROXY=off GOSUMDB=off GOTOOLCHAIN=local GOWORK=off
W=$(mktemp -d /tmp/vseed.XXXXXX)
rmdir "$W"
git -C /repo worktree add -q --detach "$W" HEAD || { echo "worktree failed"; exit 2; }
cleanup() { git -C /repo worktree remove --force "$W" >/dev/null 2>&1; rm -rf "$W"; }
trap cleanup EXIT
DEMODIR=$(python3 -c "import json,sys; print(json.load(open('$D/meta.json'))['demo_test_dir'])")
DEMOFILE=$(ls "$D"/*_test.go | head -1)
MODS=$(python3 - "$D" <<'PY'
import sys,subprocess,re
d=sys.argv[1]
files=[l[6:].strip() for l in open(d+'/patch.diff') if l.startswith('+++ b/')]
mods=set()
for f in files:
    for m in ['x/ecocredit','x/data','x/intertx','types','api']:
        if f.startswith(m+'/'): mods.add(m)
if 'types' in mods or 'api' in mods: mods |= {'types','x/ecocredit','x/data','x/intertx'}
print(' '.join(sorted(mods)))
PY
)
DEMOMOD=""
for m in x/ecocredit x/data x/intertx types api; do case "$DEMODIR" in $m|$m/*) DEMOMOD=$m;; esac; done
REL=${DEMODIR#$DEMOMOD}; REL=${REL#/}; [ -z "$REL" ] && REL=.
TESTS=$(grep -o '^func Test[A-Za-z0-9_]*' "$DEMOFILE" | sed 's/func //' | paste -sd'|')
rundemo() { (cd "$W/$DEMOMOD" && go test -vet=off -count=1 -run "^($TESTS)\$" "./$REL" 2>&1 | tail -15); }
cp "$DEMOFILE" "$W/$DEMODIR/zz_seed_demo_test.go"
OUT0=$(rundemo); echo "$OUT0" | grep -q '^ok' && P0=true || P0=false
git -C "$W" apply "$D/patch.diff" && APPLY=true || APPLY=false
BUILD=true
for m in $MODS; do (cd "$W/$m" && go build ./... >/dev/null 2>&1) || BUILD=false; done
OUT1=$(rundemo); echo "$OUT1" | grep -q '^ok' && P1=true || P1=false
echo "$OUT1" | grep -q 'FAIL' && F1=true || F1=false
rm -f "$W/$DEMODIR/zz_seed_demo_test.go"
SUITE=true; SUITELOG=""
for m in $MODS; do
  O=$(cd "$W/$m" && go test -vet=off -count=1 ./... 2>&1 | grep -v '^ok\|no test files' | tail -8)
  if [ -n "$O" ]; then SUITE=false; SUITELOG="$SUITELOG [$m] $O"; fi
done
python3 - "$D" "$P0" "$APPLY" "$BUILD" "$P1" "$F1" "$SUITE" "$MODS" "$SUITELOG" <<'PY'
import json,sys
d,p0,ap,b,p1,f1,su,mods,log=sys.argv[1:10]
t=lambda s:s=='true'
r={"demo_passes_unchanged":t(p0),"patch_applies":t(ap),"builds":t(b),"demo_fails_with_change":(not t(p1)) and t(f1),"suite_passes_with_change":t(su),"modules":mods.split(),"suite_log":log[:600]}
r["confirmed"]=all([r["demo_passes_unchanged"],r["patch_applies"],r["builds"],r["demo_fails_with_change"],r["suite_passes_with_change"]])
json.dump(r,open(d+'/verify.json','w'),indent=1)
print(d, "CONFIRMED" if r["confirmed"] else "NOT-CONFIRMED", json.dumps(r))
PY

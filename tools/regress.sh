#!/bin/bash
# regress.sh [jobs]: runs the whole catalogue through overlays (never writes to /repo):
#   seeded/<Cxx>-<n>  must be reported by the check of its own property (all 20 checks are run);
#   benign/<Cxx>-<n>  must leave every check quiet.
# Writes tools/regress.out (one line per entry) and prints a summary.
J=${1:-5}
cd /verif
one() {
  d=$1; kind=$(basename $(dirname $d)); id=$(basename $d); prop=${id#R2-}; prop=${prop#R3-}; prop=${prop%%-*}
  T=$(mktemp -d /tmp/regr.XXXXXX)
  if ! python3 tools/patch2overlay.py $d/patch.diff $T/ov >/dev/null 2>&1; then echo "$kind $id STALE (patch no longer applies)"; rm -rf $T; return; fi
  mkdir -p $T/verif/evidence; cp known_findings.json $T/verif/
  OUT=$(LEDGERLINT_VERIF=$T/verif bin/ledgerlint checkall all quick -overlay $T/ov/overlay.json 2>&1)
  # a run that did not reach all 20 summary lines (killed, out of memory on a loaded machine) is retried once
  if [ "$(echo "$OUT" | grep -c ' quick: ')" != 20 ]; then
    OUT=$(LEDGERLINT_VERIF=$T/verif bin/ledgerlint checkall all quick -overlay $T/ov/overlay.json 2>&1)
  fi
  if [ "$(echo "$OUT" | grep -c ' quick: ')" != 20 ]; then echo "$kind $id ERROR (checker did not complete: $(echo "$OUT" | tail -1 | cut -c1-120))"; rm -rf $T; return; fi
  rules=$(echo "$OUT" | grep '\[violated\]\|\[undecided\]' | sed -E 's/^[^[]*\[(violated|undecided)\] (C[0-9]+\.[A-Za-z0-9.]+) .*/\2/' | sort | uniq -c | awk '{printf "%s×%s ", $2, $1}')
  own=$(echo "$OUT" | grep -c "^VIOLATION property=$prop ")
  tot=$(echo "$OUT" | grep -c "^VIOLATION")
  if [ $kind = seeded ]; then
    [ $own -gt 0 ] && v=DETECTED || v=MISSED
  else
    [ $tot -eq 0 ] && v=QUIET || v=FALSE-ALARM
    # false alarms of the checker that are known and recorded as open (DESIGN §6.3) are listed as such
    if [ $v = FALSE-ALARM ] && grep -q '"open_false_alarm": true' $d/meta.json 2>/dev/null; then v=OPEN-FALSE-ALARM; fi
  fi
  echo "$kind $id $v own=$own total=$tot rules: $rules"
  rm -rf $T
}
export -f one
ls -d seeded/C* benign/C* benign/R2-* benign/R3-* benign/R4-* benign/R5-* benign/R6-* benign/R7-* | xargs -P $J -I{} bash -c 'one {}' | sort > tools/regress.out
grep -c DETECTED tools/regress.out | sed 's/^/seeds detected: /'
grep -c QUIET tools/regress.out | sed 's/^/benign quiet: /'
grep 'MISSED\|FALSE-ALARM\|STALE\|ERROR' tools/regress.out
true
